import pyhf, json, sys
spec = json.load(open(sys.argv[1]))
for validate in (False, True):
    try:
        m = pyhf.Model(spec, validate=validate, poi_name=None)
        print("validate=%s ok npars=%s" % (validate, m.config.npars))
    except Exception as e:
        print("validate=%s %s: %s" % (validate, type(e).__name__, str(e)[:100]))
