"""Counting-experiment models with closed-form profile likelihood (C05/C06/C08/C09/C14)."""
import math
import numpy as np
from scipy.stats import norm


def single_bin_spec(s, b):
    return {'channels': [{'name': 'SR', 'samples': [
        {'name': 'signal', 'data': [float(s)], 'modifiers': [{'name': 'mu', 'type': 'normfactor', 'data': None}]},
        {'name': 'bkg', 'data': [float(b)], 'modifiers': []}]}], 'parameters': []}


def multi_bin_spec(ss, bs, nch=1):
    chans = []
    k = 0
    per = max(1, len(ss) // nch)
    for c in range(nch):
        a, e = c * per, (c + 1) * per if c < nch - 1 else len(ss)
        chans.append({'name': f'ch{c}', 'samples': [
            {'name': 'signal', 'data': [float(x) for x in ss[a:e]], 'modifiers': [{'name': 'mu', 'type': 'normfactor', 'data': None}]},
            {'name': 'bkg', 'data': [float(x) for x in bs[a:e]], 'modifiers': []}]})
    return {'channels': chans, 'parameters': []}


def two_nll_1(n, lam):
    """twice NLL of one Poisson bin without the data-only constant"""
    return 2.0 * (lam - (n * math.log(lam) if n > 0 else 0.0))


def muhat_1(n, s, b, lo=0.0, hi=10.0):
    return min(max((n - b) / s, lo), hi)


def q_closed_1(kind, mu, n, s, b, lo=0.0, hi=10.0):
    """closed-form statistic for the single-bin mu-only model with POI bounds [lo, hi]"""
    mh = muhat_1(n, s, b, lo, hi)
    free = two_nll_1(n, mh * s + b)
    if kind == 'q0':
        t = max(0.0, two_nll_1(n, b) - free)
        return 0.0 if mh < 0 else t
    t = max(0.0, two_nll_1(n, mu * s + b) - free)
    if kind in ('q', 'qtilde'):
        return 0.0 if mh > mu else t
    return t


def cls_closed_1(kind, mu, n, s, b, lo=0.0, hi=10.0):
    """(CLsb, CLb, CLs, expected CLs band) for the single-bin model; Asimov data = b (mu_A=0) or s+b (q0)"""
    q = q_closed_1(kind, mu, n, s, b, lo, hi)
    nA = s + b if kind == 'q0' else b
    qA = q_closed_1(kind, mu, nA, s, b, lo, hi)
    sq, sA = math.sqrt(q), math.sqrt(qA)
    if kind in ('q', 'q0') or sq <= sA:
        clsb, clb = norm.cdf(-sq), norm.cdf(-(sq - sA))
    else:
        clsb, clb = norm.cdf(-(q + qA) / (2 * sA)), norm.cdf(-(q - qA) / (2 * sA))
    band = [norm.cdf(-N - sA) / norm.cdf(-N) for N in (2, 1, 0, -1, -2)]
    band_sb = [norm.cdf(-N - sA) for N in (2, 1, 0, -1, -2)]
    return float(clsb), float(clb), float(clsb / clb), [float(x) for x in band], [float(x) for x in band_sb], q, qA


def two_nll_multi(ns, lams):
    return sum(two_nll_1(n, l) for n, l in zip(ns, lams))


def muhat_multi(ns, ss, bs, lo=0.0, hi=10.0):
    """maximum-likelihood signal strength of a multi-bin mu-only model (1-D concave problem, solved by bisection)"""
    def dl(mu):  # derivative of the log-likelihood
        return sum(s * (n / (mu * s + b) - 1.0) for n, s, b in zip(ns, ss, bs))
    a, c = lo, hi
    if dl(a) <= 0: return a
    if dl(c) >= 0: return c
    for _ in range(200):
        m = 0.5 * (a + c)
        if dl(m) > 0: a = m
        else: c = m
    return 0.5 * (a + c)


def q_closed_multi(kind, mu, ns, ss, bs, lo=0.0, hi=10.0):
    mh = muhat_multi(ns, ss, bs, lo, hi)
    free = two_nll_multi(ns, [mh * s + b for s, b in zip(ss, bs)])
    tm = 0.0 if kind == 'q0' else mu
    t = max(0.0, two_nll_multi(ns, [tm * s + b for s, b in zip(ss, bs)]) - free)
    if kind in ('q', 'qtilde') and mh > mu: return 0.0
    if kind == 'q0' and mh < 0: return 0.0
    return t


def cls_closed_multi(kind, mu, ns, ss, bs, lo=0.0, hi=10.0):
    q = q_closed_multi(kind, mu, ns, ss, bs, lo, hi)
    nA = [s + b for s, b in zip(ss, bs)] if kind == 'q0' else list(bs)
    qA = q_closed_multi(kind, mu, nA, ss, bs, lo, hi)
    sq, sA = math.sqrt(q), math.sqrt(qA)
    if kind in ('q', 'q0') or sq <= sA:
        clsb, clb = norm.cdf(-sq), norm.cdf(-(sq - sA))
    else:
        clsb, clb = norm.cdf(-(q + qA) / (2 * sA)), norm.cdf(-(q - qA) / (2 * sA))
    band = [norm.cdf(-N - sA) / norm.cdf(-N) for N in (2, 1, 0, -1, -2)]
    band_sb = [norm.cdf(-N - sA) for N in (2, 1, 0, -1, -2)]
    return float(clsb), float(clb), float(clsb / clb), [float(x) for x in band], [float(x) for x in band_sb], q, qA


# ---- on/off model: SR n ~ Pois(mu s + k b), CR m ~ Pois(k tau b), k a free normalisation (profiled in closed form)
def onoff_spec(s, b, tau, k_fixed=None):
    spec = {'channels': [
        {'name': 'CR', 'samples': [{'name': 'bkg', 'data': [float(tau * b)], 'modifiers': [{'name': 'k_bkg', 'type': 'normfactor', 'data': None}]}]},
        {'name': 'SR', 'samples': [
            {'name': 'signal', 'data': [float(s)], 'modifiers': [{'name': 'mu', 'type': 'normfactor', 'data': None}]},
            {'name': 'bkg', 'data': [float(b)], 'modifiers': [{'name': 'k_bkg', 'type': 'normfactor', 'data': None}]}]}], 'parameters': []}
    if k_fixed is not None: spec['parameters'].append({'name': 'k_bkg', 'fixed': bool(k_fixed), 'inits': [1.0], 'bounds': [[0.0, 10.0]]})
    return spec


def onoff_khat(mu, n, m, s, b, tau):
    """conditional maximum-likelihood normalisation for a given signal strength (positive root of the score equation)"""
    A = (1 + tau) * b * b; B = (1 + tau) * b * mu * s - (n + m) * b; C = -m * mu * s
    return (-B + math.sqrt(B * B - 4 * A * C)) / (2 * A)


def onoff_two_nll(mu, k, n, m, s, b, tau):
    return two_nll_1(n, mu * s + k * b) + two_nll_1(m, k * tau * b)


def onoff_qtilde(mu, n, m, s, b, tau):
    """q-tilde of the on/off model with the normalisation profiled (POI bounds [0, 10]; the free optimum reproduces both counts)"""
    kh = m / (tau * b); mh = (n - kh * b) / s
    if mh < 0: mh = 0.0; kh = onoff_khat(0.0, n, m, s, b, tau)
    if mh > mu: return 0.0
    return max(0.0, onoff_two_nll(mu, onoff_khat(mu, n, m, s, b, tau), n, m, s, b, tau) - onoff_two_nll(mh, kh, n, m, s, b, tau))


def onoff_cls(mu, n, m, s, b, tau):
    """observed CLs, five-point expected band and the Asimov data of the on/off model (q-tilde, Asimov at the background-only conditional fit)"""
    q = onoff_qtilde(mu, n, m, s, b, tau)
    k0 = onoff_khat(0.0, n, m, s, b, tau)
    nA, mA = k0 * b, k0 * tau * b
    qA = onoff_qtilde(mu, nA, mA, s, b, tau)
    sq, sA = math.sqrt(q), math.sqrt(qA)
    if sq <= sA: clsb, clb = norm.cdf(-sq), norm.cdf(-(sq - sA))
    else: clsb, clb = norm.cdf(-(q + qA) / (2 * sA)), norm.cdf(-(q - qA) / (2 * sA))
    band = [float(norm.cdf(-N - sA) / norm.cdf(-N)) for N in (2, 1, 0, -1, -2)]
    return float(clsb / clb), band, [mA, nA]
