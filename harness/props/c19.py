"""C19 — the command line returns what the library returns.

Correspondence: for generated workspaces / patch sets and random option combinations of every subcommand, the library
call the CLI actually makes (recorded by spies on the library entry points: which function, measurement, patches,
test POI, statistic, calculator, set_backend calls, optimiser class and settings, join, merge flag, algorithms,
selections, renamings) vs the Lean `dispatch` of the same options; exit status 2 ⇔ the model says usage error.
Implementation-side oracles: exit status 0 ⇔ the library call, made directly by the harness in a fresh state,
succeeds; the emitted JSON/text carries the library's values (inference: ≤1e-9 relative; everything else exact);
file and standard output identical; input from a file and from standard input identical; a real subprocess
(`python -m pyhf.cli`) prints what the in-process runner prints.
"""
import copy, io, json, math, os, shutil, subprocess, sys, tempfile
from pathlib import Path
import numpy as np
from harness.props.c16 import gen_ws

RULE = ('generated workspaces (2 measurements, 0-2 patches) and patch sets × random option combinations of fit, cls, inspect, prune, rename, '
        'combine, sort, digest, patchset extract/apply/verify/inspect, json2xml, xml2json × file|stdin input × file|stdout output, plus '
        'malformed options; non-trivial = ≥2 non-default options; distinct by argv')
BACKENDS = ['numpy', 'np', 'pytorch', 'torch', 'jax', 'tensorflow', 'tf']


def mk_ws(rng):
    ws = gen_ws(rng, rng.sample(['A', 'B', 'C'], rng.randint(1, 2)))
    for c in ws['channels']:      # keep fits quick and well-posed
        for s in c['samples']:
            s['modifiers'] = [m for m in s['modifiers'] if m['type'] not in ('shapefactor',)]
    if not any(m['name'] == 'mu' for c in ws['channels'] for s in c['samples'] for m in s['modifiers']):
        ws['channels'][0]['samples'][0]['modifiers'].append({'name': 'mu', 'type': 'normfactor', 'data': None})
    ws['measurements'] = [{'name': 'meas', 'config': {'poi': 'mu', 'parameters': [p for p in ws['measurements'][0]['config']['parameters'] if p['name'] == 'lumi']}},
                          {'name': 'tight', 'config': {'poi': 'mu', 'parameters': [p for p in ws['measurements'][0]['config']['parameters'] if p['name'] == 'lumi'] +
                                                       [{'name': 'mu', 'bounds': [[0.0, 4.0]], 'inits': [0.5]}]}}]
    return ws


class Spy:
    """records the library calls a CLI invocation makes"""
    def __init__(self, pyhf):
        self.pyhf = pyhf; self.calls = []; self.undo = []

    def wrap(self, obj, attr, label, rec):
        orig = getattr(obj, attr)
        spy = self
        def wrapper(*a, **k):
            spy.calls.append((label, rec(*a, **k)))
            return orig(*a, **k)
        if isinstance(orig, staticmethod): wrapper = staticmethod(wrapper)
        setattr(obj, attr, wrapper); self.undo.append((obj, attr, orig))

    def install(self):
        pyhf = self.pyhf
        import importlib
        ci = importlib.import_module('pyhf.cli.infer'); cs = importlib.import_module('pyhf.cli.spec'); cp = importlib.import_module('pyhf.cli.patchset')
        import pyhf.readxml, pyhf.writexml
        W = pyhf.Workspace; P = pyhf.PatchSet
        def optstate():
            o = pyhf.optimizer
            return {'class': type(o).__name__, 'maxiter': getattr(o, 'maxiter', None), 'tolerance': getattr(o, 'tolerance', None),
                    'solver_options': getattr(o, 'solver_options', None), 'verbose': getattr(o, 'verbose', None), 'strategy': getattr(o, 'strategy', None),
                    'errordef': getattr(o, 'errordef', None)}
        bstate = lambda: [pyhf.tensorlib.name, pyhf.tensorlib.precision]
        self.wrap(ci, 'set_backend', 'set_backend', lambda b, custom_optimizer=None, precision=None: [b if isinstance(b, str) else b.name, precision, type(custom_optimizer).__name__ if custom_optimizer is not None else None])
        self.wrap(pyhf.infer.mle, 'fit', 'mle.fit', lambda data, pdf, *a, **k: {'kwargs': {kk: vv for kk, vv in k.items()}, 'nargs': len(a), 'backend': bstate(), 'optimizer': optstate(), 'poi': pdf.config.poi_name,
                                                                                 'bounds': [list(map(float, b)) for b in pdf.config.suggested_bounds()], 'interp': None})
        self.wrap(ci, 'hypotest', 'hypotest', lambda poi, data, pdf, *a, **k: {'poi_test': float(poi), 'kwargs': dict(k), 'nargs': len(a), 'backend': bstate(), 'optimizer': optstate(),
                                                                                'bounds': [list(map(float, b)) for b in pdf.config.suggested_bounds()]})
        orig_model = W.model
        spy = self
        def model(self_, *a, **k):
            spy.calls.append(('Workspace.model', {'measurement_name': k.get('measurement_name'), 'patches': copy.deepcopy(k.get('patches', [])), 'modifier_settings': k.get('modifier_settings')}))
            return orig_model(self_, *a, **k)
        W.model = model; self.undo.append((W, 'model', orig_model))
        for nm in ('prune', 'rename'):
            self.wrap(W, nm, nm, lambda self_, **k: {kk: (list(vv) if not isinstance(vv, dict) else dict(vv)) for kk, vv in k.items()})
        orig_combine = W.__dict__['combine']; orig_sorted = W.__dict__['sorted']
        def combine(cls, left, right, join='none', merge_channels=False):
            spy.calls.append(('combine', {'join': join, 'merge_channels': merge_channels})); return orig_combine.__func__(cls, left, right, join=join, merge_channels=merge_channels)
        def sorted_(cls, ws):
            spy.calls.append(('sorted', {})); return orig_sorted.__func__(cls, ws)
        W.combine = classmethod(combine); W.sorted = classmethod(sorted_)
        self.undo.append((W, 'combine', orig_combine)); self.undo.append((W, 'sorted', orig_sorted))
        self.wrap(cs.utils, 'digest', 'digest', lambda obj, algorithm='sha256': algorithm)
        self.wrap(P, '__getitem__', 'patchset.__getitem__', lambda self_, key: key)
        self.wrap(P, 'apply', 'patchset.apply', lambda self_, spec, key: key)
        self.wrap(P, 'verify', 'patchset.verify', lambda self_, spec: None)
        self.wrap(pyhf.readxml, 'parse', 'readxml.parse', lambda cfg, rootdir, **k: {'track_progress': k.get('track_progress'), 'validation_as_error': k.get('validation_as_error'), 'mounts': list(k.get('mounts') or [])})
        self.wrap(pyhf.writexml, 'writexml', 'writexml', lambda spec, specdir, datadir, prefix: {'specroot': Path(specdir).name, 'dataroot': Path(datadir).name, 'resultprefix': prefix, 'spec': copy.deepcopy(spec)})

    def remove(self):
        for obj, attr, orig in reversed(self.undo): setattr(obj, attr, orig)
        self.undo = []


def close(a, b, rel=1e-9):
    if isinstance(a, (list, tuple)): return isinstance(b, (list, tuple)) and len(a) == len(b) and all(close(x, y, rel) for x, y in zip(a, b))
    if isinstance(a, dict): return isinstance(b, dict) and a.keys() == b.keys() and all(close(a[k], b[k], rel) for k in a)
    if isinstance(a, float) or isinstance(b, float):
        return (math.isnan(a) and math.isnan(b)) or abs(a - b) <= rel * (1 + abs(b))
    return a == b


def run(ctx):
    import pyhf, yaml, jsonpatch
    from click.testing import CliRunner
    from pyhf.cli.cli import pyhf as PYHF
    import pyhf.readxml, pyhf.writexml
    rng, lean = ctx.rng, ctx.lean
    tmp = Path(tempfile.mkdtemp(prefix='c19_'))
    runner = CliRunner()
    spy = Spy(pyhf)
    cwd = os.getcwd()
    os.chdir(tmp)
    sub_budget = [ctx.n(3, 40)]
    try:
        def invoke(argv, stdin=None):
            pyhf.set_backend('numpy', 'scipy', precision='64b')      # a fresh process starts like this
            spy.calls = []
            spy.install()
            try:
                res = runner.invoke(PYHF, argv, input=stdin)
            finally:
                spy.remove()
            calls = spy.calls
            pyhf.set_backend('numpy', 'scipy', precision='64b')
            return res, calls

        for it in range(ctx.n(90, 2500)):
            ws = mk_ws(rng); ws2 = mk_ws(rng)
            if rng.random() < 0.2:
                # names outside ASCII (valid JSON strings): what the tool prints must still be what the library computes
                old = ws['channels'][0]['name']; new = old + '_μμ'
                ws['channels'][0]['name'] = new
                for o in ws['observations']:
                    if o['name'] == old: o['name'] = new
                ws['channels'][0]['samples'][-1]['name'] += '_t̄t'
                ctx.tally('non_ascii_names', 1)
            for c, n in zip(ws2['channels'], ['D', 'E']): c['name'] = n
            ws2['observations'] = [{'name': c['name'], 'data': [float(rng.randint(1, 90)) for _ in c['samples'][0]['data']]} for c in ws2['channels']]
            for s_ in ws2['channels'][0]['samples'][:1]: pass
            try:
                pyhf.Workspace(ws).model(); pyhf.Workspace(ws2).model()
            except Exception:
                continue
            (tmp / 'ws.json').write_text(json.dumps(ws)); (tmp / 'ws2.json').write_text(json.dumps(ws2))
            patch_a = [{'op': 'replace', 'path': '/channels/0/samples/0/data', 'value': [x * 1.5 for x in ws['channels'][0]['samples'][0]['data']]}]
            patch_b = [{'op': 'replace', 'path': '/observations/0/data', 'value': [x + 3.0 for x in ws['observations'][0]['data']]}]
            (tmp / 'pa.json').write_text(json.dumps(patch_a)); (tmp / 'pb.json').write_text(json.dumps(patch_b))
            pset = {'metadata': {'references': {'hepdata': 'ins1234567'}, 'description': 'generated', 'digests': {'sha256': pyhf.utils.digest(ws)}, 'labels': ['m1']},
                    'patches': [{'metadata': {'name': 'pa', 'values': [1.0]}, 'patch': patch_a}, {'metadata': {'name': 'pb', 'values': [2.0]}, 'patch': patch_b}], 'version': '1.0.0'}
            # per-patch annotations (the schema allows extra keys), some of them carrying the name of a patch-set-level key
            for pt in pset['patches']:
                for k, v in (('note', 'patch-level note'), ('description', 'patch-level description'), ('references', {'inspire': 'patch-level'}), ('labels', ['patch-level'])):
                    if rng.random() < 0.3: pt['metadata'][k] = v
            (tmp / 'ps.json').write_text(json.dumps(pset))
            main_cmd = rng.choice(['fit', 'fit', 'fit', 'fit', 'cls', 'cls', 'cls', 'cls', 'inspect', 'prune', 'rename', 'combine', 'sort', 'digest', 'patchset extract', 'patchset apply',
                                   'patchset verify', 'patchset inspect', 'json2xml', 'xml2json'])
            # the structural subcommands cost milliseconds: three more of them on the same files
            CHEAP = ['inspect', 'prune', 'rename', 'combine', 'sort', 'digest', 'patchset extract', 'patchset extract', 'patchset apply', 'patchset verify', 'patchset inspect']
            for cmd in [main_cmd] + [rng.choice(CHEAP) for _ in range(3)]:
                use_stdin = rng.random() < 0.25 and cmd not in ('combine', 'patchset apply', 'patchset verify', 'xml2json')
                to_file = rng.random() < 0.4 and cmd not in ('digest', 'patchset verify', 'patchset inspect', 'json2xml')
                argv = cmd.split(); margs = {'cmd': cmd}; nondefault = 0
                mods = sorted({(m['name'], m['type']) for c in ws['channels'] for s in c['samples'] for m in s['modifiers']})
                smp = sorted({s['name'] for c in ws['channels'] for s in c['samples']}); chn = [c['name'] for c in ws['channels']]
                main_in = 'ps.json' if cmd in ('patchset extract', 'patchset inspect') else 'ws.json'
                stdin = None
                def add_input():
                    nonlocal stdin
                    if use_stdin: argv.append('-'); stdin = (tmp / main_in).read_text()
                    else: argv.append(main_in)
                lib = None      # the direct library computation (a thunk returning the python value that should be emitted)
                if cmd in ('fit', 'cls'):
                    add_input()
                    meas = rng.choice([None, None, 'meas', 'tight', 'nope' if rng.random() < 0.3 else 'tight'])
                    patches = rng.choice([[], [], ['pa.json'], ['pa.json', 'pb.json'], ['pb.json', 'pa.json']])
                    backend = rng.choice(BACKENDS[:4] * 3 + BACKENDS) if (ctx.thorough or it % 3 == 0) else rng.choice(['numpy', 'np', 'numpy', 'pytorch', 'torch'])
                    if rng.random() < 0.04: backend = 'cupy'
                    optimizer = rng.choice(['scipy', 'scipy', 'minuit']) if rng.random() > 0.03 else 'ipopt'
                    optconf = rng.choice([[], [], ['maxiter=2000'], ['tolerance=0.001'], ['maxiter=1000', 'maxiter=3000'], ['maxiter=2000', 'verbose=0'], ['maxiter'],
                                          # a repeated key whose two values give observably different results (which one took effect shows in the output / exit status)
                                          ['maxiter=1', 'maxiter=100000'], ['maxiter=100000', 'maxiter=1'], ['tolerance=0.5', 'tolerance=0.0000001'],
                                          # settings whose value is zero are settings too (no iterations allowed: the library refuses to call that a fit)
                                          ['maxiter=0'], ['maxiter=0', 'verbose=0']])
                    if optimizer == 'minuit' and rng.random() < 0.5: optconf = optconf + [rng.choice(['strategy=1', 'strategy=0', 'strategy=0', 'strategy=2'])]
                    if meas: argv += ['--measurement', meas]; nondefault += 1
                    for p in patches: argv += ['-p', p]
                    if backend != 'numpy': argv += ['--backend', backend]; nondefault += 1
                    if optimizer != 'scipy': argv += ['--optimizer', optimizer]; nondefault += 1
                    for o in optconf: argv += ['--optconf', o]
                    nondefault += bool(patches) + bool(optconf)
                    margs.update({'measurement': meas, 'patches': patches, 'backend': backend, 'optimizer': optimizer, 'optconf': optconf})
                    if cmd == 'fit':
                        value = rng.random() < 0.5
                        if value: argv.append('--value'); nondefault += 1
                        margs['value'] = value
                    else:
                        poi = rng.choice(['1.0', '1.0', '2', '0.5', '3.25']); ts = rng.choice(['qtilde', 'qtilde', 'q', 'q0' if rng.random() < 0.1 else 'q'])
                        ct = rng.choice(['asymptotics'] * 6 + ['toys'])
                        if poi != '1.0': argv += ['--test-poi', poi]; nondefault += 1
                        if ts != 'qtilde': argv += ['--test-stat', ts]; nondefault += 1
                        if ct != 'asymptotics': argv += ['--calctype', ct]
                        margs.update({'test_poi': poi, 'test_stat': ts, 'calctype': ct})
                    def lib(margs=margs, cmd=cmd):
                        name = {'np': 'numpy', 'torch': 'pytorch', 'tf': 'tensorflow'}.get(margs['backend'], margs['backend'])
                        conf = {}
                        for o in margs['optconf']: conf.update(yaml.safe_load(f"{o.split('=', 1)[0]}: {o.split('=', 1)[1]}"))
                        w = pyhf.Workspace(json.loads((tmp / 'ws.json').read_text()))
                        pts = [json.loads((tmp / p).read_text()) for p in margs['patches']]
                        if cmd == 'cls':
                            model = w.model(measurement_name=margs['measurement'], patches=pts, modifier_settings={'normsys': {'interpcode': 'code4'}, 'histosys': {'interpcode': 'code4p'}})
                        pyhf.set_backend(name, getattr(pyhf.optimize, margs['optimizer'] + '_optimizer')(**conf), precision='64b')
                        tl = pyhf.tensorlib
                        if cmd == 'fit':
                            model = w.model(measurement_name=margs['measurement'], patches=pts)
                            r = pyhf.infer.mle.fit(w.data(model), model, return_fitted_val=margs['value'])
                            pars = r[0] if margs['value'] else r
                            out = {'mle_parameters': {k: tl.tolist(pars[v['slice']]) for k, v in model.config.par_map.items()}}
                            if margs['value']: out['twice_nll'] = tl.tolist(r[1])
                            return out
                        r = pyhf.infer.hypotest(float(margs['test_poi']), w.data(model), model, test_stat=margs['test_stat'], calctype=margs['calctype'], return_expected_set=True)
                        return {'CLs_obs': tl.tolist(r[0]), 'CLs_exp': [tl.tolist(x) for x in r[-1]]}
                elif cmd == 'inspect':
                    add_input(); meas = rng.choice([None, 'meas', 'tight', 'nope'])
                    if meas: argv += ['--measurement', meas]; nondefault += 1
                    margs['measurement'] = meas
                elif cmd == 'prune':
                    add_input()
                    pick = lambda xs, k=1: rng.sample(xs, min(len(xs), rng.randint(0, k)))
                    sel = {'channels': pick(chn) if len(chn) > 1 else [], 'samples': pick([x for x in smp if len(smp) > 1][:1]), 'modifiers': pick([n for n, t in mods if n != 'mu'], 2),
                           'modifier_types': pick(sorted({t for n, t in mods if t != 'normfactor'})), 'measurements': pick(['tight'])}
                    if rng.random() < 0.15: sel['channels'] = sel['channels'] + ['nope']
                    for k, fl_ in (('channels', '-c'), ('samples', '-s'), ('modifiers', '-m'), ('modifier_types', '-t'), ('measurements', '--measurement')):
                        for v in sel[k]: argv += [fl_, v]
                    nondefault = sum(1 for v in sel.values() if v)
                    margs.update(sel)
                    lib = lambda sel=sel: dict(pyhf.Workspace(json.loads((tmp / 'ws.json').read_text())).prune(**sel))
                elif cmd == 'rename':
                    add_input()
                    ren = {'channels': [[chn[0], 'X_' + chn[0]]] if rng.random() < 0.5 else [], 'samples': [[smp[0], 'X_' + smp[0]]] if rng.random() < 0.5 else [],
                           'modifiers': [[n, 'X_' + n] for n, t in mods[:rng.randint(0, 2)]], 'measurements': [['meas', 'first']] if rng.random() < 0.4 else []}
                    if ren['channels'] and rng.random() < 0.4: ren['channels'].append([chn[0], 'Y_' + chn[0]])      # the same key twice: last one wins
                    if rng.random() < 0.1: ren['samples'] = ren['samples'] + [['nope', 'x']]
                    for k, fl_ in (('channels', '-c'), ('samples', '-s'), ('modifiers', '-m'), ('measurements', '--measurement')):
                        for a, b in ren[k]: argv += [fl_, a, b]
                    nondefault = sum(1 for v in ren.values() if v)
                    margs.update(ren)
                    lib = lambda ren=ren: dict(pyhf.Workspace(json.loads((tmp / 'ws.json').read_text())).rename(**{k: dict(v) for k, v in ren.items()}))
                elif cmd == 'combine':
                    argv += ['ws.json', 'ws2.json']
                    join = rng.choice(['none', 'outer', 'left outer', 'right outer', 'inner' if rng.random() < 0.1 else 'outer']); merge = rng.random() < 0.3
                    other = 'ws2.json' if rng.random() < 0.7 else 'ws.json'; argv[-1] = other
                    if join != 'none': argv += ['-j', join]; nondefault += 1
                    if merge: argv += ['--merge-channels']; nondefault += 1
                    margs.update({'join': join, 'merge': merge})
                    lib = lambda join=join, merge=merge, other=other: dict(pyhf.Workspace.combine(pyhf.Workspace(json.loads((tmp / 'ws.json').read_text())), pyhf.Workspace(json.loads((tmp / other).read_text())), join=join, merge_channels=merge))
                elif cmd == 'sort':
                    add_input(); lib = lambda: dict(pyhf.Workspace.sorted(pyhf.Workspace(json.loads((tmp / 'ws.json').read_text()))))
                elif cmd == 'digest':
                    add_input(); algs = rng.choice([[], ['md5'], ['sha256', 'md5'], ['md5', 'sha256', 'md5'], ['sha512'], ['nope']]); js = rng.random() < 0.5
                    for a in algs: argv += ['-a', a]
                    if js: argv.append('-j')
                    nondefault = bool(algs) + js
                    margs.update({'algorithms': algs or ['sha256'], 'json': js})
                elif cmd == 'patchset extract':
                    add_input(); name = rng.choice(['pa', 'pb', 'nope', None]); wm = rng.random() < 0.5
                    if name: argv += ['--name', name]
                    if wm: argv.append('--with-metadata')
                    nondefault = bool(name) + wm
                    margs.update({'name': name, 'with_metadata': wm})
                    def lib(name=name, wm=wm):
                        ps = pyhf.PatchSet(json.loads((tmp / 'ps.json').read_text())); p = ps[name]
                        if not wm: return p.patch
                        r = {'metadata': dict(p.metadata), 'patch': p.patch}; r['metadata'].update(ps.metadata); return r
                elif cmd in ('patchset apply', 'patchset verify'):
                    bkg = rng.choice(['ws.json', 'ws.json', 'ws2.json']); argv += [bkg, 'ps.json']; name = rng.choice(['pa', 'pb', 'nope'])
                    if cmd == 'patchset apply': argv += ['--name', name]; margs['name'] = name
                    nondefault = 1
                    if cmd == 'patchset apply':
                        lib = lambda bkg=bkg, name=name: dict(pyhf.PatchSet(json.loads((tmp / 'ps.json').read_text())).apply(pyhf.Workspace(json.loads((tmp / bkg).read_text())), name))
                    else:
                        lib = lambda bkg=bkg: pyhf.PatchSet(json.loads((tmp / 'ps.json').read_text())).verify(pyhf.Workspace(json.loads((tmp / bkg).read_text())))
                elif cmd == 'patchset inspect':
                    add_input()
                elif cmd in ('json2xml', 'xml2json'):
                    out = tmp / 'xml'; shutil.rmtree(out, ignore_errors=True); out.mkdir()
                    sr, dr, rp = rng.choice([('config', 'data', 'FitConfig'), ('cfg', 'hists', 'Top')]); patches = rng.choice([[], ['pa.json']])
                    jargv = ['json2xml', 'ws.json', '--output-dir', str(out)] + (['--specroot', sr, '--dataroot', dr, '--resultprefix', rp] if sr != 'config' else [])
                    for p in patches: jargv += ['-p', p]
                    if cmd == 'json2xml':
                        argv = jargv; nondefault = (sr != 'config') + bool(patches)
                        margs.update({'specroot': sr, 'dataroot': dr, 'resultprefix': rp, 'patches': patches})
                    else:
                        r0, _ = invoke(jargv)
                        if r0.exit_code != 0: continue
                        tp = rng.random() < 0.5; ve = rng.random() < 0.5
                        argv = ['xml2json', str(out / f'{rp}.xml'), '--basedir', str(tmp)] + ([] if tp else ['--hide-progress']) + ([] if ve else ['--validation-as-warning'])
                        nondefault = (not tp) + (not ve)
                        margs.update({'track_progress': tp, 'validation_as_error': ve})
                        lib = lambda rp=rp, out=out: pyhf.readxml.parse(str(out / f'{rp}.xml'), str(tmp))
                outfile = tmp / 'out.json'
                if outfile.exists(): outfile.unlink()
                if to_file: argv += ['--output-file', str(outfile)]
                res, calls = invoke(argv, stdin)
                ctx.count(); ctx.tally('subcommand', cmd); ctx.tally('exit', res.exit_code); ctx.tally('input', 'stdin' if use_stdin else 'file'); ctx.tally('output', 'file' if to_file else 'stdout')
                inp = {'argv': argv, 'workspace': ws, 'stdin': use_stdin}
                rep = lean.ok(dict(margs, op='cli'))
                mcall = rep['call']
                # ---------------- correspondence: the call the options determine
                if (mcall['call'] == 'usage-error') != (res.exit_code == 2):
                    ctx.disagree('cli.usage-error', inp, mcall['call'], res.exit_code)
                elif mcall['call'] != 'usage-error':
                    got = normalise_calls(cmd, calls, yaml)
                    want = expected_from_model(mcall, yaml, tmp)
                    for k in want:
                        if k in got and got[k] != want[k]:
                            ctx.disagree(f'cli.dispatch.{cmd}.{k}', inp, want[k], got[k])
                        elif k not in got and res.exit_code == 0:
                            ctx.disagree(f'cli.dispatch.{cmd}.{k}', inp, want[k], None, 'the library entry point was not reached')
                # ---------------- oracles
                text = res.stdout
                if res.exit_code == 0 and to_file:
                    if not outfile.exists():
                        ctx.fail('C19/output-file', 'no output file was written', inp); continue
                    ftext = outfile.read_text()
                    r2, _ = invoke([a for a in argv if a not in ('--output-file', str(outfile))], stdin)
                    if cmd == 'inspect':
                        pass
                    elif r2.exit_code != 0 or not same_json(r2.stdout, ftext, cmd):
                        ctx.fail('C19/file-vs-stdout', 'output to a file and to standard output differ', inp, ftext[:300], r2.output[:300])
                    text = ftext if cmd != 'inspect' else text
                if lib is not None and mcall['call'] != 'usage-error':
                    try:
                        pyhf.set_backend('numpy', 'scipy', precision='64b'); want = lib(); lerr = None
                    except Exception as e:  # noqa
                        want = None; lerr = type(e).__name__
                    finally:
                        pyhf.set_backend('numpy', 'scipy', precision='64b')
                    if (lerr is None) != (res.exit_code == 0):
                        ctx.fail('C19/exit-status', 'exit status does not say whether the library call succeeds', inp, [res.exit_code, type(res.exception).__name__ if res.exception else None], lerr or 'success')
                    elif lerr is None and cmd != 'patchset verify':
                        try:
                            got = json.loads(text)
                        except Exception:
                            ctx.fail('C19/not-json', 'the emitted text is not JSON', inp, text[:300]); got = None
                        if got is not None and cmd == 'patchset extract' and margs.get('with_metadata') and isinstance(got, dict) and 'metadata' in got:
                            # the model's dictionary update (theorems extract_metadata_*) on the same two metadata objects
                            dmp = lambda d: [[k, json.dumps(v, sort_keys=True)] for k, v in d.items()]
                            pm = next(pt['metadata'] for pt in pset['patches'] if pt['metadata']['name'] == margs['name'])
                            mm = dict(lean.ok({'op': 'cli_extract_meta', 'patch_meta': dmp(pm), 'set_meta': dmp(pset['metadata'])}))
                            gm = {k: json.dumps(v, sort_keys=True) for k, v in got['metadata'].items()}
                            ctx.tally('extract_meta_clash', len(set(pm) & set(pset['metadata'])))
                            if gm != mm: ctx.disagree('cli.extract.metadata', inp, mm, gm)
                        if got is not None and not close(got, json.loads(json.dumps(want))):
                            ctx.fail('C19/values', 'the emitted JSON does not carry the values the library returns', inp, got, want)
                        if got is not None and rep['keys'] and sorted(got) != rep['keys']:
                            ctx.disagree('cli.result-keys', inp, rep['keys'], sorted(got))
                    elif lerr is None and text.strip() != 'All good.':
                        ctx.fail('C19/verify-text', 'patchset verify did not report success', inp, text[:100])
                if cmd == 'digest' and res.exit_code == 0:
                    algs = list(dict.fromkeys(margs['algorithms'])); dig = {a: pyhf.utils.digest(pyhf.Workspace(ws), algorithm=a) for a in algs}
                    if margs['json']:
                        if json.loads(text) != dig: ctx.fail('C19/values', 'digest JSON differs from utils.digest', inp, text, dig)
                    else:
                        wanttext = lean.ok({'op': 'cli_digest', 'algs': margs['algorithms'], 'digests': [[a, dig[a]] for a in algs]})
                        if text != wanttext + '\n': ctx.disagree('cli.digest.plaintext', inp, wanttext, text)
                if cmd == 'digest' and (res.exit_code == 0) != all(hasattr(__import__('hashlib'), a) for a in margs['algorithms']):
                    ctx.fail('C19/exit-status', 'digest exit status does not reflect whether the algorithms exist', inp, res.exit_code)
                if cmd == 'inspect':
                    ok_meas = margs['measurement'] in (None, 'meas', 'tight')
                    if (res.exit_code == 0) != ok_meas:
                        ctx.fail('C19/exit-status', 'inspect exit status does not reflect whether the measurement exists', inp, res.exit_code)
                    elif res.exit_code == 0:
                        # the summary must be the library's: recomputed here from the raw document (by name) and the model configuration
                        wsd = json.loads((tmp / 'ws.json').read_text())
                        pairs = sorted({(m_['name'], m_['type']) for c_ in wsd['channels'] for s_ in c_['samples'] for m_ in s_['modifiers']})
                        mdl = pyhf.Workspace(wsd).model(measurement_name=margs['measurement'])
                        constr = lambda n_: ('unconstrained' if not mdl.config.param_set(n_).constrained else 'constrained_by_' + mdl.config.param_set(n_).pdf_type)
                        want_sys = sorted([n_, constr(n_), sorted(t_ for nn_, t_ in pairs if nn_ == n_)] for n_ in mdl.config.par_order)
                        if to_file and outfile.exists():
                            gotj = json.loads(outfile.read_text())
                            got_sys = sorted([e_[0], e_[1], sorted(e_[2])] for e_ in gotj.get('systematics', []))
                            ctx.tally('inspect_shared_names', sum(1 for e_ in want_sys if len(e_[2]) > 1))
                            if got_sys != want_sys:
                                ctx.fail('C19/values', 'pyhf inspect reports other modifier types / constraints per parameter than the workspace declares', inp, got_sys, want_sys)
                            if sorted(map(list, gotj.get('channels', []))) != sorted([c_['name'], len(c_['samples'][0]['data'])] for c_ in wsd['channels']) or \
                               sorted(gotj.get('samples', [])) != sorted({s_['name'] for c_ in wsd['channels'] for s_ in c_['samples']}):
                                ctx.fail('C19/values', 'pyhf inspect reports other channels / samples than the workspace declares', inp, gotj.get('channels'), None)
                        else:
                            # text table: every declared type of every parameter appears on the parameter's line
                            for n_, c_, ts_ in want_sys:
                                ln_ = [l for l in res.output.splitlines() if l.split()[:1] == [n_] and c_ in l]
                                if not ln_ or any(t_ not in ln_[0] for t_ in ts_):
                                    ctx.fail('C19/values', 'pyhf inspect (text) does not list every modifier type of a parameter', inp, ln_, [n_, c_, ts_]); break
                        star = [ln for ln in res.output.splitlines() if ln.strip().startswith('(*)')]
                        wantm = margs['measurement'] or 'meas'
                        if len(star) != 1 or star[0].split()[1] != wantm:
                            ctx.fail('C19/inspect-measurement', 'inspect does not describe the requested measurement', inp, star, wantm)
                if cmd == 'patchset inspect' and res.exit_code == 0:
                    if [ln for ln in res.output.splitlines() if ln in ('pa', 'pb')] != ['pa', 'pb'] or '2 patches found' not in res.output:
                        ctx.fail('C19/values', 'patchset inspect does not list the patches', inp, res.output[:200])
                if cmd == 'json2xml' and res.exit_code == 0:
                    top = tmp / 'xml' / f"{margs['resultprefix']}.xml"
                    if not top.exists() or not (tmp / 'xml' / margs['dataroot'] / 'data.root').exists():
                        ctx.fail('C19/json2xml-files', 'json2xml did not write the files its options name', inp)
                    else:
                        back = pyhf.readxml.parse(str(top), str(tmp))
                        base = json.loads((tmp / 'ws.json').read_text())
                        for p in margs['patches']: base = jsonpatch.JsonPatch(json.loads((tmp / p).read_text())).apply(base)
                        if [[s['data'] for s in c['samples']] for c in back['channels']] != [[[float(x) for x in s['data']] for s in c['samples']] for c in base['channels']]:
                            ctx.fail('C19/values', 'json2xml did not export the (patched) workspace', inp)
                # stdin vs file
                if use_stdin and res.exit_code == 0 and cmd not in ('inspect',):
                    argv_f = [main_in if a == '-' else a for a in argv]
                    r3, _ = invoke(argv_f)
                    tf = outfile.read_text() if to_file else r3.stdout
                    if r3.exit_code != 0 or not same_json(tf, text, cmd):
                        ctx.fail('C19/stdin-vs-file', 'input from standard input and from a file give different output', inp, text[:200], tf[:200])
                # a real process
                if sub_budget[0] > 0 and res.exit_code == 0 and not to_file and cmd in ('fit', 'cls', 'digest', 'sort', 'prune') and margs.get('backend', 'numpy') in ('numpy', 'np'):
                    sub_budget[0] -= 1
                    p = subprocess.run([sys.executable, '-W', 'ignore', '-c', 'from pyhf.cli.cli import pyhf; pyhf()'] + argv, input=stdin, capture_output=True, text=True, cwd=tmp, env=dict(os.environ))
                    ctx.count(); ctx.tally('subprocess', cmd)
                    if p.returncode != 0 or not same_json(p.stdout, res.stdout, cmd):
                        ctx.fail('C19/subprocess', 'a real process prints something else than the in-process runner', inp, [p.returncode, p.stdout[:300], p.stderr[-300:]], res.output[:300])
                if nondefault >= 2: ctx.nontrivial(json.dumps(argv))
                if it < 2: ctx.sample({'argv': argv, 'exit': res.exit_code, 'model_call': mcall})
        # ---------------- directed: `cls` on data with a deficit (observed statistic above the Asimov one), where q and q-tilde give different
        # p-values for the same fits, and on an excess; default POI bounds and bounds reaching below zero; stdout and --output-file
        for obs_ in ([38.0], [61.0]):
            dws = {'channels': [{'name': 'SR', 'samples': [
                {'name': 'signal', 'data': [10.0], 'modifiers': [{'name': 'mu', 'type': 'normfactor', 'data': None}]},
                {'name': 'bkg', 'data': [50.0], 'modifiers': [{'name': 'sys', 'type': 'normsys', 'data': {'lo': 0.9, 'hi': 1.1}}]}]}],
                'observations': [{'name': 'SR', 'data': obs_}], 'version': '1.0.0',
                'measurements': [{'name': 'bounded', 'config': {'poi': 'mu', 'parameters': []}},
                                 {'name': 'wide', 'config': {'poi': 'mu', 'parameters': [{'name': 'mu', 'bounds': [[-5.0, 10.0]], 'inits': [1.0]}]}}]}
            (tmp / 'dws.json').write_text(json.dumps(dws))
            for meas_ in ('bounded', 'wide'):
                for ts_ in ('q', 'qtilde'):
                    for tofile_ in (False, True):
                        argv = ['cls', 'dws.json', '--measurement', meas_, '--test-stat', ts_] + (['--output-file', 'dout.json'] if tofile_ else [])
                        res, _ = invoke(argv)
                        ctx.count(); ctx.tally('directed_cls', f'{meas_}/{ts_}/{"deficit" if obs_[0] < 50 else "excess"}')
                        inp = {'argv': argv, 'workspace': dws}
                        if res.exit_code != 0:
                            ctx.fail('C19/exit-status', 'cls failed on a one-bin counting workspace', inp, [res.exit_code, str(res.exception)[:200]], 0); continue
                        got = json.loads((tmp / 'dout.json').read_text() if tofile_ else res.stdout)
                        w_ = pyhf.Workspace(dws); mdl_ = w_.model(measurement_name=meas_, modifier_settings={'normsys': {'interpcode': 'code4'}, 'histosys': {'interpcode': 'code4p'}})
                        r_ = pyhf.infer.hypotest(1.0, w_.data(mdl_), mdl_, test_stat=ts_, return_expected_set=True)
                        want = {'CLs_obs': float(r_[0]), 'CLs_exp': [float(x) for x in r_[-1]]}
                        if not close(got, want, 1e-7):
                            ctx.fail('C19/values', 'the emitted JSON does not carry the values the library returns', inp, got, want)
    finally:
        os.chdir(cwd)
        spy.remove()
        shutil.rmtree(tmp, ignore_errors=True)
        pyhf.set_backend('numpy', 'scipy', precision='64b')
        pyhf.readxml.clear_filecache()


def same_json(a, b, cmd):
    if cmd in ('digest', 'inspect', 'patchset inspect', 'patchset verify'):
        return a.strip() == b.strip()
    try:
        return close(json.loads(a), json.loads(b))
    except Exception:
        return a.strip() == b.strip()


def expected_from_model(m, yaml, tmp):
    """the model's library call, rendered in the vocabulary of the spies"""
    c = m['call']; w = {}
    if c in ('mle.fit', 'hypotest'):
        w['measurement'] = m['measurement']; w['patches'] = [json.loads((tmp / p).read_text()) for p in m['patches']]
        w['backend'] = [m['backend'], '64b']
        w['set_backend_first'] = None if m['backend'] == 'numpy' else [m['backend'], m['precision']]
        w['optimizer_class'] = m['optimizer'] + '_optimizer'
        conf = {'maxiter': 100000, 'verbose': 0, 'tolerance': None if m['optimizer'] == 'scipy' else 0.1, 'strategy': None}
        for k, v in m['optconf']: conf[k] = yaml.safe_load(v)
        w['optconf'] = conf
        if c == 'mle.fit': w['return_fitted_val'] = m['return_fitted_val']
        else:
            w['test_poi'] = float(m['test_poi']); w['test_stat'] = m['test_stat']; w['calctype'] = m['calctype']; w['return_expected_set'] = True
            w['modifier_settings'] = {'normsys': {'interpcode': m['normsys']}, 'histosys': {'interpcode': m['histosys']}}
    elif c == 'inspect': w['measurement'] = m['measurement']
    elif c == 'prune': w['prune'] = {k: m[k] for k in ('channels', 'samples', 'modifiers', 'modifier_types', 'measurements')}
    elif c == 'rename': w['rename'] = {k: dict(m[k]) for k in ('channels', 'samples', 'modifiers', 'measurements')}
    elif c == 'combine': w['combine'] = {'join': m['join'], 'merge_channels': m['merge']}
    elif c == 'digest': w['digest'] = m['algorithms']
    elif c == 'sorted': w['sorted'] = True
    elif c == 'patchset.__getitem__': w['getitem'] = m['name']
    elif c == 'patchset.apply': w['apply'] = m['name']
    elif c == 'patchset.verify': w['verify'] = True
    elif c == 'readxml.parse': w['parse'] = {'track_progress': m['track_progress'], 'validation_as_error': m['validation_as_error']}
    elif c == 'writexml': w['writexml'] = {'specroot': m['specroot'], 'dataroot': m['dataroot'], 'resultprefix': m['resultprefix']}
    return w


def normalise_calls(cmd, calls, yaml):
    g = {}
    sb = [c for l, c in calls if l == 'set_backend']
    for label, c in calls:
        if label == 'Workspace.model' and 'measurement' not in g:
            g['measurement'] = c['measurement_name']; g['patches'] = c['patches']
            if cmd == 'cls': g['modifier_settings'] = c['modifier_settings']
        if label in ('mle.fit', 'hypotest'):
            g['backend'] = c['backend']
            g['optimizer_class'] = c['optimizer']['class']
            first = [s for s in sb if s[2] is None]
            g['set_backend_first'] = first[0][:2] if first else None
            # optimiser settings that differ from that class's defaults = what --optconf set
            g['optconf_state'] = c['optimizer']
            if label == 'mle.fit':
                g['return_fitted_val'] = c['kwargs'].get('return_fitted_val', False)
            else:
                g['test_poi'] = c['poi_test']; g['test_stat'] = c['kwargs'].get('test_stat'); g['calctype'] = c['kwargs'].get('calctype')
                g['return_expected_set'] = c['kwargs'].get('return_expected_set')
        if label == 'prune': g['prune'] = {k: list(c.get(k, [])) for k in ('channels', 'samples', 'modifiers', 'modifier_types', 'measurements')}
        if label == 'rename': g['rename'] = {k: dict(c.get(k, {})) for k in ('channels', 'samples', 'modifiers', 'measurements')}
        if label == 'combine': g['combine'] = c
        if label == 'digest': g.setdefault('digest', []).append(c)
        if label == 'sorted': g['sorted'] = True
        if label == 'patchset.__getitem__' and 'getitem' not in g and cmd == 'patchset extract': g['getitem'] = c
        if label == 'patchset.apply': g['apply'] = c
        if label == 'patchset.verify' and cmd == 'patchset verify': g['verify'] = True
        if label == 'readxml.parse': g['parse'] = {'track_progress': c['track_progress'], 'validation_as_error': c['validation_as_error']}
        if label == 'writexml': g['writexml'] = {k: c[k] for k in ('specroot', 'dataroot', 'resultprefix')}
    if cmd == 'inspect':
        ms = [c for l, c in calls if l == 'Workspace.model']
        if ms: g['measurement'] = ms[0]['measurement_name']
    if 'optconf_state' in g:
        st = g.pop('optconf_state')
        g['optconf'] = {k: st.get(k) for k in ('maxiter', 'verbose', 'tolerance', 'strategy')}
    return g
