"""C15 — inference is invariant under likelihood-preserving rewrites and configurations.

Correspondence: for random compositions of rewrites (permute lists; rename channels / samples / modifiers; add a zero-yield
sample; add a null systematic; split a channel's bins into channels; merge two samples with identical modifiers (performed as
its inverse, split-sample: the generated model is the merged one); scale the
signal by k) the rewritten specification is evaluated by the Lean declarative model D and by pyhf at mapped parameter
points — log-densities agree (this ties the neutral-element theorems of C15 to the code); the rewrites themselves are
performed in Python.
Monitor (optimiser-dependent): fit objective, hypotest CLs (observed + expected band) and upper limit of original vs
rewritten model within fit tolerance, across backends (64b) and optimisers run to tight tolerance.
"""
import copy, json, math
import numpy as np
from harness import gen_spec, enga
from harness.core import fl, unfl
from harness.props.c02 import decode, terms_sum

RULE = ('random sensitive models (nuisance parameters of several modifier types) × datasets × random compositions of 1-3 rewrites; '
        'non-trivial = composition of ≥2 rewrites; distinct by (spec, rewrites) hash')


def base_spec(rng):
    """a sensitive 1-2 channel model without bin-wise modifiers shared in ways that forbid splitting"""
    for _ in range(50):
        spec, info = gen_spec.gen_spec(rng, max_channels=2, max_samples=3, max_bins=3)
        # well-posed at every tested signal strength incl. mu = 0: every bin keeps a background yield
        bkg_ok = all(sum(s['data'][b] for s in c['samples'] if not any(m['name'] == 'mu' for m in s['modifiers'])) >= 1.0
                     for c in spec['channels'] for b in range(len(c['samples'][0]['data'])))
        if bkg_ok and not any(m['type'] == 'shapefactor' for c in spec['channels'] for s in c['samples'] for m in s['modifiers']):
            # make the signal sizeable
            for c in spec['channels']:
                for s in c['samples']:
                    if s['name'] == 'signal':
                        # a raised bin takes its variation templates and bin-wise uncertainties along (same relative size): raising the
                        # nominal alone would leave both templates of a shape systematic far below it — a bimodal likelihood, not well-posed
                        for b, x in enumerate(s['data']):
                            if x >= 20.0: continue
                            f = 20.0 / x if x > 0 else None
                            s['data'][b] = 20.0
                            for m in s['modifiers']:
                                if m['type'] == 'histosys':
                                    for key in ('lo_data', 'hi_data'): m['data'][key][b] = round(m['data'][key][b] * f, 3) if f else 20.0
                                elif m['type'] in ('staterror', 'shapesys'):
                                    m['data'][b] = round(m['data'][b] * f, 3) if f else 2.0
            return spec, info
    return spec, info


def rw_permute(rng, spec):
    s = copy.deepcopy(spec)
    rng.shuffle(s['channels']); rng.shuffle(s['parameters'])
    for c in s['channels']:
        rng.shuffle(c['samples'])
        for sm in c['samples']: rng.shuffle(sm['modifiers'])
    return s, {}, 1.0


def rw_rename(rng, spec):
    s = copy.deepcopy(spec)
    ren_c = {c['name']: 'z_' + c['name'] for c in s['channels'][:1]}
    names = sorted({m['name'] for c in s['channels'] for sm in c['samples'] for m in sm['modifiers'] if m['name'] not in ('mu', 'lumi')})
    ren_m = {n: 'r_' + n for n in names[:2]}
    ren_s = {sm['name']: 'zz_' + sm['name'] for c in s['channels'] for sm in c['samples'] if sm['name'] == 'bkg1'}
    for c in s['channels']:
        c['name'] = ren_c.get(c['name'], c['name'])
        for sm in c['samples']:
            sm['name'] = ren_s.get(sm['name'], sm['name'])
            for m in sm['modifiers']: m['name'] = ren_m.get(m['name'], m['name'])
    for p in s['parameters']: p['name'] = ren_m.get(p['name'], p['name'])
    return s, ren_m, 1.0


def rw_zero_sample(rng, spec):
    s = copy.deepcopy(spec)
    c = rng.choice(s['channels'])
    c['samples'].append({'name': 'ghost', 'data': [0.0] * len(c['samples'][0]['data']), 'modifiers': []})
    return s, {}, 1.0


def rw_null_systematic(rng, spec):
    s = copy.deepcopy(spec)
    c = rng.choice(s['channels']); sm = rng.choice(c['samples'])
    # a third of the time the null systematic carries the name of an existing systematic of the *other* interpolated type (one parameter,
    # one constraint term — already there): still no effect on anything, and the live modifier of that name must stay live
    have = {(m['name'], m['type']) for cc in s['channels'] for x in cc['samples'] for m in x['modifiers'] if m['type'] in ('normsys', 'histosys')}
    mine = {m['name'] for m in sm['modifiers']}
    cand = [(n, t) for n, t in sorted(have) if n not in mine and (n, 'normsys' if t == 'histosys' else 'histosys') not in have]
    if cand and rng.random() < 0.34:
        n, t = rng.choice(cand)
        if t == 'normsys': sm['modifiers'].append({'name': n, 'type': 'histosys', 'data': {'lo_data': list(sm['data']), 'hi_data': list(sm['data'])}})
        else: sm['modifiers'].append({'name': n, 'type': 'normsys', 'data': {'lo': 1.0, 'hi': 1.0}})
        return s, {}, 1.0
    if rng.random() < 0.5:
        sm['modifiers'].append({'name': 'nullsys', 'type': 'histosys', 'data': {'lo_data': list(sm['data']), 'hi_data': list(sm['data'])}})
    else:
        sm['modifiers'].append({'name': 'nullsys', 'type': 'normsys', 'data': {'lo': 1.0, 'hi': 1.0}})
    return s, {}, 1.0


def rw_split_channel(rng, spec):
    s = copy.deepcopy(spec)
    cand = [c for c in s['channels'] if len(c['samples'][0]['data']) >= 2 and not any(m['type'] in ('shapesys', 'staterror') for sm in c['samples'] for m in sm['modifiers'])]
    if not cand: return s, {}, 1.0
    c = rng.choice(cand); nb = len(c['samples'][0]['data']); k = rng.randint(1, nb - 1)
    def part(ch, a, b, name):
        out = {'name': name, 'samples': []}
        for sm in ch['samples']:
            n = {'name': sm['name'], 'data': sm['data'][a:b], 'modifiers': []}
            for m in sm['modifiers']:
                mm = copy.deepcopy(m)
                if m['type'] == 'histosys':
                    mm['data'] = {'lo_data': m['data']['lo_data'][a:b], 'hi_data': m['data']['hi_data'][a:b]}
                n['modifiers'].append(mm)
            out['samples'].append(n)
        return out
    s['channels'].remove(c)
    s['channels'] += [part(c, 0, k, c['name'] + '_a'), part(c, k, nb, c['name'] + '_b')]
    return s, {'__split__': (c['name'], k)}, 1.0


def rw_rename_sample_local(rng, spec):
    """a sample renamed in ONE channel only (samples tie nothing across channels — parameters are shared through modifier names — so the
    likelihood is unchanged; what does change is which yields a per-sample-name bookkeeping would lump together)"""
    s = copy.deepcopy(spec)
    c = rng.choice(s['channels'])
    cand = [sm for sm in c['samples'] if sm['name'] != 'signal']
    if not cand: return s, {}, 1.0
    sm = rng.choice(cand)
    sm['name'] = 'loc_' + sm['name']
    return s, {}, 1.0


def rw_scale_signal(rng, spec):
    """every sample carrying the POI is scaled by k (its variations too); mu -> mu / k"""
    s = copy.deepcopy(spec); k = rng.choice([0.5, 2.0, 4.0])
    for c in s['channels']:
        for sm in c['samples']:
            if any(m['name'] == 'mu' for m in sm['modifiers']):
                if any(m['type'] in ('staterror', 'shapesys') for m in sm['modifiers']): return copy.deepcopy(spec), {}, 1.0
                sm['data'] = [x * k for x in sm['data']]
                for m in sm['modifiers']:
                    if m['type'] == 'histosys':
                        m['data'] = {'lo_data': [x * k for x in m['data']['lo_data']], 'hi_data': [x * k for x in m['data']['hi_data']]}
    return s, {}, k


def rw_split_sample(rng, spec):
    """the inverse of "merge two samples that carry identical modifiers": one sample becomes two with the same modifier list;
    yields and additive variations are divided bin by bin (fractions may be 0 or 1: an empty bin in one half), MC-statistical
    uncertainties in quadrature; multiplicative modifiers are copied"""
    s = copy.deepcopy(spec)
    cand = [(c, sm) for c in s['channels'] for sm in c['samples'] if not any(m['type'] == 'shapesys' for m in sm['modifiers']) and not sm['name'].endswith('_h2')]
    if not cand: return s, {}, 1.0
    c, sm = rng.choice(cand)
    fr = [rng.choice([0.0, 0.25, 0.5, 0.5, 1.0]) for _ in sm['data']]
    phi = [rng.uniform(0.2, 1.3) for _ in sm['data']]
    a = {'name': sm['name'], 'data': [f * x for f, x in zip(fr, sm['data'])], 'modifiers': []}
    b = {'name': sm['name'] + '_h2', 'data': [x - f * x for f, x in zip(fr, sm['data'])], 'modifiers': []}
    for m in sm['modifiers']:
        ma, mb = copy.deepcopy(m), copy.deepcopy(m)
        if m['type'] == 'histosys':
            for key in ('lo_data', 'hi_data'):
                ma['data'][key] = [f * x for f, x in zip(fr, m['data'][key])]
                mb['data'][key] = [x - f * x for f, x in zip(fr, m['data'][key])]
        elif m['type'] == 'staterror':
            ma['data'] = [u * math.cos(t) for u, t in zip(m['data'], phi)]
            mb['data'] = [u * math.sin(t) for u, t in zip(m['data'], phi)]
        a['modifiers'].append(ma); b['modifiers'].append(mb)
    c['samples'][c['samples'].index(sm)] = a
    c['samples'].append(b)
    return s, {}, 1.0


def distinct_local_minima(pyhf, spec, data, mu, rng, extra=(), nstarts=10):
    """Well-posedness diagnosis, run only when an inference comparison disagrees.  The property quantifies over *well-posed* models; a
    likelihood with several local optima is not one (two correct optimisers may legitimately stop in different ones, and then produce
    different Asimov data sets).  For each fit `hypotest(mu)` performs — on the observations: POI fixed at 0, free, POI fixed at `mu`; on
    the Asimov data of the best background-only point: free, POI fixed at `mu` — the numpy objective is minimised by scipy (tolerance
    1e-10) from the default start, `nstarts` random starts and the `extra` points (fitted points of the disagreeing configurations).
    Returns a description of the first fit that has two distinct converged optima (parameter distance > 0.05), else None.  The
    backend / optimiser used here is fixed (numpy / scipy), so a broken configuration cannot make its own disagreement look benign."""
    saved = pyhf.get_backend()
    pyhf.set_backend('numpy', pyhf.optimize.scipy_optimizer(tolerance=1e-10))
    try:
        m = pyhf.Model(spec, poi_name='mu')
        init = list(m.config.suggested_init()); bounds = list(m.config.suggested_bounds()); fixed = list(m.config.suggested_fixed()); poi = m.config.poi_index
        rs = np.random.RandomState(rng.randrange(2**31))

        def starts():
            out = [list(init)]
            for _ in range(nstarts):
                q = []
                for x, (lo, hi), fx in zip(init, bounds, fixed):
                    if fx: q.append(x)
                    elif lo < 0: q.append(float(np.clip(rs.uniform(-2.0, 2.0), lo, hi)))
                    else: q.append(float(np.clip(x * rs.uniform(0.7, 1.3), lo + 1e-9, hi - 1e-9)))
                out.append(q)
            return out + [list(map(float, e)) for e in extra if len(e) == len(init)]

        def optima(dataset, poival):
            found = []
            for st in starts():
                st = list(st)
                try:
                    if poival is None: pt, val = pyhf.infer.mle.fit(dataset, m, init_pars=st, return_fitted_val=True)
                    else:
                        st[poi] = poival
                        pt, val = pyhf.infer.mle.fixed_poi_fit(poival, dataset, m, init_pars=st, return_fitted_val=True)
                except Exception:  # noqa   (a failed start is no optimum)
                    continue
                pt = np.asarray(pt, dtype=float); val = float(val)
                if not math.isfinite(val): continue
                if not any(np.max(np.abs(pt - q)) <= 0.05 for q, _ in found): found.append((pt, val))
            return sorted(found, key=lambda t: t[1])
        obs = list(data)
        o1 = optima(obs, 0.0)
        if len(o1) >= 2: return {'fit': 'observations, POI fixed at 0', 'optima': [[float(v), [round(float(x), 4) for x in q]] for q, v in o1[:3]]}
        for label, poival in (('observations, free', None), (f'observations, POI fixed at {mu}', mu)):
            o = optima(obs, poival)
            if len(o) >= 2: return {'fit': label, 'optima': [[float(v), [round(float(x), 4) for x in q]] for q, v in o[:3]]}
        if o1:
            asimov = [float(x) for x in np.asarray(m.expected_data(o1[0][0]))]
            for label, poival in (('Asimov data, free', None), (f'Asimov data, POI fixed at {mu}', mu)):
                o = optima(asimov, poival)
                if len(o) >= 2: return {'fit': label, 'optima': [[float(v), [round(float(x), 4) for x in q]] for q, v in o[:3]]}
        return None
    finally:
        pyhf.set_backend(*saved)


def fitted_points(pyhf, m, data, mu):
    """the points the current configuration's fits stop at (extra starting points for the diagnosis above)"""
    pts = []
    try:
        b = pyhf.infer.mle.fixed_poi_fit(0.0, data, m); pts.append(b)
        pts.append(pyhf.infer.mle.fit(data, m)); pts.append(pyhf.infer.mle.fixed_poi_fit(mu, data, m))
        asimov = m.expected_data(b)
        pts.append(pyhf.infer.mle.fit(asimov, m)); pts.append(pyhf.infer.mle.fixed_poi_fit(mu, asimov, m))
    except Exception:  # noqa
        pass
    return [[float(x) for x in np.asarray(pyhf.tensorlib.tolist(q), dtype=float)] for q in pts]


REWRITES = {'split-sample': rw_split_sample, 'permute': rw_permute, 'rename': rw_rename, 'zero-sample': rw_zero_sample, 'null-systematic': rw_null_systematic,
            'split-channel': rw_split_channel, 'scale-signal': rw_scale_signal, 'rename-sample-in-one-channel': rw_rename_sample_local}


def map_point(m0, m1, p0, ren, k):
    """the parameter point of the rewritten model corresponding to p0 of the original (by name; mu/k; new parameters at their centre)"""
    p1 = list(m1.config.suggested_init())
    inv = {v: kk for kk, v in ren.items() if not kk.startswith('__')}
    for n in m1.config.par_order:
        src = inv.get(n, n)
        sl1 = m1.config.par_slice(n)
        if src in m0.config.par_order:
            sl0 = m0.config.par_slice(src)
            if sl0.stop - sl0.start == sl1.stop - sl1.start:
                p1[sl1] = p0[sl0]
        if src == 'nullsys': p1[sl1.start] = 0.0
    p1[m1.config.poi_index] = p0[m0.config.poi_index] / k
    return p1


def data_for(m0, m1, d0, ren, split):
    """observations re-laid out for the rewritten model (channels renamed / split) + its auxdata"""
    obs = {c: list(d0[m0.config.channel_slices[c]]) for c in m0.config.channels}
    out = []
    for c in m1.config.channels:
        base = c[2:] if c.startswith('z_') and c[2:] in obs else c
        if base in obs: out += obs[base]
        else:
            root, part = c[:-2], c[-1]
            root = root[2:] if root.startswith('z_') and root[2:] in obs else root
            k = split[root]
            out += obs[root][:k] if part == 'a' else obs[root][k:]
    return out


def run(ctx):
    import pyhf, logging
    logging.getLogger('pyhf').setLevel(logging.CRITICAL)
    rng, lean = ctx.rng, ctx.lean
    pyhf.set_backend('numpy', pyhf.optimize.scipy_optimizer(tolerance=1e-10))
    for i in range(ctx.n(45, 1500)):
        spec, info = base_spec(rng)
        names = rng.sample(list(REWRITES), rng.randint(1, 3))
        s1 = spec; ren = {}; k = 1.0; split = {}
        for nm in names:
            s1, r, kk = REWRITES[nm](rng, s1)
            if '__split__' in r:
                cn, kpos = r.pop('__split__'); split[cn] = kpos
            ren.update(r); k *= kk
        try:
            m0 = pyhf.Model(spec, poi_name='mu'); m1 = pyhf.Model(s1, poi_name='mu')
        except Exception as e:  # noqa
            ctx.fail('C15/rewrite-rejected', f'a rewritten specification was rejected ({type(e).__name__})', {'spec': spec, 'rewrites': names, 'rewritten': s1}, str(e)[:200]); continue
        init = m0.config.suggested_init(); bounds = m0.config.suggested_bounds()
        p0 = gen_spec.gen_pars(rng, init, bounds, m0.config.par_names)
        for _t in range(20):
            if float(np.min(np.asarray(m0.expected_actualdata(np.asarray(p0))))) > 0.5: break
            p0 = gen_spec.gen_pars(rng, init, bounds, m0.config.par_names)
        else: p0 = init
        exp0 = np.asarray(m0.expected_actualdata(np.asarray(init)))
        main0 = [float(x) for x in np.random.RandomState(rng.randrange(2**31)).poisson(exp0)]
        d0 = main0 + list(m0.config.auxdata)
        try:
            p1 = map_point(m0, m1, p0, ren, k)
            d1 = data_for(m0, m1, d0, ren, split) + list(m1.config.auxdata)
        except Exception:
            continue
        l0 = float(m0.logpdf(np.asarray(p0), np.asarray(d0))[0]); l1 = float(m1.logpdf(np.asarray(p1), np.asarray(d1))[0])
        # constant: the null systematic's own constraint term at its centre (aux 0, alpha 0, sigma 1)
        const = sum(-0.5 * math.log(2 * math.pi) for n in m1.config.par_order if n in ('nullsys', 'r_nullsys'))
        inp = {'spec': spec, 'rewrites': names, 'rewritten': s1, 'pars': p0, 'data': d0}
        ctx.count()
        ctx.tally('rewrites', '+'.join(sorted(names)))
        if math.isfinite(l0) and not abs(l1 - (l0 + const)) <= 1e-8 * (1 + abs(l0)):
            ctx.fail('C15/logpdf', 'log-density changes under a likelihood-preserving rewrite (beyond the constant of added constraint terms)', inp, l1, l0 + const)
        # model D on the rewritten spec (ties the C15 neutral-element theorems)
        merr, res = enga.model_call(lean, s1, enga.settings(), [{'q': 'template_terms', 'pars': fl(p1), 'data': fl(d1)}])
        if merr is None:
            sD, mag = terms_sum(decode(res[0]))
            if math.isfinite(l1) and not abs(sD - l1) <= 1e-9 * (mag + 1):
                ctx.disagree('rewritten.template-D', inp, sD, l1)
        else:
            ctx.disagree('rewritten.build', inp, merr, None)
        # ---- monitored inference (optimiser-dependent)
        if i % 3 == 0:
            try:
                f0 = float(pyhf.infer.mle.fit(d0, m0, return_fitted_val=True)[1]); f1 = float(pyhf.infer.mle.fit(d1, m1, return_fitted_val=True)[1])
                if abs((f1 + 2 * const) - f0) > 1e-4 * (1 + abs(f0)):
                    why = distinct_local_minima(pyhf, spec, d0, 1.0, rng) or distinct_local_minima(pyhf, s1, d1, 1.0 / k, rng)
                    if why is not None: ctx.tally('not_well_posed_skipped', 'fit: ' + why['fit'])
                    else: ctx.fail('C15/fit', 'maximised likelihood changes under a likelihood-preserving rewrite', inp, f1 + 2 * const, f0)
                mu = rng.choice([0.5, 1.0, 2.0])
                c0 = pyhf.infer.hypotest(mu, d0, m0, return_expected_set=True); c1 = pyhf.infer.hypotest(mu / k, d1, m1, return_expected_set=True)
                a0 = [float(c0[0])] + [float(x) for x in c0[1]]; a1 = [float(c1[0])] + [float(x) for x in c1[1]]
                if any(abs(x - y) > 2e-4 + 2e-3 * abs(x) for x, y in zip(a0, a1)):
                    why = distinct_local_minima(pyhf, spec, d0, mu, rng) or distinct_local_minima(pyhf, s1, d1, mu / k, rng)
                    if why is not None: ctx.tally('not_well_posed_skipped', 'cls: ' + why['fit'])
                    else: ctx.fail('C15/cls', 'CLs (observed or expected) changes under a likelihood-preserving rewrite', dict(inp, mu=mu), a1, a0)
            except Exception as e:  # noqa
                ctx.tally('inference_exception', type(e).__name__)
        if len(names) >= 2: ctx.nontrivial(json.dumps([spec, names], sort_keys=True))
        if i < 2: ctx.sample({'rewrites': names, 'logpdf_original': l0, 'logpdf_rewritten': l1, 'constant': const})
    # ---- backends and optimisers agree (64b)
    for j in range(ctx.n(10, 60)):
        spec, info = base_spec(rng)
        vals = {}
        fluct = np.random.RandomState(rng.randrange(2**31)); obs = None      # fluctuated observations pull the nuisance parameters to either sign
        for bk, opt in [('numpy', 'scipy'), ('numpy', 'minuit')] + ([('pytorch', 'scipy')] if (j < 2 or ctx.thorough) else []) + ([('jax', 'scipy'), ('tensorflow', 'scipy')] if ctx.thorough else []):
            pyhf.set_backend(bk, pyhf.optimize.scipy_optimizer(tolerance=1e-10) if opt == 'scipy' else pyhf.optimize.minuit_optimizer(tolerance=1e-4))
            m = pyhf.Model(spec, poi_name='mu')
            exp0 = np.asarray(pyhf.tensorlib.tolist(m.expected_data(pyhf.tensorlib.astensor(np.asarray(m.config.suggested_init())))), dtype=float)
            if obs is None:
                # observations = the model's own expectation at a point whose interpolation parameters sit at +-0.8 (pulls them to either
                # sign while the problem stays well-conditioned; Poisson-fluctuated data with empty bins make flat directions)
                psh = [(fluct.choice([-0.8, 0.8]) if (lo < 0 and j % 2) else x) for x, (lo, hi) in zip(m.config.suggested_init(), m.config.suggested_bounds())]
                obs = [float(x) for x in np.round(np.asarray(pyhf.tensorlib.tolist(m.expected_actualdata(pyhf.tensorlib.astensor(np.asarray(psh)))), dtype=float))]
            try:
                vals[(bk, opt)] = float(np.asarray(pyhf.tensorlib.tolist(pyhf.infer.hypotest(1.0, obs + list(m.config.auxdata), m))))
            except Exception as e:  # noqa
                ctx.tally('inference_exception', type(e).__name__)
        ctx.count()
        if vals:
            ref = list(vals.values())[0]
            for kx, v in vals.items():
                # non-convex likelihoods have flat directions and local optima on which SLSQP and MIGRAD legitimately stop at slightly different
                # points (observed on the unchanged tree: 0.14 %, 0.2 % and 0.65 % of CLs on boundary / flat-direction fits); only a gross disagreement is reported here — tight
                # optimality is C05's subject (KKT certificate on the convex family)
                if abs(v - ref) > 2e-2 * abs(ref) + 1e-3:
                    full = obs + list(pyhf.Model(spec, poi_name='mu').config.auxdata)
                    extra = []
                    for cfg in (list(vals)[0], kx):
                        pyhf.set_backend(cfg[0], pyhf.optimize.scipy_optimizer(tolerance=1e-10) if cfg[1] == 'scipy' else pyhf.optimize.minuit_optimizer(tolerance=1e-4))
                        extra += fitted_points(pyhf, pyhf.Model(spec, poi_name='mu'), pyhf.tensorlib.astensor(np.asarray(full)), 1.0)
                    why = distinct_local_minima(pyhf, spec, full, 1.0, rng, extra)
                    if why is not None:
                        ctx.tally('not_well_posed_skipped', 'backend-optimiser: ' + why['fit']); continue
                    ctx.fail('C15/backend-optimiser', 'CLs differs between backends / optimisers beyond tolerance', {'spec': spec, 'config': list(kx), 'data': obs + list(pyhf.Model(spec, poi_name='mu').config.auxdata), 'all': {'/'.join(k): x for k, x in vals.items()}}, v, ref)
    pyhf.set_backend('numpy', 'scipy')
