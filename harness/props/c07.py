"""C07 — asymptotic p-values follow the formulae of arXiv:1007.1727.

Correspondence: AsymptoticCalculator.teststatistic / distributions / pvalues / expected_pvalues with the two
test-statistic evaluations stubbed to inject arbitrary (q, q_A), on every backend, vs the Lean model
(`asymTeststat`, `asymDistributions`, `AsymDist.pvalueArg/expectedValue`): the model returns the *arguments*
of the normal cdf, the harness applies scipy.stats.norm.cdf.
Implementation-side oracle: the published formulae evaluated directly, ordering, band monotonicity, clipped rules.
"""
import math
import numpy as np
from scipy.stats import norm
from harness.core import f2b, b2f, close

RULE = ('(q, q_A) pairs: q=0, tiny/large q_A, q=q_A and float neighbours, the q>q_A region up to z≈37, random; × {q, qtilde, q0} × '
        '{normal, clipped_normal} × backends; non-trivial = q>0 and q≠q_A; distinct by (ts, base, q, q_A)')
BACKENDS = [('numpy', '64b'), ('jax', '64b'), ('pytorch', '64b'), ('tensorflow', '64b')]


def gen_pairs(rng, n):
    out = []
    for _ in range(n):
        r = rng.random()
        qA = 10 ** rng.uniform(-6, 2.8) if r < 0.85 else rng.choice([1e-12, 1.0, 4.0, 25.0, 1150.0])
        qA = min(qA, 1150.0)   # keep −2−√q_A above −37: all expected tails representable
        r2 = rng.random()
        if r2 < 0.1: q = 0.0
        elif r2 < 0.2: q = qA
        elif r2 < 0.3: q = math.nextafter(qA, rng.choice([0.0, math.inf]))
        elif r2 < 0.6: q = qA * rng.uniform(0, 1)
        elif r2 < 0.9: q = qA * rng.uniform(1, 6)
        else: q = rng.uniform(0, 1300)
        # keep all tails representable (|z| below ~37)
        z = max(math.sqrt(q), (q + qA) / (2 * math.sqrt(qA)))
        if z > 36.5:
            q = min(q, 1200.0); qA = max(qA, q / 4)
            if max(math.sqrt(q), (q + qA) / (2 * math.sqrt(qA))) > 36.5: continue
        out.append((q, qA))
    return out


def run(ctx):
    import pyhf
    import pyhf.infer.calculators as calcmod
    import pyhf.infer.utils as utilsmod
    rng, lean = ctx.rng, ctx.lean
    pairs = gen_pairs(rng, ctx.n(1500, 60000))
    orig_get, orig_gen = utilsmod.get_test_stat, calcmod.generate_asimov_data
    maxd = {}
    try:
        for (bk, prec) in BACKENDS:
            pyhf.set_backend(bk, precision=prec)
            tl = pyhf.tensorlib
            sub = pairs if bk == 'numpy' else pairs[: max(150, len(pairs) // 10)]
            for (q, qA) in sub:
                ts = rng.choice(['q', 'qtilde', 'q0']); base = rng.choice(['normal', 'clipped_normal'])
                seq = [q, qA]
                def fake_get(name):
                    def f(poi, data, pdf, init, bounds, fixed, return_fitted_pars=False):
                        v = tl.astensor(np.asarray(seq.pop(0), dtype=np.float64))
                        return (v, (None, None)) if return_fitted_pars else v
                    return f
                utilsmod.get_test_stat = fake_get
                calcmod.generate_asimov_data = lambda *a, **k: ([0.0], None)
                calc = calcmod.AsymptoticCalculator([1.0], None, [1.0], [(0.0, 10.0)], [False], test_stat=ts, calc_base_dist=base)
                t = calc.teststatistic(1.0)
                sb, b = calc.distributions(1.0)
                clsb, clb, cls = calc.pvalues(t, sb, b)
                esb, eb, es = calc.expected_pvalues(sb, b)
                tofl = lambda x: float(np.asarray(tl.tolist(x)))
                t_i = tofl(t); p_i = [tofl(clsb), tofl(clb), tofl(cls)]
                exp_i = [[tofl(x) for x in row] for row in (esb, eb, es)]
                ets_i = [tofl(b.expected_value(N)) for N in [2, 1, 0, -1, -2]]       # what the implementation's background distribution expects
                rep = lean.ok({'op': 'asym', 'ts': ts, 'clipped': base == 'clipped_normal', 'q': f2b(q), 'qA': f2b(qA)})
                ctx.count()
                ctx.tally('case', f"{ts}/{base}/{'q=0' if q == 0 else 'q<=qA' if q <= qA else 'q>qA'}")
                inp = {'ts': ts, 'base': base, 'q': q, 'qA': qA, 'backend': [bk, prec]}
                phi = lambda a: float('nan') if a is None else float(norm.cdf(b2f(a)))
                t_m = b2f(rep['teststat'])
                m_sb, m_b = phi(rep['clsb_arg']), phi(rep['clb_arg'])
                rt = 1e-9
                # the statistic is a difference of square roots (or of q and q_A): a last-place difference between the libraries' sqrt is an
                # absolute error of a few ulps of the operands, not of the (cancelling) result
                sq, sqa = math.sqrt(max(q, 0.0)), math.sqrt(max(qA, 0.0))
                t_atol = 8 * 2.3e-16 * (sq + sqa + ((q + qA) / (2 * sqa) if sqa > 0 else 0.0)) * (1.0 if prec == '64b' else 5e8)
                if not close(t_i, t_m, 1e-12 if prec == '64b' else 1e-5, max(t_atol, 1e-300)): ctx.disagree('teststat', inp, t_m, t_i)
                for nm, a, bb in (('CLsb', p_i[0], m_sb), ('CLb', p_i[1], m_b), ('CLs', p_i[2], m_sb / m_b if m_b == m_b and m_b != 0 else float('nan'))):
                    if not close(a, bb, rt, 1e-300):
                        ctx.disagree(f'pvalue.{nm}', inp, bb, a)
                    elif bb == bb and bb != 0:
                        maxd[bk] = max(maxd.get(bk, 0), abs(a - bb) / abs(bb))
                ets = [b2f(x) for x in rep['expected_ts']]
                for k in range(5):
                    a_sb, a_b = rep['expected_args'][k]
                    m = [phi(a_sb), phi(a_b)]
                    m.append(m[0] / m[1])
                    for j, nm in enumerate(('CLsb', 'CLb', 'CLs')):
                        if not close(exp_i[j][k], m[j], rt, 1e-300):
                            ctx.disagree(f'expected.{nm}[{k}]', inp, m[j], exp_i[j][k])
                # ---------------- oracle: the published formulae, straight from the property text (numpy only)
                if bk == 'numpy':
                    sq, sA = math.sqrt(q), math.sqrt(qA)
                    if ts in ('q', 'q0') or q <= qA:
                        w_sb, w_b = norm.cdf(-sq), norm.cdf(-(sq - sA))
                    else:
                        w_sb, w_b = norm.cdf(-(q + qA) / (2 * sA)), norm.cdf(-(q - qA) / (2 * sA))
                    # near the seam the two branches agree; allow the float-neighbour cases the looser of the two
                    for nm, got, want in (('CLsb', p_i[0], w_sb), ('CLb', p_i[1], w_b), ('CLs', p_i[2], w_sb / w_b)):
                        if not close(got, want, 1e-7, 1e-300):
                            ctx.fail(f'C07/formula-{nm}', f'{nm} differs from the published asymptotic formula', inp, got, float(want))
                    if not (0 <= p_i[0] <= p_i[1] * (1 + 1e-12) and p_i[1] <= 1 and 0 <= p_i[2] <= 1 + 1e-12):
                        ctx.fail('C07/ordering', 'violates 0 <= CLsb <= CLb <= 1, 0 <= CLs <= 1', inp, p_i)
                    band = exp_i[2]
                    for N, got in zip([2, 1, 0, -1, -2], band):
                        want = norm.cdf(-N - sA) / norm.cdf(-N)
                        if base == 'normal' or -sA < N:
                            if not close(got, want, 1e-9, 0):
                                ctx.fail('C07/expected-formula', 'expected CLs differs from Phi(-N-sqrt(qA))/Phi(-N)', dict(inp, N=N), got, float(want))
                        elif -sA > N:
                            # clipped base, band point below the cutoff: the expected statistic is the cutoff (q = 0), for every statistic:
                            # CLsb = Phi(0) = 1/2, CLb = Phi(sqrt(qA))
                            want = 0.5 / norm.cdf(sA)
                            if not close(got, want, 1e-9, 0):
                                ctx.fail('C07/expected-formula-clipped', 'expected CLs of a clipped band point differs from (1/2)/Phi(sqrt(qA))', dict(inp, N=N), got, float(want))
                    if any(band[k] > band[k + 1] * (1 + 1e-12) for k in range(4)):
                        ctx.fail('C07/band-monotone', 'five-point expected band is not non-decreasing from -2 to +2 sigma', inp, band)
                    if base == 'clipped_normal':
                        if any(e < -sA * (1 + 1e-12) for e in ets_i):
                            ctx.fail('C07/clipped-negative-q', 'an expected value corresponds to a negative test statistic', inp, ets_i, -sA)
                    if q > 0 and q != qA:
                        ctx.nontrivial((ts, base, q, qA))
            ctx.sample({'backend': bk, 'example': {'ts': ts, 'base': base, 'q': q, 'qA': qA, 'CLsb,CLb,CLs': p_i, 'expected_CLs': exp_i[2]}})
    finally:
        utilsmod.get_test_stat, calcmod.generate_asimov_data = orig_get, orig_gen
        pyhf.set_backend('numpy', precision='64b')
    ctx.notes['max_rel_discrepancy_pvalues'] = maxd
