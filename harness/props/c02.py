"""C02 — the log-likelihood is exactly the HistFactory template.

Correspondence: pyhf.Model.logpdf / mainlogpdf / constraint_logpdf / pdf / expected_auxdata / config.auxdata(_order)
vs the Lean model: term decomposition of the code path (`logpdfTerms`) and of the template (`D.template`);
the two log-density primitives are applied by the harness (scipy) to the model's (datum, mean|rate, width) triples.
Implementation-side oracle: constraint terms assembled *by name* from the raw spec (σ of staterror, τ of shapesys,
lumi settings, overrides) with auxiliary data drawn independently of the parameters.
"""
import json, math, copy
import numpy as np
from harness import core, gen_spec, enga
from harness.core import fl, unfl, b2f

RULE = ('random well-formed specs with random admissible measurement overrides (inits/bounds/fixed/auxdata/sigmas/factors) × '
        'parameter points × datasets whose main data are integer or Asimov-like and whose auxiliary data are drawn '
        'independently of the parameters; non-trivial = ≥1 normal and ≥1 poisson constrained parameter set or ≥3 constrained sets; '
        'distinct by (spec, point, data) hash')

BACKENDS = [('numpy', '64b'), ('pytorch', '64b'), ('tensorflow', '64b'), ('numpy', '32b'), ('pytorch', '32b'), ('tensorflow', '32b')]
JAX = [('jax', '64b')]


def kinds_of(model):
    out = {}
    for n, t in model.config.modifiers:
        out.setdefault(n, (model.config.param_set(n).n_parameters, t))
    return out


def gen_data(rng, model, pars):
    exp = np.asarray(model.expected_actualdata(np.asarray(pars)), dtype=float)
    r = rng.random()
    if r < 0.5:
        main = [float(np.random.RandomState(rng.randrange(2**31)).poisson(max(x, 0.0))) for x in exp]
    elif r < 0.8:
        main = [float(x) * rng.uniform(0.7, 1.3) for x in exp]
    else:
        main = [0.0 if rng.random() < 0.3 else float(round(x)) for x in exp]
    aux = []
    for a in model.config.auxdata:
        aux.append(float(a) * rng.uniform(0.8, 1.2) + rng.choice([0.0, 0.0, 0.1, -0.2]))
    aux = [abs(x) if x0 >= 1.0 else x for x, x0 in zip(aux, model.config.auxdata)]
    return main, aux


def reference_constraints(spec, config, pars, aux):
    """one term per constrained component, assembled by name from the raw spec"""
    terms = []
    user = {p['name']: p for p in spec.get('parameters', [])}
    pos = 0
    kinds = {}
    for n, t in config.modifiers:
        kinds.setdefault(n, []).append(t)
    for name in config.auxdata_order:
        sl = config.par_slice(name)
        th = pars[sl]
        ts = kinds[name]
        u = user.get(name, {})
        n = sl.stop - sl.start
        if 'shapesys' in ts:
            tau = None
            for c in spec['channels']:
                for s in c['samples']:
                    for m in s['modifiers']:
                        if m['type'] == 'shapesys' and m['name'] == name:
                            tau = [(nv / uv) ** 2 if (nv > 0 and uv > 0) else 1.0 for nv, uv in zip(s['data'], m['data'])]
            tau = u.get('factors', tau)
            for i in range(n):
                terms.append(('poisson', aux[pos + i], th[i] * tau[i], 1.0))
        elif 'staterror' in ts:
            sig = []
            for cn in config.channels:
                c = [c for c in spec['channels'] if c['name'] == cn][0]
                part = [s for s in c['samples'] if any(m['type'] == 'staterror' and m['name'] == name for m in s['modifiers'])]
                if not part:
                    continue
                nb = len(c['samples'][0]['data'])
                for b in range(nb):
                    tot = sum(s['data'][b] for s in part)
                    q = sum(([m for m in s['modifiers'] if m['type'] == 'staterror' and m['name'] == name][0]['data'][b]) ** 2 for s in part)
                    sg = math.sqrt(q) / tot if tot > 0 else 0.0
                    sig.append(sg if sg != 0 else 1.0)
            sig = u.get('sigmas', sig)
            for i in range(n):
                terms.append(('normal', aux[pos + i], th[i], sig[i]))
        elif 'lumi' in ts:
            terms.append(('normal', aux[pos], th[0], u['sigmas'][0]))
        else:
            terms.append(('normal', aux[pos], th[0], 1.0))
        pos += n
    return terms


def terms_sum(terms):
    tot = 0.0; mag = 0.0
    for k, d, l, s in terms:
        v = enga.lpois(d, l) if k == 'poisson' else enga.lnorm(d, l, s)
        tot += v; mag += abs(v)
    return tot, mag


def decode(terms):
    return [(k, b2f(d), b2f(l), b2f(s)) for k, d, l, s in terms]


def run(ctx):
    import pyhf
    rng, lean = ctx.rng, ctx.lean
    nspec = ctx.n(90, 3000)
    njax = ctx.n(4, 50)
    npts = ctx.n(2, 5)
    maxdisc = 0.0
    done = 0
    while done < nspec + njax:
        jax_pass = done >= nspec
        cases = []
        pyhf.set_backend('numpy', precision='64b')
        hi = (nspec + njax) if jax_pass else min(nspec, done + 100)
        for i in range(done, hi):
            spec0, info = gen_spec.gen_spec(rng, cross_channel_stat=True, zero_stat_unc=True)
            histo = rng.choice(['0', '2', '4p']); norm = rng.choice(['1', '4'])
            err, m0 = enga.impl_model(pyhf, spec0, enga.impl_kwargs(histo, norm))
            if m0 is None:
                ctx.fail('C02/wf-spec-rejected', 'a well-formed generated spec was rejected', {'spec': spec0}, err); continue
            spec = gen_spec.add_overrides(rng, spec0, kinds_of(m0))
            err, m = enga.impl_model(pyhf, spec, enga.impl_kwargs(histo, norm))
            st = enga.settings(histo, norm)
            if m is None:
                merr, _ = enga.model_call(lean, spec, st, [])
                if merr != err:
                    ctx.disagree('build', {'spec': spec}, merr, err)
                ctx.fail('C02/override-rejected', 'admissible overrides were rejected', {'spec': spec}, err); continue
            cfg = enga.impl_config(m)
            pts = []
            for _ in range(npts):
                for _try in range(20):
                    p = gen_spec.gen_pars(rng, cfg['init'], cfg['bounds'], cfg['par_names'])
                    if float(np.min(np.asarray(m.expected_actualdata(np.asarray(p))))) > 1e-3:
                        break
                else:
                    p = cfg['init']
                pts.append(p)
            datas = []
            for p in pts:
                main, aux = gen_data(rng, m, p)
                datas.append(main + aux)
            qs = [{'q': 'config'}]
            for p, d in zip(pts, datas):
                qs += [{'q': 'logpdf_terms', 'pars': fl(p), 'data': fl(d)}, {'q': 'template_terms', 'pars': fl(p), 'data': fl(d)},
                       {'q': 'expected', 'pars': fl(p)}]
            merr, res = enga.model_call(lean, spec, st, qs)
            ctx.count()
            if merr is not None:
                ctx.disagree('build', {'spec': spec}, merr, None); continue
            wf = res[0]['wf']
            if not all(wf.values()):
                ctx.disagree('wf-hypothesis', {'spec': spec}, wf, True, 'generated spec violates a hypothesis of C02_logpdf_eq_template')
            mc = enga.model_config(res[0])
            for k in ('auxdata_order', 'nauxdata', 'par_order', 'par_slices'):
                if mc[k] != cfg[k]:
                    ctx.disagree(f'config.{k}', {'spec': spec}, mc[k], cfg[k])
            if not np.allclose(mc['auxdata'], cfg['auxdata'], rtol=1e-12, atol=0) or len(mc['auxdata']) != len(cfg['auxdata']):
                ctx.disagree('config.auxdata', {'spec': spec}, mc['auxdata'], cfg['auxdata'])
            ptypes = [p['type'] for p in res[0]['paramsets']]
            ctx.tally('n_constrained', len(cfg['auxdata_order']))
            ctx.tally('has_override', any(k in p for p in spec['parameters'] for k in ('auxdata', 'sigmas', 'factors')))
            other = BACKENDS[1 + (i + ctx.seed) % 5]
            bsel = ([BACKENDS[0], other] if not (ctx.thorough and i % 10 == 0) else list(BACKENDS)) if not jax_pass else [BACKENDS[0]] + JAX
            cases.append(dict(spec=spec, st=st, m=m, pts=pts, datas=datas, res=res, bsel=bsel, histo=histo, norm=norm,
                              nt=('normal' in ptypes and 'poisson' in ptypes) or len(cfg['auxdata_order']) >= 3))
            if i < 2:
                ctx.sample({'spec': spec, 'pars': pts[0], 'data': datas[0], 'model_terms(kind,datum,loc,scale)': decode(res[1])[:6]})
        for (bk, prec) in BACKENDS + JAX:
            todo = [c for c in cases if (bk, prec) in c['bsel']]
            if not todo: continue
            pyhf.set_backend(bk, precision=prec)
            for c in todo:
                maxdisc = max(maxdisc, eval_case(ctx, pyhf, c, bk, prec))
        done = hi
        del cases
    pyhf.set_backend('numpy', precision='64b')
    ctx.notes['max_abs_discrepancy_over_term_magnitude_64b'] = maxdisc


def eval_case(ctx, pyhf, c, bk, prec):
    spec, m, st = c['spec'], c['m'], c['st']
    p64 = prec == '64b'
    rt = 1e-10 if p64 else 3e-3
    maxd = 0.0
    nmain = m.config.nmaindata
    # the points of a case are written, one after the other, into ONE parameter buffer that is updated in place (what a caller scanning
    # or sampling parameters does): an evaluation must depend on the buffer's current contents only
    pbuf = np.zeros(len(c['pts'][0]), dtype=np.float64)
    for k, (p, d) in enumerate(zip(c['pts'], c['datas'])):
        ctx.count()
        tl = pyhf.tensorlib
        pbuf[:] = p
        pa = tl.astensor(pbuf); da = tl.astensor(np.asarray(d, dtype=np.float64))
        inp = {'spec': spec, 'pars': p, 'data': d, 'settings': st, 'backend': [bk, prec]}
        try:
            lp = float(np.asarray(tl.tolist(m.logpdf(pa, da))).ravel()[0])
            lm = float(np.asarray(tl.tolist(m.mainlogpdf(da[:nmain], pa))).ravel()[0])
            lc = float(np.asarray(tl.tolist(m.constraint_logpdf(da[nmain:], pa))).ravel()[0]) if m.config.nauxdata else 0.0
            pdf = float(np.asarray(tl.tolist(m.pdf(pa, da))).ravel()[0])
            eaux = np.asarray(tl.tolist(m.expected_auxdata(pa)), dtype=float) if m.config.nauxdata else np.zeros(0)
        except Exception as e:  # noqa
            ctx.fail('C02/eval-exception', f'evaluation raised {type(e).__name__}', inp, str(e)[:200]); continue
        tcode = decode(c['res'][1 + 3 * k]); ttmpl = decode(c['res'][2 + 3 * k]); mexp = c['res'][3 + 3 * k]
        s_code, mag = terms_sum(tcode)
        s_tmpl, _ = terms_sum(ttmpl)
        tol = rt * (mag + 1.0)
        if not math.isfinite(lp) and not math.isfinite(s_code):
            continue
        if not (abs(lp - s_code) <= tol):
            ctx.disagree('logpdf/code-path-terms', inp, s_code, lp)
        elif p64:
            maxd = max(maxd, abs(lp - s_code) / (mag + 1.0))
        if not (abs(lp - s_tmpl) <= tol):
            ctx.disagree('logpdf/template-D', inp, s_tmpl, lp)
        s_main, _ = terms_sum(tcode[:nmain]); s_con, _ = terms_sum(tcode[nmain:])
        if not (abs(lm - s_main) <= tol): ctx.disagree('mainlogpdf', inp, s_main, lm)
        if not (abs(lc - s_con) <= tol): ctx.disagree('constraint_logpdf', inp, s_con, lc)
        maux = np.asarray(unfl(mexp['aux']))
        if eaux.shape != maux.shape or not np.allclose(eaux, maux, rtol=max(rt, 1e-6 if not p64 else 0), atol=1e-12 if p64 else 1e-4):
            ctx.disagree('expected_auxdata', inp, maux.tolist(), eaux.tolist())
        # ---------------- implementation-side oracles
        if bk == 'numpy' and p64 and math.isfinite(lp):
            if not (abs((lm + lc) - lp) <= 1e-9 * (mag + 1)):
                ctx.fail('C02/main-plus-constraint', 'mainlogpdf + constraint_logpdf != logpdf', inp, lm + lc, lp)
            with np.errstate(all='ignore'):
                elp = float(np.exp(lp))
            if math.isfinite(lp) and math.isfinite(elp) and not (abs(pdf - elp) <= 1e-9 * max(abs(pdf), 1e-300)):
                ctx.fail('C02/pdf-exp', 'pdf != exp(logpdf)', inp, pdf, elp)
            # template by name from the raw spec
            ref, _ = enga.reference_expected(pyhf, spec, m.config, np.asarray(p), c['histo'], c['norm'])
            rates = np.concatenate([ref[cn] for cn in m.config.channels])
            terms = [('poisson', d[g], rates[g], 1.0) for g in range(nmain)]
            terms += reference_constraints(spec, m.config, np.asarray(p), d[nmain:])
            s_ref, mag_ref = terms_sum(terms)
            if not (abs(lp - s_ref) <= 1e-9 * (mag_ref + 1)):
                ctx.fail('C02/template', 'logpdf differs from Σ log Poisson(bins) + one constraint term per constrained component (by name)',
                         inp, lp, s_ref, 'pyhf.Model(spec).logpdf(pars, data)')
            # expected_auxdata: θ for normal, θ·τ for poisson, at the positions of the constraint order
            cref = reference_constraints(spec, m.config, np.asarray(p), d[nmain:])
            want = np.asarray([t[2] for t in cref])
            if eaux.shape != want.shape or not np.allclose(eaux, want, rtol=1e-10, atol=1e-12):
                ctx.fail('C02/expected-auxdata', 'expected_auxdata is not (θ | θ·τ) at the configured positions', inp, eaux.tolist(), want.tolist())
            if c['nt']:
                ctx.nontrivial(json.dumps([spec, p, d], sort_keys=True))
    return maxd
