"""C03 — interpolation codes realise their defining piecewise functions for all alpha.

Correspondence: real pyhf interpolators (vectorised on every backend, scalar reference) vs the
Lean model `PyhfModel/Interp.lean` (fast and slow cell functions, cache state machine).
Implementation-side oracles (independent of the model): anchors at 0/±1, one-sided continuity
at every breakpoint, finite-difference C¹/C² seams for codes 4/4p, tail slope/exponent,
fast ≡ slow, call-history vs fresh instance.
"""
import math
import numpy as np
from harness.core import fl, unfl, close

RULE = ('cells (down, nominal, up, alpha) drawn over 8 decades + dyadic-exact triples; alpha from core, both tails, '
        'breakpoints 0/±1/±alpha0 and nextafter neighbours; a cell is non-trivial when down≠nominal≠up and alpha≠0; '
        'distinct = distinct (code, regime, cell) tuples; histories = random call shapes × backend switches')

CODES = ['0', '1', '2', '4', '4p']
ADDITIVE = {'0', '2', '4p'}
PYCODE = {'0': 0, '1': 1, '2': 2, '4': 4, '4p': '4p'}


def regime(code, a, a0=1.0):
    if code in ('0', '1'):
        return 'pos' if a > 0 else ('zero' if a == 0 else 'neg')
    b = a0 if code == '4' else 1.0
    if a > b: return 'above'
    if a == b: return 'at+'
    if a < -b: return 'below'
    if a == -b: return 'at-'
    return 'core' if a != 0 else 'zero'


def gen_alphas(rng, n, a0=1.0):
    out = []
    special = [0.0, 1.0, -1.0, a0, -a0]
    for s in list(special):
        for k in (1, 2, 1000):
            x = s
            for _ in range(k if k < 10 else 1):
                x = math.nextafter(x, math.inf)
            if k == 1000: x = s + 1000 * abs(math.nextafter(s, math.inf) - s)
            special.append(x)
            y = s
            for _ in range(k if k < 10 else 1):
                y = math.nextafter(y, -math.inf)
            if k == 1000: y = s - 1000 * abs(math.nextafter(s, -math.inf) - s)
            special.append(y)
    while len(out) < n:
        r = rng.random()
        if r < 0.3:
            out.append(rng.choice(special))
        elif r < 0.6:
            out.append(rng.uniform(-1, 1))
        elif r < 0.8:
            out.append(rng.choice([-1, 1]) * rng.uniform(1, 5))
        elif r < 0.9:
            out.append(rng.choice([-1, 1]) * rng.uniform(5, 50))
        else:
            out.append(rng.choice([-1, 1]) * rng.choice([0.25, 0.5, 0.75, 1.5, 2.0, 3.0, 0.125]))
    return out


def gen_triple(rng, code):
    r = rng.random()
    if r < 0.25:  # dyadic-exact
        nom = rng.choice([1, 2, 4, 8, 3, 6, 10, 12, 0.5, 0.25])
        up = nom + rng.choice([-2, -1, -0.5, 0.5, 1, 2, 3, 0.25, 0]) if code in ADDITIVE else nom * rng.choice([0.5, 2, 1, 4, 0.25])
        dn = nom + rng.choice([-2, -1, -0.5, 0.5, 1, 2, 0.25, 0]) if code in ADDITIVE else nom * rng.choice([0.5, 2, 1, 4, 0.25])
        if up <= 0: up = nom
        if dn <= 0: dn = nom
        return float(dn), float(nom), float(up)
    nom = 10 ** rng.uniform(-3, 5)
    spread = rng.choice([0.01, 0.1, 0.5, 1.0])
    up = nom * math.exp(rng.uniform(-1, 1) * spread)
    dn = nom * math.exp(rng.uniform(-1, 1) * spread)
    return dn, nom, up


def impl_eval(pyhf, code, cells, fast, a0=1.0):
    """evaluate N independent cells through the real interpolator (one systematic per cell)"""
    tl = pyhf.tensorlib
    hs = [[[[c[0]], [c[1]], [c[2]]]] for c in cells]
    al = [[c[3]] for c in cells]
    cls = pyhf.interpolators.get(PYCODE[code], do_tensorized_calc=fast)
    if code == '4' and a0 != 1.0:
        it = cls(hs, subscribe=False, alpha0=a0)
    else:
        it = cls(hs, subscribe=False)
    out = it(tl.astensor(np.asarray(al, dtype=np.float64)))
    out = np.asarray(tl.tolist(out), dtype=float)
    return out.reshape(len(cells)).tolist()


def model_eval(lean, code, cells, fast, a0=1.0):
    return unfl(lean.ok({'op': 'interp', 'code': code, 'fast': fast, 'a0': fl(a0), 'cells': fl(cells)}))


def tol_for(code, cell, prec64=True):
    dn, nom, up, a = cell
    if code in ADDITIVE:
        scale = max(abs(dn), abs(nom), abs(up)) * (1 + abs(a)) ** (6 if code == '4p' else 2)
        return (1e-11 if prec64 else 2e-4), (1e-12 if prec64 else 2e-4) * scale
    return (1e-9 * (1 + abs(a)) if prec64 else 5e-4 * (1 + abs(a))), (0 if prec64 else 1e-6)


def slow_ref(pyhf, code, a0=1.0):
    cls = pyhf.interpolators.get(PYCODE[code], do_tensorized_calc=False)
    it = cls([[[[1.0], [1.0], [1.0]]]], subscribe=False) if code != '4' else cls([[[[1.0], [1.0], [1.0]]]], subscribe=False, alpha0=a0)
    return getattr(it, 'summand', None) or it.product


def oracles(ctx, pyhf, code, a0=1.0, ntrip=30):
    """implementation-only checks read off the property text"""
    rng = ctx.rng
    trips = [gen_triple(rng, code) for _ in range(ntrip)]
    b = a0 if code == '4' else 1.0
    add = code in ADDITIVE
    neutral = 0.0 if add else 1.0
    for fast in (True, False):
        tag = 'fast' if fast else 'slow'
        pts = [0.0, 1.0, -1.0, b, math.nextafter(b, 2 * b), math.nextafter(b, 0), -b, math.nextafter(-b, -2 * b), math.nextafter(-b, 0),
               math.nextafter(0, 1), math.nextafter(0, -1), b + 1e-3, b + 2e-3, b - 1e-3, b - 2e-3, -b - 1e-3, -b - 2e-3, -b + 1e-3, -b + 2e-3,
               3.0, 4.0, -3.0, -4.0]
        cells = [(dn, nom, up, a) for (dn, nom, up) in trips for a in pts]
        vals = impl_eval(pyhf, code, cells, fast, a0)
        ctx.count(len(cells))
        k = len(pts)
        for i, (dn, nom, up) in enumerate(trips):
            v = dict(zip(pts, vals[i * k:(i + 1) * k]))
            scale = max(abs(dn), abs(nom), abs(up)) if add else max(up / nom, dn / nom, nom / up, nom / dn) ** 4
            eps = 1e-9 * scale
            inp = {'code': code, 'impl': tag, 'down': dn, 'nominal': nom, 'up': up, 'alpha0': a0}

            def bad(sig, what, a, obs, exp):
                ctx.fail(f'C03/{sig}/code{code}/{tag}', what, dict(inp, alpha=a), obs, exp,
                         f"pyhf.interpolators.get({PYCODE[code]!r}, do_tensorized_calc={fast})([[[[{dn}],[{nom}],[{up}]]]])([[{a}]])")
            if abs(v[0.0] - neutral) > eps: bad('neutral', 'not neutral at alpha=0', 0.0, v[0.0], neutral)
            if a0 <= 1.0:
                e1 = (up - nom) if add else up / nom
                e2 = (dn - nom) if add else dn / nom
                if abs(v[1.0] - e1) > eps: bad('anchor+1', 'does not reproduce the up variation at alpha=+1', 1.0, v[1.0], e1)
                if abs(v[-1.0] - e2) > eps: bad('anchor-1', 'does not reproduce the down variation at alpha=-1', -1.0, v[-1.0], e2)
            # one-sided continuity at every breakpoint
            for c, lo, hi in ((b, math.nextafter(b, 0), math.nextafter(b, 2 * b)), (-b, math.nextafter(-b, -2 * b), math.nextafter(-b, 0)),
                              (0.0, math.nextafter(0, -1), math.nextafter(0, 1))):
                for x in (lo, hi):
                    if abs(v[x] - v[c]) > eps + 1e-6 * scale * 0:
                        bad('continuity', f'jump at alpha={c}', x, v[x], v[c])
            # seams: first and second one-sided differences agree across ±b (codes 2: C1; 4, 4p: C1 and C2)
            h = 1e-3
            if code in ('2', '4', '4p'):
                for c, s in ((b, 1), (-b, 1)):
                    r1 = (v[c + h] - v[c]) / h
                    l1 = (v[c] - v[c - h]) / h
                    # difference of one-sided slopes is O(h * f'') when C1
                    curv = abs(v[c + 2 * h] - 2 * v[c + h] + v[c]) / h**2 + abs(v[c] - 2 * v[c - h] + v[c - 2 * h]) / h**2
                    if abs(r1 - l1) > 2 * h * curv + 1e-6 * scale:
                        bad('c1-seam', f'slope jumps at alpha={c}', c, r1, l1)
                    if code in ('4', '4p'):
                        r2 = (v[c + 2 * h] - 2 * v[c + h] + v[c]) / h**2
                        l2 = (v[c] - 2 * v[c - h] + v[c - 2 * h]) / h**2
                        if abs(r2 - l2) > 0.05 * (abs(r2) + abs(l2)) + 0.2 * scale * (abs(math.log(up / nom)) + abs(math.log(dn / nom)) + (abs(up - nom) + abs(nom - dn)) / scale if add else abs(math.log(up / nom)) + abs(math.log(dn / nom))) ** 1 * 0.5 + 1e-4 * scale:
                            bad('c2-seam', f'curvature jumps at alpha={c}', c, r2, l2)
            # tails: slope (additive) / exponent (multiplicative) of the matching side
            if add:
                su = v[4.0] - v[3.0]; sd = v[-3.0] - v[-4.0]
                if code in ('0', '4p'):
                    eu, ed = up - nom, nom - dn
                else:
                    qa = 0.5 * (up + dn) - nom; qb = 0.5 * (up - dn)
                    eu, ed = qb + 2 * qa, qb - 2 * qa
                if abs(su - eu) > 1e-8 * scale * 10: bad('tail-slope+', 'upper extrapolation slope', 3.5, su, eu)
                if abs(sd - ed) > 1e-8 * scale * 10: bad('tail-slope-', 'lower extrapolation slope', -3.5, sd, ed)
            else:
                if v[3.0] > 0 and v[4.0] > 0:
                    eu = math.log(v[4.0] / v[3.0]); ed = math.log(v[-4.0] / v[-3.0])
                    if abs(eu - math.log(up / nom)) > 1e-8: bad('tail-exp+', 'upper extrapolation exponent', 3.5, eu, math.log(up / nom))
                    if abs(ed - math.log(dn / nom)) > 1e-8: bad('tail-exp-', 'lower extrapolation exponent', -3.5, ed, math.log(dn / nom))


def run(ctx):
    ctx.assumptions.append('translator (harness/symexec.py + gen_interp.py): symbolic execution of the running interpolator code — CPython evaluation of the code under test, numpy object-dtype element-wise dispatch, path enumeration and the Lean emitter are trusted; lean/PyhfGen/Interp.lean was regenerated from /repo before the proof gate of this run')
    import pyhf
    rng = ctx.rng
    lean = ctx.lean
    ncell = ctx.n(4000, 200000)
    backends = [('numpy', '64b'), ('jax', '64b'), ('pytorch', '64b'), ('tensorflow', '64b')]
    if ctx.thorough:
        backends += [('numpy', '32b'), ('jax', '32b'), ('pytorch', '32b'), ('tensorflow', '32b')]
    else:
        extra = [('numpy', '32b'), ('jax', '32b'), ('pytorch', '32b'), ('tensorflow', '32b')]
        backends.append(extra[ctx.seed % 4])
    maxdisc = {}
    # ---------------- cell correspondence
    for code in CODES:
        a0s = [1.0] if code != '4' else [1.0, 0.5, 2.0]
        for a0 in a0s:
            n = ncell // (len(a0s))
            alphas = gen_alphas(rng, n, a0)
            cells = []
            for a in alphas:
                dn, nom, up = gen_triple(rng, code)
                cells.append((dn, nom, up, a))
                ctx.tally('regime', f'{code}:{regime(code, a, a0)}')
                if a != 0 and not (dn == nom == up):
                    ctx.nontrivial((code, a0, dn, nom, up, a))
            m_slow = model_eval(lean, code, cells, False, a0)
            m_fast = model_eval(lean, code, cells, True, a0)
            for (bk, prec) in backends:
                pyhf.set_backend(bk, precision=prec)
                p64 = prec == '64b'
                todo = [('fast', True, m_fast)]
                if bk == 'numpy' and p64:
                    todo.append(('slow', False, m_slow))
                for tag, fast, mvals in todo:
                    sub = cells if (p64 and bk == 'numpy') else cells[: max(200, len(cells) // 8)]
                    ivals = impl_eval(pyhf, code, sub, fast, a0)
                    ctx.count(len(sub))
                    for c, iv, mv in zip(sub, ivals, mvals):
                        rt, at = tol_for(code, c, p64)
                        if not close(iv, mv, rt, at):
                            # failing-input search: is fast != slow on the implementation, or an anchor broken?
                            ctx.disagree(f'interp/{code}/{tag}/{bk}{prec}', {'cell': c, 'alpha0': a0}, mv, iv)
                        elif p64 and mv != 0:
                            d = abs(iv - mv) / max(abs(mv), 1e-300)
                            key = f'{code}/{tag}'
                            if d > maxdisc.get(key, 0): maxdisc[key] = d
                # implementation: fast ≡ slow (property clause), numpy 64 only
                if bk == 'numpy' and p64:
                    fi = impl_eval(pyhf, code, cells, True, a0)
                    si = impl_eval(pyhf, code, cells, False, a0)
                    for c, x, y in zip(cells, fi, si):
                        rt, at = tol_for(code, c, True)
                        if not close(x, y, rt, at):
                            ctx.fail(f'C03/fast-ne-slow/code{code}', 'vectorised and scalar reference disagree',
                                     {'code': code, 'cell': c, 'alpha0': a0}, x, y,
                                     f'compare pyhf.interpolators.get({PYCODE[code]!r})(h)(a) with get(..., do_tensorized_calc=False) on down,nom,up,alpha={c}')
            ctx.sample({'code': code, 'alpha0': a0, 'cell(down,nom,up,alpha)': cells[0], 'model_slow': m_slow[0]})
    pyhf.set_backend('numpy', precision='64b')
    # ---------------- implementation-side oracles (always on; they are the failing-input search)
    for code in CODES:
        for a0 in ([1.0] if code != '4' else [1.0, 0.5]):
            oracles(ctx, pyhf, code, a0, ntrip=ctx.n(25, 400))
    # ---------------- multi-cell blocks: several systematics × samples × bins × parameter rows in one call; every entry [s, h, t, b]
    # must be the scalar function of its own cell (mask broadcasting, einsum index strings, batch axis) — compared with the scalar
    # reference class and with the model; rows of one systematic deliberately straddle the breakpoints
    nblock = ctx.n(40, 600)
    for bi in range(nblock):
        code = CODES[bi % len(CODES)]
        a0 = 1.0 if code != '4' else rng.choice([1.0, 0.5])
        nsys = rng.randint(1, 3); nh = rng.randint(1, 3); nb = rng.randint(1, 4); na = rng.randint(1, 4)
        trip = [[[gen_triple(rng, code) for _ in range(nb)] for _ in range(nh)] for _ in range(nsys)]
        if (bi // len(CODES)) % 3 == 2:
            # variations whose asymmetries cancel over the whole histogram set (a normalisation-preserving pure-shape variation): exact in
            # floating point — Σ(up + down − 2·nominal) = 0 and Π(up·down / nominal²) = 1 — while no single bin is symmetric; an aggregate
            # test for symmetry must not mistake them for symmetric variations
            nb = 2 * rng.randint(1, 2)
            trip = [[[None] * nb for _ in range(nh)] for _ in range(nsys)]
            for s_ in range(nsys):
                for h in range(nh):
                    for b in range(0, nb, 2):
                        nom = float(rng.choice([8, 16, 32, 64]))
                        if code in ('1', '4'): trip[s_][h][b] = (nom, nom, 2 * nom); trip[s_][h][b + 1] = (nom / 2, nom, nom)
                        else:
                            d = float(rng.choice([1, 2, 4]))
                            trip[s_][h][b] = (nom - d, nom, nom + 3 * d); trip[s_][h][b + 1] = (nom + d, nom, nom - 3 * d)
            ctx.tally('block_kind', 'cancelling-asymmetries')
        hs = [[[[t[0] for t in trip[s_][h]], [t[1] for t in trip[s_][h]], [t[2] for t in trip[s_][h]]] for h in range(nh)] for s_ in range(nsys)]
        al = [[rng.choice([-2.5, -a0, -0.5 * a0, 0.0, 0.3 * a0, a0, 1.7, 3.0]) for _ in range(na)] for _ in range(nsys)]
        cls = pyhf.interpolators.get(PYCODE[code])
        it = cls(hs, subscribe=False, alpha0=a0) if code == '4' and a0 != 1.0 else cls(hs, subscribe=False)
        got = np.asarray(pyhf.tensorlib.tolist(it(pyhf.tensorlib.astensor(np.asarray(al, dtype=np.float64)))), dtype=float)
        ctx.count()
        if got.shape != (nsys, nh, na, nb):
            ctx.fail(f'C03/block-shape/code{code}', 'result shape is not (systematics, samples, rows, bins)', {'code': code, 'histogramssets': hs, 'alphasets': al}, list(got.shape), [nsys, nh, na, nb])
            continue
        sref = slow_ref(pyhf, code, a0)
        cells = [(trip[s_][h][b][0], trip[s_][h][b][1], trip[s_][h][b][2], al[s_][t]) for s_ in range(nsys) for h in range(nh) for t in range(na) for b in range(nb)]
        mvals = model_eval(lean, code, cells, True, a0)
        flat = got.reshape(-1)
        for k, c in enumerate(cells):
            rt, at = tol_for(code, c, True)
            want = float(sref(*c))
            if not close(float(flat[k]), want, rt, at):
                idx = np.unravel_index(k, got.shape)
                ctx.fail(f'C03/block-entry/code{code}', 'an entry of a multi-cell call is not the scalar function of its own cell (down/nominal/up of its systematic, sample, bin; alpha of its systematic and row)',
                         {'code': code, 'alpha0': a0, 'histogramssets': hs, 'alphasets': al, 'entry[s,h,row,bin]': [int(i) for i in idx], 'cell': c}, float(flat[k]), want,
                         f'pyhf.interpolators.get({PYCODE[code]!r})(histogramssets)(alphasets)[s][h][row][bin] vs the scalar reference on the cell')
                break
            if not close(float(flat[k]), mvals[k], rt, at):
                ctx.disagree(f'interp-block/{code}', {'histogramssets': hs, 'alphasets': al, 'entry': k, 'cell': c}, mvals[k], float(flat[k]))
                break
        ctx.nontrivial(('block', code, nsys, nh, na, nb, bi))
        ctx.tally('block_shape', f'{nsys}x{nh}x{na}x{nb}')
    # ---------------- histories: call shapes × backend switches, vs fresh instance and vs cache model
    nhist = ctx.n(60, 1500)
    bks = [('numpy', '64b'), ('jax', '64b'), ('pytorch', '64b'), ('tensorflow', '64b'), ('numpy', '32b'), ('pytorch', '32b')]

    def tensor_kind(t):
        return (type(t).__module__.split('.')[0], str(getattr(t, 'dtype', '')).replace('torch.', '').replace("<dtype: '", '').replace("'>", ''))
    for hi in range(nhist):
        code = rng.choice(CODES)
        nsys = rng.randint(1, 3); nh = rng.randint(1, 2); nb = rng.randint(1, 3)
        hs = []
        for s in range(nsys):
            hs.append([])
            for h in range(nh):
                tr = [gen_triple(rng, code) for _ in range(nb)]
                hs[-1].append([[t[0] for t in tr], [t[1] for t in tr], [t[2] for t in tr]])
        cur = rng.randrange(len(bks))
        init_idx = cur
        pyhf.set_backend(bks[cur][0], precision=bks[cur][1])
        it = pyhf.interpolators.get(PYCODE[code])(hs)   # subscribed, like the ones inside a model
        ops, impl_trace = [], []
        for st in range(rng.randint(2, ctx.n(6, 14))):
            if rng.random() < 0.35:
                cur = rng.randrange(len(bks))
                pyhf.set_backend(bks[cur][0], precision=bks[cur][1])
                ops.append(['backend', cur])
            else:
                na = rng.randint(1, 4)
                al = [[rng.choice([-2.5, -1.0, -0.5, 0.0, 0.3, 1.0, 1.7]) for _ in range(na)] for _ in range(nsys)]
                ops.append(['call', nsys, na])
                tl = pyhf.tensorlib
                got = it(tl.astensor(np.asarray(al, dtype=np.float64)))
                fresh = pyhf.interpolators.get(PYCODE[code])(hs, subscribe=False)(tl.astensor(np.asarray(al, dtype=np.float64)))
                g = np.asarray(tl.tolist(got), dtype=float); f = np.asarray(tl.tolist(fresh), dtype=float)
                ctx.count()
                if tensor_kind(got) != tensor_kind(fresh) or g.shape != f.shape or not np.array_equal(g, f):
                    ctx.fail(f'C03/history/code{code}', 'value after a call history differs from a fresh interpolator',
                             {'code': code, 'histogramssets': hs, 'init_backend': bks[init_idx], 'ops': ops, 'backends': bks, 'alphasets': al},
                             [tensor_kind(got), g.tolist()], [tensor_kind(fresh), f.tolist()],
                             'replay ops on pyhf.interpolators.get(code)(histogramssets)')
            # observable cache tags of the implementation after the step
            want = tensor_kind(pyhf.tensorlib.ones((1, 1)))
            have = tensor_kind(it.mask_on)
            impl_trace.append([int(it.alphasets_shape[0]), int(it.alphasets_shape[1]), cur if have == want else -1])
        mtrace = lean.ok({'op': 'interp_cache', 'nsysts': nsys, 'tag': init_idx, 'ops': ops})
        ctx.count()
        if mtrace != impl_trace:
            ctx.disagree('interp_cache', {'code': code, 'nsysts': nsys, 'init': init_idx, 'ops': ops}, mtrace, impl_trace,
                         'cached shape / backend tags after each step')
        ctx.nontrivial(('hist', code, nsys, init_idx, tuple(map(tuple, ops))))
        ctx.tally('history_len', len(ops))
        if hi == 0:
            ctx.sample({'history': {'code': code, 'init_backend': bks[init_idx], 'ops': ops, 'cache_trace(shape,backend)': impl_trace}})
        del it
    pyhf.set_backend('numpy', precision='64b')
    ctx.notes['max_rel_discrepancy_model_vs_impl_64b'] = maxdisc
