"""C16 — workspace combine, prune, rename and sort act on the likelihood as advertised.

Correspondence: Workspace.combine for all four joins × channel merging on/off on generated workspace pairs (disjoint,
overlapping-identical, overlapping-conflicting channels / observations / measurements) vs the Lean `combine`
(`_join_items` fold, post-checks, measurement merging); `sorted` vs `sortItems`.
Implementation-side oracles: contents of the result, refusal classes, additivity of the main log-likelihood and
one constraint term per shared parameter for disjoint channels, prune / rename / sort relations incl. likelihood,
schema validity, inputs untouched.
"""
import copy, json
import numpy as np
from harness import gen_spec

RULE = ('pairs of generated workspaces: disjoint, overlapping-identical, overlapping-conflicting channels/observations/measurements, '
        'shared and private parameter names × 4 joins × merge on/off; prune/rename selections; list permutations; '
        'non-trivial = the pair overlaps in at least one list; distinct by (pair, join, merge) hash')
JOINS = ['none', 'outer', 'left outer', 'right outer']


def gen_ws(rng, chan_names, meas='meas'):
    spec, _ = gen_spec.gen_spec(rng, max_channels=len(chan_names), max_samples=2, max_bins=2, simple=rng.random() < 0.5)
    for c, n in zip(spec['channels'], chan_names):
        c['name'] = n
        for s in c['samples']:
            for m in s['modifiers']:
                if m['type'] in ('shapesys', 'staterror', 'shapefactor'):
                    m['name'] = f"{m['type']}_{n}_{s['name']}" if m['type'] == 'shapesys' else f"{m['type']}_{n}"
    spec['channels'] = spec['channels'][:len(chan_names)]
    obs = [{'name': c['name'], 'data': [float(rng.randint(1, 90)) for _ in c['samples'][0]['data']]} for c in spec['channels']]
    return {'channels': spec['channels'], 'observations': obs, 'version': '1.0.0',
            'measurements': [{'name': meas, 'config': {'poi': 'mu', 'parameters': spec['parameters']}}]}


def enc_ws(ws):
    d = lambda o: json.dumps(o, sort_keys=True)
    return {'channels': [{'name': c['name'], 'samples': [{'name': s['name'], 'body': d({k: v for k, v in s.items() if k != 'name'})} for s in c['samples']]} for c in ws['channels']],
            'observations': [{'name': o['name'], 'body': d(o['data'])} for o in ws['observations']],
            'measurements': [{'name': m['name'], 'poi': m['config']['poi'],
                              'parameters': [{'name': p['name'], 'body': d({k: v for k, v in p.items() if k != 'name'})} for p in m['config']['parameters']]} for m in ws['measurements']],
            'version': ws['version']}


def loglik(pyhf, ws, pars_by_name, main_only=True):
    w = pyhf.Workspace(ws); m = w.model(); d = w.data(m)
    p = list(m.config.suggested_init())
    for n, vals in pars_by_name.items():
        if n in m.config.par_order:
            sl = m.config.par_slice(n)
            p[sl] = vals[: sl.stop - sl.start] if len(vals) >= sl.stop - sl.start else p[sl]
    p = np.asarray(p, dtype=float)
    return float(m.mainlogpdf(np.asarray(d[: m.config.nmaindata]), p)[0]), float(m.logpdf(p, np.asarray(d))[0]), m


def run(ctx):
    import pyhf
    rng, lean = ctx.rng, ctx.lean
    pyhf.set_backend('numpy', precision='64b')
    for i in range(ctx.n(120, 4000)):
        kind = rng.choice(['disjoint', 'disjoint', 'identical', 'conflict', 'obs-conflict', 'meas-shared', 'version', 'merge-samples', 'merge-common-sample'])
        L = gen_ws(rng, rng.sample(['A', 'B', 'C'], rng.randint(1, 2)))
        names_r = rng.sample(['D', 'E', 'F'], rng.randint(1, 2))
        R = gen_ws(rng, names_r, meas=rng.choice(['meas', 'meas2']) if kind != 'meas-shared' else 'meas')
        if kind != 'meas-shared' and R['measurements'][0]['name'] == L['measurements'][0]['name']:
            R['measurements'][0]['name'] = 'meas_right'
        if kind == 'identical':
            R['channels'].append(copy.deepcopy(L['channels'][0])); R['observations'].append(copy.deepcopy(L['observations'][0]))
        elif kind == 'conflict':
            c = copy.deepcopy(L['channels'][0]); c['samples'][0]['data'] = [x + 1.0 for x in c['samples'][0]['data']]
            R['channels'].append(c); R['observations'].append(copy.deepcopy(L['observations'][0]))
        elif kind == 'obs-conflict':
            R['channels'].append(copy.deepcopy(L['channels'][0])); o = copy.deepcopy(L['observations'][0]); o['data'] = [x + 1 for x in o['data']]
            R['observations'].append(o)
        elif kind == 'version':
            R['version'] = '1.0.1'
        elif kind == 'merge-samples':
            # same channel name on both sides, different samples: only channel merging can combine them
            c = copy.deepcopy(L['channels'][0])
            for sm in c['samples']: sm['name'] = 'other_' + sm['name']
            R['channels'].append(c); R['observations'].append(copy.deepcopy(L['observations'][0]))
        elif kind == 'merge-common-sample':
            # same channel on both sides; one sample carries the same name with different yields, each side has a sample of its own
            c = copy.deepcopy(L['channels'][0])
            for k_, sm in enumerate(c['samples']):
                if k_ == 0: sm['data'] = [x + 7.0 for x in sm['data']]
                else: sm['name'] = 'other_' + sm['name']
            R['channels'].append(c); R['observations'].append(copy.deepcopy(L['observations'][0]))
        join = rng.choice(JOINS) if kind != 'merge-common-sample' else rng.choice(['left outer', 'right outer'])
        merge = rng.random() < (0.3 if kind not in ('merge-samples', 'merge-common-sample') else 0.8)
        fl, fr = copy.deepcopy(L), copy.deepcopy(R)
        try:
            wl = pyhf.Workspace(L); wr = pyhf.Workspace(R, validate=(kind != 'version'))
        except Exception:
            continue
        try:
            out = pyhf.Workspace.combine(wl, wr, join=join, merge_channels=merge); err = None
        except pyhf.exceptions.InvalidSpecification:
            continue   # schema layer, outside the model
        except Exception as e:  # noqa
            out = None; err = type(e).__name__
        if dict(wl) != fl or dict(wr) != fr or L != fl or R != fr:
            ctx.fail('C16/mutation', 'combine modified an input workspace', {'left': fl, 'right': fr, 'join': join, 'merge_channels': merge})
        rep = lean.ok({'op': 'ws_combine', 'left': enc_ws(L), 'right': enc_ws(R), 'join': join, 'merge': merge})
        ctx.count()
        inp = {'kind': kind, 'left': fl, 'right': fr, 'join': join, 'merge_channels': merge}
        if rep['error'] != err:
            ctx.disagree('combine.outcome', inp, rep['error'], err)
        elif out is not None and enc_ws(dict(out)) != rep['ws']:
            ctx.disagree('combine.result', inp, rep['ws'], enc_ws(dict(out)))
        ctx.tally('pair_kind', kind); ctx.tally('join', f'{join}/{merge}'); ctx.tally('outcome', err or 'ok')
        # ---- oracles from the property text
        if kind == 'version' and err != 'InvalidWorkspaceOperation' and not (merge and join == 'none'):
            ctx.fail('C16/version', 'workspaces of different versions were not refused', inp, err)
        if join == 'none' and kind in ('identical', 'conflict', 'obs-conflict', 'meas-shared') and err is None:
            ctx.fail('C16/none-overlap', 'join none accepted overlapping inputs', inp)
        if join == 'outer' and not merge and kind in ('conflict', 'obs-conflict') and err is None:
            ctx.fail('C16/outer-conflict', 'outer join accepted clashing definitions', inp)
        if kind == 'disjoint' and not merge and err is not None:
            ctx.fail('C16/disjoint-refused', 'disjoint workspaces were refused', inp, err)
        if kind == 'disjoint' and out is not None:
            o = dict(out)
            if [c for c in o['channels']] != (fl['channels'] + fr['channels'] if join != 'right outer' else fr['channels'] + fl['channels']) or \
               sorted(x['name'] for x in o['observations']) != sorted(x['name'] for x in fl['observations'] + fr['observations']) or \
               sorted(x['name'] for x in o['measurements']) != sorted(x['name'] for x in fl['measurements'] + fr['measurements']):
                ctx.fail('C16/disjoint-contents', 'the combination does not contain every channel/observation/measurement of both, unchanged', inp)
        if kind == 'meas-shared' and out is not None and join in ('outer',):
            # shared measurement: main likelihood additive, constraints once
            pars = {}
            try:
                ml, _, mL = loglik(pyhf, fl, {}); mr, _, mR = loglik(pyhf, fr, {})
                for m_ in (mL, mR):
                    for n in m_.config.par_order:
                        sl = m_.config.par_slice(n)
                        pars.setdefault(n, [float(rng.uniform(0.8, 1.2)) if m_.config.suggested_init()[sl.start] != 0 else float(rng.uniform(-0.5, 0.5)) for _ in range(sl.stop - sl.start)])
                ml, fl_full, mL = loglik(pyhf, fl, pars); mr, fr_full, mR = loglik(pyhf, fr, pars)
                mc, fc_full, mC = loglik(pyhf, dict(out), pars)
                if abs(mc - (ml + mr)) > 1e-8 * (1 + abs(mc)):
                    ctx.fail('C16/main-additive', 'main log-likelihood of the combination is not the sum of the parts', inp, mc, ml + mr)
                shared = set(mL.config.auxdata_order) & set(mR.config.auxdata_order)
                if sorted(mC.config.auxdata_order) != sorted(set(mL.config.auxdata_order) | set(mR.config.auxdata_order)):
                    ctx.fail('C16/constraint-once', 'constraint part does not contain each constrained parameter once', inp, mC.config.auxdata_order)
            except Exception as e:  # noqa
                pass
        if out is not None:
            try:
                pyhf.schema.validate(dict(out), 'workspace.json')
            except Exception:
                ctx.fail('C16/schema', 'combined workspace is not schema-valid', inp)
        if kind == 'merge-samples' and merge and join != 'none' and out is not None:
            o = dict(out); cn = fl['channels'][0]['name']
            got = [sm['name'] for c in o['channels'] if c['name'] == cn for sm in c['samples']]
            want = [sm['name'] for sm in fl['channels'][0]['samples']] + ['other_' + sm['name'] for sm in fl['channels'][0]['samples']]
            if sorted(got) != sorted(want):
                ctx.fail('C16/merge-samples', 'channel merging does not keep the samples of both sides', inp, got, want)
        if kind == 'merge-common-sample' and merge and out is not None:
            # the documented precedence: `left outer` keeps the left definition of an item present on both sides, `right outer` the right
            o = dict(out); cn = fl['channels'][0]['name']; sn = fl['channels'][0]['samples'][0]['name']
            got = [sm for c in o['channels'] if c['name'] == cn for sm in c['samples'] if sm['name'] == sn]
            src = fl if join == 'left outer' else fr
            want = [sm for c in src['channels'] if c['name'] == cn for sm in c['samples'] if sm['name'] == sn]
            if join in ('left outer', 'right outer') and got != want:
                ctx.fail('C16/outer-precedence', 'a sample defined on both sides of a merged channel is not taken from the side the join names', inp, got, want)
        if kind != 'disjoint': ctx.nontrivial(json.dumps([fl, fr, join, merge], sort_keys=True))
        if i < 2: ctx.sample({'pair_kind': kind, 'join': join, 'merge': merge, 'outcome': err or 'ok', 'left_channels': [c['name'] for c in fl['channels']], 'right_channels': [c['name'] for c in fr['channels']]})
    # ---------------- _prune_and_rename: random requests vs the Lean model
    def enc_pws(ws):
        d = lambda o: json.dumps(o, sort_keys=True)
        return {'channels': [{'name': c['name'], 'samples': [{'name': sm['name'], 'data': d(sm['data']),
                              'modifiers': [{'name': m['name'], 'type': m['type'], 'body': d({k: v for k, v in m.items() if k != 'name'})} for m in sm['modifiers']]}
                             for sm in c['samples']]} for c in ws['channels']],
                'measurements': [{'name': m['name'], 'poi': m['config']['poi'],
                                  'parameters': [{'name': q['name'], 'body': d({k: v for k, v in q.items() if k != 'name'})} for q in m['config']['parameters']]} for m in ws['measurements']],
                'observations': [{'name': o['name'], 'body': d({k: v for k, v in o.items() if k != 'name'})} for o in ws['observations']],
                'version': ws['version']}
    for i in range(ctx.n(80, 2500)):
        W = gen_ws(rng, rng.sample(['A', 'B', 'C'], rng.randint(1, 3)))
        W['measurements'].append({'name': 'second', 'config': {'poi': 'mu', 'parameters': copy.deepcopy(W['measurements'][0]['config']['parameters'])}})
        mods = sorted({(m['name'], m['type']) for c in W['channels'] for sm in c['samples'] for m in sm['modifiers']})
        # parameter configurations for (some of) the modifier names, incl. names shared between types
        have = {q['name'] for q in W['measurements'][0]['config']['parameters']}
        for n, t in mods:
            if n not in have and t in ('normsys', 'histosys') and rng.random() < 0.7:
                W['measurements'][0]['config']['parameters'].append({'name': n, 'inits': [0.25], 'bounds': [[-3.0, 3.0]], 'fixed': rng.random() < 0.5}); have.add(n)
        frozen = copy.deepcopy(W)
        try:
            w = pyhf.Workspace(W)
        except Exception:
            continue
        smp = sorted({sm['name'] for c in W['channels'] for sm in c['samples']}); chn = [c['name'] for c in W['channels']]
        pick = lambda xs, pmax=2: rng.sample(xs, rng.randint(0, min(pmax, len(xs)))) if xs else []
        bogus = rng.random() < 0.15
        req = {'prune_modifiers': [], 'prune_modifier_types': [], 'prune_samples': [], 'prune_channels': [], 'prune_measurements': [],
               'rename_modifiers': {}, 'rename_samples': {}, 'rename_channels': {}, 'rename_measurements': {}}
        mode = rng.choice(['types', 'mods', 'samples', 'channels', 'measurements', 'rename', 'mixed'])
        names_nopoi = [n for n, t in mods if n != 'mu']
        if mode in ('types', 'mixed'): req['prune_modifier_types'] = pick(sorted({t for n, t in mods if t not in ('normfactor',)}), 1)
        if mode in ('mods', 'mixed'): req['prune_modifiers'] = pick(names_nopoi, 2)
        if mode in ('samples', 'mixed') and len(smp) > 1: req['prune_samples'] = pick([x for x in smp if x != 'signal'], 1)
        if mode in ('channels', 'mixed') and len(chn) > 1: req['prune_channels'] = pick(chn, 1)
        if mode in ('measurements', 'mixed'): req['prune_measurements'] = pick(['second'], 1)
        if mode in ('rename', 'mixed'):
            req['rename_modifiers'] = {n: 'rn_' + n for n in pick([x for x in names_nopoi if x not in req['prune_modifiers']] + ['mu'], 2)}
            # renamings onto names that exist already: a swap, a cycle or the identity among the modifier names (the mapping is applied
            # simultaneously: every item and every parameter configuration moves to its image, none is lost)
            cand = [x for x in names_nopoi if x not in req['prune_modifiers']]
            r_ = rng.random()
            if r_ < 0.35 and len(cand) >= 2:
                cyc = rng.sample(cand, min(len(cand), rng.choice([2, 2, 3])))
                req['rename_modifiers'] = {a: b for a, b in zip(cyc, cyc[1:] + cyc[:1])}
                ctx.tally('rename_kind', f'cycle-{len(cyc)}')
            elif r_ < 0.45 and cand:
                a = rng.choice(cand); req['rename_modifiers'] = {a: a}
                ctx.tally('rename_kind', 'identity')
            req['rename_samples'] = {n: 'rn_' + n for n in pick(smp, 1)}
            req['rename_channels'] = {n: 'rn_' + n for n in pick(chn, 1)}
            req['rename_measurements'] = {n: 'rn_' + n for n in pick(['meas'], 1)}
            if rng.random() < 0.3 and 'second' not in req['prune_measurements']:
                req['rename_measurements'] = rng.choice([{'meas': 'second', 'second': 'meas'}, {'second': 'meas', 'meas': 'second'}, {'meas': 'meas'}])   # a swap / the identity
                ctx.tally('rename_kind', 'measurement-swap')
        if bogus:
            k = rng.choice(['prune_modifiers', 'prune_modifier_types', 'prune_samples', 'prune_channels', 'prune_measurements'])
            req[k] = req[k] + ['no_such_thing']
        try:
            out = w._prune_and_rename(**req); err = None
        except pyhf.exceptions.InvalidSpecification:
            continue   # result not schema-valid (e.g. a channel left without samples): schema layer
        except Exception as e:  # noqa
            out = None; err = type(e).__name__
        ctx.count(); ctx.tally('prune_mode', mode + ('/bogus' if bogus else '')); ctx.tally('prune_outcome', err or 'ok')
        inp = {'workspace': frozen, 'request': req}
        lreq = {k: (v if isinstance(v, list) else [[a, b] for a, b in v.items()]) for k, v in req.items()}
        rep = lean.ok({'op': 'ws_prune_rename', 'ws': enc_pws(frozen), 'req': lreq})
        if rep['error'] != err:
            ctx.disagree('prune.outcome', inp, rep['error'], err)
        elif out is not None and enc_pws(dict(out)) != rep['ws']:
            ctx.disagree('prune.result', inp, rep['ws'], enc_pws(dict(out)))
        if dict(w) != frozen or W != frozen:
            ctx.fail('C16/mutation', '_prune_and_rename modified its input', inp)
        if out is not None:
            o = dict(out)
            # oracle (property text): exactly the named items are gone …
            if bogus: ctx.fail('C16/prune-unknown', 'a request naming an unknown item was accepted', inp)
            kept_pars = [[q for q in m['config']['parameters'] if q['name'] not in req['prune_modifiers']] for m in frozen['measurements'] if m['name'] not in req['prune_measurements']]
            got_pars = [m['config']['parameters'] for m in o['measurements']]
            rmeas = req['rename_measurements']
            want_mn = [rmeas.get(m['name'], m['name']) for m in frozen['measurements'] if m['name'] not in req['prune_measurements']]
            if [m['name'] for m in o['measurements']] != want_mn:
                ctx.fail('C16/rename-measurements', 'the measurements of the result are not the surviving ones, each under its image of the renaming (applied simultaneously)', inp, [m['name'] for m in o['measurements']], want_mn)
            ren = req['rename_modifiers']
            if [[dict(q, name=ren.get(q['name'], q['name'])) for q in ps] for ps in kept_pars] != got_pars:
                ctx.fail('C16/prune-configs', 'parameter configurations of surviving names were dropped or changed', inp, got_pars, kept_pars)
            # … exactly: the channel / sample / modifier lists of the result are the input's with the named items filtered out, nothing else
            rc, rs, rm = req['rename_channels'], req['rename_samples'], req['rename_modifiers']
            expc = [dict(c, name=rc.get(c['name'], c['name']),
                         samples=[dict(sm, name=rs.get(sm['name'], sm['name']),
                                       modifiers=[dict(m, name=rm.get(m['name'], m['name'])) for m in sm['modifiers']
                                                  if m['name'] not in req['prune_modifiers'] and m['type'] not in req['prune_modifier_types']])
                                  for sm in c['samples'] if sm['name'] not in req['prune_samples']])
                    for c in copy.deepcopy(frozen['channels']) if c['name'] not in req['prune_channels']]
            if o['channels'] != expc:
                ctx.fail('C16/prune-exact-items', 'the result does not consist of exactly the input items that were not named (by name, by modifier type, by sample, by channel), renamed as requested', inp,
                         [[(sm['name'], [(m['name'], m['type']) for m in sm['modifiers']]) for sm in c['samples']] for c in o['channels']],
                         [[(sm['name'], [(m['name'], m['type']) for m in sm['modifiers']]) for sm in c['samples']] for c in expc])
            # … and the likelihood of the remainder is unchanged: model of the result vs model of the independently filtered spec
            if mode in ('types', 'channels') and not any(req[k] for k in req if k.startswith('rename')):
                try:
                    exp = copy.deepcopy(frozen)
                    exp['channels'] = [c for c in exp['channels'] if c['name'] not in req['prune_channels']]
                    exp['observations'] = [x for x in exp['observations'] if x['name'] not in req['prune_channels']]
                    for c in exp['channels']:
                        for sm in c['samples']: sm['modifiers'] = [m for m in sm['modifiers'] if m['type'] not in req['prune_modifier_types']]
                    me = pyhf.Workspace(exp).model(measurement_name='meas'); mo = out.model(measurement_name='meas')
                    if me.config.par_names != mo.config.par_names or list(me.config.suggested_init()) != list(mo.config.suggested_init()) or \
                       list(me.config.suggested_fixed()) != list(mo.config.suggested_fixed()) or list(me.config.suggested_bounds()) != list(mo.config.suggested_bounds()):
                        ctx.fail('C16/prune-config', 'initial values / bounds / fixed flags of the remainder changed under pruning', inp)
                    p = np.asarray(me.config.suggested_init(), dtype=float); de = pyhf.Workspace(exp).data(me); do = out.data(mo)
                    if abs(float(me.logpdf(p, np.asarray(de))[0]) - float(mo.logpdf(p, np.asarray(do))[0])) > 1e-9:
                        ctx.fail('C16/prune-loglik', 'likelihood of the remainder changed under pruning', inp)
                except (pyhf.exceptions.InvalidModel, pyhf.exceptions.InvalidSpecification):
                    pass
        if mode == 'mixed': ctx.nontrivial(json.dumps([frozen, req], sort_keys=True))
    # ---------------- prune / rename / sorted
    for i in range(ctx.n(60, 1500)):
        W = gen_ws(rng, rng.sample(['A', 'B', 'C'], rng.randint(2, 3)))
        frozen = copy.deepcopy(W)
        w = pyhf.Workspace(W)
        ctx.count()
        # sorted: idempotent, canonical under permutation, likelihood-preserving
        s1 = pyhf.Workspace.sorted(w); s2 = pyhf.Workspace.sorted(s1)
        P = copy.deepcopy(W); rng.shuffle(P['channels']); rng.shuffle(P['observations'])
        for c in P['channels']:
            rng.shuffle(c['samples'])
            for s in c['samples']: rng.shuffle(s['modifiers'])
        s3 = pyhf.Workspace.sorted(pyhf.Workspace(P))
        if dict(s1) != dict(s2): ctx.fail('C16/sorted-idempotent', 'sorted is not idempotent', {'workspace': frozen})
        if dict(s1) != dict(s3): ctx.fail('C16/sorted-canonical', 'sorted is not canonical under permutation of the input lists', {'workspace': frozen, 'permuted': P})
        rep = lean.ok({'op': 'ws_sorted', 'items': [{'name': c['name'], 'body': ''} for c in P['channels']]})
        if [x['name'] for x in rep] != [c['name'] for c in dict(s3)['channels']]:
            ctx.disagree('sorted.channels', {'names': [c['name'] for c in P['channels']]}, rep, [c['name'] for c in dict(s3)['channels']])
        m0 = w.model(); d0 = w.data(m0); p0 = np.asarray(m0.config.suggested_init()) * 1.0
        ms = s1.model(); ds = s1.data(ms)
        if m0.config.par_order == ms.config.par_order and abs(float(m0.logpdf(p0, d0)[0]) - float(ms.logpdf(p0, ds)[0])) > 1e-9:
            ctx.fail('C16/sorted-loglik', 'sorted changes the likelihood', {'workspace': frozen})
        # rename and its inverse
        ren = {c['name']: c['name'] + '_r' for c in W['channels'][:1]}
        smp = sorted({s['name'] for c in W['channels'] for s in c['samples']})[:1]
        rs = {n: n + '_r' for n in smp}
        w2 = w.rename(channels=ren, samples=rs)
        w3 = w2.rename(channels={v: k for k, v in ren.items()}, samples={v: k for k, v in rs.items()})
        if dict(w3) != frozen: ctx.fail('C16/rename-inverse', 'renaming is not undone by the inverse renaming', {'workspace': frozen, 'rename': [ren, rs]})
        m2 = w2.model()
        if abs(float(m0.logpdf(p0, d0)[0]) - float(m2.logpdf(p0, w2.data(m2))[0])) > 1e-9 and m2.config.par_order == m0.config.par_order and m2.config.channels == sorted(ren.get(c, c) for c in m0.config.channels) == [ren.get(c, c) for c in m0.config.channels]:
            ctx.fail('C16/rename-loglik', 'renaming changes the likelihood', {'workspace': frozen})
        # prune a channel: removes exactly it, remainder likelihood = likelihood of the remaining channels
        if len(W['channels']) >= 2:
            drop = W['channels'][-1]['name']
            wp = w.prune(channels=[drop])
            if [c['name'] for c in dict(wp)['channels']] != [c['name'] for c in frozen['channels'] if c['name'] != drop] or \
               [c for c in dict(wp)['channels']] != [c for c in frozen['channels'] if c['name'] != drop] or \
               drop in [o['name'] for o in dict(wp)['observations']]:
                ctx.fail('C16/prune-exact', 'prune does not remove exactly the named channel', {'workspace': frozen, 'prune': drop})
        if dict(w) != frozen or W != frozen:
            ctx.fail('C16/mutation', 'prune/rename/sorted modified the input', {'workspace': frozen})
        for op in ('bad-channel',):
            try:
                w.prune(channels=['no_such_channel']); ctx.fail('C16/prune-unknown', 'pruning an unknown channel was accepted', {'workspace': frozen})
            except pyhf.exceptions.InvalidWorkspaceOperation:
                pass
