"""C20 — structurally inconsistent specifications are refused, never partly evaluated.

Correspondence: construction outcome (accepted / exception class) of pyhf.Model on fault-injected specs vs the
Lean `buildModel`, for every listed fault class and for pairs of faults (incl. compensating length errors).
Implementation-side oracle: a faulty spec that is accepted, or refused with anything but a pyhf exception
(AssertionError, TypeError, KeyError, IndexError, ValueError …), is a violation.
"""
import json, copy
import numpy as np
from harness import core, gen_spec, enga, faults

RULE = ('every listed structural fault class injected at random applicable positions of random well-formed specs, plus random '
        'pairs of faults; non-trivial = the fault lands in a spec with ≥2 channels or ≥2 samples; distinct by (class, spec) hash')

PYHF_EXC = {'InvalidModel', 'InvalidModifier', 'InvalidNameReuse', 'InvalidSpecification', 'InvalidMeasurement'}
NOT_A_FAULT = {'lumi-without-sigmas'}   # settings partially supplied: width defaults to 1 (accepted, correspondence only)


def run(ctx):
    import pyhf
    rng, lean = ctx.rng, ctx.lean
    pyhf.set_backend('numpy', precision='64b')
    nspec = ctx.n(120, 4000)
    for i in range(nspec):
        spec, info = gen_spec.gen_spec(rng)
        variants = faults.inject_all(rng, spec, ctx.n(2, 4))
        # pairs of faults: inject a second fault into an already faulty spec
        if variants:
            for _ in range(ctx.n(2, 5)):
                cls1, s1, poi1 = rng.choice(variants)
                if cls1 in NOT_A_FAULT: continue
                try:
                    second = faults.inject_all(rng, s1, 1)
                except Exception:
                    continue
                second = [v for v in second if v[0] not in ('lumi-without-sigmas', 'lumi-without-settings') and v[0] != cls1]  # these rewrite the parameter list and can undo the first fault
                if second:
                    cls2, s2, poi2 = rng.choice(second)
                    variants.append((f'{cls1}+{cls2}', s2, poi2 if poi2 != 'mu' else poi1))
        # the unfaulted spec must be accepted
        variants.append(('none', spec, 'mu'))
        for cls, fs, poi in variants:
            frozen = copy.deepcopy(fs)
            err, m = enga.impl_model(pyhf, fs, enga.impl_kwargs(poi=poi))
            ctx.count()
            ctx.tally('fault_class', cls if '+' not in cls else 'pair')
            ctx.tally('outcome', err or 'accepted')
            inp = {'fault': cls, 'spec': fs, 'poi': poi}
            if fs != frozen:
                ctx.fail('C20/mutation', 'model construction modified the caller\'s spec', inp)
            if err != 'InvalidSpecification':
                merr, res = enga.model_call(lean, fs, enga.settings(poi=poi), [{'q': 'config'}] if m is not None else [])
                if merr != err:
                    ctx.disagree('construction-outcome', inp, merr, err)
                elif m is not None and cls != 'none':
                    # accepted by both: the full configuration must still agree
                    cfg = enga.impl_config(m); mc = enga.model_config(res[0])
                    for k in ('par_order', 'par_slices', 'npars', 'channels', 'samples', 'modifiers', 'channel_nbins'):
                        if mc[k] != cfg[k]:
                            ctx.disagree(f'accepted-faulty.config.{k}', inp, mc[k], cfg[k])
            # ---- oracle straight from the property text
            if cls == 'none':
                if err is not None:
                    ctx.fail('C20/wf-spec-rejected', 'a well-formed spec was rejected', inp, err)
                continue
            base = cls.split('+')
            if all(b in NOT_A_FAULT for b in base):
                continue
            if err is None:
                ctx.fail(f'C20/{"+".join(sorted(set(base)))}-accepted', f'a spec with fault {cls} was accepted as a model', inp, 'accepted', 'pyhf exception')
            elif err not in PYHF_EXC:
                ctx.fail(f'C20/{"+".join(sorted(set(base)))}-{err}', f'a spec with fault {cls} was refused with {err} instead of a pyhf exception', inp, err, 'pyhf exception')
            if info['nch'] >= 2 or any(len(c['samples']) >= 2 for c in fs['channels']):
                ctx.nontrivial((cls, json.dumps(fs, sort_keys=True)))
        if i < 1:
            ctx.sample({'fault': variants[0][0], 'spec': variants[0][1], 'poi': variants[0][2]})
