"""C12 — the model configuration is a consistent partition and honours overrides.

Correspondence: every reported configuration quantity of pyhf.Model / Workspace.data vs the Lean model
(`mkConfig`, `createParamsets`, `parSlices`, suggestion lists, `auxData`, `workspaceData`).
Implementation-side oracles: tiling of parameter and channel slices, one entry per component in every suggestion
list, overrides verbatim, workspace data layout, build round trip, non-mutation of the caller's objects,
invariance under permutation of every list.
"""
import json, copy, random
import numpy as np
from harness import core, gen_spec, enga
from harness.core import fl, unfl
from harness.props.c02 import kinds_of

RULE = ('random well-formed specs × random admissible override sets × a random permutation of the channel, sample, modifier, '
        'measurement-parameter and observation lists; non-trivial = ≥3 parameter sets of ≥2 kinds with ≥1 override; distinct by spec hash')


def shuffled(rng, spec, obs):
    s = copy.deepcopy(spec); o = copy.deepcopy(obs)
    rng.shuffle(s['channels']); rng.shuffle(s['parameters']); rng.shuffle(o)
    for c in s['channels']:
        rng.shuffle(c['samples'])
        for sm in c['samples']:
            rng.shuffle(sm['modifiers'])
    return s, o


def make_ws(spec, obs, poi='mu'):
    return {'channels': spec['channels'], 'observations': obs, 'version': '1.0.0',
            'measurements': [{'name': 'meas', 'config': {'poi': poi, 'parameters': spec['parameters']}}]}


def report_twice(ctx, c, inp):
    """asking the configuration again gives the same answer (one entry per component every time), and the per-set reports keep their sizes"""
    first = {nm: copy.deepcopy(getattr(c, nm)()) for nm in ('suggested_init', 'suggested_bounds', 'suggested_fixed')}
    for rep in range(2):
        for nm in first:
            again = getattr(c, nm)()
            if len(again) != c.npars or [tuple(x) if isinstance(x, (list, tuple)) else x for x in again] != [tuple(x) if isinstance(x, (list, tuple)) else x for x in first[nm]]:
                ctx.fail(f'C12/report-changes-on-repeat/{nm}', f'{nm}() called again returns something else (call {rep + 2})', inp, again, first[nm]); return
    for n in c.par_order:
        ps = c.param_set(n)
        for nm in ('suggested_init', 'suggested_bounds', 'suggested_fixed'):
            if len(getattr(ps, nm)) != ps.n_parameters:
                ctx.fail(f'C12/paramset-report-size/{nm}', f'the parameter set\'s {nm} no longer has one entry per component after the configuration was queried', dict(inp, parameter=n), len(getattr(ps, nm)), ps.n_parameters); return


def run(ctx):
    import pyhf
    rng, lean = ctx.rng, ctx.lean
    pyhf.set_backend('numpy', precision='64b')
    nspec = ctx.n(150, 5000)
    # ---- models without a parameter of interest and with bin-wise modifiers only (the first parameter set is then a multi-component one)
    for i in range(ctx.n(12, 200)):
        spec, info = gen_spec.gen_spec(rng, want={'shapesys'} if i % 2 else {'staterror'}, avoid=set(gen_spec.SYS_POOL) | {'lumi', 'normfactor'})
        try:
            m = pyhf.Model(spec, poi_name=None)
        except Exception as e:  # noqa
            ctx.fail('C12/wf-spec-rejected', 'a well-formed generated spec (no POI) was rejected', {'spec': spec}, type(e).__name__); continue
        c = m.config; ctx.count(); inp = {'spec': spec, 'poi_name': None}
        ctx.tally('first_parameter_set', f'{c.param_set(c.par_order[0]).n_parameters}-component' if c.par_order else 'none')
        idx = []
        for n in c.par_order:
            sl = c.par_slice(n); idx += list(range(sl.start, sl.stop))
        if idx != list(range(c.npars)):
            ctx.fail('C12/par-slices-tile', 'parameter slices do not tile range(npars) in par_order', inp, idx, c.npars)
        for nm, lst in (('suggested_init', c.suggested_init()), ('suggested_bounds', c.suggested_bounds()), ('suggested_fixed', c.suggested_fixed()), ('par_names', c.par_names)):
            if len(lst) != c.npars:
                ctx.fail(f'C12/len-{nm}', f'{nm} does not have one entry per parameter component', inp, len(lst), c.npars)
        report_twice(ctx, c, inp)
        if c.poi_index is not None or c.poi_name is not None:
            ctx.fail('C12/poi-index', 'a model built without POI reports one', inp, [c.poi_name, c.poi_index], None)
    for i in range(nspec):
        spec0, info = gen_spec.gen_spec(rng, cross_channel_stat=True)
        err, m0 = enga.impl_model(pyhf, spec0, enga.impl_kwargs())
        if m0 is None:
            ctx.fail('C12/wf-spec-rejected', 'a well-formed generated spec was rejected', {'spec': spec0}, err); continue
        spec = gen_spec.add_overrides(rng, spec0, kinds_of(m0))
        frozen = copy.deepcopy(spec)
        try:
            m = pyhf.Model(spec, poi_name='mu')
        except Exception as e:  # noqa
            ctx.fail('C12/override-rejected', 'admissible overrides rejected', {'spec': spec}, type(e).__name__); continue
        if spec != frozen:
            ctx.fail('C12/mutation-model', 'pyhf.Model(spec) modified the caller\'s specification', {'spec': frozen}, spec)
        cfg = enga.impl_config(m)
        obs = [{'name': c, 'data': [float(rng.randint(0, 150)) for _ in range(m.config.channel_nbins[c])]} for c in m.config.channels]
        rng.shuffle(obs)
        merr, res = enga.model_call(lean, spec, enga.settings(), [{'q': 'config'}, {'q': 'ws_data', 'observations': [{'name': o['name'], 'data': fl(o['data'])} for o in obs]}])
        ctx.count()
        if merr is not None:
            ctx.disagree('build', {'spec': spec}, merr, None); continue
        mc = enga.model_config(res[0])
        for k in cfg:
            if k in ('auxdata',):
                ok = len(mc[k]) == len(cfg[k]) and np.allclose(mc[k], cfg[k], rtol=1e-12, atol=0)
            else:
                ok = mc[k] == cfg[k]
            if not ok:
                ctx.disagree(f'config.{k}', {'spec': spec}, mc[k], cfg[k])
        if not res[0]['wf']['paramsetsOK']:
            ctx.disagree('wf-hypothesis', {'spec': spec}, res[0]['wf'], True)
        inp = {'spec': spec}
        c = m.config
        # ---- oracle: partition
        idx = []
        for n in c.par_order:
            sl = c.par_slice(n); idx += list(range(sl.start, sl.stop))
        if idx != list(range(c.npars)):
            ctx.fail('C12/par-slices-tile', 'parameter slices do not tile range(npars) in par_order', inp, idx, c.npars)
        for nm, lst in (('suggested_init', c.suggested_init()), ('suggested_bounds', c.suggested_bounds()),
                        ('suggested_fixed', c.suggested_fixed()), ('par_names', c.par_names)):
            if len(lst) != c.npars:
                ctx.fail(f'C12/len-{nm}', f'{nm} does not have one entry per parameter component', inp, len(lst), c.npars)
        report_twice(ctx, c, inp)
        cidx = []
        for ch in c.channels:
            sl = c.channel_slices[ch]; cidx += list(range(sl.start, sl.stop))
            if sl.stop - sl.start != c.channel_nbins[ch]:
                ctx.fail('C12/channel-slice-size', 'channel slice size != channel_nbins', inp, [ch, sl.start, sl.stop], c.channel_nbins[ch])
        if cidx != list(range(c.nmaindata)):
            ctx.fail('C12/channel-slices-tile', 'channel slices do not tile the main data', inp, cidx, c.nmaindata)
        ncon = sum(c.param_set(n).n_parameters for n in c.auxdata_order)
        if c.nauxdata != ncon or len(c.auxdata) != ncon:
            ctx.fail('C12/auxdata-count', 'auxdata does not have one entry per constrained component', inp, c.nauxdata, ncon)
        if c.poi_index != c.par_slice('mu').start:
            ctx.fail('C12/poi-index', 'poi_index is not the start of the POI slice', inp, c.poi_index, c.par_slice('mu').start)
        # ---- every one-component parameter set can be the POI: its index is the start of its own slice; a multi-component one is refused
        for n in c.par_order:
            npar_n = c.param_set(n).n_parameters
            try:
                mq = pyhf.Model(spec, poi_name=n); errq = None
            except Exception as e:  # noqa
                mq = None; errq = type(e).__name__
            ctx.tally('poi_candidate', 'scalar' if npar_n == 1 else 'vector')
            if npar_n == 1:
                if mq is None:
                    ctx.fail('C12/poi-rejected', 'a one-component parameter was refused as POI', dict(inp, poi=n), errq); continue
                cq = mq.config
                if cq.poi_name != n or cq.poi_index != cq.par_slice(n).start or cq.par_names[cq.poi_index] not in (n, n + '[0]'):
                    ctx.fail('C12/poi-index', 'poi_index is not the position of the POI in the parameter vector', dict(inp, poi=n),
                             [cq.poi_name, cq.poi_index, cq.par_names[cq.poi_index]], [n, cq.par_slice(n).start])
                if n != 'mu' and c.param_set(n).n_parameters == 1 and rng.random() < 0.3:
                    merr_q, res_q = enga.model_call(lean, spec, enga.settings(poi=n), [{'q': 'config'}])
                    if merr_q is None and enga.model_config(res_q[0]).get('poi_index') != cq.poi_index:
                        ctx.disagree('config.poi_index', dict(inp, poi=n), enga.model_config(res_q[0]).get('poi_index'), cq.poi_index)
            elif mq is not None or errq != 'InvalidModel':
                ctx.fail('C12/poi-vector-accepted', 'a multi-component parameter set was not refused as POI with InvalidModel', dict(inp, poi=n), errq)
        # ---- oracle: overrides verbatim, defaults otherwise
        init, bounds, fixed = c.suggested_init(), c.suggested_bounds(), c.suggested_fixed()
        aux_pos = {}
        pos = 0
        for n in c.auxdata_order:
            aux_pos[n] = pos; pos += c.param_set(n).n_parameters
        for p in spec['parameters']:
            sl = c.par_slice(p['name'])
            if 'inits' in p and list(init[sl]) != list(p['inits']):
                ctx.fail('C12/override-inits', 'measurement inits do not appear verbatim', dict(inp, par=p['name']), init[sl], p['inits'])
            if 'bounds' in p and [list(b) for b in bounds[sl]] != [list(b) for b in p['bounds']]:
                ctx.fail('C12/override-bounds', 'measurement bounds do not appear verbatim', dict(inp, par=p['name']), bounds[sl], p['bounds'])
            if 'fixed' in p and list(fixed[sl]) != [p['fixed']] * (sl.stop - sl.start):
                ctx.fail('C12/override-fixed', 'measurement fixed flag does not appear verbatim', dict(inp, par=p['name']), fixed[sl], p['fixed'])
            if 'auxdata' in p and list(c.auxdata[aux_pos[p['name']]:aux_pos[p['name']] + len(p['auxdata'])]) != list(p['auxdata']):
                ctx.fail('C12/override-auxdata', 'measurement auxdata do not appear verbatim', dict(inp, par=p['name']), c.auxdata, p['auxdata'])
        # ---- workspace: data layout, non-mutation
        wsd = make_ws(spec, obs); wsd_frozen = copy.deepcopy(wsd)
        try:
            ws = pyhf.Workspace(wsd)
            mw = ws.model()
            d = ws.data(mw)
            d2 = ws.data(mw)
        except Exception as e:  # noqa
            ctx.fail('C12/workspace-exception', f'workspace path raised {type(e).__name__}', {'workspace': wsd}, str(e)[:200]); continue
        if wsd != wsd_frozen:
            ctx.fail('C12/mutation-workspace', 'Workspace/ws.model()/ws.data() modified the caller\'s specification', {'workspace': wsd_frozen}, wsd)
        if d != d2 or dict(ws.observations) != {o['name']: o['data'] for o in obs}:
            ctx.fail('C12/data-not-repeatable', 'Workspace.data is not repeatable / mutates stored observations', {'workspace': wsd}, d2, d)
        want = [x for ch in mw.config.channels for x in [o for o in obs if o['name'] == ch][0]['data']] + list(mw.config.auxdata)
        if list(d) != want:
            ctx.fail('C12/workspace-data-layout', 'Workspace.data does not follow channel order + auxdata', {'workspace': wsd}, d, want)
        # one workspace, a second measurement that moves the auxiliary data of the interpolated systematics: the data handed out for a model
        # carry *that model's* auxiliary data, whichever model was asked for first
        alt = [n for n in mw.config.auxdata_order if mw.config.param_set(n).n_parameters == 1 and mw.config.param_set(n).pdf_type == 'normal' and n != 'lumi']
        if alt:
            wsd2 = copy.deepcopy(wsd_frozen)
            keep = [q for q in wsd2['measurements'][0]['config']['parameters'] if q['name'] not in alt]
            wsd2['measurements'].append({'name': 'shifted', 'config': {'poi': wsd2['measurements'][0]['config']['poi'], 'parameters': keep + [{'name': n, 'auxdata': [0.25], 'inits': [0.25]} for n in alt]}})
            try:
                ws2m = pyhf.Workspace(wsd2)
                for order in (('meas', 'shifted'), ('shifted', 'meas')):
                    wsx = pyhf.Workspace(wsd2)
                    for mn in order:
                        mx = wsx.model(measurement_name=mn); dx = list(wsx.data(mx)); ctx.count()
                        if dx[mx.config.nmaindata:] != list(mx.config.auxdata):
                            ctx.fail('C12/workspace-data-layout', 'Workspace.data(model) does not end with that model\'s auxiliary data when several models are built on one workspace', {'workspace': wsd2, 'asked_in_order': list(order), 'measurement': mn}, dx[mx.config.nmaindata:], list(mx.config.auxdata))
            except (pyhf.exceptions.InvalidModel, pyhf.exceptions.InvalidSpecification):
                pass
        md = unfl(res[1])
        if len(md) != len(d) or not np.allclose(md, d, rtol=1e-12, atol=0):
            ctx.disagree('workspace.data', {'workspace': wsd}, md, list(d))
        if enga.impl_config(mw) != cfg:
            ctx.fail('C12/workspace-model-config', 'Workspace.model() config differs from Model(spec) config', {'workspace': wsd}, None, None)
        # ---- build round trip
        kinds = kinds_of(m)
        try:
            ws2 = pyhf.Workspace.build(m, d)
            m2 = ws2.model()
            same = enga.impl_config(m2) == cfg and list(ws2.data(m2)) == list(d)
            if not same:
                a, b = enga.impl_config(m2), cfg
                diff = [k for k in b if a[k] != b[k]]
                lost = any(k in p for p in spec['parameters'] for k in ('auxdata', 'sigmas', 'factors'))
                sig = 'C12/build-roundtrip-overrides-lost' if (lost and set(diff) <= {'auxdata'}) else 'C12/build-roundtrip'
                ctx.fail(sig, 'Workspace.build(model, data).model() does not reproduce the configuration/data', dict(inp, differing=diff), None, None)
        except Exception as e:  # noqa
            name = type(e).__name__
            if name == 'RuntimeError' and 'not compressible' in str(e):
                ctx.fail('C12/build-roundtrip-mixed-fixed', 'Workspace.build raises RuntimeError when a parameter set has mixed fixed flags (zero-uncertainty shapesys/staterror bin)', inp, str(e)[:120])
            elif name == 'TypeError' and any(t == 'lumi' for _, t in m.config.modifiers):
                ctx.fail('C12/build-roundtrip-lumi', 'Workspace.build drops the lumi auxdata/sigmas, the rebuilt workspace cannot build its model (TypeError)', inp, str(e)[:120])
            else:
                ctx.fail('C12/build-roundtrip-exception', f'Workspace.build round trip raised {name}', inp, str(e)[:200])
        # ---- permutation invariance
        sp, op = shuffled(rng, spec, obs)
        try:
            mp = pyhf.Model(sp, poi_name='mu')
            if enga.impl_config(mp) != cfg:
                a = enga.impl_config(mp)
                ctx.fail('C12/permutation-config', 'configuration depends on the listing order', {'spec': spec, 'permuted': sp}, [k for k in cfg if a[k] != cfg[k]])
            p = gen_spec.gen_pars(rng, cfg['init'], cfg['bounds'], cfg['par_names'])
            l1 = float(m.logpdf(p, d)[0]); l2 = float(mp.logpdf(p, pyhf.Workspace(make_ws(sp, op)).data(mp))[0])
            if not (l1 == l2 or abs(l1 - l2) <= 1e-9 * (1 + abs(l1)) or (np.isnan(l1) and np.isnan(l2))):
                ctx.fail('C12/permutation-logpdf', 'log-density depends on the listing order', {'spec': spec, 'permuted': sp, 'pars': p}, l2, l1)
        except Exception as e:  # noqa
            ctx.fail('C12/permutation-exception', f'permuted spec raised {type(e).__name__}', {'spec': spec, 'permuted': sp}, str(e)[:200])
        ctx.count(4)
        nk = {t for _, (n, t) in kinds.items()}
        if len(c.par_order) >= 3 and len(nk) >= 2 and len(spec['parameters']) >= 1:
            ctx.nontrivial(json.dumps(spec, sort_keys=True))
        ctx.tally('n_paramsets', len(c.par_order)); ctx.tally('n_overrides', len(spec['parameters']))
        if i < 2:
            ctx.sample({'spec': spec, 'config': {k: cfg[k] for k in ('par_order', 'par_slices', 'auxdata_order', 'channel_slices')}})
