"""C05 — maximum-likelihood fits return a feasible, honest, optimal point.

Correspondence: the plumbing around the external minimiser — `fixed_poi_fit`'s forced POI, `fixed_vals`, the
fixed/variable index lists, the stitch function and zero uncertainties of `optimize.common.shim` /
`OptimizerMixin` — vs the Lean `fixedPoiInputs`, `fixedVals`, `variableIdx`, `stitchPars`, `stitchUncertainties`.
Runtime monitor (the optimiser is external): on reported success, bounds respected, fixed parameters and POI
bit-equal to the supplied values, fun == twice_nll(pars), closed-form optimum attained, and the attained objective
agrees across stitch / grad / optimiser / backend within tolerance and is not beaten by sampled feasible points.
"""
import copy, math
import numpy as np
from harness.core import f2b, b2f, fl, unfl
from harness import counting, gen_spec, enga, kkt

RULE = ('random models × fixed masks × POI values for the plumbing (exact); fits on single/multi-bin counting models and random '
        'generated models × datasets (Poisson-fluctuated, zero counts, Asimov) × {scipy, minuit} × backends × do_grad × do_stitch; '
        'non-trivial = ≥1 fixed and ≥2 free parameters; distinct by (model, data, mask, configuration)')


def run(ctx):
    import pyhf
    import importlib
    common = importlib.import_module('pyhf.optimize.common')
    rng, lean = ctx.rng, ctx.lean
    pyhf.set_backend('numpy', 'scipy')
    # ---------------- plumbing
    for i in range(ctx.n(150, 4000)):
        spec, info = gen_spec.gen_spec(rng, max_channels=2, max_samples=2, max_bins=3)
        m = pyhf.Model(spec, poi_name='mu')
        init = m.config.suggested_init(); bounds = m.config.suggested_bounds()
        fixed = [rng.random() < 0.3 for _ in init]
        poi = m.config.poi_index; poi_val = rng.choice([0.0, 1.0, rng.uniform(0, 5)])
        seen = {}
        import pyhf.infer.mle as mle
        orig = mle.fit
        def spy(data, pdf, init_pars=None, par_bounds=None, fixed_params=None, **kw):
            seen['init'] = list(init_pars); seen['fixed'] = list(fixed_params)
            return None
        mle.fit = spy
        try:
            init_before, fixed_before = list(init), list(fixed)
            mle.fixed_poi_fit(poi_val, [1.0], m, init, bounds, fixed)
        finally:
            mle.fit = orig
        if init != init_before or fixed != fixed_before:
            ctx.fail('C05/mutation', 'fixed_poi_fit modified the caller\'s init/fixed lists', {'spec': spec})
        fixed_vals = [(k, v) for k, (v, f) in enumerate(zip(seen['init'], seen['fixed'])) if f]
        data = list(np.asarray(m.expected_data(np.asarray(init))))
        kw, stitch = common.shim(mle.twice_nll, data, m, seen['init'], bounds, fixed_vals, do_grad=False, do_stitch=True)
        free = [rng.uniform(0.5, 1.5) for _ in kw['x0']]
        stitched = [float(x) for x in np.asarray(stitch(pyhf.tensorlib.astensor(free)))]
        rep = lean.ok({'op': 'fitplumb', 'init': fl(init), 'bounds': [fl(list(b)) for b in bounds], 'fixed': fixed,
                       'poi': poi, 'poi_val': f2b(poi_val), 'free': fl(free)})
        ctx.count()
        inp = {'spec': spec, 'fixed': fixed, 'poi_val': poi_val}
        if seen['init'] != unfl(rep['init']) or seen['fixed'] != rep['fixed']:
            ctx.disagree('fixed_poi_fit.inputs', inp, [unfl(rep['init']), rep['fixed']], [seen['init'], seen['fixed']])
        if [k for k, _ in fixed_vals] != rep['fixed_idx'] or [v for _, v in fixed_vals] != unfl(rep['fixed_values']):
            ctx.disagree('fixed_vals', inp, [rep['fixed_idx'], unfl(rep['fixed_values'])], fixed_vals)
        if stitched != unfl(rep['stitched']) or len(kw['x0']) != len(rep['variable_idx']):
            ctx.disagree('stitch', inp, unfl(rep['stitched']), stitched)
        # oracle: stitched vector holds fixed values exactly at the fixed positions, free values in order elsewhere
        want = list(seen['init']); it = iter(free)
        want = [v if f else next(it) for v, f in zip(seen['init'], seen['fixed'])]
        if stitched != want:
            ctx.fail('C05/stitch', 'stitched parameters are not (fixed values at fixed positions, free values elsewhere)', inp, stitched, want)
        if sum(seen['fixed']) >= 1 and len(free) >= 2: ctx.nontrivial((str(spec), tuple(fixed), poi_val))
    # ---------------- real fits (monitor)
    configs = [('numpy', 'scipy', False, False), ('numpy', 'scipy', False, True), ('numpy', 'minuit', False, False), ('numpy', 'minuit', False, True),
               ('pytorch', 'scipy', True, True), ('jax', 'scipy', True, False), ('tensorflow', 'scipy', True, True), ('pytorch', 'minuit', True, False)]
    jax_stitch = ('jax', 'scipy', True, True)      # the jitted objective stitches fixed parameters inside the trace (opt_jax)
    configs.append(jax_stitch)
    if not ctx.thorough:
        configs = configs[:4] + [configs[4 + ctx.seed % 4]]
    nfit = ctx.n(24, 280)
    for i in range(nfit):
        kind = rng.choice(['single', 'multi', 'generated', 'shapesys']) if i >= 4 else 'shapesys'   # the first four cases are directed: values on bounds
        if kind == 'single':
            s, b = rng.choice([5.0, 10.0]), rng.choice([20.0, 60.0]); spec = counting.single_bin_spec(s, b)
        elif kind == 'multi':
            ss = [rng.uniform(2, 10) for _ in range(3)]; bs = [rng.uniform(20, 80) for _ in range(3)]; spec = counting.multi_bin_spec(ss, bs)
        elif kind == 'shapesys':
            spec = None
        else:
            spec, _ = gen_spec.gen_spec(rng, max_channels=2, max_samples=2, max_bins=2, simple=True)
        pyhf.set_backend('numpy', 'scipy')
        m = pyhf.simplemodels.uncorrelated_background([rng.uniform(3, 10), rng.uniform(3, 10)], [50.0, 60.0], [5.0, 7.0]) if spec is None else pyhf.Model(spec, poi_name='mu')
        init = list(m.config.suggested_init()); bounds = m.config.suggested_bounds(); fixed = list(m.config.suggested_fixed())
        # caller-supplied settings: sometimes hold one nuisance parameter constant, at its start value or exactly on a bound
        custom = (rng.random() < 0.4 or i in (2, 3)) and len(init) >= 3
        if custom:
            k = rng.choice([j for j in range(len(init)) if j != m.config.poi_index])
            lo_k, hi_k = bounds[k]
            fixed[k] = True; init[k] = rng.choice([init[k], hi_k] + ([lo_k] if lo_k < 0 else [])) if i >= 4 else hi_k
        fkw = {'init_pars': init, 'fixed_params': fixed} if custom else {}
        exp = np.asarray(m.expected_actualdata(np.asarray(init)))
        r = rng.random()
        main = [float(x) for x in (np.random.RandomState(rng.randrange(2**31)).poisson(exp) if r < 0.6 else (exp if r < 0.8 else np.where(np.arange(len(exp)) == 0, 0.0, np.round(exp))))]
        data = main + m.config.auxdata
        mode = rng.choice(['free', 'fixed_poi'])
        poi_val = rng.choice([0.0, 0.0, 1.0, 2.5, float(bounds[m.config.poi_index][1])])   # incl. both POI bounds
        if i < 4: mode = 'fixed_poi' if i != 3 else 'free'; poi_val = [0.0, float(bounds[m.config.poi_index][1]), 0.0, 1.0][i]
        results = []
        for (bk, opt, grad, stitch) in configs + ([jax_stitch] if not ctx.thorough and (i < 4 or i % 4 == 0) else []):
            pyhf.set_backend(bk, pyhf.optimize.minuit_optimizer(tolerance=1e-3) if opt == 'minuit' else pyhf.optimize.scipy_optimizer(tolerance=1e-10))
            tl = pyhf.tensorlib
            inp = {'model': kind, 'spec': spec, 'data': data, 'mode': mode, 'poi_val': poi_val, 'config': [bk, opt, grad, stitch], 'settings': fkw}
            try:
                if mode == 'free':
                    pars, fun = pyhf.infer.mle.fit(data, m, return_fitted_val=True, do_grad=grad, do_stitch=stitch, **fkw)
                else:
                    pars, fun = pyhf.infer.mle.fixed_poi_fit(poi_val, data, m, return_fitted_val=True, do_grad=grad, do_stitch=stitch, **fkw)
            except Exception as e:  # noqa
                nfree = sum(1 for k, f in enumerate(fixed) if not f and not (mode == 'fixed_poi' and k == m.config.poi_index))
                if nfree == 0 and (stitch or opt == 'minuit'):
                    ctx.fail('C05/no-free-parameter', 'a fit with every parameter fixed raises instead of returning the fixed point (scipy with do_stitch=True, minuit)', inp, f'{type(e).__name__}: {str(e)[:120]}')
                elif kind in ('single', 'multi'):
                    ctx.fail('C05/closed-form-fit-failed', f'fit failed ({type(e).__name__}) on a model with closed-form optimum', inp, str(e)[:200])
                continue
            ctx.count()
            pars = np.asarray(tl.tolist(pars), dtype=float); fun = float(np.asarray(tl.tolist(fun)))
            for k, (v, (lo, hi)) in enumerate(zip(pars, bounds)):
                if not (lo - 1e-9 <= v <= hi + 1e-9):
                    ctx.fail('C05/bounds', 'fitted parameter outside its bounds', dict(inp, index=k), float(v), [lo, hi])
            for k, f in enumerate(fixed):
                if f and pars[k] != init[k]:
                    ctx.fail('C05/fixed-exact', 'a parameter flagged fixed moved from its supplied value', dict(inp, index=k), float(pars[k]), init[k])
            if mode == 'fixed_poi' and pars[m.config.poi_index] != poi_val:
                ctx.fail('C05/poi-exact', 'fixed-POI fit did not hold the POI exactly at the supplied value', inp, float(pars[m.config.poi_index]), poi_val)
            pyhf.set_backend('numpy')
            ref = float(pyhf.infer.mle.twice_nll(pars, data, m)[0])
            if abs(fun - ref) > 1e-8 * (1 + abs(ref)):
                ctx.fail('C05/honest-objective', 'reported objective is not twice_nll at the returned parameters', inp, fun, ref)
            results.append((fun, bk, opt, grad, stitch))
            # ---- optimality certificate (theorem kkt_certificate) for the affine-rate family
            if bk == 'numpy' and not stitch:
                sp = spec if spec is not None else m.spec
                fmask = [f or (mode == 'fixed_poi' and k == m.config.poi_index) for k, f in enumerate(fixed)]
                try:
                    cert = kkt.certificate(pyhf, m, sp, data, pars, fmask, bounds)
                except Exception as e:  # noqa — a failure of the certificate machinery is not a property violation
                    cert = None; ctx.tally('kkt', 'error:' + type(e).__name__)
                if cert is None:
                    ctx.tally('kkt', 'not-applicable')
                elif cert['eps'] * cert['width'] > 1e-6 * (1 + abs(fun)):
                    ctx.tally('kkt', 'weak-certificate')
                else:
                    ctx.tally('kkt', 'certified'); ctx.count()
                    if cert['const_mismatch'] is not None and cert['const_mismatch'] > 1e-7 * (1 + abs(fun)):
                        ctx.disagree('kkt.objective-constant', inp, 0.0, cert['const_mismatch'], 'pyhf twice_nll minus the affine-model formula is not constant between the fitted and the polished point')
                    gap = fun - cert['lower']
                    tol = (2e-3 if opt == 'minuit' else 1e-5) * (1 + abs(fun))
                    if gap > tol:
                        ctx.fail('C05/kkt-gap', 'the reported objective exceeds the certified lower bound on the global constrained minimum by more than the optimiser tolerance',
                                 dict(inp, polished=cert['polished'], eps=cert['eps']), fun, cert['lower'])
                    ctx.track('kkt_gap_' + opt, gap / (1 + abs(fun))) if hasattr(ctx, 'track') else None
            if kind == 'single':
                mh = counting.muhat_1(main[0], s, b) if mode == 'free' else poi_val
                want = counting.two_nll_1(main[0], mh * s + b) + 2 * math.lgamma(main[0] + 1)
                if abs(fun - want) > 1e-5 * (1 + abs(want)):
                    ctx.fail('C05/closed-form-optimum', 'fit does not attain the closed-form optimum', inp, fun, want)
        if results:
            best = min(r[0] for r in results)
            for r in results:
                tol = (2e-3 if r[2] == 'minuit' else 1e-5) * (1 + abs(best))
                if r[0] - best > tol:
                    ctx.fail('C05/configuration-dependence', 'attained objective depends on stitch/grad/optimiser/backend beyond tolerance',
                             {'model': kind, 'spec': spec, 'data': data, 'mode': mode, 'poi_val': poi_val, 'config': list(r[1:])}, r[0], best)
            # random feasible points must not beat the reported optimum
            pyhf.set_backend('numpy')
            for _ in range(20):
                p = [x if f else rng.uniform(max(lo, x - 0.5), min(hi, x + 0.5)) for x, f, (lo, hi) in zip(init, fixed, bounds)]
                if mode == 'fixed_poi': p[m.config.poi_index] = poi_val
                v = float(pyhf.infer.mle.twice_nll(np.asarray(p), data, m)[0])
                if math.isfinite(v) and v < best - 2e-3 * (1 + abs(best)):
                    ctx.fail('C05/not-optimal', 'a sampled feasible point has a lower objective than every fit', {'model': kind, 'spec': spec, 'data': data, 'mode': mode}, v, best)
        if i < 1: ctx.sample({'fit_case': {'model': kind, 'data': data, 'mode': mode}, 'objectives': results})
    pyhf.set_backend('numpy', 'scipy')
    # ---------------- directed: fixed sets whose fixed/variable index permutation is not its own inverse, on every stitching path
    masks4 = [[False, False, True, False], [False, True, False, True], [False, False, False, True], [True, False, True, False]]
    for j, mask in enumerate(masks4 if ctx.thorough else masks4[(ctx.seed % 2)::2]):
        pyhf.set_backend('numpy', 'scipy')
        m = pyhf.simplemodels.uncorrelated_background([6.0, 9.0, 4.0], [50.0, 60.0, 40.0], [5.0, 7.0, 6.0])
        init = [1.0, 1.02, 0.97, 1.01]; bounds = m.config.suggested_bounds()
        data = [58.0, 66.0, 41.0] + m.config.auxdata
        ref = None
        for (bk, opt, grad, stitch) in [('numpy', 'scipy', False, False), ('numpy', 'scipy', False, True), ('numpy', 'minuit', False, True), jax_stitch, ('pytorch', 'scipy', True, True)]:
            pyhf.set_backend(bk, pyhf.optimize.minuit_optimizer(tolerance=1e-3) if opt == 'minuit' else pyhf.optimize.scipy_optimizer(tolerance=1e-10))
            tl = pyhf.tensorlib
            inp = {'model': 'uncorrelated_background(3 bins)', 'data': data, 'init': init, 'fixed': mask, 'config': [bk, opt, grad, stitch]}
            try:
                pars, fun = pyhf.infer.mle.fit(data, m, init_pars=init, fixed_params=mask, return_fitted_val=True, do_grad=grad, do_stitch=stitch)
            except Exception as e:  # noqa
                ctx.fail('C05/closed-form-fit-failed', f'fit failed ({type(e).__name__}) on a well-posed model', inp, str(e)[:200]); continue
            ctx.count(); ctx.tally('directed_fixed_mask', str(mask))
            pars = np.asarray(tl.tolist(pars), dtype=float); fun = float(np.asarray(tl.tolist(fun)))
            pyhf.set_backend('numpy')
            tw = float(pyhf.infer.mle.twice_nll(pars, data, m)[0])
            if abs(fun - tw) > 1e-8 * (1 + abs(tw)):
                ctx.fail('C05/honest-objective', 'reported objective is not twice_nll at the returned parameters', inp, fun, tw)
            if any(f and pars[k] != init[k] for k, f in enumerate(mask)):
                ctx.fail('C05/fixed-exact', 'a parameter flagged fixed moved from its supplied value', inp, pars.tolist(), init)
            if ref is None: ref = fun
            elif abs(fun - ref) > (2e-3 if opt == 'minuit' else 1e-5) * (1 + abs(ref)):
                ctx.fail('C05/configuration-dependence', 'attained objective depends on stitch/grad/optimiser/backend beyond tolerance', inp, fun, ref)
    # ---------------- the reported objective belongs to the returned point also when MIGRAD runs at strategy 0 (per-call `strategy=0`; what the
    # autodiff backends get by default) and with the result object requested: fun = result.fun = twice_nll(returned parameters)
    for h in range(ctx.n(16, 200)):
        spec, _ = gen_spec.gen_spec(rng, max_channels=2, max_samples=3, max_bins=3)
        pyhf.set_backend('numpy', pyhf.optimize.minuit_optimizer())
        try:
            m = pyhf.Model(spec, poi_name='mu')
        except Exception:  # noqa
            continue
        init = m.config.suggested_init()
        exp = np.asarray(m.expected_actualdata(np.asarray(init)))
        data = [float(x) for x in np.random.RandomState(rng.randrange(2**31)).poisson(exp)] + m.config.auxdata
        for mode in ('free', 'fixed_poi'):
            kw = rng.choice([{'strategy': 0}, {'strategy': 0, 'tolerance': 0.01}, {'strategy': 2}])
            try:
                if mode == 'free': pars, fun, res = pyhf.infer.mle.fit(data, m, return_fitted_val=True, return_result_obj=True, **kw)
                else: pars, fun, res = pyhf.infer.mle.fixed_poi_fit(1.0, data, m, return_fitted_val=True, return_result_obj=True, **kw)
            except Exception:  # noqa — failure to converge is not the subject here
                ctx.tally('strategy_fit', 'failed'); continue
            ctx.count(); ctx.tally('strategy_fit', f"strategy {kw['strategy']}")
            ref = float(pyhf.infer.mle.twice_nll(np.asarray(pars), data, m)[0])
            inp = {'spec': spec, 'data': data, 'mode': mode, 'options': kw}
            if abs(float(fun) - ref) > 1e-8 * (1 + abs(ref)) or abs(float(res.fun) - ref) > 1e-8 * (1 + abs(ref)):
                ctx.fail('C05/honest-objective', 'reported objective (fun / result.fun) is not twice_nll at the returned parameters', inp, [float(fun), float(res.fun)], ref)
    pyhf.set_backend('numpy', 'scipy')
    # ---------------- directed: whose flags decide what a fit holds constant?  on/off models (closed forms proved in C08_OnOff.lean) whose
    # measurement declares the background normalisation constant; the caller's explicit flags are used as given — an all-False mask frees
    # it (free optimum: both counts reproduced; conditional optimum: k-hat(mu)), a mask holding it keeps it at its starting value
    for h in range(ctx.n(8, 120)):
        s_ = rng.choice([5.0, 8.0, 12.0]); b_ = rng.choice([30.0, 50.0, 80.0]); tau = rng.choice([1.0, 2.0])
        kt = rng.choice([0.8, 1.2, 1.4]); mt = rng.choice([0.5, 1.0, 2.0])
        m_ = float(round(kt * tau * b_)); n_ = float(round(mt * s_ + kt * b_))
        for optname in ('scipy', 'minuit'):
            pyhf.set_backend('numpy', pyhf.optimize.scipy_optimizer(tolerance=1e-10) if optname == 'scipy' else pyhf.optimize.minuit_optimizer(tolerance=1e-4))
            spec = counting.onoff_spec(s_, b_, tau, k_fixed=True)
            m = pyhf.Model(spec, poi_name='mu')
            ik = m.config.par_order.index('k_bkg'); ip = m.config.poi_index
            data = [m_, n_]
            for what in ('fit/all-false', 'fixed_poi_fit/all-false', 'fit/declared', 'fit/caller-holds'):
                inp = {'spec': spec, 'data': data, 'optimizer': optname, 'call': what}
                try:
                    if what == 'fit/all-false':
                        pars, fun = pyhf.infer.mle.fit(data, m, fixed_params=[False, False], return_fitted_val=True)
                        kh = m_ / (tau * b_); want = counting.onoff_two_nll((n_ - kh * b_) / s_, kh, n_, m_, s_, b_, tau)
                    elif what == 'fixed_poi_fit/all-false':
                        pars, fun = pyhf.infer.mle.fixed_poi_fit(1.0, data, m, fixed_params=[False, False], return_fitted_val=True)
                        want = counting.onoff_two_nll(1.0, counting.onoff_khat(1.0, n_, m_, s_, b_, tau), n_, m_, s_, b_, tau)
                    elif what == 'fit/declared':
                        pars, fun = pyhf.infer.mle.fit(data, m, return_fitted_val=True)
                        mh = counting.muhat_multi([m_, n_], [0.0, s_], [tau * b_, b_]); want = counting.onoff_two_nll(mh, 1.0, n_, m_, s_, b_, tau)
                    else:
                        m2 = pyhf.Model(counting.onoff_spec(s_, b_, tau), poi_name='mu')
                        pars, fun = pyhf.infer.mle.fit(data, m2, fixed_params=[k == ik for k in range(2)], return_fitted_val=True)
                        mh = counting.muhat_multi([m_, n_], [0.0, s_], [tau * b_, b_]); want = counting.onoff_two_nll(mh, 1.0, n_, m_, s_, b_, tau)
                except Exception as e:  # noqa
                    ctx.fail('C05/closed-form-fit-failed', f'fit failed ({type(e).__name__}) on an on/off model', inp, str(e)[:200]); continue
                ctx.count(); ctx.tally('onoff_fit', what)
                # pyhf's objective keeps the data-only constants: compare differences to the saturated point instead of absolute values
                const = float(fun) - counting.onoff_two_nll(float(pars[ip]), float(pars[ik]), n_, m_, s_, b_, tau)
                got = float(fun) - const
                if abs(got - want) > 1e-4 * (1 + abs(want)):
                    ctx.fail('C05/onoff-optimum', 'a fit does not attain the closed-form optimum over exactly the parameters the call leaves free', inp, got, want)
    # ---------------- histories: a fit must not depend on the options of earlier fits on the same optimiser object (per-call solver
    # options, tolerances, iteration limits are per call); compared with the same fit on a fresh optimiser
    for h in range(ctx.n(6, 60)):
        spec, _ = gen_spec.gen_spec(rng, max_channels=2, max_samples=2, max_bins=2, simple=True)
        pyhf.set_backend('numpy', 'scipy')
        try:
            m = pyhf.Model(spec, poi_name='mu')
        except Exception:  # noqa
            continue
        init = m.config.suggested_init(); bounds = m.config.suggested_bounds(); fixed = m.config.suggested_fixed()
        data = [float(max(0.0, round(x + rng.uniform(-1, 1) * (x ** 0.5)))) for x in m.expected_actualdata(np.asarray(init))] + m.config.auxdata
        for optname, loose in (('scipy', [{'solver_options': {'ftol': 0.5}}, {'maxiter': 1}, {'tolerance': 10.0}]), ('minuit', [{'tolerance': 50.0}, {'maxiter': 1}, {'strategy': 0}])):
            mk = (lambda: pyhf.optimize.scipy_optimizer()) if optname == 'scipy' else (lambda: pyhf.optimize.minuit_optimizer())
            try:
                pyhf.set_backend('numpy', mk())
                fresh = float(pyhf.infer.mle.fit(data, m, init, bounds, fixed, return_fitted_val=True)[1])
            except Exception:  # noqa
                continue
            pyhf.set_backend('numpy', mk())
            kw = rng.choice(loose)
            try:
                pyhf.infer.mle.fit(data, m, init, bounds, fixed, **kw)
            except Exception:  # noqa — a fit that is cut short may report failure; what matters is the next one
                pass
            try:
                after = float(pyhf.infer.mle.fit(data, m, init, bounds, fixed, return_fitted_val=True)[1])
            except Exception as e:  # noqa
                ctx.fail('C05/history-dependence', f'a default fit raises {type(e).__name__} after an earlier fit with per-call options on the same optimiser', {'spec': spec, 'data': data, 'optimizer': optname, 'earlier_options': kw}, str(e)[:150]); continue
            ctx.count(); ctx.tally('history_fit', optname)
            if abs(after - fresh) > (2e-3 if optname == 'minuit' else 1e-6) * (1 + abs(fresh)):
                ctx.fail('C05/history-dependence', 'the objective a default fit attains depends on the per-call options of an earlier fit on the same optimiser object',
                         {'spec': spec, 'data': data, 'optimizer': optname, 'earlier_options': kw}, after, fresh)
    pyhf.set_backend('numpy', 'scipy')
