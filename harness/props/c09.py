"""C09 — upper limits solve CLs(μ) = level at the requested level.

Correspondence: `linear_grid_scan` with `hypotest` stubbed by synthetic decreasing CLs curves vs the Lean `gridLimit`
(numpy.interp on the reversed curve) for the observed and the five expected curves, and the threshold reaching the scan
routine in both modes of `upper_limit` vs `upperLimitLevel`.
Implementation-side oracle: |CLs(limit) − level| within tolerance (root mode) / limit inside the crossing cell and on the
chord (grid mode) for the caller's level; ordering of expected limits; returned results = hypotest at the scan points;
forwarded hypotest options; real models end-to-end.
"""
import math
import numpy as np
from harness.core import f2b, b2f, fl, unfl, close
from harness import counting

RULE = ('synthetic decreasing CLs curves (random decay, ordered expected band) × levels in (0.001, 0.5) × grids of random '
        'spacing/range bracketing the crossing × {grid, automatic} × forwarded options; real counting models; '
        'non-trivial = level ≠ 0.05; distinct by (curve, level, grid)')


def make_curves(rng):
    a = rng.uniform(0.4, 3.0); p = rng.choice([1.0, 1.5, 2.0])
    shifts = sorted(rng.uniform(0.5, 2.0) for _ in range(5))   # −2σ … +2σ: larger CLs for +σ
    # a third of the curves live on a lattice k / ntoys with a floor at exactly 0 (what toy-based p-values and underflowing asymptotic
    # ones look like): non-increasing with exact ties — plateaus — on either side of the crossing.  ntoys is prime to the levels used, so
    # no lattice value equals a requested level
    lattice = rng.choice([None, None, 37, 53, 211])
    def q(x):
        if lattice is None: return x
        return 0.0 if x < 2.0 / lattice else math.floor(x * lattice) / lattice
    on = [True]                                                  # the fixed-scan mode interpolates (ties matter); root finding needs a continuous curve
    def obs(mu): return q(math.exp(-a * mu ** p)) if on[0] else math.exp(-a * mu ** p)
    def band(mu): return [(q(math.exp(-a * (mu / s) ** p)) if on[0] else math.exp(-a * (mu / s) ** p)) for s in shifts]
    return obs, band, dict(a=a, p=p, shifts=shifts, lattice=lattice, _switch=on)


def run(ctx):
    import pyhf
    import pyhf.infer.intervals.upper_limits as ul
    rng, lean = ctx.rng, ctx.lean
    pyhf.set_backend('numpy', precision='64b')
    model = pyhf.simplemodels.uncorrelated_background([6.0], [9.0], [3.0])
    data = [9.0] + model.config.auxdata
    orig = ul.hypotest
    calls = []
    try:
        for i in range(ctx.n(300, 8000)):
            obs, band, desc = make_curves(rng)
            lattice_on = desc.pop('_switch')
            level = rng.choice([0.05, 0.1, 0.2, 0.32, 0.01, rng.uniform(0.001, 0.5)])
            def stub(poi, d, m, return_expected_set=False, **kw):
                calls.append((float(poi), dict(kw)))
                tb = pyhf.tensorlib
                return tb.astensor(obs(float(poi))), [tb.astensor(x) for x in band(float(poi))]
            ul.hypotest = stub
            # ---- grid mode
            n = rng.randint(4, 25)
            pts = sorted(set([0.0] + [rng.uniform(0.01, 12.0) for _ in range(n)]))
            scan = np.asarray(pts)
            curves = [[obs(m)] + band(m) for m in pts]
            cols = [[c[k] for c in curves] for k in range(6)]
            if not all(min(col) < level < max(col) for col in cols):
                continue
            # every option hypotest accepts besides the return_* flags must reach it unchanged, in both scan modes
            sb = [tuple(b) for b in model.config.suggested_bounds()]
            kw = rng.choice([{}, {'test_stat': 'q'}, {'test_stat': 'qtilde', 'calctype': 'asymptotics'},
                             {'par_bounds': [(lo, hi * 0.5 + 0.5 * lo) for lo, hi in sb]},
                             {'init_pars': [x * 1.01 for x in model.config.suggested_init()], 'test_stat': 'q'},
                             {'fixed_params': [False] * len(sb), 'par_bounds': sb, 'calctype': 'asymptotics'}])
            calls.clear()
            o, e, (sc, results) = ul.upper_limit(data, model, scan=scan, level=level, return_results=True, **kw)
            got = [float(o)] + [float(x) for x in e]
            rep = lean.ok({'op': 'gridlimit', 'level': f2b(level), 'scan': fl(pts), 'curves': [fl(c) for c in cols]})
            ctx.count()
            inp = {'curve': desc, 'level': level, 'scan': pts, 'kwargs': kw}
            if not close(got, unfl(rep), 1e-12, 1e-14):
                ctx.disagree('linear_grid_scan.limits', inp, unfl(rep), got)
            for k in range(6):
                col = cols[k]
                j = [t for t in range(len(pts) - 1) if col[t] >= level > col[t + 1]]
                if not j:
                    continue
                j = j[-1]
                if not (pts[j] - 1e-12 <= got[k] <= pts[j + 1] + 1e-12):
                    ctx.fail('C09/grid-cell', 'grid limit is not inside the cell where the curve crosses the requested level', dict(inp, curve_index=k), got[k], [pts[j], pts[j + 1]])
                chord = col[j] + (got[k] - pts[j]) * (col[j + 1] - col[j]) / (pts[j + 1] - pts[j])
                if abs(chord - level) > 1e-9:
                    ctx.fail('C09/grid-level', 'the chord value at the grid limit is not the requested level', dict(inp, curve_index=k), chord, level)
            if any(got[k] > got[k + 1] + 1e-12 for k in range(1, 5)):
                ctx.fail('C09/expected-order', 'expected limits not ordered from -2 to +2 sigma', inp, got[1:])
            if [c[0] for c in calls] != pts or any(c[1] != kw for c in calls):
                ctx.fail('C09/grid-forwarding', 'hypotest not called once per scan point with the forwarded options', inp, calls[:3], kw)
            if len(results) != len(pts) or any(float(r[0]) != obs(m) for r, m in zip(results, pts)):
                ctx.fail('C09/returned-results', 'returned per-point results are not the hypotest results at the scan points', inp)
            # ---- the per-point results are reported next to the scan points they belong to, in whatever order the caller listed the points
            # (a coarse grid with refinement points appended); only this clause is checked on such a list, not the limits
            if i % 4 == 0:
                shuffled_pts = list(pts); rng.shuffle(shuffled_pts)
                calls.clear()
                _o, _e, (sc2, res2) = ul.upper_limit(data, model, scan=np.asarray(shuffled_pts), level=level, return_results=True)
                ctx.count()
                if len(sc2) != len(res2) or any(float(r[0]) != obs(float(m_)) or [float(x) for x in r[1]] != band(float(m_)) for r, m_ in zip(res2, sc2)):
                    ctx.fail('C09/returned-results', 'the per-point results are not the hypothesis-test results at the reported scan points (scan points listed out of order)', dict(inp, scan=shuffled_pts))
            # ---- automatic mode
            lattice_on[0] = False
            calls.clear()
            o, e, (poivals, res2) = ul.upper_limit(data, model, level=level, return_results=True, **kw)
            ctx.count()
            lims = [float(o)] + [float(x) for x in e]
            used_level = b2f(f2b(level))   # model: upperLimitLevel level false = level
            vals = [obs(lims[0])] + [band(lims[k])[k - 1] for k in range(1, 6)]
            for k, v in enumerate(vals):
                if abs(v - used_level) > 2e-3 * max(used_level, 1e-3) + 1e-6:
                    ctx.fail('C09/root-level', 'CLs at the automatic-scan limit is not the requested level', dict(inp, curve_index=k), v, level)
            if any(lims[k] > lims[k + 1] + 1e-9 for k in range(1, 5)):
                ctx.fail('C09/expected-order', 'expected limits not ordered from -2 to +2 sigma', inp, lims[1:])
            if any(c[1] != kw for c in calls):
                ctx.fail('C09/auto-forwarding', 'hypotest options not forwarded in the automatic scan', inp, calls[:2], kw)
            if sorted(poivals) != sorted(set(c[0] for c in calls)):
                ctx.fail('C09/returned-results', 'returned scan points are not the evaluated points', inp)
            for pv, rr in zip(poivals, res2):
                want = [obs(float(pv))] + band(float(pv))
                gotr = [float(rr[0])] + [float(x) for x in rr[1]]
                if gotr != want:
                    ctx.fail('C09/returned-results', 'the result reported for a scan point is not the hypothesis-test result at that point', dict(inp, point=float(pv)), gotr, want)
                    break
            if len(poivals) != len(res2):
                ctx.fail('C09/returned-results', 'scan points and results differ in number', inp, len(res2), len(poivals))
            if level != 0.05: ctx.nontrivial((desc['a'], desc['p'], level, tuple(pts)))
            ctx.tally('level', 'default' if level == 0.05 else ('<0.05' if level < 0.05 else '>0.05'))
            if i < 2: ctx.sample({'curve': desc, 'level': level, 'grid_limits': got, 'auto_limits': lims})
        # ---- automatic mode with a caller-supplied *relative* tolerance on limits far below 1 (strong signals): the root must be accurate
        # relative to its own size — a loose rtol is a loose relative tolerance, not an absolute one of that size
        for j in range(ctx.n(24, 400)):
            a = rng.choice([100.0, 300.0, 1000.0]) * rng.uniform(0.5, 2.0); p_ = rng.choice([1.0, 1.5])
            shifts = sorted(rng.uniform(0.5, 2.0) for _ in range(5))
            obs = lambda mu: math.exp(-a * mu ** p_)
            band = lambda mu: [math.exp(-a * (mu / s_) ** p_) for s_ in shifts]
            def stub(poi, d, m, return_expected_set=False, **kw):
                tb = pyhf.tensorlib
                return tb.astensor(obs(float(poi))), [tb.astensor(x) for x in band(float(poi))]
            ul.hypotest = stub
            level = rng.choice([0.05, 0.1, 0.2, 0.01]); rt = rng.choice([1e-2, 2e-2, 1e-3])
            o, e = ul.toms748_scan(data, model, 0.0, 10.0, level=level, rtol=rt)
            ctx.count(); ctx.tally('small_limit_rtol', str(rt))
            lims = [float(o)] + [float(x) for x in e]
            vals = [obs(lims[0])] + [band(lims[k])[k - 1] for k in range(1, 6)]
            inp = {'curve': {'a': a, 'p': p_, 'shifts': shifts}, 'level': level, 'rtol': rt, 'limits': lims}
            # d ln CLs = -ln(level) * p * d ln mu : a relative root error of a few rtol moves CLs by that fraction of the level
            tol = level * (-math.log(level)) * p_ * rt * 6 + 1e-9
            for k, v in enumerate(vals):
                if abs(v - level) > tol:
                    ctx.fail('C09/root-level-relative', 'CLs at the automatic-scan limit misses the requested level by more than the requested relative tolerance of the root allows (limit far below 1)', dict(inp, curve_index=k), v, level)
                    break
    finally:
        ul.hypotest = orig
    # ---------------- interpolation primitive against numpy.interp
    for _ in range(ctx.n(400, 20000)):
        n = rng.randint(2, 8)
        xp = sorted(rng.uniform(0, 10) for _ in range(n))
        if len(set(xp)) < n: continue
        fp = [rng.uniform(-5, 5) for _ in range(n)]
        x = rng.choice([xp[0] - 1, xp[-1] + 1, rng.choice(xp), rng.uniform(xp[0], xp[-1])])
        got = float(np.interp(x, xp, fp)); rep = b2f(lean.ok({'op': 'npinterp', 'x': f2b(x), 'xp': fl(xp), 'fp': fl(fp)}))
        ctx.count()
        if not close(got, rep, 1e-12, 1e-14): ctx.disagree('numpy.interp', {'x': x, 'xp': xp, 'fp': fp}, rep, got)
    # ---------------- real models end-to-end
    for _ in range(ctx.n(3, 60)):
        s = rng.choice([5.0, 8.0, 12.0]); b = rng.choice([30.0, 50.0]); n = float(rng.choice([int(b), int(b + 0.5 * s), int(b - 3)]))
        m = pyhf.Model(counting.single_bin_spec(s, b), poi_name='mu')
        d = [n] + m.config.auxdata
        level = rng.choice([0.05, 0.1, 0.2])
        o, e = pyhf.infer.intervals.upper_limits.upper_limit(d, m, level=level)
        ctx.count()
        cls = float(pyhf.infer.hypotest(float(o), d, m))
        inp = {'s': s, 'b': b, 'n': n, 'level': level, 'mode': 'auto'}
        if abs(cls - level) > 2e-3 * level + 1e-5:
            ctx.fail('C09/real-root-level', 'CLs at the returned upper limit is not the requested level', inp, cls, level)
        exp_cls = [float(pyhf.infer.hypotest(float(x), d, m, return_expected_set=True)[1][k]) for k, x in enumerate(e)]
        if any(abs(c - level) > 2e-3 * level + 1e-5 for c in exp_cls):
            ctx.fail('C09/real-root-level-expected', 'expected CLs at the returned expected limits is not the requested level', inp, exp_cls, level)
        scan = np.linspace(0.0, float(e[-1]) * 1.5, 30)
        o2, e2 = pyhf.infer.intervals.upper_limits.upper_limit(d, m, scan=scan, level=level)
        if abs(float(o2) - float(o)) > 0.05 * float(o) + 1e-3:
            ctx.fail('C09/grid-vs-root', 'grid and automatic scans disagree beyond the grid resolution', inp, float(o2), float(o))
