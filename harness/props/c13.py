"""C13 — gradients handed to optimisers are the true gradient of the objective.

Reference: the Lean model instantiated at dual numbers (`Dual Float`) — per parameter direction the derivative of every
term's mean/rate; the harness assembles ∂ twice_nll/∂θ_j = −2 Σ (∂ log-density/∂ loc)·(d loc/dθ_j).
Monitor: `shim(..., do_grad=True)['func'](pars)` on jax / pytorch / tensorflow × do_stitch × fixed masks at points in
every interpolation regime and on the breakpoints vs (a) the non-differentiating objective, (b) the dual-number
gradient, (c) central differences (search-only).  At genuine kinks (codes 0/1 at alpha=0) either one-sided
derivative is accepted.  NaN/inf gradients at finite well-posed points are violations.
"""
import importlib, json, math
import numpy as np
from harness import gen_spec, enga
from harness.core import fl, b2f
from harness.props.c02 import gen_data

RULE = ('random well-formed specs × parameter points in every interpolation regime incl. exactly ±1 and 0 × datasets × '
        '{jax, pytorch, tensorflow} × do_stitch × fixed masks; non-trivial = ≥2 modifier types and ≥1 |alpha|>1; distinct by (spec, point, mask)')


def model_grad(lean, spec, st, pars, data):
    rep = lean.ok({'op': 'grad', 'spec': enga.to_driver_spec(spec), 'settings': st, 'pars': fl(pars), 'data': fl(data)})
    if rep['error'] is not None:
        return None
    g = []
    for terms in rep['directions']:
        tot = 0.0
        for k, d, l, dl, s in terms:
            d, l, dl, s = b2f(d), b2f(l), b2f(dl), b2f(s)
            if dl == 0.0: continue
            dlog = (d / l - 1.0) if k == 'poisson' else (d - l) / (s * s)
            tot += dlog * dl
        g.append(-2.0 * tot)
    return np.asarray(g)


def run(ctx):
    import pyhf
    common = importlib.import_module('pyhf.optimize.common')
    rng, lean = ctx.rng, ctx.lean
    backends = ['pytorch', 'tensorflow', 'jax']
    nspec = ctx.n(24, 900)
    maxd = {}
    for i in range(nspec):
        binwise_only = (i % 6 == 3)
        if binwise_only:
            # bin-wise modifiers only (shape factor, uncorrelated shape, MC-statistical), no POI: every parameter is reached through gather
            # fields only — a gradient that the autodiff engines may deliver in sparse form; evaluated on all three engines
            spec, info = gen_spec.gen_spec(rng, max_channels=2, max_samples=2, max_bins=2, want={'shapesys'} if i % 12 == 3 else {'staterror'},
                                           avoid=set(gen_spec.SYS_POOL) | {'lumi', 'normfactor'})
        else:
            spec, info = gen_spec.gen_spec(rng, max_channels=2, max_samples=2, max_bins=2)
        poi = None if binwise_only else 'mu'
        histo = rng.choice(['0', '2', '4p']); norm = rng.choice(['1', '4'])
        pyhf.set_backend('numpy')
        err, m = enga.impl_model(pyhf, spec, enga.impl_kwargs(histo, norm, poi=poi))
        if m is None: continue
        cfg = enga.impl_config(m)
        for _try in range(30):
            p = gen_spec.gen_pars(rng, cfg['init'], cfg['bounds'], cfg['par_names'])
            if float(np.min(np.asarray(m.expected_actualdata(np.asarray(p))))) > 0.5: break
        else: p = cfg['init']
        # regime boundaries on purpose: one interpolated parameter exactly on a breakpoint (keeps the rates positive)
        alpha_names = sorted({md['name'] for c in spec['channels'] for sm in c['samples'] for md in sm['modifiers'] if md['type'] in ('normsys', 'histosys')})
        alpha_idx = [k for k, nm in enumerate(cfg['par_names']) if nm in alpha_names]
        if alpha_idx and i % 2 == 0:
            k = rng.choice(alpha_idx); q = list(p); q[k] = rng.choice([1.0, -1.0, 1.0, -1.0, 0.0])
            if float(np.min(np.asarray(m.expected_actualdata(np.asarray(q))))) > 0.5: p = q
        main, aux = gen_data(rng, m, p); data = main + aux
        st = enga.settings(histo, norm, poi=poi)
        g_model = model_grad(lean, spec, st, p, data)
        ctx.count()
        if g_model is None:
            ctx.disagree('grad.build', {'spec': spec}, 'error', None); continue
        fixed = [rng.random() < 0.25 for _ in p]
        if i % 4 == 1 and len(p) >= 2: fixed = [False] * len(p); fixed[rng.randrange(1, len(p))] = True   # a mask that is not a leading prefix
        fixed_vals = [(k, p[k]) for k, f in enumerate(fixed) if f]
        var_idx = [k for k, f in enumerate(fixed) if not f]
        at_kink = [k for k, (x, nm) in enumerate(zip(p, cfg['par_names'])) if x == 0.0]
        bk = backends[(i + ctx.seed) % 3] if not (ctx.thorough or binwise_only) else None
        ctx.tally('spec_kind', 'binwise-only/no-poi' if binwise_only else 'general')
        for b in ([bk] if bk else backends):
            pyhf.set_backend(b)
            tl = pyhf.tensorlib
            mle = importlib.import_module('pyhf.infer.mle')
            for stitch in (False, True):
                inp = {'spec': spec, 'settings': st, 'pars': p, 'data': data, 'fixed': fixed, 'backend': b, 'do_stitch': stitch}
                try:
                    kw, stitch_fn = common.shim(mle.twice_nll, data, m, p, cfg['bounds'], fixed_vals, do_grad=True, do_stitch=stitch)
                    x0 = [p[k] for k in var_idx] if stitch else list(p)
                    val, grad = kw['func'](np.asarray(x0, dtype=np.float64))     # what scipy / minuit hand over
                    val = float(np.asarray(val)); grad = np.asarray(grad, dtype=float)
                except Exception as e:  # noqa
                    ctx.fail('C13/exception', f'value-and-gradient function raised {type(e).__name__}', inp, str(e)[:200]); continue
                ctx.count()
                # evaluating again, on one and the same backend tensor, must give the same gradient (and leave the earlier result alone)
                try:
                    xt = tl.astensor(np.asarray(x0, dtype=np.float64))
                    g_first = np.array(tl.tolist(kw['func'](xt)[1]), dtype=float)
                    r2 = kw['func'](xt); r3 = kw['func'](xt)
                    g_again = np.array(tl.tolist(r3[1]), dtype=float); g_second = np.array(tl.tolist(r2[1]), dtype=float)
                    if not (np.allclose(g_first, grad, rtol=1e-9, atol=1e-12) and np.allclose(g_again, grad, rtol=1e-9, atol=1e-12) and np.allclose(g_second, grad, rtol=1e-9, atol=1e-12)):
                        ctx.fail('C13/repeated-evaluation', 'the gradient changes when the value-and-gradient function is evaluated again at the same point (same tensor object)', inp,
                                 [g_first.tolist(), g_second.tolist(), g_again.tolist()], grad.tolist())
                except Exception as e:  # noqa
                    ctx.fail('C13/exception', f'repeated evaluation of the value-and-gradient function raised {type(e).__name__}', inp, str(e)[:200])
                pyhf_np = float(-2 * np.asarray(tl.tolist(m.logpdf(tl.astensor(np.asarray(p)), tl.astensor(np.asarray(data)))))[0])
                if not abs(val - pyhf_np) <= 1e-9 * (1 + abs(pyhf_np)):
                    ctx.fail('C13/value', 'objective of the differentiating path differs from the non-differentiating path', inp, val, pyhf_np)
                want = g_model[var_idx] if stitch else g_model
                idxs = var_idx if stitch else list(range(len(p)))
                if not np.all(np.isfinite(grad)):
                    ctx.fail('C13/non-finite', 'gradient contains NaN/inf at a finite well-posed point', inp, grad.tolist()); continue
                if grad.shape != want.shape:
                    ctx.fail('C13/shape', 'gradient has the wrong length', inp, grad.shape, want.shape); continue
                # central differences (search-only second opinion)
                def obj(q):
                    return float(-2 * np.asarray(tl.tolist(m.logpdf(tl.astensor(np.asarray(q)), tl.astensor(np.asarray(data)))))[0])
                for pos, k in enumerate(idxs):
                    if (not stitch) and fixed[k] and False: continue
                    scale = 1 + abs(want[pos])
                    ok_model = abs(grad[pos] - want[pos]) <= 1e-6 * scale
                    if ok_model:
                        maxd[b] = max(maxd.get(b, 0.0), abs(grad[pos] - want[pos]) / scale)
                        continue
                    h = 1e-6
                    qp = list(p); qm = list(p); qp[k] += h; qm[k] -= h
                    right = (obj(qp) - obj(p)) / h; left = (obj(p) - obj(qm)) / h; cen = (obj(qp) - obj(qm)) / (2 * h)
                    if k in at_kink and (min(left, right) - 1e-3 * scale <= grad[pos] <= max(left, right) + 1e-3 * scale):
                        continue      # genuine kink at alpha = 0 (codes 0/1): anything between the one-sided derivatives is acceptable
                    if abs(grad[pos] - cen) <= 1e-4 * scale and abs(want[pos] - cen) > 1e-4 * scale:
                        ctx.disagree('dual-gradient', dict(inp, index=k), float(want[pos]), float(grad[pos]), 'engine agrees with finite differences, the dual model does not')
                    else:
                        ctx.fail('C13/gradient', 'gradient component differs from the exact derivative (dual-number reference and central differences)', dict(inp, index=k, name=cfg['par_names'][k]), float(grad[pos]), [float(want[pos]), cen])
        if len(info['types']) >= 2 and any(abs(x) > 1 for x in p): ctx.nontrivial(json.dumps([spec, p, fixed], sort_keys=True))
        if i < 1: ctx.sample({'spec': spec, 'pars': p, 'fixed': fixed, 'dual_gradient': g_model.tolist()})
    pyhf.set_backend('numpy')
    ctx.notes['max_rel_discrepancy_engine_vs_dual'] = maxd
