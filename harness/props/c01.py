"""C01 — expected event rates follow the HistFactory rate formula.

Correspondence: pyhf.Model (tensor path, every backend) vs Lean model T (`PyhfModel/Tensor.lean`).
Implementation-side oracle: loop evaluation of the rate formula straight from the raw spec with the
scalar reference interpolators, parameters looked up by name.
"""
import json, copy
import numpy as np
from harness import core, gen_spec, enga
from harness.core import fl, unfl

RULE = ('random well-formed specs (1-3 channels, 1-3 samples from a pool of 5 so sample sets differ per channel, 1-4 bins, '
        'random subsets of the 7 modifier types, names shared across samples/channels/types, shuffled listing order) × '
        'parameter points hitting core/tails/±1/neighbours × interpolation codes × clipping on/off × backends; '
        'non-trivial = spec with ≥2 modifier types and a point with at least one |alpha|>1 or gamma≠1; distinct by (spec, point) hash')

BACKENDS = [('numpy', '64b'), ('pytorch', '64b'), ('tensorflow', '64b'), ('numpy', '32b'), ('pytorch', '32b'), ('tensorflow', '32b')]
JAX = [('jax', '64b'), ('jax', '32b')]   # handled in a separate small pass: un-jitted jax costs ~0.4 s per evaluation


def tols(prec):
    return (1e-11, 1e-11) if prec == '64b' else (2e-3, 1e-2)


def absent_samples(spec):
    alls = {s['name'] for c in spec['channels'] for s in c['samples']}
    return any({s['name'] for s in c['samples']} != alls for c in spec['channels'])


def run(ctx):
    import pyhf
    rng, lean = ctx.rng, ctx.lean
    nspec = ctx.n(100, 4000)
    npts = ctx.n(3, 8)
    maxdisc = 0.0
    chunk = 100
    done = 0
    njax = ctx.n(5, 60)
    while done < nspec + njax:
        jax_pass = done >= nspec
        cases = []
        pyhf.set_backend('numpy', precision='64b')
        for i in range(done, min(nspec, done + chunk) if not jax_pass else nspec + njax):
            spec, info = gen_spec.gen_spec(rng, cross_channel_stat=True)
            histo = rng.choice(['0', '2', '4p']); norm = rng.choice(['1', '4'])
            r = rng.random()
            clip_s = None if r < 0.6 else rng.choice([0.0, -1.0, 2.0, 30.0])
            clip_b = None if rng.random() < 0.7 else rng.choice([0.0, 40.0, 150.0])
            err, m = enga.impl_model(pyhf, spec, enga.impl_kwargs(histo, norm, clip_s, clip_b))
            st = enga.settings(histo, norm, clip_s, clip_b)
            if m is None:
                merr, _ = enga.model_call(lean, spec, st, [])
                ctx.count()
                if merr != err:
                    ctx.disagree('build', {'spec': spec}, merr, err, 'construction outcome')
                ctx.fail('C01/wf-spec-rejected', 'a well-formed generated spec was rejected', {'spec': spec}, err, None)
                continue
            cfg = enga.impl_config(m)
            pts = [gen_spec.gen_pars(rng, cfg['init'], cfg['bounds'], cfg['par_names']) for _ in range(npts)]
            merr, res = enga.model_call(lean, spec, st, [{'q': 'config'}] + [{'q': 'expected', 'pars': fl(p), **({'decl': True} if k == 0 else {})} for k, p in enumerate(pts)])
            ctx.count()
            ctx.tally('n_channels', len(cfg['channels'])); ctx.tally('n_samples', len(cfg['samples']))
            ctx.tally('interp', f'h{histo}/n{norm}'); ctx.tally('clip', f's={clip_s} b={clip_b}')
            for t in info['types']: ctx.tally('modtype', t)
            if merr is not None:
                ctx.disagree('build', {'spec': spec, 'settings': st}, merr, None, 'model rejects, implementation accepts')
                continue
            wf = res[0]['wf']
            for k, v in wf.items():
                if not v and not (k == 'clipSampleNonPos' and clip_s is not None and clip_s > 0):
                    ctx.disagree('wf-hypothesis', {'spec': spec, 'settings': st}, {k: v}, True,
                                 'a generated well-formed spec does not satisfy a hypothesis of C01_expected_eq_formula')
            ctx.tally('theorem_hypotheses_hold', all(wf.values()))
            mc = enga.model_config(res[0]); mc.pop('wf', None)
            for k in ('channels', 'samples', 'modifiers', 'channel_nbins', 'channel_slices', 'par_order', 'par_slices', 'npars', 'nmaindata'):
                if mc[k] != cfg[k]:
                    ctx.disagree(f'config.{k}', {'spec': spec}, mc[k], cfg[k])
            other = BACKENDS[1 + (i + ctx.seed) % 5]
            bsel = [BACKENDS[0], other] if not (ctx.thorough and i % 10 == 0) else list(BACKENDS)
            if jax_pass:
                bsel = [BACKENDS[0]] + JAX
            # ---- "batched or not": a batched model on distinct rows against the formula, row by row (numpy)
            if i % 4 == 0 and clip_s is None and clip_b is None:
                N = rng.randint(2, 4)
                rows = [gen_spec.gen_pars(rng, cfg['init'], cfg['bounds'], cfg['par_names']) for _ in range(N)]
                errb, mb = enga.impl_model(pyhf, spec, enga.impl_kwargs(histo, norm), batch_size=N)
                if mb is None:
                    ctx.fail('C01/batched-rejected', 'batched construction of a well-formed spec failed', {'spec': spec, 'batch_size': N}, errb)
                else:
                    actb = np.asarray(mb.expected_actualdata(np.asarray(rows)), dtype=float)
                    _, resb = enga.model_call(lean, spec, st, [{'q': 'expected_batch', 'rows': fl(rows)}])
                    ctx.count(N)
                    for t in range(N):
                        inpb = {'spec': spec, 'batch_size': N, 'rows': rows, 'row': t, 'settings': st}
                        mrow = np.asarray(unfl(resb[0][t]['actual']))
                        if actb[t].shape != mrow.shape or not np.allclose(actb[t], mrow, rtol=1e-11, atol=1e-11):
                            ctx.disagree('batched.expected_actualdata', inpb, mrow.tolist(), actb[t].tolist())
                        ref, _ = enga.reference_expected(pyhf, spec, m.config, np.asarray(rows[t]), histo, norm)
                        refv = np.concatenate([ref[cn] for cn in m.config.channels])
                        if not np.allclose(actb[t], refv, rtol=1e-9, atol=1e-9):
                            ctx.fail('C01/formula-batched', 'a row of the batched expected_actualdata differs from the HistFactory rate formula', inpb, actb[t].tolist(), refv.tolist())
                    del mb
            cases.append(dict(i=i, spec=spec, info=info, histo=histo, norm=norm, clip_s=clip_s, clip_b=clip_b, st=st, m=m, pts=pts, res=res, bsel=bsel))
            if i < 2:
                ctx.sample({'spec': spec, 'settings': st, 'pars': pts[0], 'expected_actualdata_model': unfl(res[1]['actual'])})
        for (bk, prec) in BACKENDS + JAX:
            todo = [c for c in cases if (bk, prec) in c['bsel']]
            if not todo:
                continue
            pyhf.set_backend(bk, precision=prec)
            rt, at = tols(prec)
            for c in todo:
                maxdisc = max(maxdisc, eval_case(ctx, pyhf, c, bk, prec, rt, at))
        done = done + chunk if not jax_pass else nspec + njax
        if done >= nspec and not jax_pass:
            done = nspec
        del cases
    pyhf.set_backend('numpy', precision='64b')
    ctx.notes['max_rel_discrepancy_model_vs_impl_64b'] = maxdisc


def eval_case(ctx, pyhf, c, bk, prec, rt, at):
    spec, m, st, info = c['spec'], c['m'], c['st'], c['info']
    histo, norm, clip_s, clip_b = c['histo'], c['norm'], c['clip_s'], c['clip_b']
    maxdisc = 0.0
    for p, rr in zip(c['pts'], c['res'][1:]):
        ctx.count()
        tl = pyhf.tensorlib
        pa = tl.astensor(np.asarray(p, dtype=np.float64))
        inp = {'spec': spec, 'pars': p, 'settings': st, 'backend': [bk, prec]}
        try:
            act = np.asarray(tl.tolist(m.expected_actualdata(pa)), dtype=float)
            full = np.asarray(tl.tolist(m.expected_data(pa)), dtype=float)
            bys = np.asarray(tl.tolist(m.main_model.expected_data(pa, return_by_sample=True)), dtype=float)
        except Exception as e:  # noqa
            ctx.fail('C01/eval-exception', f'evaluation raised {type(e).__name__}', inp, str(e)[:200])
            continue
        mact = np.asarray(unfl(rr['actual'])); mbys = np.asarray(unfl(rr['by_sample'])); maux = np.asarray(unfl(rr['aux']))
        if act.shape != mact.shape or not np.allclose(act, mact, rtol=rt, atol=at):
            ctx.disagree('expected_actualdata', inp, mact.tolist(), act.tolist())
        elif prec == '64b' and act.size:
            maxdisc = max(maxdisc, float(np.max(np.abs(act - mact) / np.maximum(np.abs(mact), 1e-300))))
        if bys.shape != mbys.shape or not np.allclose(bys, mbys, rtol=rt, atol=at):
            ctx.disagree('expected_by_sample', inp, mbys.tolist(), bys.tolist())
        if bk == 'numpy' and prec == '64b' and c['res'][0]['wf']['clipSampleNonPos'] and rr['declarative'] is not None:
            md = np.asarray(unfl(rr['declarative']))
            if act.shape != md.shape or not np.allclose(act, md, rtol=1e-11, atol=1e-11):
                ctx.disagree('expected_actualdata/declarative-model-D', inp, md.tolist(), act.tolist())
        mfull = np.concatenate([mact, maux])
        if full.shape != mfull.shape or not np.allclose(full, mfull, rtol=rt, atol=at):
            ctx.disagree('expected_data', inp, mfull.tolist(), full.tolist())
        # ---- implementation-side oracle: the formula itself, by name, from the raw spec (numpy 64b only)
        if bk == 'numpy' and prec == '64b':
            ref, refbys = enga.reference_expected(pyhf, spec, m.config, np.asarray(p), histo, norm, clip_s, clip_b)
            refv = np.concatenate([ref[cn] for cn in m.config.channels])
            if not np.allclose(act, refv, rtol=1e-9, atol=1e-9):
                if clip_s is not None and clip_s > 0 and absent_samples(spec):
                    ctx.fail('C01/clip-absent-sample', 'clip_sample_data>0 adds the clip value once per sample *absent* from a channel',
                             inp, act.tolist(), refv.tolist(), 'pyhf.Model(spec, clip_sample_data=c).expected_actualdata(pars)')
                else:
                    ctx.fail('C01/formula', 'expected_actualdata differs from the HistFactory rate formula', inp, act.tolist(), refv.tolist(),
                             'pyhf.Model(spec, ...).expected_actualdata(pars) vs loop evaluation')
            for cn in m.config.channels:
                a, b = m.config.channel_slices[cn].start, m.config.channel_slices[cn].stop
                for si, s in enumerate(m.config.samples):
                    want = refbys[cn].get(s)
                    got = bys[si, a:b]
                    if want is None:
                        if not np.allclose(got, 0.0, atol=1e-12) and not (clip_s is not None and clip_s > 0):
                            ctx.fail('C01/absent-sample-nonzero', 'a sample absent from a channel contributes', inp, got.tolist(), 0.0)
                    elif not np.allclose(got, want, rtol=1e-9, atol=1e-9):
                        ctx.fail('C01/formula-by-sample', 'per-sample expected data differs from the formula', inp, got.tolist(), want)
            if len(info['types']) >= 2 and any(abs(x) > 1 or (x != 1 and x != 0) for x in p):
                ctx.nontrivial(json.dumps([spec, p], sort_keys=True))
    return maxdisc
