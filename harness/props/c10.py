"""C10 — batched evaluation equals row-by-row evaluation.

Correspondence: pyhf.Model(spec, batch_size=N) expected_data / expected_actualdata / by-sample / logpdf on N distinct rows
vs the Lean model's batched ops (flat index t·npars+i).  Implementation-side oracle: each batched row vs the
*unbatched* pyhf model on that row alone; changing one row must not change another; sample shapes.
"""
import json, copy
import numpy as np
from harness import core, gen_spec, enga
from harness.core import fl, unfl
from harness.props.c02 import gen_data, decode, terms_sum

RULE = ('random well-formed specs × batch sizes 1..8 × pairwise distinct rows (every interpolation regime) and datasets; '
        'non-trivial = batch ≥ 2 with ≥ 2 modifier types; distinct by (spec, rows) hash')
BACKENDS = [('numpy', '64b'), ('pytorch', '64b'), ('tensorflow', '64b'), ('pytorch', '32b'), ('tensorflow', '32b'), ('numpy', '32b')]


def run(ctx):
    import pyhf
    rng, lean = ctx.rng, ctx.lean
    nspec = ctx.n(60, 2000)
    njax = ctx.n(2, 30)
    maxd = 0.0
    for i in range(nspec + njax):
        jaxp = i >= nspec
        # every fourth specification: only bin-wise constraints — the Poisson-constrained (shapesys) block then precedes the
        # Gaussian-constrained (staterror) one in the auxiliary data (the [normal, poisson] viewer then has to *reorder* consecutive runs)
        poi = 'mu'
        if i % 8 == 5:
            # … and every eighth one has no normalisation factor either (no POI): a bin-wise parameter set then starts at flat index 0
            spec, info = gen_spec.gen_spec(rng, want={'shapesys'} if i % 16 == 5 else {'staterror'}, avoid=set(gen_spec.SYS_POOL) | {'lumi', 'normfactor'}); poi = None
        elif i % 4 == 1:
            spec, info = gen_spec.gen_spec(rng, want={'shapesys', 'staterror'}, avoid=set(gen_spec.SYS_POOL) | {'lumi'})
        else:
            spec, info = gen_spec.gen_spec(rng, cross_channel_stat=True)
        histo = rng.choice(['0', '2', '4p']); norm = rng.choice(['1', '4'])
        N = rng.randint(1, 8) if not jaxp else rng.randint(2, 3)
        pyhf.set_backend('numpy', precision='64b')
        kw = enga.impl_kwargs(histo, norm, poi=poi)
        err, m1 = enga.impl_model(pyhf, spec, kw)
        err2, mb = enga.impl_model(pyhf, spec, kw, batch_size=N)
        if m1 is None or mb is None:
            ctx.fail('C10/wf-spec-rejected', 'well-formed spec rejected (batched or unbatched)', {'spec': spec, 'batch': N}, [err, err2]); continue
        cfg = enga.impl_config(m1)
        rows = []
        for _ in range(N):
            for _try in range(20):
                p = gen_spec.gen_pars(rng, cfg['init'], cfg['bounds'], cfg['par_names'])
                if float(np.min(np.asarray(m1.expected_actualdata(np.asarray(p))))) > 1e-3: break
            else: p = cfg['init']
            rows.append(p)
        datas = []
        for p in rows:
            main, aux = gen_data(rng, m1, p); datas.append(main + aux)
        st = enga.settings(histo, norm, poi=poi)
        merr, res = enga.model_call(lean, spec, st, [{'q': 'config'}, {'q': 'expected_batch', 'rows': fl(rows)},
                                                     {'q': 'logpdf_terms_batch', 'rows': fl(rows), 'datas': fl(datas)}])
        ctx.count()
        if merr is not None:
            ctx.disagree('build', {'spec': spec}, merr, None); continue
        if not res[0]['wf']['readsBelow'] or not res[0]['wf']['histoBlocksOK'] or not res[0]['wf']['constraintReadsBelow']:
            ctx.disagree('wf-hypothesis', {'spec': spec}, res[0]['wf'], True, 'hypothesis of C10_batched_expected_eq_rows / C10_batched_logpdf_eq_rows fails on a generated spec')
        ctx.tally('batch_size', N)
        ptypes = [m1.config.param_set(n).pdf_type for n in m1.config.auxdata_order]
        ctx.tally('aux_layout', 'none' if not ptypes else ('single-kind' if len(set(ptypes)) == 1 else ('normal-first' if ptypes == sorted(ptypes) else ('poisson-first' if ptypes == sorted(ptypes, reverse=True) else 'interleaved'))))
        bsel = [('numpy', '64b'), BACKENDS[1 + (i + ctx.seed) % 5]] if not jaxp else [('numpy', '64b'), ('jax', '64b')]
        if ctx.thorough and i % 10 == 0 and not jaxp: bsel = BACKENDS
        for (bk, prec) in bsel:
            pyhf.set_backend(bk, precision=prec)
            tl = pyhf.tensorlib
            p64 = prec == '64b'
            rt, at = (1e-11, 1e-11) if p64 else (3e-3, 1e-2)
            inp = {'spec': spec, 'batch_size': N, 'rows': rows, 'datas': datas, 'settings': st, 'backend': [bk, prec]}
            R = tl.astensor(np.asarray(rows, dtype=np.float64)); Dt = tl.astensor(np.asarray(datas, dtype=np.float64))
            try:
                act = np.asarray(tl.tolist(mb.expected_actualdata(R)), dtype=float)
                full = np.asarray(tl.tolist(mb.expected_data(R)), dtype=float)
                bys = np.asarray(tl.tolist(mb.main_model.expected_data(R, return_by_sample=True)), dtype=float)
                lp = np.asarray(tl.tolist(mb.logpdf(R, Dt)), dtype=float)
                shp = tuple(np.asarray(tl.tolist(mb.make_pdf(R).sample((3,)))).shape) if bk != 'jax' else None
            except Exception as e:  # noqa
                ctx.fail('C10/eval-exception', f'batched evaluation raised {type(e).__name__}', inp, str(e)[:200]); continue
            ctx.count(N)
            if act.shape != (N, cfg['nmaindata']) or full.shape != (N, cfg['nmaindata'] + cfg['nauxdata']) or lp.shape != (N,) \
                    or bys.shape[0] != N or (shp is not None and shp != (3, N, cfg['nmaindata'] + cfg['nauxdata'])):
                ctx.fail('C10/batch-leading-dim', 'the batch dimension is not the leading one / wrong shapes', inp,
                         [act.shape, full.shape, lp.shape, bys.shape, shp])
                continue
            for t in range(N):
                mr = res[1][t]
                mact = np.asarray(unfl(mr['actual'])); maux = np.asarray(unfl(mr['aux'])); mbys = np.asarray(unfl(mr['by_sample']))
                if not np.allclose(act[t], mact, rtol=rt, atol=at): ctx.disagree('batched.expected_actualdata', dict(inp, row=t), mact.tolist(), act[t].tolist())
                elif p64: maxd = max(maxd, float(np.max(np.abs(act[t] - mact) / np.maximum(np.abs(mact), 1e-300))))
                if not np.allclose(full[t], np.concatenate([mact, maux]), rtol=rt, atol=at): ctx.disagree('batched.expected_data', dict(inp, row=t), None, full[t].tolist())
                if not np.allclose(bys[t], mbys, rtol=rt, atol=at): ctx.disagree('batched.by_sample', dict(inp, row=t), mbys.tolist(), bys[t].tolist())
                s, mag = terms_sum(decode(res[2][t]))
                if not abs(lp[t] - s) <= (1e-10 if p64 else 3e-3) * (mag + 1): ctx.disagree('batched.logpdf', dict(inp, row=t), s, float(lp[t]))
                # oracle: unbatched implementation on that row alone
                if p64:
                    pr = tl.astensor(np.asarray(rows[t])); dr = tl.astensor(np.asarray(datas[t]))
                    a1 = np.asarray(tl.tolist(m1.expected_data(pr)), dtype=float)
                    l1 = float(np.asarray(tl.tolist(m1.logpdf(pr, dr))).ravel()[0])
                    b1 = np.asarray(tl.tolist(m1.main_model.expected_data(pr, return_by_sample=True)), dtype=float)
                    if not np.allclose(full[t], a1, rtol=1e-12, atol=1e-12):
                        ctx.fail('C10/row-expected', 'batched expected data of a row differs from the unbatched model on that row', dict(inp, row=t), full[t].tolist(), a1.tolist())
                    if not np.allclose(bys[t], b1, rtol=1e-12, atol=1e-12):
                        ctx.fail('C10/row-by-sample', 'batched per-sample data of a row differs from the unbatched model', dict(inp, row=t), bys[t].tolist(), b1.tolist())
                    if not abs(lp[t] - l1) <= 1e-10 * (mag + 1):
                        ctx.fail('C10/row-logpdf', 'batched log-density of a row differs from the unbatched model on that row', dict(inp, row=t), float(lp[t]), l1)
            # oracle: rows do not influence each other
            if p64 and N >= 2 and bk == 'numpy':
                rows2 = copy.deepcopy(rows); k = rng.randrange(N)
                rows2[k] = gen_spec.gen_pars(rng, cfg['init'], cfg['bounds'], cfg['par_names'])
                act2 = np.asarray(tl.tolist(mb.expected_actualdata(tl.astensor(np.asarray(rows2)))), dtype=float)
                for t in range(N):
                    if t != k and not np.array_equal(act2[t], act[t]):
                        ctx.fail('C10/row-influence', 'changing one row changed another row', dict(inp, changed=k, row=t), act2[t].tolist(), act[t].tolist())
        if N >= 2 and len(info['types']) >= 2:
            ctx.nontrivial(json.dumps([spec, rows], sort_keys=True))
        if i < 2:
            ctx.sample({'spec': spec, 'batch_size': N, 'rows': rows[:2]})
        del m1, mb
    pyhf.set_backend('numpy', precision='64b')
    ctx.notes['max_rel_discrepancy_model_vs_impl_64b'] = maxd
