"""C18 — export to HistFactory XML+ROOT and re-import preserves the statistical model.

Correspondence (three ties, all bit-exact on numbers):
  * the files `writexml` writes (XML element trees + every histogram in data.root, read back by this harness with
    ElementTree/uproot) vs the document of the Lean `exportWs`;
  * the workspace `readxml.parse` returns for those files vs the Lean `importDoc` of that document;
  * the file cache: histories of export-into-a-directory / parse over several directories vs the Lean cache state machine.
Implementation-side oracles (property text): channels, samples, nominal yields, observations, POI and constant flags
equal; the parsed model assigns the same log-likelihood as the original at random parameter points (parameters
identified by name; `staterror_<channel>` is the one name the format dictates); luminosity centre and uncertainty
recovered; a second cycle reproduces the first (fixed point); nothing from an earlier import leaks into a later one.
"""
import copy, json, math, os, shutil, tempfile
import xml.etree.ElementTree as ET
from pathlib import Path
import numpy as np
from harness import gen_spec
from harness.core import f2b, b2f

RULE = ('generated exportable workspaces (1-3 channels, 1-3 samples, 1-4 bins; histosys, normsys, normfactor with custom init/bounds, '
        'shapesys, staterror, shapefactor, lumi with centre != 1; fixed parameters; 1-2 measurements) × export/import cycles into the same '
        'and different directories; non-trivial = ≥3 modifier types and a lumi or fixed parameter; distinct by workspace hash')


def gen_ws(rng):
    spec, info = gen_spec.gen_spec(rng, max_channels=3, max_samples=3, max_bins=4)
    chans = spec['channels']
    for c in chans:
        for s in c['samples']:
            # the format has one StatError per channel; yields of samples with bin-wise uncertainties must be non-zero
            s['data'] = [x if x != 0 else 1.0 for x in s['data']]
            if rng.random() < 0.15:
                s['data'] = [float(int(x)) for x in s['data']]
    if rng.random() < 0.2:
        # a negative yield in one bin of a sample that carries a bin-wise uncertainty (negative-weight / interference-style sample), where
        # another sample keeps the bin's total well positive: the relative form written to the file is negative there
        cands = [(c, s) for c in chans if len(c['samples']) >= 2 for s in c['samples'] if any(m['type'] in ('staterror', 'shapesys') for m in s['modifiers'])]
        if cands:
            c, s = rng.choice(cands); b = rng.randrange(len(s['data']))
            if sum(o['data'][b] for o in c['samples'] if o is not s) >= 20:
                s['data'][b] = -round(rng.uniform(0.5, 3.0), 2)
    many_constants = rng.random() < 0.25
    if many_constants:
        # long parameter names, all held constant: the exported list of constant parameters becomes long (several text lines' worth)
        for c in chans:
            for s in c['samples']:
                for m in s['modifiers']:
                    if m['type'] in ('normsys', 'histosys') and not m['name'].startswith('long_systematic_uncertainty_name_'):
                        m['name'] = 'long_systematic_uncertainty_name_' + m['name']
    root_names = (not many_constants) and rng.random() < 0.25
    if root_names:
        # pyhf names that already look like ROOT's: alpha_<x> for interpolated systematics, gamma_<x> for bin-wise ones (the export
        # prefixes them again, the import strips one prefix)
        for c in chans:
            for s in c['samples']:
                for m in s['modifiers']:
                    if m['type'] in ('normsys', 'histosys') and not m['name'].startswith('alpha_'): m['name'] = 'alpha_' + m['name']
                    if m['type'] == 'shapesys' and not m['name'].startswith('gamma_'): m['name'] = 'gamma_' + m['name']
    mods = sorted({(m['name'], m['type']) for c in chans for s in c['samples'] for m in s['modifiers']})
    pars = []
    if any(t == 'lumi' for _, t in mods):
        c0 = rng.choice([1.0, 0.95, 1.1, 2.0, 36.1])
        pars.append({'name': 'lumi', 'auxdata': [c0], 'sigmas': [round(c0 * rng.choice([0.017, 0.05, 0.1]), 4)],
                     'bounds': [[round(0.5 * c0, 3), round(1.5 * c0, 3)]], 'inits': [c0]})
        if rng.random() < 0.4: pars[-1]['fixed'] = True
    for n in sorted({n for n, t in mods if t == 'normfactor'}):
        if rng.random() < 0.7:
            p = {'name': n}
            if rng.random() < 0.8: p['inits'] = [round(rng.uniform(0.5, 2.0), 2)]
            if rng.random() < 0.8: p['bounds'] = [[rng.choice([-5.0, 0.0]), rng.choice([5.0, 10.0, 20.0])]]
            if n != 'mu' and rng.random() < 0.3: p['fixed'] = True
            pars.append(p)
    for n in sorted({n for n, t in mods if t in ('normsys', 'histosys')}):
        if rng.random() < (0.6 if root_names else 0.3) or many_constants: pars.append({'name': n, 'fixed': True})
    rng.shuffle(pars)
    meas = [{'name': 'meas', 'config': {'poi': 'mu', 'parameters': pars}}]
    if rng.random() < 0.4:
        p2 = [dict(p) for p in pars if not (p.keys() == {'name', 'fixed'})]
        for p in p2:
            if p['name'] == 'lumi':
                p['auxdata'] = [p['auxdata'][0] * 1.5]; p['inits'] = list(p['auxdata']); p['bounds'] = [[0.5 * p['auxdata'][0], 1.5 * p['auxdata'][0]]]
        for n in sorted({n for n, t in mods if t in ('normsys', 'histosys')}):
            if rng.random() < 0.3: p2.append({'name': n, 'fixed': True})
        meas.append({'name': 'other', 'config': {'poi': 'mu', 'parameters': p2}})
    if rng.random() < 0.2:
        # channel names with dots that share everything before the last dot (regions of one analysis: `reg.lo`, `reg.hi`): each channel
        # is exported to a file of its own, named after the full channel name
        for c, tag in zip(chans, ['lo', 'hi', 'mid']): c['name'] = f'reg.{tag}'
    obs = [{'name': c['name'], 'data': [float(rng.randint(0, 150)) for _ in c['samples'][0]['data']]} for c in chans]
    rng.shuffle(obs)
    return {'channels': chans, 'observations': obs, 'measurements': meas, 'version': '1.0.0'}, info


# ---------------------------------------------------------------- encodings for the Lean driver
def fb(xs): return [f2b(float(x)) for x in xs]


def enc_ws(ws):
    def md(m):
        t, d = m['type'], m['data']
        if d is None: return None
        if t == 'normsys': return {'lo': f2b(float(d['lo'])), 'hi': f2b(float(d['hi']))}
        if t == 'histosys': return {'lo_data': fb(d['lo_data']), 'hi_data': fb(d['hi_data'])}
        return fb(d)
    def par(p):
        o = {'name': p['name']}
        for k in ('inits', 'auxdata', 'sigmas'):
            if k in p: o[k] = fb(p[k])
        if 'bounds' in p: o['bounds'] = [fb(b) for b in p['bounds']]
        if 'fixed' in p: o['fixed'] = bool(p['fixed'])
        return o
    return {'channels': [{'name': c['name'], 'samples': [{'name': s['name'], 'data': fb(s['data']),
                          'modifiers': [{'name': m['name'], 'type': m['type'], 'data': md(m)} for m in s['modifiers']]} for s in c['samples']]} for c in ws['channels']],
            'observations': [{'name': o['name'], 'data': fb(o['data'])} for o in ws.get('observations', [])],
            'measurements': [{'name': m['name'], 'poi': m['config']['poi'], 'parameters': [par(p) for p in m['config']['parameters']]} for m in ws['measurements']]}


def read_doc(top_xml, rootdir):
    """the document pyhf wrote, read independently: element trees + all histograms of the ROOT file(s)"""
    import uproot
    top = ET.parse(top_xml).getroot()
    chans = []; files = set()
    for inp in top.findall('Input'):
        ch = ET.parse(Path(rootdir) / inp.text).getroot()
        files.add(ch.attrib['InputFile'])
        data = ch.findall('Data')
        samples = []
        for s in ch.findall('Sample'):
            mods = []
            for t in s:
                a = t.attrib
                if t.tag == 'OverallSys': mods.append({'tag': 'OverallSys', 'name': a['Name'], 'high': f2b(float(a['High'])), 'low': f2b(float(a['Low']))})
                elif t.tag == 'NormFactor': mods.append({'tag': 'NormFactor', 'name': a['Name'], 'val': f2b(float(a['Val'])), 'low': f2b(float(a['Low'])), 'high': f2b(float(a['High']))})
                elif t.tag == 'HistoSys': mods.append({'tag': 'HistoSys', 'name': a['Name'], 'lowName': a['HistoNameLow'], 'highName': a['HistoNameHigh']})
                elif t.tag == 'StatError': mods.append({'tag': 'StatError', 'histo': a['HistoName']})
                elif t.tag == 'ShapeSys': mods.append({'tag': 'ShapeSys', 'name': a['Name'], 'histo': a['HistoName']})
                elif t.tag == 'ShapeFactor': mods.append({'tag': 'ShapeFactor', 'name': a['Name']})
                else: mods.append({'tag': t.tag})
            samples.append({'name': s.attrib['Name'], 'histo': s.attrib['HistoName'], 'norm': s.attrib.get('NormalizeByTheory', 'False') == 'True', 'mods': mods})
        chans.append({'name': ch.attrib['Name'], 'data': data[0].attrib['HistoName'] if data else None, 'samples': samples})
    hists = []
    for fn in sorted(files):
        with uproot.open(str(Path(rootdir) / fn)) as f:
            for k in f.keys(cycle=False):
                hists.append([k, fb(f[k].to_numpy()[0].tolist())])
    meas = []
    for m in top.findall('Measurement'):
        ps = m.findall('ParamSetting')
        consts = [x for p in ps if p.attrib.get('Const') == 'True' and p.text for x in p.text.strip().split(' ')]
        meas.append({'name': m.attrib['Name'], 'lumi': f2b(float(m.attrib['Lumi'])), 'relerr': f2b(float(m.attrib['LumiRelErr'])),
                     'poi': (m.find('POI').text or '').strip(), 'consts': consts})
    return {'hists': hists, 'channels': chans, 'measurements': meas}


def canon_doc(d):
    d = copy.deepcopy(d); d['hists'] = sorted(d['hists']); return d


def export(pyhf, ws, d):
    """`pyhf json2xml`-style export into directory d (cleared first); returns the path of the top-level file"""
    d = Path(d)
    for sub in ('config', 'data'):
        shutil.rmtree(d / sub, ignore_errors=True); (d / sub).mkdir(parents=True)
    cwd = os.getcwd(); os.chdir(d)
    try:
        xml = pyhf.writexml.writexml(ws, 'config', 'data', 'FitConfig')
        (d / 'FitConfig.xml').write_bytes(xml)
    finally:
        os.chdir(cwd)
    return d / 'FitConfig.xml'


def parse(pyhf, d):
    return pyhf.readxml.parse(str(Path(d) / 'FitConfig.xml'), str(d), validation_as_error=False)


def name_map(ws):
    """original modifier name -> name after the round trip (only StatError is dictated by the format)"""
    mp = {}
    for c in ws['channels']:
        for s in c['samples']:
            for m in s['modifiers']:
                if m['type'] == 'staterror': mp[m['name']] = 'staterror_' + c['name']
    return mp


def loglik_pair(pyhf, rng, ws, back, mname):
    w0 = pyhf.Workspace(ws); w1 = pyhf.Workspace(back)
    m0 = w0.model(measurement_name=mname); m1 = w1.model(measurement_name=mname)
    mp = name_map(ws)
    if sorted(mp.get(n, n) for n in m0.config.par_order) != sorted(m1.config.par_order):
        return 'parameters', sorted(m1.config.par_order), sorted(mp.get(n, n) for n in m0.config.par_order)
    out = []
    for _ in range(3):
        p0 = np.asarray(gen_spec.gen_pars(rng, m0.config.suggested_init(), m0.config.suggested_bounds(), m0.config.par_names))
        if float(np.min(np.asarray(m0.expected_actualdata(p0)))) <= 0.5: p0 = np.asarray(m0.config.suggested_init())
        p1 = np.asarray(m1.config.suggested_init(), dtype=float)
        for n in m0.config.par_order:
            p1[m1.config.par_slice(mp.get(n, n))] = p0[m0.config.par_slice(n)]
        # dataset: main data by channel name, auxiliary data by parameter name
        main0 = {c: [float(rng.randint(0, 150)) for _ in range(m0.config.channel_nbins[c])] for c in m0.config.channels}
        d0 = [x for c in m0.config.channels for x in main0[c]] + list(m0.config.auxdata)
        aux1 = list(m1.config.auxdata)
        d1 = [x for c in m1.config.channels for x in main0[c]] + aux1
        l0 = float(m0.logpdf(p0, np.asarray(d0))[0]); l1 = float(m1.logpdf(p1, np.asarray(d1))[0])
        out.append((l0, l1))
        if math.isfinite(l0) and not abs(l0 - l1) <= 1e-9 * (1 + abs(l0)):
            return 'logpdf', l1, l0
    return None, out, None


def run(ctx):
    import pyhf, pyhf.writexml, pyhf.readxml
    rng, lean = ctx.rng, ctx.lean
    pyhf.set_backend('numpy')
    tmp = Path(tempfile.mkdtemp(prefix='c18_'))
    try:
        dirs = [tmp / 'a', tmp / 'b']
        for d in dirs: d.mkdir()
        for i in range(ctx.n(40, 1200)):
            ws, info = gen_ws(rng)
            try:
                pyhf.Workspace(ws).model()
            except Exception:
                continue
            frozen = copy.deepcopy(ws)
            d = dirs[0] if rng.random() < 0.7 else dirs[1]      # mostly the same directory again and again
            inp = {'workspace': frozen, 'directory': d.name}
            try:
                top = export(pyhf, ws, d); eerr = None
            except Exception as e:  # noqa
                eerr = type(e).__name__
            rep = lean.ok({'op': 'xml_export', 'ws': enc_ws(frozen)})
            ctx.count()
            if ws != frozen: ctx.fail('C18/mutation', 'writexml modified the workspace', inp)
            if rep['error'] != eerr:
                ctx.disagree('writexml.outcome', inp, rep['error'], eerr); continue
            if eerr is not None:
                ctx.fail('C18/export-refused', f'an exportable workspace could not be exported ({eerr})', inp); continue
            doc = read_doc(top, d)
            if canon_doc(doc) != canon_doc(rep['doc']):
                ctx.disagree('writexml.document', inp, canon_doc(rep['doc']), canon_doc(doc))
            try:
                back = parse(pyhf, d); perr = None
            except Exception as e:  # noqa
                back = None; perr = type(e).__name__
            rep2 = lean.ok({'op': 'xml_import', 'doc': doc})
            if rep2['error'] != perr:
                ctx.disagree('readxml.outcome', inp, rep2['error'], perr); continue
            if perr is not None:
                ctx.fail('C18/import-refused', f'the exported files could not be parsed back ({perr})', inp); continue
            if enc_ws(back) != rep2['ws']:
                ctx.disagree('readxml.workspace', inp, rep2['ws'], enc_ws(back))
            # ---------------- oracles from the property text
            mp = name_map(frozen)
            if [c['name'] for c in back['channels']] != [c['name'] for c in frozen['channels']]:
                ctx.fail('C18/channels', 'channels differ after the round trip', inp)
            for c0, c1 in zip(frozen['channels'], back['channels']):
                if [(s['name'], s['data']) for s in c0['samples']] != [(s['name'], s['data']) for s in c1['samples']]:
                    ctx.fail('C18/samples', 'samples or nominal yields differ after the round trip', dict(inp, channel=c0['name']))
                for s0, s1 in zip(c0['samples'], c1['samples']):
                    a = sorted((mp.get(m['name'], m['name']), m['type']) for m in s0['modifiers'])
                    b = sorted((m['name'], m['type']) for m in s1['modifiers'])
                    if a != b:
                        ctx.fail('C18/modifiers', 'modifier names/types differ after the round trip', dict(inp, channel=c0['name'], sample=s0['name']), b, a)
            if sorted((o['name'], o['data']) for o in back['observations']) != sorted((o['name'], o['data']) for o in frozen['observations']):
                ctx.fail('C18/observations', 'observations differ after the round trip', inp)
            for m0, m1 in zip(frozen['measurements'], back['measurements']):
                if (m0['name'], m0['config']['poi']) != (m1['name'], m1['config']['poi']):
                    ctx.fail('C18/poi', 'measurement name or POI differ after the round trip', inp)
                fx0 = sorted(p['name'] for p in m0['config']['parameters'] if p.get('fixed')); fx1 = sorted(p['name'] for p in m1['config']['parameters'] if p.get('fixed'))
                if fx0 != fx1:
                    ctx.fail('C18/constant-flags', 'constant-parameter flags differ after the round trip', dict(inp, measurement=m0['name']), fx1, fx0)
                l0 = [p for p in m0['config']['parameters'] if p['name'] == 'lumi']; l1 = [p for p in m1['config']['parameters'] if p['name'] == 'lumi']
                if l0:
                    if not l1 or abs(l1[0]['auxdata'][0] - l0[0]['auxdata'][0]) > 1e-12 * abs(l0[0]['auxdata'][0]) or abs(l1[0]['sigmas'][0] - l0[0]['sigmas'][0]) > 1e-12 * abs(l0[0]['sigmas'][0]):
                        ctx.fail('C18/lumi', 'luminosity centre or uncertainty not recovered', dict(inp, measurement=m0['name']), l1, l0)
                nf0 = {p['name']: p for p in frozen['measurements'][0]['config']['parameters'] if 'inits' in p or 'bounds' in p}
                for p in m1['config']['parameters']:
                    q = nf0.get(p['name'])
                    if q and p['name'] != 'lumi' and m0 is frozen['measurements'][0]:
                        if ('inits' in q and p.get('inits') != [float(x) for x in q['inits']]) or ('bounds' in q and p.get('bounds') != [[float(a), float(b)] for a, b in q['bounds']]):
                            ctx.fail('C18/normfactor-config', 'custom init/bounds of a normalisation factor not recovered', dict(inp, parameter=p['name']), p, q)
            for m0 in frozen['measurements']:
                try:
                    what, got, want = loglik_pair(pyhf, rng, frozen, back, m0['name'])
                except Exception as e:  # noqa
                    ctx.fail('C18/model', f'the parsed workspace does not build the measurement\'s model ({type(e).__name__})', dict(inp, measurement=m0['name']), str(e)[:200]); continue
                if what == 'parameters':
                    ctx.fail('C18/parameters', 'the parsed model has different parameters', dict(inp, measurement=m0['name']), got, want)
                elif what == 'logpdf':
                    ctx.fail('C18/likelihood', 'the parsed model assigns a different log-likelihood', dict(inp, measurement=m0['name']), got, want)
            # second cycle into the other directory: fixed point of the round trip, and nothing stale
            other = dirs[1] if d == dirs[0] else dirs[0]
            try:
                export(pyhf, back, other); back2 = parse(pyhf, other)
                if enc_ws(back2)['channels'] != enc_ws(back)['channels'] and not all(
                        np.allclose(s2['data'], s1['data'], rtol=1e-15) for c2, c1 in zip(back2['channels'], back['channels']) for s2, s1 in zip(c2['samples'], c1['samples'])):
                    ctx.fail('C18/second-cycle', 'a second export/import cycle changes the workspace', inp)
                if [m['config']['poi'] for m in back2['measurements']] != [m['config']['poi'] for m in back['measurements']]:
                    ctx.fail('C18/second-cycle', 'a second export/import cycle changes the measurements', inp)
            except Exception as e:  # noqa
                ctx.fail('C18/second-cycle', f'the parsed workspace cannot be exported and parsed again ({type(e).__name__})', inp, str(e)[:200])
            types = {m['type'] for c in frozen['channels'] for s in c['samples'] for m in s['modifiers']}
            ctx.tally('n_modifier_types', len(types)); ctx.tally('measurements', len(frozen['measurements'])); ctx.tally('directory', d.name)
            if len(types) >= 3 and any(p.get('fixed') or p['name'] == 'lumi' for p in frozen['measurements'][0]['config']['parameters']):
                ctx.nontrivial(json.dumps(frozen, sort_keys=True))
            if i < 2: ctx.sample({'channels': [c['name'] for c in frozen['channels']], 'types': sorted(types), 'measurements': len(frozen['measurements'])})
        # ---------------- file cache histories: write(dir, k) = export variant k into dir; read(dir) = parse it
        base, _ = gen_ws(rng)
        def variant(k):
            w = copy.deepcopy(base); w['channels'][0]['samples'][0]['data'] = [1000.0 + k for _ in w['channels'][0]['samples'][0]['data']]
            return w
        for h in range(ctx.n(6, 150)):
            ops = []; got = []
            written = set()
            for _ in range(rng.randint(3, 9)):
                p = rng.choice(['a', 'b'])
                if rng.random() < 0.45 or p not in written:
                    k = rng.randint(0, 50); ops.append(['write', p, k]); written.add(p)
                    export(pyhf, variant(k), tmp / p); got.append(None)
                else:
                    ops.append(['read', p])
                    w = parse(pyhf, tmp / p); got.append(int(w['channels'][0]['samples'][0]['data'][0] - 1000))
            want = lean.ok({'op': 'xml_cache', 'ops': ops})
            ctx.count()
            if got != want:
                ctx.disagree('readxml.filecache', {'history': ops}, want, got)
            # oracle: a read returns what was last written to that directory
            last = {}
            for op, g in zip(ops, got):
                if op[0] == 'write': last[op[1]] = op[2]
                elif g != last[op[1]]:
                    ctx.fail('C18/stale-import', 'a parse returned histograms of an earlier export into the same directory', {'history': ops}, g, last[op[1]]); break
            if sum(1 for o in ops if o[0] == 'write') >= 2: ctx.nontrivial(json.dumps(ops))
    finally:
        shutil.rmtree(tmp, ignore_errors=True)
        pyhf.readxml.clear_filecache()
