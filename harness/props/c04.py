"""C04 — probability primitives equal the exact Poisson/Normal functions on every backend.

Correspondence: the composed formulae of the numpy backend (`xlogy − λ − gammaln(n+1)`, `−log(σ√2π) − ((x−μ)/(√2σ))²`)
vs the same formulae in the Lean model (Float), bit-level tolerance.
Differential testing (labelled as such — floating-point accuracy of third-party libraries is not provable here):
every backend × {64b, 32b} on a grid of arguments vs 50-digit mpmath evaluation of the closed forms the theorems identify;
acceptance: error ≤ c·ε·Σ|terms|; non-log = exp(log); distribution objects = primitives.
"""
import math
import numpy as np
import mpmath as mp
from harness.core import fl, unfl, f2b

RULE = ('argument grid: n integer and real up to 1e8, λ ∈ {0, denormal, 1e-300 … 1e8}, λ≈n (cancellation), x/μ/σ over 20 decades, '
        'Φ arguments −38…38 × {numpy, jax, pytorch, tensorflow} × {64b, 32b}; non-trivial = all terms non-zero; distinct by argument tuple')
mp.mp.dps = 50
BACKENDS = [('numpy', '64b'), ('jax', '64b'), ('pytorch', '64b'), ('tensorflow', '64b'), ('numpy', '32b'), ('pytorch', '32b'), ('tensorflow', '32b'), ('jax', '32b')]


def pois_ref(n, lam):
    if lam == 0:
        return (0.0, 0.0) if n == 0 else (-math.inf, math.inf)
    t1 = mp.mpf(n) * mp.log(mp.mpf(lam)) if n != 0 else mp.mpf(0)
    t3 = mp.loggamma(mp.mpf(n) + 1)
    # terms involved: n·log λ, λ, log Γ(n+1) and the rounded argument n+1 (conditioning |ψ(n+1)|·(n+1))
    return float(t1 - lam - t3), float(abs(t1) + abs(mp.mpf(lam)) + abs(t3) + abs(mp.digamma(mp.mpf(n) + 1)) * (mp.mpf(n) + 1))


def norm_ref(x, mu, s):
    t1 = -mp.log(mp.mpf(s) * mp.sqrt(2 * mp.pi)); t2 = -((mp.mpf(x) - mp.mpf(mu)) / (mp.sqrt(2) * mp.mpf(s))) ** 2
    # +1: the rounded product σ·√(2π) enters a logarithm (absolute error of log = relative error of its argument)
    return float(t1 + t2), float(1 + abs(t1) + abs(t2) + 2 * abs(t2) * (abs(mp.mpf(x)) + abs(mp.mpf(mu))) / max(abs(mp.mpf(x) - mp.mpf(mu)), mp.mpf(10) ** -300))


def run(ctx):
    import pyhf
    from scipy.special import gammaln
    rng, lean = ctx.rng, ctx.lean
    N = ctx.n(1500, 60000)
    pois, norms, cdfs = [], [], []
    for _ in range(N):
        r = rng.random()
        n = float(rng.randint(0, 30)) if r < 0.3 else (float(rng.randint(0, 10**rng.randint(1, 8))) if r < 0.6 else 10 ** rng.uniform(-3, 8))
        r2 = rng.random()
        lam = 0.0 if r2 < 0.03 else (5e-324 if r2 < 0.05 else (n * (1 + rng.uniform(-1e-3, 1e-3)) if r2 < 0.3 and n > 0 else 10 ** rng.uniform(-300 if r2 < 0.4 else -3, 8)))
        pois.append((n, lam))
        mu = rng.choice([0.0, 1.0, -3.0, 10 ** rng.uniform(-10, 10)]); s = 10 ** rng.uniform(-10, 10)
        x = mu + s * rng.uniform(-30, 30) if rng.random() < 0.8 else 10 ** rng.uniform(-10, 10)
        norms.append((x, mu, s))
        cdfs.append(rng.uniform(-38, 38) if rng.random() < 0.8 else rng.choice([0.0, -37.5, 37.5, 1e-300, -1e-300, 8.2, -8.3]))
    # ---------------- model vs numpy backend formulae
    pyhf.set_backend('numpy', precision='64b')
    tl = pyhf.tensorlib
    pa = np.asarray(pois); na = np.asarray(norms)
    ok = pa[:, 1] > 0
    lg = gammaln(pa[:, 0] + 1.0)
    m_p = np.asarray(unfl(lean.ok({'op': 'prob', 'kind': 'poisson', 'args': fl(pa.tolist()), 'lgamma': fl(lg.tolist())})))
    i_p = np.asarray(tl.poisson_logpdf(pa[:, 0], pa[:, 1]))
    m_n = np.asarray(unfl(lean.ok({'op': 'prob', 'kind': 'normal', 'args': fl(na.tolist())})))
    i_n = np.asarray(tl.normal_logpdf(na[:, 0], na[:, 1], na[:, 2]))
    ctx.count(2 * N)
    for k in range(N):
        if ok[k]:
            ref, mag = pois_ref(*pois[k])
            if not abs(i_p[k] - m_p[k]) <= 8 * 2.3e-16 * mag + 1e-300:
                ctx.disagree('poisson_logpdf', {'n': pois[k][0], 'lam': pois[k][1]}, float(m_p[k]), float(i_p[k]))
        ref, mag = norm_ref(*norms[k])
        if not abs(i_n[k] - m_n[k]) <= 8 * 2.3e-16 * (abs(ref) + 1) + 1e-300:
            ctx.disagree('normal_logpdf', dict(zip('x mu sigma'.split(), norms[k])), float(m_n[k]), float(i_n[k]))
    # ---------------- every backend vs 50-digit references
    worst = {}
    for (bk, prec) in BACKENDS if ctx.thorough else BACKENDS[:4] + [BACKENDS[4 + ctx.seed % 4]]:
        pyhf.set_backend(bk, precision=prec)
        tl = pyhf.tensorlib
        eps = 2.3e-16 if prec == '64b' else 1.2e-7
        sub = slice(0, N if bk == 'numpy' and prec == '64b' else max(300, N // 6))
        def arr(a): return tl.astensor(np.asarray(a, dtype=np.float64))
        P = np.asarray(pois[sub]); Nn = np.asarray(norms[sub]); C = np.asarray(cdfs[sub])
        if prec == '32b':
            P = P[(P[:, 0] < 1e6) & (P[:, 1] < 1e6) & (P[:, 1] > 1e-30) | (P[:, 1] == 0)]; Nn = Nn[(np.abs(Nn) < 1e15).all(axis=1) & (Nn[:, 2] > 1e-15)]; C = C[np.abs(C) < 12]
        with np.errstate(all='ignore'):
            lp = np.asarray(tl.tolist(tl.poisson_logpdf(arr(P[:, 0]), arr(P[:, 1]))), dtype=float)
            pp = np.asarray(tl.tolist(tl.poisson(arr(P[:, 0]), arr(P[:, 1]))), dtype=float)
            ln = np.asarray(tl.tolist(tl.normal_logpdf(arr(Nn[:, 0]), arr(Nn[:, 1]), arr(Nn[:, 2]))), dtype=float)
            nn = np.asarray(tl.tolist(tl.normal(arr(Nn[:, 0]), arr(Nn[:, 1]), arr(Nn[:, 2]))), dtype=float)
            cd = np.asarray(tl.tolist(tl.normal_cdf(arr(C))), dtype=float)
            dist_p = np.asarray(tl.tolist(pyhf.probability.Poisson(arr(P[:, 1])).log_prob(arr(P[:, 0]))), dtype=float)
            dist_n = np.asarray(tl.tolist(pyhf.probability.Normal(arr(Nn[:, 1]), arr(Nn[:, 2])).log_prob(arr(Nn[:, 0]))), dtype=float)
        ctx.count(len(P) + len(Nn) + len(C))
        c = 16 if prec == '64b' else 64
        tag = f'{bk}{prec}'
        for k in range(len(P)):
            n, lam = P[k]
            if prec == '32b': n, lam = float(np.float32(n)), float(np.float32(lam))
            ref, mag = pois_ref(n, lam)
            inp = {'n': n, 'lam': lam, 'backend': [bk, prec]}
            if lam == 0:
                good = (abs(lp[k]) <= c * eps and abs(pp[k] - 1) <= c * eps) if n == 0 else (lp[k] == -math.inf or (math.isnan(lp[k]) and bk in ('pytorch', 'tensorflow')) ) and (pp[k] == 0 or math.isnan(pp[k]))
                if not good:
                    ctx.fail(f'C04/poisson-rate-zero/{tag}', 'rate→0 limit is not mass 1 at n=0 / 0 otherwise', inp, [float(lp[k]), float(pp[k])])
                continue
            tol = c * eps * mag * (4 if bk in ('pytorch', 'tensorflow') else 1) + 1e-300
            tiny = 1e-300 if prec == '64b' else 1e-37
            if lam < 2.3e-308 and bk in ('jax', 'tensorflow') and lp[k] == -math.inf and n > 0:
                ctx.fail(f'C04/denormal-rate-flushed/{bk}', 'a denormal rate is flushed to zero (XLA/Eigen flush-to-zero): log-mass -inf instead of the finite exact value', inp, float(lp[k]), ref)
                continue
            err = abs(lp[k] - ref)
            worst[tag + '/poisson'] = max(worst.get(tag + '/poisson', 0), err / (eps * mag + 1e-300))
            if not err <= tol:
                ctx.fail(f'C04/poisson-logpdf/{tag}', 'Poisson log-mass differs from the exact value by more than a few units of rounding of the terms', inp, float(lp[k]), ref)
            if math.isfinite(ref) and ref > -700 and c * eps * mag < 0.05 and not abs(pp[k] - math.exp(ref)) <= (c * eps * (mag + 1) * 4) * math.exp(ref) + tiny:
                ctx.fail(f'C04/poisson-nonlog/{tag}', 'non-log Poisson variant is not the exponential of the log variant', inp, float(pp[k]), math.exp(ref))
            if not (dist_p[k] == lp[k] or abs(dist_p[k] - lp[k]) <= tol):
                ctx.fail(f'C04/poisson-dist/{tag}', 'Poisson distribution object disagrees with the primitive', inp, float(dist_p[k]), float(lp[k]))
            if n > 0 and lam > 0: ctx.nontrivial(('p', n, lam))
        for k in range(len(Nn)):
            x, mu, s = Nn[k]
            if prec == '32b': x, mu, s = float(np.float32(x)), float(np.float32(mu)), float(np.float32(s))
            ref, mag = norm_ref(x, mu, s)
            if prec == '32b' and (abs(ref) > 1e37 or mag > 1e37):
                continue      # exceeds the float32 range: ±inf is the correctly rounded answer
            inp = {'x': x, 'mu': mu, 'sigma': s, 'backend': [bk, prec]}
            tol = c * eps * mag + 1e-300
            err = abs(ln[k] - ref)
            worst[tag + '/normal'] = max(worst.get(tag + '/normal', 0), err / (eps * mag + 1e-300))
            if not err <= tol:
                ctx.fail(f'C04/normal-logpdf/{tag}', 'Normal log-density differs from the exact value by more than a few units of rounding of the terms', inp, float(ln[k]), ref)
            if ref > -700 and ref < 700 and c * eps * mag < 0.05 and not abs(nn[k] - math.exp(ref)) <= (c * eps * (mag + 1) * 4) * math.exp(ref) + (1e-300 if prec == '64b' else 1e-37):
                ctx.fail(f'C04/normal-nonlog/{tag}', 'non-log Normal variant is not the exponential of the log variant', inp, float(nn[k]), math.exp(ref))
            if not (dist_n[k] == ln[k] or abs(dist_n[k] - ln[k]) <= tol):
                ctx.fail(f'C04/normal-dist/{tag}', 'Normal distribution object disagrees with the primitive', inp, float(dist_n[k]), float(ln[k]))
        for k in range(len(C)):
            z = float(C[k]) if prec == '64b' else float(np.float32(C[k]))
            ref = float(mp.ncdf(mp.mpf(z)))
            tol = c * eps * ref * (1 + z * z) + (1e-300 if prec == '64b' else 1e-37)
            worst[tag + '/cdf'] = max(worst.get(tag + '/cdf', 0), abs(cd[k] - ref) / (eps * ref * (1 + z * z) + 1e-300))
            if not abs(cd[k] - ref) <= tol:
                ctx.fail(f'C04/normal-cdf/{tag}', 'standard Normal cdf differs from the exact value beyond a few units of rounding (far tail included)', {'z': z, 'backend': [bk, prec]}, float(cd[k]), ref)
    # ---------------- directed single-element calls at the edge of the double range (vectorised and scalar kernels of a library may treat
    # subnormal numbers differently): denormal rates and results, on every 64-bit backend, after all backends have been initialised
    for bk in ['numpy', 'jax', 'pytorch', 'tensorflow', 'numpy']:
        pyhf.set_backend(bk, precision='64b')
        tl = pyhf.tensorlib
        one = lambda v: tl.astensor(np.asarray([v], dtype=np.float64))
        for n, lam in [(1.0, 5e-324), (3.0, 1e-310), (2.0, 2e-308), (1.0, 1e-300), (0.0, 5e-324)]:
            with np.errstate(all='ignore'):
                got = float(np.asarray(tl.tolist(tl.poisson_logpdf(one(n), one(lam))), dtype=float).ravel()[0])
                gotd = float(np.asarray(tl.tolist(pyhf.probability.Poisson(one(lam)).log_prob(one(n))), dtype=float).ravel()[0])
            ref, mag = pois_ref(n, lam); ctx.count()
            inp = {'n': n, 'lam': lam, 'backend': [bk, '64b'], 'call': 'one-element tensor'}
            for what, g in (('poisson_logpdf', got), ('Poisson.log_prob', gotd)):
                if lam < 2.3e-308 and bk in ('jax', 'tensorflow') and g == -math.inf and n > 0:
                    ctx.fail(f'C04/denormal-rate-flushed/{bk}', 'a denormal rate is flushed to zero (XLA/Eigen flush-to-zero): log-mass -inf instead of the finite exact value', inp, g, ref)
                elif not abs(g - ref) <= 64 * 2.3e-16 * mag + 1e-300:
                    ctx.fail(f'C04/poisson-logpdf/{bk}64b', f'{what} on a one-element tensor differs from the exact value (subnormal rate)', inp, g, ref)
        for z in [-37.0, -36.0, -30.0]:      # results still in the normal range (below it the tolerance policy of the grid asks for nothing: absolute 1e-300)
            with np.errstate(all='ignore'):
                g = float(np.asarray(tl.tolist(tl.normal_cdf(one(z))), dtype=float).ravel()[0])
            ref = float(mp.ncdf(mp.mpf(z))); ctx.count()
            if not abs(g - ref) <= 64 * 2.3e-16 * ref * (1 + z * z) + 1e-300:
                ctx.fail(f'C04/normal-cdf/{bk}64b', 'standard Normal cdf of a one-element tensor differs from the exact value in the far tail (subnormal result)', {'z': z, 'backend': [bk, '64b']}, g, ref)
    # ---------------- integer-typed arguments (histogram counts read as integers, Python ints for centre and width) on the numpy backend,
    # which computes on what it is given: the results must be the exact real-number values (no integer wrap-around in a square)
    pyhf.set_backend('numpy', precision='64b'); tl = pyhf.tensorlib
    for dt in (np.int32, np.int64):
        xs = np.asarray([100000, 50000, 70003, 3, 2000000000 if dt is np.int64 else 2000000], dtype=dt); mus = np.asarray([0, 1, 3, 5, 7], dtype=dt)
        for sig in (np.asarray([50000, 47000, 60001, 2, 100000 if dt is np.int64 else 70000], dtype=dt), 50000, 3.5):
            with np.errstate(all='ignore'):
                got = np.asarray(tl.normal_logpdf(xs, mus, sig), dtype=float)
                gotn = np.asarray(tl.normal(xs, mus, sig), dtype=float)
                gotd = np.asarray(pyhf.probability.Normal(mus, sig).log_prob(xs), dtype=float)
            sg = np.broadcast_to(np.asarray(sig, dtype=float), xs.shape)
            for k in range(len(xs)):
                ref, mag = norm_ref(float(xs[k]), float(mus[k]), float(sg[k])); ctx.count()
                inp = {'x': int(xs[k]), 'mu': int(mus[k]), 'sigma': float(sg[k]), 'dtype': np.dtype(dt).name, 'sigma_given_as': type(sig).__name__, 'backend': ['numpy', '64b']}
                if not abs(got[k] - ref) <= 64 * 2.3e-16 * mag + 1e-300:
                    ctx.fail('C04/normal-logpdf/numpy-integer-arguments', 'Normal log-density of integer-typed arguments differs from the exact value', inp, float(got[k]), ref)
                if not (gotd[k] == got[k] or abs(gotd[k] - got[k]) <= 64 * 2.3e-16 * mag):
                    ctx.fail('C04/normal-dist/numpy-integer-arguments', 'Normal distribution object disagrees with the primitive on integer-typed arguments', inp, float(gotd[k]), float(got[k]))
                if -700 < ref < 700 and not abs(gotn[k] - math.exp(ref)) <= 1e-9 * math.exp(ref) * (1 + mag * 1e-6) + 1e-300:
                    ctx.fail('C04/normal-nonlog/numpy-integer-arguments', 'non-log Normal variant is not the exponential of the log variant on integer-typed arguments', inp, float(gotn[k]), math.exp(ref))
        ns = np.asarray([0, 3, 100000, 50000], dtype=dt); lam = np.asarray([2.5, 3.0, 100100.0, 49000.5])
        with np.errstate(all='ignore'):
            gp = np.asarray(tl.poisson_logpdf(ns, lam), dtype=float)
        for k in range(len(ns)):
            ref, mag = pois_ref(float(ns[k]), float(lam[k])); ctx.count()
            if not abs(gp[k] - ref) <= 64 * 2.3e-16 * mag + 1e-300:
                ctx.fail('C04/poisson-logpdf/numpy-integer-arguments', 'Poisson log-mass of integer-typed counts differs from the exact value', {'n': int(ns[k]), 'lam': float(lam[k]), 'dtype': np.dtype(dt).name}, float(gp[k]), ref)
    pyhf.set_backend('numpy', precision='64b')
    ctx.notes['worst_error_in_units_of_eps_times_terms'] = {k: round(v, 2) for k, v in worst.items()}
    ctx.sample({'poisson(n,lam)': pois[0], 'normal(x,mu,sigma)': norms[0], 'cdf_arg': cdfs[0]})
