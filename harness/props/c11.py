"""C11 — results are independent of the history of backend switches.

Correspondence: random operation sequences — set_backend(name, precision, optimizer), creation of models /
interpolators / viewers, deletion + gc, evaluation — on the real library vs the Lean subscription state machine
(`Events.step`): the number of live `tensorlib_changed` callbacks, and the backend every surviving object's cached
tensors live on, after every step.
Implementation-side oracle: after the recorded history every old object evaluates exactly as a freshly created one
(type, dtype, value), fits give the same objective, deleted objects break nothing.
"""
import gc, json
import numpy as np
from harness import gen_spec, enga

RULE = ('random histories (length ≤ 12 quick / 40 thorough) over {numpy, jax, pytorch, tensorflow} × {64b, 32b} × {scipy, minuit} '
        'interleaving creation of models / interpolators / viewers, deletion + gc, evaluation and fits; '
        'non-trivial = ≥2 effective backend switches with ≥1 object created before the first; distinct by history')
BKS = [('numpy', '64b'), ('pytorch', '64b'), ('tensorflow', '64b'), ('numpy', '32b'), ('pytorch', '32b'), ('jax', '64b'), ('tensorflow', '32b')]


def kind(t):
    return (type(t).__module__.split('.')[0], str(getattr(t, 'dtype', '')).replace('torch.', '').replace("<dtype: '", '').replace("'>", ''))


def make_object(pyhf, rng, what):
    if what == 'model':
        spec, _ = gen_spec.gen_spec(rng, max_channels=2, max_samples=2, max_bins=2)
        return pyhf.Model(spec, poi_name='mu'), spec
    if what == 'interp':
        code = rng.choice([0, 1, 2, 4, '4p'])
        payload = [code, [[[[8.0, 9.0], [10.0, 10.0], [13.0, 12.0]]]]]
        return pyhf.interpolators.get(code)(payload[1]), payload
    from pyhf.tensor.common import _TensorViewer
    payload = [[0, 2], [1, 3]]
    return _TensorViewer(payload), payload


def eval_object(ctx, pyhf, entry, history, i):
    what, o, w, payload = entry
    tl = pyhf.tensorlib
    want_kind = kind(tl.astensor([1.0]))
    inp = {'history': history + [['eval', i]], 'object': what}
    try:
        if what == 'model':
            p = tl.astensor(np.asarray(o.config.suggested_init(), dtype=np.float64))
            fm = pyhf.Model(payload, poi_name='mu')
            got = o.expected_data(p); fresh = fm.expected_data(p)
            d = tl.astensor(np.asarray(tl.tolist(fresh), dtype=np.float64))
            lp, lpf = o.logpdf(p, d), fm.logpdf(p, d)
            if kind(lp)[0] != want_kind[0] or kind(lp) != kind(lpf) or not np.array_equal(np.asarray(tl.tolist(lp)), np.asarray(tl.tolist(lpf))):
                ctx.fail('C11/logpdf-vs-fresh', 'log-density of an old model differs from a fresh one after the history', inp, [kind(lp), tl.tolist(lp)], [kind(lpf), tl.tolist(lpf)])
        elif what == 'interp':
            a = tl.astensor(np.asarray([[0.3], ], dtype=np.float64))
            got = o(a); fresh = pyhf.interpolators.get(payload[0])(payload[1], subscribe=False)(a)
        else:
            from pyhf.tensor.common import _TensorViewer
            v = tl.astensor(np.asarray([1.0, 2.0, 3.0, 4.0], dtype=np.float64))
            got = o.stitch(o.split(v))
            f = _TensorViewer(payload); fresh = f.stitch(f.split(v))
    except Exception as e:  # noqa
        ctx.fail('C11/eval-exception', f'evaluation after the history raised {type(e).__name__}', inp, str(e)[:200]); return
    ctx.count()
    if kind(got)[0] != want_kind[0] or kind(got) != kind(fresh) or not np.array_equal(np.asarray(tl.tolist(got)), np.asarray(tl.tolist(fresh))):
        ctx.fail('C11/eval-vs-fresh', 'an object created earlier does not evaluate like a fresh one under the current backend', inp,
                 [kind(got), np.asarray(tl.tolist(got)).tolist()], [kind(fresh), np.asarray(tl.tolist(fresh)).tolist()])


def switch(pyhf, rng, name, prec, opt=None):
    """reach the backend (name, prec) through one of the call forms set_backend documents: by name, by a backend object of that
    precision, by a backend object of the *other* precision overridden by `precision=` (the argument always wins), or — when the name
    does not change — by the current backend object itself with a conflicting `precision=`.  Returns the form used."""
    other = '32b' if prec == '64b' else '64b'
    forms = ['name', 'object', 'object-other-precision']
    if pyhf.tensorlib.name == name: forms.append('current-object')
    form = rng.choice(forms) if rng.random() < 0.5 else 'name'
    args = [] if opt is None else [opt]
    if form == 'name': pyhf.set_backend(name, *args, precision=prec)
    elif form == 'object': pyhf.set_backend(getattr(pyhf.tensor, name + '_backend')(precision=prec), *args)
    elif form == 'object-other-precision': pyhf.set_backend(getattr(pyhf.tensor, name + '_backend')(precision=other), *args, precision=prec)
    else: pyhf.set_backend(pyhf.tensorlib, *args, precision=prec)
    return form


def run(ctx):
    import pyhf
    from pyhf import events
    rng, lean = ctx.rng, ctx.lean
    nlive = lambda: len(events.trigger('tensorlib_changed')) if not callable(getattr(events.trigger('tensorlib_changed'), '__name__', None)) else 0
    def ncallbacks():
        t = events.trigger('tensorlib_changed')
        try: return len(t)
        except TypeError: return 0
    # load every backend once, then park everything that exists now in the permanent generation: the collections
    # below (needed to make deletions effective) then only scan what the histories create
    for nm, pr in BKS: pyhf.set_backend(nm, precision=pr)
    gc.collect(); gc.freeze()
    for h in range(ctx.n(40, 280)):
        gc.collect()
        cur = 0
        pyhf.set_backend(*[BKS[0][0]], precision=BKS[0][1]); gc.collect()
        base = ncallbacks()
        observed = (h % 2 == 0)    # len() of the registry flushes dead references: every other history runs without looking
        objs = []      # (kind, object or None, weight, creation payload)
        ops = [['set', 0]]
        model_ops = []
        steps = rng.randint(4, ctx.n(10, 40))
        history = []
        nswitch = 0
        ok = True
        for st in range(steps):
            r = rng.random()
            if r < 0.35:
                k = rng.randrange(len(BKS) - (0 if (ctx.thorough or h == 3) else 2))
                opt = rng.choice(['scipy', 'minuit'])
                form = switch(pyhf, rng, BKS[k][0], BKS[k][1], opt)
                ctx.tally('set_backend_form', form)
                if k != cur: nswitch += 1
                cur = k
                model_ops.append(['set', k]); history.append(['set_backend', BKS[k][0], BKS[k][1], opt, form])
            elif r < 0.65 or not objs:
                what = rng.choice(['model', 'model', 'interp', 'viewer'])
                before = ncallbacks() if observed else 0
                o, payload = make_object(pyhf, rng, what)
                w = ncallbacks() - before if observed else 0
                objs.append([what, o, w, payload])
                del o
                model_ops.append(['create', []]); history.append(['create', what])
            elif r < 0.8:
                alive = [i for i, x in enumerate(objs) if x[1] is not None]
                if not alive: continue
                i = rng.choice(alive)
                dead_kind = objs[i][0]
                objs[i][1] = None; gc.collect()
                model_ops.append(['delete', i]); history.append(['delete', i])
                for _rep in range(2 if rng.random() < 0.7 else 0):
                    # … and straight away new objects of the same kind (they may well land on the recycled addresses)
                    before = ncallbacks() if observed else 0
                    o, payload = make_object(pyhf, rng, dead_kind)
                    objs.append([dead_kind, o, ncallbacks() - before if observed else 0, payload])
                    del o
                    model_ops.append(['create', []]); history.append(['create', dead_kind])
            else:
                alive = [i for i, x in enumerate(objs) if x[1] is not None]
                if not alive: continue
                i = rng.choice(alive)
                eval_object(ctx, pyhf, objs[i], history, i)
                history.append(['eval', i])
            # ---- correspondence after every step: live callback count
            gc.collect()
            if not observed: continue
            rep = lean.ok({'op': 'events', 'ops': [['set', 0]] + model_ops})[-1]
            want = base + sum(objs[i][2] for i in rep['reg']) if rep['alive'] else base
            # the model flushes dead references at a switch; the implementation's len() flushes on access
            want_live = base + sum(objs[i][2] for i, a in enumerate(rep['alive']) if a)
            got_live = ncallbacks()
            ctx.count()
            if got_live != want_live:
                ctx.disagree('events.live-callbacks', {'history': list(history)}, want_live, got_live)
            if not all(rep['fresh']):
                ctx.disagree('events.model-invariant', {'history': list(history)}, rep['fresh'], None, 'model invariant broken (should be impossible)')
        # ---- end of the history: one more effective switch (half of the time to the other precision of a backend that
        # was already visited), then EVERY surviving object must evaluate like a fresh one
        visited = sorted({m_[1] for m_ in model_ops if m_[0] == 'set'} | {0})
        other_prec = [j for j, (nm, pr) in enumerate(BKS) if j != cur and any(BKS[v][0] == nm and BKS[v][1] != pr for v in visited)
                      and j < len(BKS) - (0 if ctx.thorough else 2)]
        cand = other_prec if (other_prec and rng.random() < 0.6) else [j for j in range(len(BKS) - (0 if ctx.thorough else 2)) if j != cur]
        k = rng.choice(cand)
        form = switch(pyhf, rng, BKS[k][0], BKS[k][1]); nswitch += 1; cur = k
        ctx.tally('set_backend_form', form)
        model_ops.append(['set', k]); history.append(['set_backend', BKS[k][0], BKS[k][1], 'scipy', form])
        for i, x in enumerate(objs):
            if x[1] is not None:
                eval_object(ctx, pyhf, x, history, i)
        # fits after the history
        alive_models = [x for x in objs if x[0] == 'model' and x[1] is not None]
        if alive_models and h % 5 == 0:
            what, o, w, payload = alive_models[0]
            try:
                pyhf.set_backend(pyhf.tensorlib.name, 'scipy', precision=pyhf.tensorlib.precision)
                d = list(np.asarray(pyhf.tensorlib.tolist(o.expected_data(pyhf.tensorlib.astensor(np.asarray(o.config.suggested_init(), dtype=np.float64)))), dtype=float))
                _, f1 = pyhf.infer.mle.fit(d, o, return_fitted_val=True)
                _, f2 = pyhf.infer.mle.fit(d, pyhf.Model(payload, poi_name='mu'), return_fitted_val=True)
                f1 = float(np.asarray(pyhf.tensorlib.tolist(f1))); f2 = float(np.asarray(pyhf.tensorlib.tolist(f2)))
                tol = 1e-6 if pyhf.tensorlib.precision == '64b' else 5e-2
                ctx.count()
                if abs(f1 - f2) > tol * (1 + abs(f2)):
                    ctx.fail('C11/fit-vs-fresh', 'fit objective on an old model differs from a fresh model', {'history': history}, f1, f2)
            except Exception as e:  # noqa
                if pyhf.tensorlib.precision == '64b':
                    ctx.fail('C11/fit-exception', f'fit after the history raised {type(e).__name__}', {'history': history}, str(e)[:200])
        if nswitch >= 2 and any(hh[0] == 'create' for hh in history[:3]): ctx.nontrivial(json.dumps(history))
        ctx.tally('history_len', len(history)); ctx.tally('switches', nswitch)
        if h < 2: ctx.sample({'history': history})
        objs.clear(); gc.collect()
    # ---------------- directed histories: the FIRST use of an old model after a switch is a (jitted, where the backend jits) fit;
    # every later eager evaluation and every further fit must still behave like a fresh model's
    targets = [('jax', '64b')] + ([('pytorch', '64b'), ('tensorflow', '64b'), ('numpy', '32b')] if ctx.thorough else [[('pytorch', '64b'), ('numpy', '32b')][ctx.seed % 2]])
    for (tb, tp) in targets:
        for ncode, hcode in ([('code1', 'code0'), ('code4', 'code4p')] if (tb == 'jax' or ctx.thorough) else [('code4', 'code4p')]):
            pyhf.set_backend('numpy', 'scipy', precision='64b')
            spec, _ = gen_spec.gen_spec(rng, max_channels=2, max_samples=2, max_bins=2, want={'normsys', 'histosys'})
            mk = lambda: pyhf.Model(spec, poi_name='mu', modifier_settings={'normsys': {'interpcode': ncode}, 'histosys': {'interpcode': hcode}})
            old_model = mk()
            history = [['create', 'model', ncode, hcode], ['set_backend', tb, tp, 'scipy'], ['fit', 0]]
            pyhf.set_backend(tb, 'scipy', precision=tp)
            tl = pyhf.tensorlib
            tol = 1e-6 if tp == '64b' else 5e-2
            try:
                init = np.asarray(old_model.config.suggested_init(), dtype=np.float64)
                d = list(np.asarray(tl.tolist(mk().expected_data(tl.astensor(init))), dtype=float))
                _, f1 = pyhf.infer.mle.fit(d, old_model, return_fitted_val=True)              # first use after the switch
                _, f2 = pyhf.infer.mle.fit(d, mk(), return_fitted_val=True)
                f1 = float(np.asarray(tl.tolist(f1))); f2 = float(np.asarray(tl.tolist(f2))); ctx.count()
                if abs(f1 - f2) > tol * (1 + abs(f2)):
                    ctx.fail('C11/fit-vs-fresh', 'fit objective on an old model differs from a fresh model', {'history': history, 'spec': spec}, f1, f2)
                entry = ['model', old_model, 0, spec]
                # eval_object builds its fresh model with default settings: compare with the same settings here
                p = tl.astensor(init); dd = tl.astensor(np.asarray(d, dtype=np.float64))
                for nm, fn in (('expected_data', lambda mm: mm.expected_data(p)), ('logpdf', lambda mm: mm.logpdf(p, dd))):
                    got = np.asarray(tl.tolist(fn(old_model)), dtype=float); fresh = np.asarray(tl.tolist(fn(mk())), dtype=float); ctx.count()
                    if not np.array_equal(got, fresh):
                        ctx.fail('C11/eval-vs-fresh', 'an object created earlier does not evaluate like a fresh one under the current backend', {'history': history + [['eval', nm]], 'spec': spec}, got.tolist(), fresh.tolist())
                _, g1 = pyhf.infer.mle.fixed_poi_fit(1.0, d, old_model, return_fitted_val=True)
                _, g2 = pyhf.infer.mle.fixed_poi_fit(1.0, d, mk(), return_fitted_val=True)
                g1 = float(np.asarray(tl.tolist(g1))); g2 = float(np.asarray(tl.tolist(g2))); ctx.count()
                if abs(g1 - g2) > tol * (1 + abs(g2)):
                    ctx.fail('C11/fit-vs-fresh', 'fixed-POI fit objective on an old model differs from a fresh model', {'history': history + [['eval'], ['fixed_poi_fit', 0]], 'spec': spec}, g1, g2)
            except Exception as e:  # noqa
                ctx.fail('C11/eval-exception', f'use of an old model after switch-then-fit raised {type(e).__name__}', {'history': history, 'spec': spec}, str(e)[:200])
            ctx.tally('directed_fit_first', f'{tb}/{tp}/{ncode}')
            del old_model; gc.collect()
    # ---------------- directed: the same model fitted under one backend at BOTH precisions (compiled objectives are cached per model by
    # the jitting backends: a cache entry made at one precision must not serve the other); data handed over as a plain list, as users do
    for (tb, first, second) in ([('jax', '32b', '64b')] + ([('jax', '64b', '32b'), ('pytorch', '32b', '64b')] if ctx.thorough else [])):
        for via in ([None, ('numpy', '64b')] if ctx.thorough else [[None, ('numpy', '64b')][ctx.seed % 2]]):
            pyhf.set_backend('numpy', 'scipy', precision='64b')
            spec, _ = gen_spec.gen_spec(rng, max_channels=2, max_samples=2, max_bins=2, want={'normsys', 'histosys'})
            mk = lambda: pyhf.Model(spec, poi_name='mu')
            model = mk()
            d = [float(x) for x in np.asarray(model.expected_data(np.asarray(model.config.suggested_init(), dtype=np.float64)), dtype=float)]
            history = [['create', 'model'], ['set_backend', tb, first, 'scipy'], ['fit', 0]] + ([['set_backend', via[0], via[1], 'scipy']] if via else []) + [['set_backend', tb, second, 'scipy'], ['fit', 0]]
            try:
                pyhf.set_backend(tb, 'scipy', precision=first)
                try: pyhf.infer.mle.fit(d, model)
                except Exception: pass  # noqa — a single-precision fit may fail to converge; what matters is what it leaves behind
                if via: pyhf.set_backend(via[0], 'scipy', precision=via[1])
                pyhf.set_backend(tb, 'scipy', precision=second)
                tl = pyhf.tensorlib
                try:
                    _, f1 = pyhf.infer.mle.fit(d, model, return_fitted_val=True); _, f2 = pyhf.infer.mle.fit(d, mk(), return_fitted_val=True)
                except Exception as e:  # noqa
                    if second == '32b': continue
                    raise
                f1 = float(np.asarray(tl.tolist(f1))); f2 = float(np.asarray(tl.tolist(f2))); ctx.count()
                if abs(f1 - f2) > (1e-9 if second == '64b' else 1e-4) * (1 + abs(f2)):
                    ctx.fail('C11/fit-vs-fresh', 'fit objective on a model fitted earlier at the other precision differs from a fresh model', {'history': history, 'spec': spec, 'data': d}, f1, f2)
            except Exception as e:  # noqa
                ctx.fail('C11/eval-exception', f'a fit after a precision change raised {type(e).__name__}', {'history': history, 'spec': spec}, str(e)[:200])
            ctx.tally('directed_two_precisions', f'{tb}/{first}->{second}' + ('/via-numpy' if via else ''))
    # ---------------- directed: an object dies *during* the dispatch (a subscriber of the caller releases the last reference to an object
    # subscribed earlier); objects subscribed after it must still be refreshed
    class _Cache:
        def __init__(self): self.items = []
        def clear(self, *a, **k): self.items.clear()
    for h in range(ctx.n(4, 40)):
        pyhf.set_backend('numpy', 'scipy', precision='64b'); gc.collect()
        cache = _Cache()
        for _k in range(rng.randint(1, 2)):
            o, payload = make_object(pyhf, rng, rng.choice(['model', 'viewer', 'interp'])); cache.items.append(o); del o
        events.subscribe('tensorlib_changed')(cache.clear)
        survivors = []
        for _k in range(rng.randint(2, 4)):
            what = rng.choice(['model', 'viewer', 'interp'])
            o, payload = make_object(pyhf, rng, what); survivors.append([what, o, 0, payload]); del o
        history = [['park-in-cache', len(cache.items)], ['subscribe', 'cache.clear'], ['create', [x[0] for x in survivors]]]
        for k in rng.sample(range(1, len(BKS) - (0 if ctx.thorough else 2)), 2):
            try:
                pyhf.set_backend(BKS[k][0], precision=BKS[k][1])
            except Exception as e:  # noqa
                ctx.fail('C11/switch-raises', f'set_backend raised {type(e).__name__} after an object died during an earlier dispatch', {'history': history}, str(e)[:150]); break
            history.append(['set_backend', BKS[k][0], BKS[k][1]])
            for i, x in enumerate(survivors): eval_object(ctx, pyhf, x, history, i)
            o, payload = make_object(pyhf, rng, 'model'); cache.items.append(o); del o      # parked again: dies at the next switch
        ctx.tally('directed_history', 'death-during-dispatch')
        del cache, survivors; gc.collect()
    pyhf.set_backend('numpy', 'scipy', precision='64b')
