"""C06 — profile-likelihood test statistics obey their case definitions.

Correspondence (a): the real qmu / qmu_tilde / q0 / tmu / tmu_tilde with `fit` and `fixed_poi_fit` stubbed to return
prescribed (parameters, objective) pairs vs the Lean `testStat`;  (b): real fits on the single-bin counting model vs the
closed form of `qmu_single_bin_closed_form`.  Implementation-side oracle: recompute
max(0, twice_nll(conditional pars) − twice_nll(unconditional pars)) from the *returned* parameters and apply the zeroing
rules to the returned fitted POI.
"""
import math
import numpy as np
from harness.core import f2b, b2f, fl, unfl, close
from harness import counting

RULE = ('stubbed fits: fitted POI above/below/at the tested value, negative, at the bound; objective differences of both signs; '
        'all five statistics; real fits: single-bin model over n, s, b, mu; non-trivial = statistic > 0; distinct by input tuple')


def run(ctx):
    import pyhf
    import pyhf.infer.test_statistics as tsmod
    rng, lean = ctx.rng, ctx.lean
    pyhf.set_backend('numpy', precision='64b')
    model = pyhf.Model(counting.single_bin_spec(5.0, 50.0), poi_name='mu')
    funcs = {'q': tsmod.qmu, 'qtilde': tsmod.qmu_tilde, 'q0': tsmod.q0, 't': tsmod.tmu, 'ttilde': tsmod.tmu_tilde}
    orig_fit, orig_fixed = tsmod.fit, tsmod.fixed_poi_fit
    try:
        for bk in (['numpy', 'pytorch'] if not ctx.thorough else ['numpy', 'jax', 'pytorch', 'tensorflow']):
            pyhf.set_backend(bk)
            tl = pyhf.tensorlib
            for _ in range(ctx.n(1500, 40000) if bk == 'numpy' else ctx.n(200, 3000)):
                ts = rng.choice(list(funcs))
                mu = rng.choice([0.0, 0.5, 1.0, 2.0, rng.uniform(0, 5)])
                r = rng.random()
                muhat = mu if r < 0.15 else (rng.uniform(-2, 0) if r < 0.3 else (0.0 if r < 0.4 else rng.uniform(0, 6)))
                if r > 0.9:
                    muhat = math.nextafter(mu, rng.choice([-math.inf, math.inf]))
                    # the XLA/Eigen CPU runtime of jax and tensorflow flushes denormals to zero (runtime floating-point mode, see the
                    # C04 findings): the float neighbours of 0 are not representable inputs there — use the smallest normal numbers
                    if bk in ('jax', 'tensorflow') and 0 < abs(muhat) < 2.3e-308: muhat = math.copysign(2.3e-308, muhat)
                free = {'pars': [muhat], 'val': rng.uniform(50, 60)}
                dv = rng.choice([0.0, rng.uniform(0, 10), -rng.uniform(0, 1e-6), rng.uniform(0, 1e-9)])
                fm = {'pars': [mu], 'val': free['val'] + dv}
                f0 = {'pars': [0.0], 'val': free['val'] + rng.choice([0.0, rng.uniform(0, 10), -1e-7])}
                lower = rng.choice([0.0, -5.0])
                seen_bounds = []
                def fake_fit(data, pdf, init, bounds, fixed, return_fitted_val=False, **kw):
                    seen_bounds.append(('fit', [tuple(map(float, b_)) for b_ in bounds]))
                    return tl.astensor(np.asarray(free['pars'])), tl.astensor(np.asarray(free['val']))
                tsmod.fit = fake_fit
                def fake_fixed(poi_val, data, pdf, init, bounds, fixed, return_fitted_val=False, **kw):
                    seen_bounds.append(('fixed_poi_fit', [tuple(map(float, b_)) for b_ in bounds]))
                    d = f0 if (poi_val == 0 and mu != 0) else fm
                    return tl.astensor(np.asarray(d['pars'])), tl.astensor(np.asarray(d['val']))
                tsmod.fixed_poi_fit = fake_fixed
                val, (pa, pb) = funcs[ts](mu, [55.0], model, [1.0], [(lower, 10.0)], [False], return_fitted_pars=True)
                v_i = float(np.asarray(tl.tolist(val)))
                rep = lean.ok({'op': 'teststat', 'ts': ts, 'poi': 0, 'mu': f2b(mu), 'poi_lower': f2b(lower),
                               'free': {'pars': fl(free['pars']), 'val': f2b(free['val'])},
                               'fixed_at_mu': {'pars': fl(fm['pars']), 'val': f2b(fm['val'])},
                               'fixed_at_0': {'pars': fl(f0['pars']), 'val': f2b(f0['val'])}})
                ctx.count()
                ctx.tally('stub_case', f"{ts}/{'muhat>mu' if muhat > mu else 'muhat=mu' if muhat == mu else 'muhat<0' if muhat < 0 else 'muhat<mu'}")
                inp = {'ts': ts, 'mu': mu, 'free': free, 'fixed_at_mu': fm, 'fixed_at_0': f0, 'backend': bk}
                if not close(v_i, b2f(rep['value']), 1e-13, 0):
                    ctx.disagree('teststat.value', inp, b2f(rep['value']), v_i)
                # both fits are run on the caller's problem: the bounds handed to them are the caller's
                if any(b_ != [(lower, 10.0)] for _, b_ in seen_bounds):
                    ctx.disagree('teststat.forwarded-bounds', dict(inp, poi_bounds=[lower, 10.0]), [(lower, 10.0)], seen_bounds)
                if [float(x) for x in np.asarray(tl.tolist(pa)).ravel()] != unfl(rep['fixed_pars']) or \
                   [float(x) for x in np.asarray(tl.tolist(pb)).ravel()] != unfl(rep['free_pars']):
                    ctx.disagree('teststat.pars', inp, [unfl(rep['fixed_pars']), unfl(rep['free_pars'])], [tl.tolist(pa), tl.tolist(pb)])
                # oracle from the property text, on the returned values only
                used_mu = 0.0 if ts == 'q0' else mu
                want = max(0.0, (f0 if (ts == 'q0' and mu != 0) else fm)['val'] - free['val'])
                if ts in ('q', 'qtilde') and muhat > mu: want = 0.0
                if ts == 'q0' and muhat < 0: want = 0.0
                if v_i < 0 or not close(v_i, want, 1e-12, 1e-15):
                    ctx.fail(f'C06/case-definition-{ts}', 'statistic violates its case definition', inp, v_i, want)
                if v_i > 0: ctx.nontrivial((ts, mu, muhat, dv))
    finally:
        tsmod.fit, tsmod.fixed_poi_fit = orig_fit, orig_fixed
    # ---------------- real fits on the closed-form family
    pyhf.set_backend('numpy', precision='64b')
    nreal = ctx.n(40, 1500)
    for i in range(nreal):
        s = rng.choice([3.0, 5.0, 10.0, rng.uniform(2, 20)]); b = rng.choice([10.0, 50.0, rng.uniform(5, 100)])
        n = float(rng.choice([0, 1, int(b), int(b + s), int(b + 2 * s), int(0.5 * b), rng.randint(0, int(2 * b + 3 * s))]))
        mu = rng.choice([0.0, 0.5, 1.0, 2.0, rng.uniform(0, 4)])
        ts = rng.choice(list(funcs))
        # lower POI bound zero or negative for every statistic (the tilde statistics warn about a negative one and then compute within
        # the bounds they were given)
        lo = 0.0 if (ts in ('qtilde', 'ttilde', 'q0') and rng.random() < 0.6) else -2.0
        if (lo * s + b) <= 0: lo = -0.5 * b / s
        m = pyhf.Model(counting.single_bin_spec(s, b), poi_name='mu')
        bounds = [(lo, 10.0)]
        try:
            val, (pa, pb) = funcs[ts](mu, [n], m, [1.0], bounds, [False], return_fitted_pars=True)
        except Exception as e:  # noqa
            ctx.fail('C06/real-fit-exception', f'{type(e).__name__} on a closed-form model', {'ts': ts, 'mu': mu, 'n': n, 's': s, 'b': b}, str(e)[:200]); continue
        v = float(val); ctx.count()
        inp = {'ts': ts, 'mu': mu, 'n': n, 's': s, 'b': b, 'poi_bounds': bounds}
        want = counting.q_closed_1(ts, mu, n, s, b, lo, 10.0)
        if not (abs(v - want) <= 1e-5 * (1 + want)):
            ctx.fail('C06/closed-form', 'statistic differs from the closed form of the single-bin model', inp, v, want)
        # recompute from the returned parameters
        used_mu = 0.0 if ts == 'q0' else mu
        t = max(0.0, float(pyhf.infer.mle.twice_nll(pa, [n], m)[0]) - float(pyhf.infer.mle.twice_nll(pb, [n], m)[0]))
        mh = float(pb[0])
        if ts in ('q', 'qtilde') and mh > mu: t = 0.0
        if ts == 'q0' and mh < 0: t = 0.0
        if float(pa[0]) != used_mu:
            ctx.fail('C06/conditional-fit-poi', 'the conditional fit did not hold the POI at the tested value', inp, float(pa[0]), used_mu)
        if v < 0 or abs(v - t) > 1e-9 * (1 + t):
            ctx.fail('C06/recomputed', 'statistic != max(0, 2[NLL(cond) − NLL(uncond)]) recomputed from the returned parameters', inp, v, t)
        if v > 0: ctx.nontrivial(('real', ts, mu, n, s, b))
        if i == 0: ctx.sample({'real_fit_case': inp, 'value': v, 'closed_form': want})
