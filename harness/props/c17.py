"""C17 — patch sets look up, verify and apply patches exactly.

Correspondence: PatchSet construction outcome and lookups vs the Lean `build` / `lookup` (dictionary fold with two keys
per patch); Python `json.dumps(sort_keys=True)` vs the Lean key-sorted `dump` token stream.
Implementation-side oracles: accepted ⇔ names and value tuples pairwise distinct with one value per label; lookups by
name / tuple / list, other keys raise InvalidPatchLookup; verify ⇔ independent digest comparison under every single-leaf
corruption; apply = jsonpatch on a copy, inputs unchanged; digest insensitive to key order.
"""
import math, copy, json, hashlib, random
import jsonpatch
from harness import gen_spec

RULE = ('schema-valid patch-set documents with names drawn from a pool containing the internally used words (name, values, '
        'metadata, patches, digests), numeric tuples with int/float aliases and strings, 1-3 labels, duplicates injected; '
        'lookup keys present/absent/near-miss; every single-leaf corruption of a verified workspace; random RFC-6902 op lists; '
        'non-trivial = ≥2 patches; distinct by document hash')

NAMES = ['name', 'values', 'metadata', 'patches', 'digests', 'labels', 'p1', 'p2', 'sig_100', 'A', 'a', 'x_1']


def render(v):
    return 'n:' + repr(float(v)) if isinstance(v, (int, float)) and not isinstance(v, bool) else 's:' + str(v)


def enc(o):
    if isinstance(o, dict): return ['o', [[k, enc(v)] for k, v in o.items()]]
    if isinstance(o, list): return ['l', [enc(v) for v in o]]
    return ['a', json.dumps(o)]


def py_tokens(o):
    """token stream of json.dumps(sort_keys=True), produced from Python's own sorted serialisation"""
    s = json.dumps(o, sort_keys=True, ensure_ascii=False)
    pairs = json.loads(s, object_pairs_hook=lambda kv: ('__obj__', kv))
    def walk(x):
        if isinstance(x, tuple) and x and x[0] == '__obj__':
            out = ['{']
            for k, v in x[1]:
                out += [k, ':'] + walk(v) + [',']
            return out + ['}']
        if isinstance(x, list):
            out = ['[']
            for v in x:
                out += walk(v) + [',']
            return out + [']']
        return [json.dumps(x)]
    return walk(pairs)


def workspace(rng):
    spec, _ = gen_spec.gen_spec(rng, max_channels=2, max_samples=2, max_bins=2, simple=True)
    obs = [{'name': c['name'], 'data': [float(rng.randint(1, 90)) for _ in c['samples'][0]['data']]} for c in spec['channels']]
    return {'channels': spec['channels'], 'observations': obs, 'version': '1.0.0',
            'measurements': [{'name': 'meas', 'config': {'poi': 'mu', 'parameters': spec['parameters']}}]}


def leaves(o, path=()):
    if isinstance(o, dict):
        for k, v in o.items(): yield from leaves(v, path + (k,))
    elif isinstance(o, list):
        for i, v in enumerate(o): yield from leaves(v, path + (i,))
    else:
        yield path, o


def set_path(o, path, val):
    for p in path[:-1]: o = o[p]
    o[path[-1]] = val


def run(ctx):
    import pyhf
    rng, lean = ctx.rng, ctx.lean
    for i in range(ctx.n(600, 20000)):
        nl = rng.randint(1, 3)
        npatch = rng.randint(1, 5)
        metas = []
        # a sixth of the sets use floats that differ only far down (neighbouring doubles, a 13th significant digit): distinct values
        # are distinct keys, however close
        close = rng.random() < 0.17
        CLOSE = [0.3, 0.1 + 0.2, math.nextafter(0.3, 0.0), 1664500000.1234, 1664500000.1235, 125.5, 125.5000000000001]
        for _ in range(npatch):
            vals = [rng.choice([rng.randint(0, 3), float(rng.randint(0, 3)), rng.choice([0.5, 1.5]), rng.choice(['a', 'b', '1'])]) for _ in range(nl)]
            if close: vals = [rng.choice(CLOSE) if rng.random() < 0.7 else v for v in vals]
            metas.append({'name': rng.choice(NAMES), 'values': vals})
        if close: ctx.tally('close_float_values', 'yes')
        r = rng.random()
        if r < 0.15 and npatch >= 2: metas[-1]['name'] = metas[0]['name']
        elif r < 0.3 and npatch >= 2: metas[-1]['values'] = [float(v) if isinstance(v, int) else (int(v) if isinstance(v, float) and v == int(v) else v) for v in metas[0]['values']]
        elif r < 0.36: metas[rng.randrange(npatch)]['values'].append(1)
        doc = {'metadata': {'references': {'hepdata': 'ins1234567'}, 'description': 'generated', 'digests': {'sha256': 'a' * 64},
                            'labels': [f'l{k}' for k in range(nl)]},
               'patches': [{'metadata': m, 'patch': ([] if rng.random() < 0.25 else [{'op': 'add', 'path': '/foo', 'value': k}])} for k, m in enumerate(metas)],
               'version': '1.0.0'}
        frozen = copy.deepcopy(doc)
        try:
            ps = pyhf.PatchSet(doc); err = None
        except Exception as e:  # noqa
            ps = None; err = type(e).__name__
        if doc != frozen:
            ctx.fail('C17/mutation', 'PatchSet(spec) modified the document', {'doc': frozen})
        keys = []
        for m in metas:
            keys += [m['name'], list(m['values'])]
        keys += [rng.choice(NAMES), 'nope', [9] * nl, [0] * (nl + 1), []]
        # keys one unit in the last place away from a registered tuple
        for m in metas[:2]:
            if any(isinstance(v, float) for v in m['values']):
                keys.append([math.nextafter(v, math.inf) if isinstance(v, float) else v for v in m['values']])
        rep = lean.ok({'op': 'patchset', 'nlabels': nl, 'patches': [{'name': m['name'], 'values': [render(v) for v in m['values']]} for m in metas],
                       'lookups': [k if isinstance(k, str) else [render(v) for v in k] for k in keys]})
        ctx.count()
        inp = {'labels': nl, 'patches': metas}
        if rep['error'] != err:
            ctx.disagree('PatchSet.construction', inp, rep['error'], err)
        names = [m['name'] for m in metas]; tuples = [tuple(m['values']) for m in metas]
        ok_expected = len(set(names)) == len(names) and len(set(tuples)) == len(tuples) and all(len(t) == nl for t in tuples)
        if (err is None) != ok_expected:
            ctx.fail('C17/acceptance', 'accepted ⇔ names and value tuples pairwise distinct (one value per label) is violated', inp, err, 'accept' if ok_expected else 'InvalidPatchSet')
        elif err is not None and err != 'InvalidPatchSet':
            ctx.fail('C17/rejection-class', 'rejected with an unexpected exception', inp, err, 'InvalidPatchSet')
        if ps is not None:
            got = []
            for k in keys:
                try:
                    got.append(ps.patches.index(ps[k]))
                except pyhf.exceptions.InvalidPatchLookup:
                    got.append('InvalidPatchLookup')
                except Exception as e:  # noqa
                    got.append(type(e).__name__)
            if got != rep['lookups']:
                ctx.disagree('PatchSet.lookup', dict(inp, keys=keys), rep['lookups'], got)
            for k, g in zip(keys, got):
                want = 'InvalidPatchLookup'
                for j, m in enumerate(metas):
                    if (isinstance(k, str) and k == m['name']) or (isinstance(k, list) and tuple(k) == tuple(m['values'])):
                        want = j
                if g != want:
                    ctx.fail('C17/lookup', 'lookup does not return exactly the patch with that name / value tuple (or raise)', dict(inp, key=k), g, want)
            try:
                if isinstance(keys[1], list) and ps[keys[1]] is not ps[tuple(keys[1])]:
                    ctx.fail('C17/list-vs-tuple', 'list and tuple keys give different patches', inp)
            except pyhf.exceptions.InvalidPatchLookup:
                pass   # reported by C17/lookup above
            for j, m in enumerate(metas):
                try:
                    direct = ps[m['name']].apply({'bar': 1})
                    wantd = dict({'bar': 1}, foo=j) if frozen['patches'][j]['patch'] else {'bar': 1}
                    if direct != wantd:
                        ctx.fail('C17/patch-content', 'the patch found under a name does not carry its own operations', dict(inp, key=m['name']), direct, wantd)
                except pyhf.exceptions.InvalidPatchLookup:
                    pass   # reported by C17/lookup above
            if len(ps) != npatch or [p.name for p in ps] != names:
                ctx.fail('C17/iteration', '__iter__/__len__ do not enumerate the patches in order', inp)
            if npatch >= 2: ctx.nontrivial(json.dumps(metas, sort_keys=True))
        ctx.tally('outcome', err or 'accepted')
        if i < 2: ctx.sample({'patches': metas, 'outcome': err or 'accepted'})
    # ---------------- digest / verify / apply
    for i in range(ctx.n(25, 600)):
        ws = workspace(rng)
        digests = {'sha256': hashlib.sha256(json.dumps(ws, sort_keys=True, ensure_ascii=False).encode('utf8')).hexdigest(),
                   'md5': hashlib.md5(json.dumps(ws, sort_keys=True, ensure_ascii=False).encode('utf8')).hexdigest()}
        if rng.random() < 0.5: digests.pop(rng.choice(['sha256', 'md5']))
        ops = [{'op': 'replace', 'path': '/channels/0/samples/0/data/0', 'value': 123.0},
               {'op': 'add', 'path': '/observations/0/data/0', 'value': 7.0}] if rng.random() < 0.5 else \
              [{'op': 'test', 'path': '/version', 'value': '1.0.0'}, {'op': 'copy', 'from': '/channels/0/samples/0/data/0', 'path': '/observations/0/data/0'}, {'op': 'remove', 'path': '/observations/0/data/1'}]
        doc = {'metadata': {'references': {'hepdata': 'ins1234567'}, 'description': 'd', 'digests': digests, 'labels': ['x']},
               'patches': [{'metadata': {'name': 'name', 'values': [1]}, 'patch': ops}], 'version': '1.0.0'}
        ps = pyhf.PatchSet(doc)
        # canonical dump tokens vs the model; key-order insensitivity
        shuffled = json.loads(json.dumps(ws))
        def shuf(o):
            if isinstance(o, dict):
                items = list(o.items()); rng.shuffle(items)
                return {k: shuf(v) for k, v in items}
            if isinstance(o, list): return [shuf(v) for v in o]
            return o
        shuffled = shuf(shuffled)
        toks = lean.ok({'op': 'dump', 'doc': enc(shuffled)})
        ctx.count()
        if toks != py_tokens(ws):
            ctx.disagree('digest.canonical-dump', {'workspace': ws}, toks[:20], py_tokens(ws)[:20])
        if pyhf.utils.digest(shuffled) != pyhf.utils.digest(ws):
            ctx.fail('C17/digest-key-order', 'digest depends on key order', {'workspace': ws})
        frozen = copy.deepcopy(ws)
        try:
            ps.verify(ws); out = ps.apply(ws, 'name')
        except Exception as e:  # noqa
            ctx.fail('C17/verify-correct', f'verification/apply of the correct workspace raised {type(e).__name__}', {'workspace': ws}, str(e)[:100]); continue
        if ws != frozen:
            ctx.fail('C17/apply-mutation', 'apply modified the background workspace', {'workspace': frozen})
        want = jsonpatch.JsonPatch(ops).apply(copy.deepcopy(frozen))
        if dict(out) != want:
            ctx.fail('C17/apply', 'apply does not return the JSON patch applied to the workspace', {'workspace': frozen, 'ops': ops})
        # every listed digest counts: with two algorithms listed, one wrong recorded digest (either one, either listing order) must fail
        # verification and refuse the patch, although the other digest matches
        if len(digests) == 2:
            for wrong in ('sha256', 'md5'):
                for order in (('sha256', 'md5'), ('md5', 'sha256')):
                    dg2 = {a: (digests[a] if a != wrong else ('0' * len(digests[a]) if digests[a][0] != '0' else '1' * len(digests[a]))) for a in order}
                    ps2 = pyhf.PatchSet(dict(doc, metadata=dict(doc['metadata'], digests=dg2)))
                    ctx.count(); ctx.tally('one_wrong_digest', f'{wrong}-wrong/{order[0]}-first')
                    for what, call in (('verify', lambda: ps2.verify(ws)), ('apply', lambda: ps2.apply(ws, 'name'))):
                        try:
                            call()
                            ctx.fail('C17/verify-every-digest', f'{what} succeeds although the recorded {wrong} digest differs from the workspace\'s', {'workspace': ws, 'digests': dg2, 'call': what})
                        except pyhf.exceptions.PatchSetVerificationError:
                            pass
        # every single-leaf corruption must be detected
        lv = list(leaves(ws))
        for path, val in (lv if ctx.thorough else rng.sample(lv, min(25, len(lv)))):
            bad = copy.deepcopy(ws)
            set_path(bad, path, (val + 1) if isinstance(val, (int, float)) and not isinstance(val, bool) else (str(val) + 'x' if val is not None else 0))
            ctx.count()
            try:
                ps.verify(bad)
                ctx.fail('C17/verify-corruption', 'a single-leaf corruption of the workspace passes verification', {'path': list(path), 'value': val})
            except pyhf.exceptions.PatchSetVerificationError:
                pass
        # histories: the same object, corrupted in place after a successful verification, then restored
        for path, val in rng.sample(lv, min(6, len(lv))):
            newv = (val + 1) if isinstance(val, (int, float)) and not isinstance(val, bool) else (str(val) + 'x' if val is not None else 0)
            set_path(ws, path, newv); ctx.count()
            for what, call in (('verify', lambda: ps.verify(ws)), ('apply', lambda: ps.apply(ws, 'name'))):
                try:
                    call()
                    ctx.fail('C17/verify-history', f'{what} accepts a workspace corrupted in place after an earlier successful verification', {'path': list(path), 'value': val, 'workspace': frozen})
                except pyhf.exceptions.PatchSetVerificationError:
                    pass
            set_path(ws, path, val)
            try:
                ps.verify(ws)
            except pyhf.exceptions.PatchSetVerificationError:
                ctx.fail('C17/verify-history', 'the restored workspace no longer verifies', {'path': list(path), 'value': val, 'workspace': frozen})
        # the same history with the workspace held as a pyhf.Workspace object (what a library user passes; the command line passes dicts)
        try:
            wobj = pyhf.Workspace(copy.deepcopy(frozen), validate=False)
        except Exception:  # noqa — the generated document is not always a buildable workspace
            wobj = None
        if wobj is not None:
            try:
                ps.verify(wobj); ps.apply(wobj, 'name')
            except Exception as e:  # noqa
                ctx.fail('C17/verify-correct', f'verification/apply of the correct Workspace object raised {type(e).__name__}', {'workspace': frozen}, str(e)[:100]); wobj = None
        if wobj is not None:
            for path, val in rng.sample(lv, min(4, len(lv))):
                newv = (val + 1) if isinstance(val, (int, float)) and not isinstance(val, bool) else (str(val) + 'x' if val is not None else 0)
                set_path(wobj, path, newv); ctx.count()
                for what, call in (('verify', lambda: ps.verify(wobj)), ('apply', lambda: ps.apply(wobj, 'name'))):
                    try:
                        call()
                        ctx.fail('C17/verify-history', f'{what} accepts a Workspace object corrupted in place after an earlier successful verification', {'path': list(path), 'value': val, 'workspace': frozen, 'container': 'pyhf.Workspace'})
                    except pyhf.exceptions.PatchSetVerificationError:
                        pass
                set_path(wobj, path, val)
                try:
                    ps.verify(wobj)
                except pyhf.exceptions.PatchSetVerificationError:
                    ctx.fail('C17/verify-history', 'the restored Workspace object no longer verifies', {'path': list(path), 'value': val, 'workspace': frozen, 'container': 'pyhf.Workspace'})
