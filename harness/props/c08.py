"""C08 — hypothesis tests give the analytically known answer and a stable result layout.

Correspondence: pyhf.infer.hypotest on counting models (single/multi bin, 1–3 channels, μ only) for all 16 request-flag
combinations × {q, qtilde, q0} vs the Lean `hypotestLayout`/`checkPrerequisites` (layout, exact) and the composition of
the closed-form statistic with the Lean asymptotic model (`asym` op) for the numbers.
Implementation-side oracle: closed-form CLs / p0 (scipy), tuple length/order/element types, Asimov data =
expected_data at an independent conditional fit, refusals without POI / with fixed POI.
"""
import itertools, math
import numpy as np
from scipy.stats import norm
from harness.core import f2b, b2f, close
from harness import counting

RULE = ('counting models (1-5 bins, 1-3 channels, μ only) × observed counts from 0 to far above expectation × tested μ × '
        '{q, qtilde, q0} × all 16 flag combinations × {asymptotics; toybased for layout only}; non-trivial = CLs in (1e-6, 0.999); '
        'distinct by (model, data, μ, statistic, flags)')
FLAGS = list(itertools.product([False, True], repeat=4))


def describe(res, flags, tl_type):
    """canonical description of a hypotest result: list of (kind, size)"""
    if not isinstance(res, tuple):
        res = (res,)
    out = []
    for r in res:
        if isinstance(r, list):
            out.append(('list', len(r)))
        elif hasattr(r, 'teststatistic'):
            out.append(('calc', 0))
        else:
            out.append(('tensor', int(np.asarray(r).size)))
    return out


def expected_desc(layout, n_tails):
    m = {'main': ('tensor', 1), 'tails': ('list', n_tails), 'median': ('tensor', 1), 'band': ('list', 5), 'calc': ('calc', 0)}
    return [m[x] for x in layout]


def run(ctx):
    import pyhf
    rng, lean = ctx.rng, ctx.lean
    pyhf.set_backend('numpy', precision='64b')
    ncase = ctx.n(70, 3000)
    for i in range(ncase):
        nb = rng.choice([1, 1, 2, 3, 5]); nch = rng.choice([1, 1, 2, 3]) if nb >= 2 else 1
        nch = min(nch, nb)
        ss = [rng.choice([3.0, 5.0, 8.0, rng.uniform(2, 15)]) for _ in range(nb)]
        bs = [rng.choice([20.0, 50.0, rng.uniform(10, 120)]) for _ in range(nb)]
        r = rng.random()
        scale = 0.0 if r < 0.08 else rng.choice([0.5, 1.0, 1.0, 1.2, 2.0, 5.0])
        ns = [float(np.random.RandomState(rng.randrange(2**31)).poisson(scale * (b + rng.choice([0, 1]) * s))) for s, b in zip(ss, bs)]
        mu = rng.choice([0.2, 0.5, 1.0, 1.0, 2.0, rng.uniform(0.05, 4)])
        ts = rng.choice(['qtilde', 'qtilde', 'q', 'q0'])
        flags = FLAGS[(i + ctx.seed) % 16] if i >= 16 else FLAGS[i]
        tp, ex, es, ca = flags
        spec = counting.multi_bin_spec(ss, bs, nch)
        m = pyhf.Model(spec, poi_name='mu')
        data = ns + m.config.auxdata
        lo = 0.0 if ts != 'q' else -1.0
        lo = max(lo, max(-0.9 * b / s for s, b in zip(ss, bs))) if ts == 'q' else lo
        bounds = [(lo, 10.0)]
        inp = {'spec': spec, 'data': data, 'mu': mu, 'test_stat': ts, 'flags': dict(zip(['return_tail_probs', 'return_expected', 'return_expected_set', 'return_calculator'], flags)), 'par_bounds': bounds}
        # the answer does not depend on where the fits start: half of the cases supply a starting point whose POI is not the default 1
        extra = {}
        if rng.random() < 0.5:
            extra['init_pars'] = [rng.choice([max(lo, 0.0), 0.5, 2.5, 4.0])] + list(m.config.suggested_init())[1:]
            inp['init_pars'] = extra['init_pars']
        try:
            res = pyhf.infer.hypotest(mu, data, m, par_bounds=bounds, test_stat=ts, return_tail_probs=tp, return_expected=ex,
                                      return_expected_set=es, return_calculator=ca, **extra)
        except Exception as e:  # noqa
            ctx.fail('C08/exception', f'hypotest raised {type(e).__name__} on a closed-form model', inp, str(e)[:200]); continue
        ctx.count()
        rep = lean.ok({'op': 'layout', 'tail': tp, 'expected': ex, 'expected_set': es, 'calculator': ca, 'q0': ts == 'q0',
                       'poi': m.config.poi_index, 'fixed': [False]})
        desc = describe(res, flags, None)
        want_desc = expected_desc(rep['layout'], rep['n_tails'])
        if desc != want_desc or (not isinstance(res, tuple)) != rep['bare']:
            ctx.disagree('hypotest.layout', inp, want_desc, desc)
        # independent layout oracle straight from the documentation
        doc = [('tensor', 1)] + ([('list', 1 if ts == 'q0' else 2)] if tp else []) + ([('tensor', 1)] if ex else []) + ([('list', 5)] if es else []) + ([('calc', 0)] if ca else [])
        if desc != doc:
            ctx.fail('C08/layout', 'returned tuple does not contain exactly the requested extras in the documented order', inp, desc, doc)
        # numbers: closed form (python) for q, q_A; Lean asymptotic model for the p-values
        clsb, clb, cls, band, band_sb, q, qA = counting.cls_closed_multi(ts, mu, ns, ss, bs, lo, 10.0)
        arep = lean.ok({'op': 'asym', 'ts': ts, 'clipped': False, 'q': f2b(q), 'qA': f2b(qA)})
        phi = lambda a: float(norm.cdf(b2f(a)))
        m_sb, m_b = phi(arep['clsb_arg']), phi(arep['clb_arg'])
        m_main = m_sb if ts == 'q0' else m_sb / m_b
        parts = list(res) if isinstance(res, tuple) else [res]
        main = float(np.asarray(parts[0]))
        tol = lambda v: 1e-5 + 2e-4 * abs(v)
        if not abs(main - m_main) <= tol(m_main):
            ctx.disagree('hypotest.main', inp, m_main, main, 'closed-form q,q_A through the Lean asymptotic model')
        w_main = clsb if ts == 'q0' else cls
        if not abs(main - w_main) <= tol(w_main):
            ctx.fail('C08/closed-form', 'observed CLs (p0 for q0) differs from the analytic asymptotic value', inp, main, w_main)
        k = 1
        if tp:
            tails = [float(np.asarray(x)) for x in parts[k]]; k += 1
            want = [clb] if ts == 'q0' else [clsb, clb]
            if any(abs(a - b) > tol(b) for a, b in zip(tails, want)):
                ctx.fail('C08/tails', 'tail probabilities differ from the analytic values', inp, tails, want)
        wband = band_sb if ts == 'q0' else band
        if ex:
            med = float(np.asarray(parts[k])); k += 1
            if abs(med - wband[2]) > tol(wband[2]):
                ctx.fail('C08/median', 'median expected differs from the analytic value', inp, med, wband[2])
        if es:
            bnd = [float(np.asarray(x)) for x in parts[k]]; k += 1
            if any(abs(a - b) > tol(b) for a, b in zip(bnd, wband)):
                ctx.fail('C08/band', 'expected band differs from the analytic values', inp, bnd, wband)
        if ca:
            calc = parts[k]
            # Asimov data = expected_data at the conditional fit (mu_A = 1 for q0, else 0)
            muA = b2f(arep['asimov_mu'])
            pars = pyhf.infer.mle.fixed_poi_fit(muA, data, m, par_bounds=bounds)
            if not np.allclose(np.asarray(calc.fitted_pars.asimov_pars), np.asarray(pars), rtol=1e-6, atol=1e-8):
                ctx.fail('C08/asimov-pars', 'Asimov parameters are not the conditional fit at mu_A', inp, list(map(float, calc.fitted_pars.asimov_pars)), list(map(float, pars)))
            if float(calc.fitted_pars.asimov_pars[m.config.poi_index]) != muA:
                ctx.fail('C08/asimov-mu', 'Asimov dataset generated at the wrong POI value', inp, float(calc.fitted_pars.asimov_pars[m.config.poi_index]), muA)
        if 1e-6 < w_main < 0.999: ctx.nontrivial((tuple(ss), tuple(bs), tuple(ns), mu, ts, flags))
        ctx.tally('test_stat', ts); ctx.tally('flags', ''.join('1' if f else '0' for f in flags)); ctx.tally('nbins/nch', f'{nb}/{nch}')
        if i < 2: ctx.sample({'case': inp, 'result_layout': desc, 'main': main, 'analytic': w_main})
    # ---------------- on/off models (a background normalisation profiled in closed form): whose flags decide what is held constant?
    # (a) nothing declared: profiled; (b) the normalisation declared constant by the measurement and the caller passing all-False flags:
    # profiled all the same (the caller's flags are used as given); (c) declared constant, no caller flags: constant at its initial value
    # (= a two-bin signal-strength-only model); (d) the caller holding it constant on a model that declares nothing: as (c)
    for i in range(ctx.n(12, 300)):
        s_ = rng.choice([5.0, 8.0, 12.0]); b_ = rng.choice([30.0, 50.0, 80.0]); tau = rng.choice([1.0, 2.0, 3.0])
        fl_ = np.random.RandomState(rng.randrange(2**31))
        n_ = float(fl_.poisson(b_ + rng.choice([0.0, 0.5, 1.0]) * s_)); m_ = float(max(1, fl_.poisson(tau * b_ * rng.choice([0.8, 1.0, 1.2]))))
        mu = rng.choice([0.5, 1.0, 2.0])
        variant = 'abcd'[i % 4]
        spec = counting.onoff_spec(s_, b_, tau, k_fixed={'a': None, 'b': True, 'c': True, 'd': None}[variant])
        m = pyhf.Model(spec, poi_name='mu')
        order = list(m.config.par_order)                                            # ['k_bkg', 'mu']
        kw = {'b': {'fixed_params': [False, False]}, 'd': {'fixed_params': [nm == 'k_bkg' for nm in order]}}.get(variant, {})
        data = [m_, n_]                                                             # channels in sorted order: CR, SR
        inp = {'spec': spec, 'data': data, 'mu': mu, 'variant': variant, 'kwargs': kw}
        try:
            obs_, band_ = pyhf.infer.hypotest(mu, data, m, return_expected_set=True, **kw)
        except Exception as e:  # noqa
            ctx.fail('C08/onoff-exception', f'hypotest raised {type(e).__name__} on an on/off model', inp, str(e)[:200]); continue
        ctx.count(); ctx.tally('onoff_variant', variant)
        if variant in 'ab': w_obs, w_band, _ = counting.onoff_cls(mu, n_, m_, s_, b_, tau)
        else:
            r_ = counting.cls_closed_multi('qtilde', mu, [m_, n_], [0.0, s_], [tau * b_, b_])
            w_obs, w_band = r_[2], r_[3]
        got = [float(obs_)] + [float(x) for x in band_]; want = [w_obs] + list(w_band)
        if any(abs(g - w) > 2e-4 + 2e-3 * abs(w) for g, w in zip(got, want)):
            ctx.fail('C08/onoff-closed-form', 'CLs (observed / band) of an on/off model differs from the analytic value for the parameters the call holds constant', inp, got, want)
    # ---------------- refusals
    m = pyhf.Model(counting.single_bin_spec(5, 50), poi_name='mu')
    m_nopoi = pyhf.Model(counting.single_bin_spec(5, 50), poi_name=None)
    for model, fixed, want in ((m_nopoi, None, 'UnspecifiedPOI'), (m, [True], 'InvalidModel')):
        rep = lean.ok({'op': 'layout', 'tail': False, 'expected': False, 'expected_set': False, 'calculator': False, 'q0': False,
                       'poi': model.config.poi_index, 'fixed': fixed or [False]})
        try:
            pyhf.infer.hypotest(1.0, [50.0], model, fixed_params=fixed); got = None
        except Exception as e:  # noqa
            got = type(e).__name__
        ctx.count()
        if got != rep['prereq']: ctx.disagree('hypotest.prerequisites', {'poi_index': model.config.poi_index, 'fixed': fixed}, rep['prereq'], got)
        if got != want: ctx.fail('C08/refusal', 'hypotest not refused without POI / with fixed POI', {'fixed': fixed}, got, want)
    # ---------------- the numbers do not depend on which extras are requested (both calculators; toys on a fixed random stream):
    # the observed value, the tail probabilities, the median and the band are the same whatever else is asked for, and the median is
    # the central entry of the band
    import itertools
    for calctype, ts, kw in [('asymptotics', 'qtilde', {}), ('asymptotics', 'q0', {}), ('toybased', 'qtilde', {'ntoys': 60, 'track_progress': False}),
                             ('toybased', 'q', {'ntoys': 41, 'track_progress': False})]:
        mu_t = 0.0 if ts == 'q0' else rng.choice([0.7, 1.0, 1.6])
        dat = [float(rng.randint(45, 62))] + m.config.auxdata
        seen = {}
        for flags in itertools.product([False, True], repeat=3):
            tp, ex, es = flags
            np.random.seed(1234)
            try:
                res = pyhf.infer.hypotest(mu_t, dat, m, calctype=calctype, test_stat=ts, return_tail_probs=tp, return_expected=ex, return_expected_set=es, **kw)
            except Exception as e:  # noqa
                ctx.fail('C08/hypotest-raised', f'hypotest raised {type(e).__name__}', {'calctype': calctype, 'test_stat': ts, 'flags': flags, 'mu': mu_t, 'data': dat}, str(e)[:200]); continue
            ctx.count()
            parts = list(res) if (tp or ex or es) else [res]
            got = {'main': float(np.asarray(parts.pop(0)))}
            if tp: got['tails'] = [float(np.asarray(x)) for x in parts.pop(0)]
            if ex: got['median'] = float(np.asarray(parts.pop(0)))
            if es: got['band'] = [float(np.asarray(x)) for x in parts.pop(0)]
            inp = {'calctype': calctype, 'test_stat': ts, 'mu': mu_t, 'data': dat, 'flags(tail,expected,expected_set)': flags, 'numpy_seed': 1234, **kw}
            for k_, v in got.items():
                if k_ in seen and seen[k_][0] != v:
                    ctx.fail(f'C08/value-depends-on-flags/{calctype}', f'the returned {k_} depends on which other quantities are requested', dict(inp, other_flags=seen[k_][1]), v, seen[k_][0])
                seen.setdefault(k_, (v, flags))
            if 'median' in got and 'band' in got and got['median'] != got['band'][2]:
                ctx.fail(f'C08/median-not-band-centre/{calctype}', 'the median expected value is not the central entry of the expected band', inp, got['median'], got['band'])
        if 'median' in seen and 'band' in seen and seen['median'][0] != seen['band'][0][2]:
            ctx.fail(f'C08/median-not-band-centre/{calctype}', 'the median expected value (requested alone) is not the central entry of the expected band (requested alone)',
                     {'calctype': calctype, 'test_stat': ts, 'mu': mu_t, 'data': dat, 'numpy_seed': 1234, **kw}, seen['median'][0], seen['band'][0])
    # ---------------- toy-based layout (small ntoys)
    for flags in [(False, False, False, False), (True, False, False, True), (True, True, True, False)]:
        tp, ex, es, ca = flags
        res = pyhf.infer.hypotest(1.0, [52.0] + m.config.auxdata, m, calctype='toybased', ntoys=20, track_progress=False,
                                  return_tail_probs=tp, return_expected=ex, return_expected_set=es, return_calculator=ca)
        ctx.count()
        desc = describe(res, flags, None)
        rep = lean.ok({'op': 'layout', 'tail': tp, 'expected': ex, 'expected_set': es, 'calculator': ca, 'q0': False, 'poi': 0, 'fixed': [False]})
        if desc != expected_desc(rep['layout'], rep['n_tails']):
            ctx.disagree('hypotest.layout.toybased', {'flags': flags}, expected_desc(rep['layout'], rep['n_tails']), desc)
