"""C14 — toy p-values are exact tail fractions of correctly sampled pseudo-data.

Correspondence: EmpiricalDistribution.pvalue vs the Lean `empiricalCounts` (exact); the conditional fits, sampling
points and statistic evaluations of ToyCalculator.distributions (spied) vs `toyFitMus`.
Implementation-side oracles (statistical tests, labelled as such, fixed seeds): sample shape, integrality,
non-negativity (exact); per-bin mean/variance and auxiliary distributions by z-tests with a 6σ band; toy CLs+b / CLb vs
the exact tail probabilities of the single-bin model within 6σ binomial error.
"""
import math
import numpy as np
from scipy.stats import poisson as sp_poisson
from harness.core import f2b, b2f, fl
from harness import counting

RULE = ('random sample vectors with ties and out-of-range observed values (exact comparison); spied toy calculators; seeded '
        'sampling moments; exact-tail comparison on single-bin counting models; non-trivial = p-value strictly between 0 and 1; '
        'distinct by (samples, value)')


def exact_tails(kind, mu, n_obs, s, b, lo=0.0, hi=10.0):
    """exact P(q >= q_obs) under (mu s + b) and under b for the single-bin mu-only model"""
    q_obs = counting.q_closed_1(kind, mu, n_obs, s, b, lo, hi)
    def tail(lam):
        tot = 0.0
        for n in range(0, int(lam + 12 * math.sqrt(lam) + 30)):
            if counting.q_closed_1(kind, mu, float(n), s, b, lo, hi) >= q_obs - 1e-12:
                tot += sp_poisson.pmf(n, lam)
        return tot
    return tail(mu * s + b), tail(b), q_obs


def run(ctx):
    import pyhf
    import pyhf.infer.calculators as calcmod
    rng, lean = ctx.rng, ctx.lean
    # ---------------- empirical p-value: exact counting
    for bk in ['numpy', 'jax', 'pytorch', 'tensorflow']:
        pyhf.set_backend(bk)
        tl = pyhf.tensorlib
        for _ in range(ctx.n(400, 15000) if bk == 'numpy' else ctx.n(60, 1500)):
            n = rng.randint(1, 40)
            pool = [round(rng.uniform(0, 10), 1) for _ in range(rng.randint(1, 8))]
            samples = [rng.choice(pool) if rng.random() < 0.6 else rng.uniform(0, 10) for _ in range(n)]
            v = rng.choice([rng.choice(samples), min(samples) - 1, max(samples) + 1, rng.uniform(0, 10), 0.0])
            # toy statistics that are not finite: +inf (e.g. q0 with an event in a zero-background bin) lies in every tail, a NaN (failed
            # fit) in none — both stay in the denominator, the p-value is a fraction of *all* sampled statistics
            nonfinite = rng.random() < 0.15
            if nonfinite:
                for _k in range(rng.randint(1, max(1, n // 3))): samples[rng.randrange(n)] = rng.choice([math.inf, math.inf, math.nan])
                ctx.tally('nonfinite_samples', 'yes')
            arr = np.asarray(samples, dtype=np.float64)
            shp = rng.choice(['flat', 'col', 'row', 'grid'])
            if shp == 'col': arr = arr.reshape(n, 1)
            elif shp == 'row': arr = arr.reshape(1, n)
            elif shp == 'grid':
                ds = [d for d in range(2, n) if n % d == 0]
                if ds:
                    d = rng.choice(ds); arr = arr.reshape(d, n // d)
            ctx.tally('sample_shape', shp)
            dist = calcmod.EmpiricalDistribution(tl.astensor(arr))
            p = float(np.asarray(tl.tolist(dist.pvalue(tl.astensor(np.asarray(v, dtype=np.float64))))))
            a, b = lean.ok({'op': 'empirical', 'samples': fl(samples), 'value': f2b(v)})
            ctx.count()
            inp = {'samples': samples, 'value': v, 'backend': bk}
            if p != a / b and not any(x != x for x in samples):      # (a NaN sample has no order in the model's number type)
                ctx.disagree('EmpiricalDistribution.pvalue', inp, [a, b], p)
            # ToyCalculator.pvalues on two empirical distributions: CL_s+b and CL_b are exactly the two tail fractions (0 when the observed
            # statistic lies above every toy), CL_s their ratio where CL_b > 0
            if bk == 'numpy' and rng.random() < 0.4:
                bs = [rng.choice(pool) if rng.random() < 0.6 else rng.uniform(0, 10) for _ in range(rng.randint(1, 40))]
                bdist = calcmod.EmpiricalDistribution(tl.astensor(np.asarray(bs, dtype=np.float64)))
                tc = calcmod.ToyCalculator.__new__(calcmod.ToyCalculator)
                with np.errstate(all='ignore'):
                    got3 = [float(np.asarray(x)) for x in calcmod.ToyCalculator.pvalues(tc, tl.astensor(np.asarray(v, dtype=np.float64)), dist, bdist)]
                fb = sum(1 for x in bs if x >= v) / len(bs)
                ctx.tally('toy_pvalues_clb', 'zero' if fb == 0 else 'positive')
                if got3[0] != a / b or got3[1] != fb or (fb > 0 and got3[2] != (a / b) / fb):
                    ctx.fail('C14/pvalues-tail-fractions', 'ToyCalculator.pvalues does not return the exact tail fractions of the two toy distributions', dict(inp, bkg_samples=bs), got3, [a / b, fb])
                # the expected band from two distributions that need not have the same number of toys (toys topped up or merged from several
                # runs): each background toy's three p-values are tail fractions of the distribution they refer to; the band consists of
                # their percentiles at Φ(-2) … Φ(2)
                if not nonfinite:
                    with np.errstate(all='ignore'):
                        gotb = [[float(np.asarray(x)) for x in row] for row in calcmod.ToyCalculator.expected_pvalues(tc, dist, bdist)]
                    per = [[sum(1 for x in samples if x >= t) / len(samples), sum(1 for x in bs if x >= t) / len(bs)] for t in bs]
                    per = np.asarray([[u, w, u / w] for u, w in per])
                    wantb = np.percentile(per, [2.27501319, 15.86552539, 50.0, 84.13447461, 97.72498681], axis=0).T
                    ctx.count(); ctx.tally('toy_expected_sizes', 'equal' if len(bs) == len(samples) else 'different')
                    if not np.allclose(np.asarray(gotb), wantb, rtol=1e-12, atol=1e-15):
                        ctx.fail('C14/expected-tail-fractions', 'ToyCalculator.expected_pvalues is not made of the percentiles of per-toy tail fractions of the two distributions', dict(inp, bkg_samples=bs), gotb, wantb.tolist())
            want = sum(1 for x in samples if x >= v) / len(samples)
            if p != want or not (0.0 <= p <= 1.0):
                ctx.fail('C14/tail-fraction', 'empirical p-value is not the fraction of samples >= value', inp, p, want)
            v2 = v + rng.uniform(0, 3)
            p2 = float(np.asarray(tl.tolist(dist.pvalue(tl.astensor(np.asarray(v2, dtype=np.float64))))))
            if p2 > p:
                ctx.fail('C14/monotone', 'p-value increases with the observed value', dict(inp, value2=v2), p2, p)
            if 0 < p < 1: ctx.nontrivial((tuple(samples), v))
    pyhf.set_backend('numpy')
    # ---------------- toy wiring (spies)
    orig_fixed = calcmod.fixed_poi_fit
    for ts, custom in [(t, c) for t in ('qtilde', 'q', 'q0') for c in (False, True)]:
        if not custom:
            m = pyhf.Model(counting.single_bin_spec(5.0, 40.0), poi_name='mu')
            data = [44.0] + m.config.auxdata
            ckw = {}
        else:
            m = pyhf.simplemodels.uncorrelated_background([5.0, 6.0], [40.0, 50.0], [6.0, 7.0])
            data = [44.0, 58.0] + m.config.auxdata
            fx = list(m.config.suggested_fixed()); fx[1 + rng.randrange(2)] = True
            ini = list(m.config.suggested_init()); ini[1] = 1.05; ini[2] = 0.97
            bnd = [list(b) for b in m.config.suggested_bounds()]; bnd[0] = [0.0, 8.0]
            ckw = {'fixed_params': fx, 'init_pars': ini, 'par_bounds': bnd}
        seen = []; seen_args = []
        def spy(poi_val, *a, **k):
            seen.append(float(poi_val)); seen_args.append((a, k)); return orig_fixed(poi_val, *a, **k)
        calcmod.fixed_poi_fit = spy
        try:
            mu_test = rng.choice([0.7, 1.0, 1.8])
            calc = calcmod.ToyCalculator(data, m, test_stat=ts, ntoys=5, track_progress=False, **ckw)
            np.random.seed(rng.randrange(2**31))
            calc.distributions(mu_test)
        finally:
            calcmod.fixed_poi_fit = orig_fixed
        ctx.count()
        rep_bkg = 1.0 if ts == 'q0' else 0.0
        if seen[:2] != [mu_test, rep_bkg]:
            ctx.fail('C14/toy-wiring', 'pseudo-data not generated at the conditional fits of (tested mu, background hypothesis)', {'ts': ts, 'mu': mu_test}, seen[:2], [mu_test, rep_bkg])
        # both conditional fits are to the observed data under the calculator's own settings
        names = ['data', 'pdf', 'init_pars', 'par_bounds', 'fixed_params']
        wantargs = {'data': list(data), 'init_pars': ckw.get('init_pars', list(m.config.suggested_init())),
                    'par_bounds': [list(b) for b in ckw.get('par_bounds', m.config.suggested_bounds())],
                    'fixed_params': ckw.get('fixed_params', list(m.config.suggested_fixed()))}
        for which, (a_, k_) in zip(('signal-like', 'background-like'), seen_args[:2]):
            got = dict(zip(names, a_)); got.update(k_)
            for nme, w in wantargs.items():
                g = got.get(nme)
                g = None if g is None else ([list(x) for x in g] if nme == 'par_bounds' else [bool(x) if nme == 'fixed_params' else float(x) for x in np.asarray(pyhf.tensorlib.tolist(g)).tolist()])
                if g != w:
                    ctx.fail('C14/toy-wiring-settings', f'the {which} conditional fit does not use the calculator\'s {nme}', {'ts': ts, 'mu': mu_test, 'settings': {k: v for k, v in ckw.items()}}, g, w)
    # ---------------- sampling: shape, integrality, moments (seeded statistical tests)
    for bk in (['numpy', 'pytorch'] if not ctx.thorough else ['numpy', 'jax', 'pytorch', 'tensorflow']):
        pyhf.set_backend(bk)
        tl = pyhf.tensorlib
        m = pyhf.simplemodels.uncorrelated_background([6.0, 4.0], [30.0, 80.0], [3.0, 8.0])
        pars = np.asarray([1.3, 0.95, 1.1])
        N = ctx.n(4000, 40000)
        np.random.seed(1234 + ctx.seed)
        try:
            import torch; torch.manual_seed(1234 + ctx.seed)
        except Exception: pass
        smp = np.asarray(tl.tolist(m.make_pdf(tl.astensor(pars)).sample((N,))), dtype=float)
        ctx.count()
        inp = {'backend': bk, 'pars': pars.tolist(), 'N': N}
        if smp.shape != (N, 4):
            ctx.fail('C14/sample-shape', 'sample does not have the requested shape', inp, smp.shape, (N, 4)); continue
        main = smp[:, :2]
        if np.any(main < 0) or np.any(main != np.round(main)):
            ctx.fail('C14/sample-integrality', 'main pseudo-data are not non-negative integers', inp)
        exp = np.asarray(tl.tolist(m.expected_data(tl.astensor(pars))), dtype=float)
        for j in range(2):
            lam = exp[j]
            z_mean = (main[:, j].mean() - lam) / math.sqrt(lam / N)
            z_var = (main[:, j].var() - lam) / (lam * math.sqrt(2.0 / N + 1.0 / (lam * N)))
            if abs(z_mean) > 6 or abs(z_var) > 6:
                ctx.fail('C14/sample-moments', 'per-bin mean/variance of the pseudo-data differ from the expected rate (6σ)', dict(inp, bin=j), [z_mean, z_var])
        for j in range(2, 4):   # poisson-constrained auxiliary data: mean = variance = gamma*tau
            lam = exp[j]
            z_mean = (smp[:, j].mean() - lam) / math.sqrt(lam / N)
            if abs(z_mean) > 6:
                ctx.fail('C14/aux-moments', 'auxiliary pseudo-data not distributed according to the constraint term (6σ)', dict(inp, aux=j), z_mean)
    pyhf.set_backend('numpy')
    # ---------------- toy CLs+b / CLb vs exact tails (single bin)
    for _case in range(ctx.n(2, 25)):
        s = rng.choice([4.0, 6.0]); b = rng.choice([8.0, 15.0]); n_obs = float(rng.choice([int(b), int(b + s), int(b) - 2]))
        mu = rng.choice([1.0, 1.5]); ts = 'qtilde'
        m = pyhf.Model(counting.single_bin_spec(s, b), poi_name='mu')
        ntoys = ctx.n(400, 3000)
        if _case == 0: ntoys = 1600       # more than one internal batch of toys, and not a whole number of them
        np.random.seed(99 + ctx.seed)
        res = pyhf.infer.hypotest(mu, [n_obs] + m.config.auxdata, m, calctype='toybased', ntoys=ntoys, test_stat=ts,
                                  track_progress=False, return_tail_probs=True)
        clsb, clb = float(res[1][0]), float(res[1][1])
        esb, eb, qobs = exact_tails(ts, mu, n_obs, s, b)
        ctx.count()
        inp = {'s': s, 'b': b, 'n': n_obs, 'mu': mu, 'ntoys': ntoys}
        for nm, got, want in (('CLsb', clsb, esb), ('CLb', clb, eb)):
            sig = math.sqrt(max(want * (1 - want), 1e-4) / ntoys)
            if abs(got - want) > 6 * sig + 2e-3:   # 2e-3: fit tolerance moving toys across the q_obs boundary
                ctx.fail(f'C14/toy-{nm}', f'toy {nm} differs from the exact tail probability beyond 6σ binomial error', inp, got, want)
        ctx.sample({'toy_case': inp, 'toy': [clsb, clb], 'exact': [esb, eb]})
    # ---------------- one calculator scanned over several tested values: each call must behave like a fresh calculator's
    import importlib
    calcmod2 = importlib.import_module('pyhf.infer.calculators')
    for _ in range(ctx.n(2, 12)):
        s = rng.choice([4.0, 6.0]); b = rng.choice([8.0, 15.0]); n_obs = float(rng.choice([int(b), int(b + s), int(b) - 2]))
        m = pyhf.Model(counting.single_bin_spec(s, b), poi_name='mu')
        data = [n_obs] + m.config.auxdata
        mus = rng.sample([0.5, 1.0, 1.5, 3.0], 3); nt = ctx.n(150, 600); sd = rng.randrange(2**31)
        calc = calcmod2.ToyCalculator(data, m, test_stat='qtilde', ntoys=nt, track_progress=False)
        for j, mu in enumerate(mus):
            np.random.seed(sd + j)
            sb, bo = calc.distributions(mu); q = calc.teststatistic(mu); reused = [float(x) for x in calc.pvalues(q, sb, bo)]
            fresh_c = calcmod2.ToyCalculator(data, m, test_stat='qtilde', ntoys=nt, track_progress=False)
            np.random.seed(sd + j)
            sbf, bof = fresh_c.distributions(mu); qf = fresh_c.teststatistic(mu); fresh = [float(x) for x in fresh_c.pvalues(qf, sbf, bof)]
            ctx.count()
            inp = {'s': s, 'b': b, 'n': n_obs, 'scan': mus, 'position': j, 'ntoys': nt, 'numpy_seed': sd + j}
            if reused != fresh or [float(x) for x in sb.samples] != [float(x) for x in sbf.samples]:
                ctx.fail('C14/calculator-reuse', 'a toy calculator used for a second tested value gives different tail fractions than a fresh calculator with the same random stream', inp, reused, fresh)
            esb, eb, _ = exact_tails('qtilde', mu, n_obs, s, b)
            for nm, got, want in (('CLsb', reused[0], esb), ('CLb', reused[1], eb)):
                sig = math.sqrt(max(want * (1 - want), 1e-4) / nt)
                if abs(got - want) > 6 * sig + 2e-3:
                    ctx.fail(f'C14/toy-{nm}', f'toy {nm} of a reused calculator differs from the exact tail probability beyond 6σ binomial error', inp, got, want)
