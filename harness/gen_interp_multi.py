"""Regenerates lean/PyhfGen/InterpMulti.lean: the vectorised interpolators on a *multi-cell* histogram set, by symbolic execution.

`gen_interp.py` translates one cell (1 systematic × 1 sample × 1 bin × 1 parameter row).  Here every vectorised class `codeK` is
constructed on a histogram set of shape (2 systematics, 2 samples, 3, 2 bins) with all 24 entries symbolic and called on an alpha
set of shape (2 systematics, 2 rows) — so the broadcasting of masks, the einsum index strings and the batch axis are part of what is
executed.  Entry [s, h, t, b] of the result becomes `Pyhf.Gen.multi_codeK_<s><h><t><b>`; `Properties/C03_GenMulti.lean` proves it
equal, over ℝ, to the scalar model function of *its own* cell: (dn, nom, up)[s, h, b] and alpha[s, t] — no other entry of the histogram
set or of the alpha set may influence it.
Usage: python -m harness.gen_interp_multi [--check]
"""
import hashlib, inspect, itertools, os, sys
import numpy as np
from harness import symexec as sx
from harness.symexec import var
from harness.gen_model import project

VERIF = os.path.dirname(os.path.dirname(os.path.abspath(__file__)))
OUT = os.path.join(VERIF, 'lean', 'PyhfGen', 'InterpMulti.lean')
CODES = ['code0', 'code1', 'code2', 'code4', 'code4p']
NS, NH, NB = 2, 2, 2
ROWS = {'code4': 1}      # parameter rows per code (default 2); code 4 asks three questions per alpha, so two rows would mean 8⁴ paths

HEADER = '''import PyhfModel.Basic
/-!
# GENERATED — do not edit.  Regenerated on every C03 check by `harness/gen_interp_multi.py` from `src/pyhf/interpolators/code*.py`:
the vectorised classes executed symbolically on a (2 systematics × 2 samples × 2 bins) histogram set and a (2 systematics × 2 rows; code 4: 1 row)
alpha set; one definition per entry [s, h, t, b] of the result.  `d<s><h><b>`, `n<s><h><b>`, `u<s><h><b>` = down / nominal / up of
systematic s, sample h, bin b; `a<s><t>` = alpha of systematic s in row t.
-/
namespace Pyhf.Gen
section
variable {K : Type} [Add K] [Sub K] [Mul K] [Div K] [Neg K] [OfNat K 0] [OfNat K 1]
  [OfScientific K] [LT K] [LE K] [DecidableLT K] [DecidableLE K]
'''


def hist_vars():
    return [f'{k}{s}{h}{b}' for k in 'dnu' for s in range(NS) for h in range(NH) for b in range(NB)]


def alpha_vars(NT=2):
    return [f'a{s}{t}' for s in range(NS) for t in range(NT)]


def generate():
    import pyhf, pyhf.interpolators
    mgr = sys.modules['pyhf.tensor.manager']
    sb = sx.make_backend(pyhf)
    sd, sc = mgr.this.state['default'], mgr.this.state['current']
    out = [HEADER]
    try:
        mgr.this.state['default'] = (sb, sd[1]); mgr.this.state['current'] = (sb, sc[1])
        for modname in CODES:
            mod = sys.modules[f'pyhf.interpolators.{modname}']
            cls = getattr(mod, modname)
            is4 = modname == 'code4'
            NT = ROWS.get(modname, 2)

            def run():
                h = [[[[var(f'{k}{s}{hh}{b}') for b in range(NB)] for k in 'dnu'] for hh in range(NH)] for s in range(NS)]
                it = cls(h, subscribe=False, alpha0=var('a0')) if is4 else cls(h, subscribe=False)
                al = np.asarray([[var(f'a{s}{t}') for t in range(NT)] for s in range(NS)], dtype=object)
                res = it(al)
                assert np.shape(res) == (NS, NH, NT, NB), np.shape(res)
                return [sx.lit(x) for x in np.ravel(res)]
            had_math = hasattr(mod, 'math'); old_math = getattr(mod, 'math', None)
            if had_math: mod.math = sx.SymMath
            try:
                tree = sx.paths(run, assume=[var('a0') > 0] if is4 else ())
            finally:
                if had_math: mod.math = old_math
            # numeric self-check: the translated block, evaluated at random numbers, reproduces the class on the real numpy backend
            mgr.this.state['default'] = sd; mgr.this.state['current'] = sc
            try:
                def sampler(rng):
                    env = {'a0': rng.choice([1.0, 0.5, 2.0])}
                    for s_ in range(NS):
                        for hh in range(NH):
                            for b in range(NB):
                                nom = rng.uniform(5, 100)
                                env[f'n{s_}{hh}{b}'] = nom; env[f'u{s_}{hh}{b}'] = nom * rng.uniform(0.6, 1.5); env[f'd{s_}{hh}{b}'] = nom * rng.uniform(0.6, 1.5)
                        for t in range(NT): env[f'a{s_}{t}'] = rng.choice([rng.uniform(-3, 3), env['a0'], -env['a0'], 0.0, 1.0, -1.0])
                    return env

                def reference(env):
                    h = [[[[env[f'{k}{s_}{hh}{b}'] for b in range(NB)] for k in 'dnu'] for hh in range(NH)] for s_ in range(NS)]
                    it = cls(h, subscribe=False, alpha0=env['a0']) if is4 else cls(h, subscribe=False)
                    return np.asarray(it(np.asarray([[env[f'a{s_}{t}'] for t in range(NT)] for s_ in range(NS)])))
                sx.selfcheck(f'{modname}/multi', tree, None, sampler, reference, n=40)
            finally:
                mgr.this.state['default'] = (sb, sd[1]); mgr.this.state['current'] = (sb, sc[1])
            digest = hashlib.sha256(inspect.getsource(cls).encode()).hexdigest()[:16]
            sig = '(P : Prim K) ' + ('(a0 : K) ' if is4 else '') + '(' + ' '.join(hist_vars()) + ' : K) (' + ' '.join(alpha_vars(NT)) + ' : K)'
            out.append(f'/-! ## `{modname}.py::{cls.__name__}` (source sha256 {digest}…) -/\n')
            for i, (s, h, t, b) in enumerate(itertools.product(range(NS), range(NH), range(NT), range(NB))):
                out.append(f'def multi_{modname}_{s}{h}{t}{b} {sig} : K :=\n{sx.lean_tree(project(tree, i))}\n')
    finally:
        mgr.this.state['default'] = sd; mgr.this.state['current'] = sc
    out.append('end\nend Pyhf.Gen\n')
    return '\n'.join(out)


def regenerate(check_only=False):
    text = generate()
    old = open(OUT).read() if os.path.exists(OUT) else None
    if text == old: return False, text
    if check_only: return True, text
    os.makedirs(os.path.dirname(OUT), exist_ok=True)
    tmp = OUT + f'.{os.getpid()}.tmp'
    open(tmp, 'w').write(text); os.replace(tmp, OUT)
    return True, text


def theorems():
    """the text of Properties/C03_GenMulti.lean (mechanical: one equality per entry); printed by --theorems, the file itself is committed"""
    model = {'code0': ('slow0', 'slow0', False), 'code1': ('slow1 realPrim', 'slow1', False), 'code2': ('slow2', 'slow2 c2a c2b', False),
             'code4': ('slow4 realPrim a0', '', True), 'code4p': ('slow4p', 'slow4p', False)}
    lines = [THEOREM_HEADER]
    for modname in CODES:
        fn, unf, is4 = model[modname]
        NT = ROWS.get(modname, 2)
        hv, av = ' '.join(hist_vars()), ' '.join(alpha_vars(NT))
        lines.append(f'/-! ### {modname}: {NS}×{NH}×{NT}×{NB} entries -/\n')
        for s, h, t, b in itertools.product(range(NS), range(NH), range(NT), range(NB)):
            a0 = 'a0 ' if is4 else ''
            hyp = ' (h0 : 0 < a0)' if is4 else ''
            name = f'Gen.multi_{modname}_{s}{h}{t}{b}'
            if is4:
                tac = f'first | exact gen_fast_code4_eq _ _ _ _ _ h0 | (rw [← code4_fast_eq_slow a0 _ _ _ _ h0]; unfold {name}; gen_eq4)'
            else:
                tac = f'first | exact gen_fast_{modname}_eq _ _ _ _ | (unfold {name} {unf}; gen_eq)'
            lines.append(f'theorem multi_{modname}_{s}{h}{t}{b}_eq ({a0}{hv} {av} : ℝ){hyp} :\n'
                         f'    {name} realPrim {a0}{hv} {av} = {fn} d{s}{h}{b} n{s}{h}{b} u{s}{h}{b} a{s}{t} := by\n'
                         f'  {tac}\n')
    lines.append('end Pyhf.Props.C03\n')
    return '\n'.join(lines)


THEOREM_HEADER = '''import PyhfGen.InterpMulti
import PyhfProofs.Properties.C03_Gen
/-!
# C03 (continued) — the vectorised interpolators on a multi-cell histogram set

`PyhfGen/InterpMulti.lean` is regenerated on every C03 run: each vectorised class `codeK` is constructed on a histogram set of shape
(2 systematics, 2 samples, 3, 2 bins) with all entries symbolic and called on a (2 systematics × 2 rows) alpha set (code 4: one row), so
the mask broadcasting, the einsum index strings and the batch axis are executed.  One theorem per entry [s, h, t, b] of the result: it
equals the scalar model function of **its own cell** — down / nominal / up of (systematic s, sample h, bin b) and the alpha of
(systematic s, row t) — for all real values of all 24 + 4 inputs.  No other entry of the histogram set or of the alpha set can
influence it: an interpolator that reads the wrong systematic's alpha, the wrong row, or another sample's or bin's variation breaks the
corresponding equality.  (The statements are mechanical; `python -m harness.gen_interp_multi --theorems` prints this file.)
-/
namespace Pyhf.Props.C03
open Pyhf Pyhf.Interp

/-- fallback for code 4 when an entry is not literally the one-cell function: same normalisation as `gen_fast_code4_eq` -/
macro "gen_eq4" : tactic =>
  `(tactic| (unfold fast4 poly6 code4Coeffs code4Rhs ipow sel
             have e2 : ∀ x : ℝ, x ^ (2:ℝ) = x ^ 2 := fun x => by exact_mod_cast Real.rpow_natCast x 2
             have e3 : ∀ x : ℝ, x ^ (3:ℝ) = x ^ 3 := fun x => by exact_mod_cast Real.rpow_natCast x 3
             have e4 : ∀ x : ℝ, x ^ (4:ℝ) = x ^ 4 := fun x => by exact_mod_cast Real.rpow_natCast x 4
             have e5 : ∀ x : ℝ, x ^ (5:ℝ) = x ^ 5 := fun x => by exact_mod_cast Real.rpow_natCast x 5
             have e6 : ∀ x : ℝ, x ^ (6:ℝ) = x ^ 6 := fun x => by exact_mod_cast Real.rpow_natCast x 6
             norm_num [realPrim_pow, realPrim_log, ipow, e2, e3, e4, e5, e6]
             split_ifs <;> first | (exfalso; linarith) | rfl | ring | (congr 1; ring) | (congr 1 <;> ring) | (congr 1; field_simp; ring)))
'''


if __name__ == '__main__':
    if '--theorems' in sys.argv:
        print(theorems()); sys.exit(0)
    changed, _ = regenerate(check_only='--check' in sys.argv)
    print('changed' if changed else 'unchanged', OUT)
    sys.exit(1 if (changed and '--check' in sys.argv) else 0)
