"""Regenerates lean/PyhfGen/Config.lean: what `_ModelConfig` reports for a specification whose measurement overrides are *symbolic*.

One specification with all seven modifier types (two samples, two bins; lumi, a normalisation systematic, a free normalisation as POI,
a free shape factor, an uncorrelated-shape and an MC-statistical uncertainty) is built by `pyhf.Model` with every yield, variation and
uncertainty symbolic **and every measurement override a symbol**: initial values, bounds, auxiliary data, widths — for some parameter
sets all of them, for others only some, for others none (`fixed` flags are literals: a flag cannot be symbolic).  The quantities the
configuration reports — `par_order`, `par_names`, the slices, `suggested_init`, `suggested_bounds`, `suggested_fixed`, `auxdata`,
`auxdata_order`, and per constrained set the widths / factors the constraint uses — are emitted as Lean lists.
`Properties/C12_Gen.lean` states the by-name layout they must have (override verbatim where given, the type's default otherwise) for all
values of the symbols.  Usage: python -m harness.gen_config [--check]
"""
import hashlib, inspect, os, sys
import numpy as np
from harness import symexec as sx
from harness.symexec import var, Sym
from harness.gen_model import symbolic, ns

VERIF = os.path.dirname(os.path.dirname(os.path.abspath(__file__)))
OUT = os.path.join(VERIF, 'lean', 'PyhfGen', 'Config.lean')

SPEC = {'channels': [{'name': 'SR', 'samples': [
    {'name': 'signal', 'data': ['s0', 's1'], 'modifiers': [ns('normfactor', 'mu'), ns('lumi', 'lumi'), ns('normsys', 'sysA', {'lo': 'slo', 'hi': 'shi'})]},
    {'name': 'bkg', 'data': ['b0', 'b1'], 'modifiers': [ns('shapesys', 'uncorr', ['u0', 'u1']), ns('staterror', 'stat_SR', ['eb0', 'eb1']), ns('shapefactor', 'sf'),
                                                      ns('histosys', 'sysH', {'lo_data': ['hl0', 'hl1'], 'hi_data': ['hh0', 'hh1']})]}]}]}
DATA_SYMS = ['s0', 's1', 'slo', 'shi', 'b0', 'b1', 'u0', 'u1', 'eb0', 'eb1', 'hl0', 'hl1', 'hh0', 'hh1']
OVR_SYMS = ['i_mu', 'lo_mu', 'hi_mu', 'x_lumi', 'sg_lumi', 'i_lumi', 'lo_lumi', 'hi_lumi', 'i_sysA', 'x_sysA', 'i_st0', 'i_st1', 'sg_st0', 'sg_st1',
            'lo_sf0', 'hi_sf0', 'lo_sf1', 'hi_sf1', 'x_u0', 'x_u1', 'f_u0', 'f_u1']


def overrides():
    v = var
    return [{'name': 'mu', 'inits': [v('i_mu')], 'bounds': [[v('lo_mu'), v('hi_mu')]]},
            {'name': 'lumi', 'auxdata': [v('x_lumi')], 'sigmas': [v('sg_lumi')], 'inits': [v('i_lumi')], 'bounds': [[v('lo_lumi'), v('hi_lumi')]], 'fixed': True},
            {'name': 'sysA', 'inits': [v('i_sysA')], 'auxdata': [v('x_sysA')]},
            {'name': 'stat_SR', 'inits': [v('i_st0'), v('i_st1')], 'sigmas': [v('sg_st0'), v('sg_st1')], 'fixed': False},
            {'name': 'sf', 'bounds': [[v('lo_sf0'), v('hi_sf0')], [v('lo_sf1'), v('hi_sf1')]]},
            {'name': 'uncorr', 'auxdata': [v('x_u0'), v('x_u1')], 'factors': [v('f_u0'), v('f_u1')]}]      # sysH: no entry at all


HEADER = '''import PyhfModel.Basic
/-!
# GENERATED — do not edit.  Regenerated on every C12 check by `harness/gen_config.py`: the quantities `_ModelConfig` reports for a
specification with all seven modifier types whose measurement overrides are symbols (`i_*` initial values, `lo_*`/`hi_*` bounds, `x_*`
auxiliary data, `sg_*` widths, `f_*` factors), obtained by running `pyhf.Model(spec)` on symbolic numbers.
-/
namespace Pyhf.Gen
section
variable {K : Type} [Add K] [Sub K] [Mul K] [Div K] [Neg K] [OfNat K 0] [OfNat K 1]
  [OfScientific K] [LT K] [LE K] [DecidableLT K] [DecidableLE K]
'''


def lean_list(xs):
    return '[' + ', '.join(sx.lean_expr(sx.lit(x)) for x in xs) + ']'


def generate():
    import pyhf, logging
    logging.getLogger('pyhf').setLevel(logging.CRITICAL)
    mgr = sys.modules['pyhf.tensor.manager']
    sb = sx.make_backend(pyhf)
    sd, sc = mgr.this.state['default'], mgr.this.state['current']
    out = [HEADER]
    src = hashlib.sha256((inspect.getsource(sys.modules['pyhf.pdf']) + inspect.getsource(sys.modules['pyhf.parameters.utils'])
                          + inspect.getsource(sys.modules['pyhf.parameters.paramsets'])).encode()).hexdigest()[:16]
    try:
        mgr.this.state['default'] = (sb, sd[1]); mgr.this.state['current'] = (sb, sc[1])
        sx.ORACLE.assumed = {}; sx.ORACLE.positive = set(DATA_SYMS); sx.ORACLE.prefix = []; sx.ORACLE.trace = []
        sp = symbolic(SPEC); sp['parameters'] = overrides()
        m = pyhf.Model(sp, poi_name='mu', validate=False)
        c = m.config
        if sx.ORACLE.trace: raise RuntimeError(f'the construction branched on a symbolic override: {[repr(x.t) for x, _ in sx.ORACLE.trace]}')
        sig = '(P : Prim K) (' + ' '.join(DATA_SYMS) + ' : K) (' + ' '.join(OVR_SYMS) + ' : K)'
        q = lambda s: '"' + s + '"'
        out.append(f'/-! pdf.py + parameters/utils.py + parameters/paramsets.py sha256 {src}… -/\n')
        out.append(f'def cfg_par_order : List String := [{", ".join(q(n) for n in c.par_order)}]\n')
        out.append(f'def cfg_par_names : List String := [{", ".join(q(n) for n in c.par_names)}]\n')
        out.append('def cfg_par_slices : List (String × Nat × Nat) := [' + ', '.join(f'({q(n)}, {c.par_slice(n).start}, {c.par_slice(n).stop})' for n in c.par_order) + ']\n')
        out.append(f'def cfg_npars : Nat := {c.npars}\n')
        out.append(f'def cfg_poi_index : Nat := {c.poi_index}\n')
        out.append(f'def cfg_suggested_fixed : List Bool := [{", ".join("true" if b else "false" for b in c.suggested_fixed())}]\n')
        out.append(f'def cfg_auxdata_order : List String := [{", ".join(q(n) for n in c.auxdata_order)}]\n')
        out.append(f'def cfg_suggested_init {sig} : List K :=\n  {lean_list(c.suggested_init())}\n')
        bnds = c.suggested_bounds()
        out.append(f'def cfg_suggested_bounds_lo {sig} : List K :=\n  {lean_list([b[0] for b in bnds])}\n')
        out.append(f'def cfg_suggested_bounds_hi {sig} : List K :=\n  {lean_list([b[1] for b in bnds])}\n')
        out.append(f'def cfg_auxdata {sig} : List K :=\n  {lean_list(c.auxdata)}\n')
        # what the constraint terms use: widths of the Gaussian-constrained sets, rate factors of the Poisson-constrained ones (in auxdata order)
        widths = []; factors = []
        for n in c.auxdata_order:
            ps = c.param_set(n)
            if ps.pdf_type == 'normal': widths += list(ps.width())       # the configured widths, unit widths where none are configured
            else: factors += list(ps.factors)
        out.append(f'def cfg_normal_widths {sig} : List K :=\n  {lean_list(widths)}\n')
        out.append(f'def cfg_poisson_factors {sig} : List K :=\n  {lean_list(factors)}\n')
        # ---- channel layout: three channels listed in non-alphabetical order with different bin counts, samples listed non-alphabetically
        lay = {'channels': [
            {'name': 'ZR', 'samples': [{'name': 'ttbar', 'data': ['z0', 'z1', 'z2'], 'modifiers': [ns('normfactor', 'mu')]},
                                       {'name': 'qcd', 'data': ['y0', 'y1', 'y2'], 'modifiers': [ns('shapefactor', 'sfz')]}]},
            {'name': 'AR', 'samples': [{'name': 'ttbar', 'data': ['a0'], 'modifiers': [ns('normfactor', 'mu')]}]},
            {'name': 'MR', 'samples': [{'name': 'wjets', 'data': ['m0', 'm1'], 'modifiers': [ns('normfactor', 'mu'), ns('shapesys', 'ssm', ['e0', 'e1'])]}]}]}
        sx.ORACLE.assumed = {}; sx.ORACLE.positive = {'z0', 'z1', 'z2', 'y0', 'y1', 'y2', 'a0', 'm0', 'm1', 'e0', 'e1'}; sx.ORACLE.prefix = []; sx.ORACLE.trace = []
        m2 = pyhf.Model(symbolic(lay), poi_name='mu', validate=False)
        c2 = m2.config
        if sx.ORACLE.trace: raise RuntimeError('the layout construction branched on a symbolic yield')
        declared = {ch['name']: len(ch['samples'][0]['data']) for ch in lay['channels']}
        out.append('/-- the channel layout of a model whose specification lists ZR (3 bins), AR (1 bin), MR (2 bins) in this order -/')
        out.append(f'def lay_declared : List (String × Nat) := [{", ".join(f"({q(n)}, {k})" for n, k in declared.items())}]\n')
        out.append(f'def lay_channels : List String := [{", ".join(q(n) for n in c2.channels)}]\n')
        out.append(f'def lay_samples : List String := [{", ".join(q(n) for n in c2.samples)}]\n')
        out.append('def lay_channel_nbins : List (String × Nat) := [' + ', '.join(f'({q(n)}, {c2.channel_nbins[n]})' for n in c2.channels) + ']\n')
        out.append('def lay_channel_slices : List (String × Nat × Nat) := [' + ', '.join(f'({q(n)}, {c2.channel_slices[n].start}, {c2.channel_slices[n].stop})' for n in c2.channels) + ']\n')
        out.append(f'def lay_nmaindata : Nat := {c2.nmaindata}\n')
        out.append('def lay_par_slices : List (String × Nat × Nat) := [' + ', '.join(f'({q(n)}, {c2.par_slice(n).start}, {c2.par_slice(n).stop})' for n in c2.par_order) + ']\n')
        out.append(f'def lay_npars : Nat := {c2.npars}\n')
    finally:
        mgr.this.state['default'] = sd; mgr.this.state['current'] = sc
    out.append('end\nend Pyhf.Gen\n')
    return '\n'.join(out)


def regenerate(check_only=False):
    text = generate()
    old = open(OUT).read() if os.path.exists(OUT) else None
    if text == old: return False, text
    if check_only: return True, text
    os.makedirs(os.path.dirname(OUT), exist_ok=True)
    tmp = OUT + f'.{os.getpid()}.tmp'
    open(tmp, 'w').write(text); os.replace(tmp, OUT)
    return True, text


if __name__ == '__main__':
    changed, _ = regenerate(check_only='--check' in sys.argv)
    print('changed' if changed else 'unchanged', OUT)
    sys.exit(1 if (changed and '--check' in sys.argv) else 0)
