"""Core plumbing shared by every property check.

* `Lean`       – client of the compiled Lean driver (line protocol, floats as IEEE bit patterns)
* `proof_gate` – builds the property's proof module, scans for forbidden constructs and audits
                 the axioms of every theorem in `PyhfProofs/Properties/<ID>.lean`
* `Ctx`        – per-run accumulator: evaluation counts, distinct non-trivial cases, input
                 distribution histograms, samples, model/implementation disagreements and
                 implementation-side oracle failures
* `finish`     – known-findings filter, VIOLATION / KNOWN-FINDING lines, evidence file, exit code
"""
import json, os, random, re, shutil, struct, subprocess, sys, tempfile, time, hashlib

VERIF = os.path.dirname(os.path.dirname(os.path.abspath(__file__)))
LEAN_DIR = os.path.join(VERIF, 'lean')
DRIVER = os.path.join(LEAN_DIR, '.lake', 'build', 'bin', 'driver')
ALLOWED_AXIOMS = {'propext', 'Classical.choice', 'Quot.sound'}
FORBIDDEN = re.compile(r'\bsorry\b|\badmit\b|^axiom\s|\bnative_decide\b|\bbv_decide\b|implemented_by|\bunsafe\s|maxHeartbeats\s+0\b', re.M)

TRUSTED_BASE = [
    'Lean 4.33.0 kernel (leanchecker re-check in the thorough tier)',
    'axioms allowed in property theorems: propext, Classical.choice, Quot.sound (audited by #print axioms on every run)',
    'Mathlib v4.33.0 definitions used as specification vocabulary',
    'hand-written Lean model tied to /repo by the correspondence (differential) check run on every invocation',
    'tensor-library elementwise semantics, floating-point rounding (absorbed by stated tolerances)',
]


def f2b(x):
    return struct.unpack('<Q', struct.pack('<d', float(x)))[0]


def b2f(n):
    return struct.unpack('<d', struct.pack('<Q', int(n)))[0]


def fl(xs):
    """nested float lists -> nested bit patterns"""
    if isinstance(xs, (list, tuple)):
        return [fl(x) for x in xs]
    return f2b(xs)


def unfl(xs):
    if isinstance(xs, list):
        return [unfl(x) for x in xs]
    return b2f(xs)


class LeanError(Exception):
    pass


class Lean:
    """Line-protocol client of the compiled model driver."""

    def __init__(self):
        if not os.path.exists(DRIVER):
            raise LeanError(f'driver not built: {DRIVER}')
        self.p = subprocess.Popen([DRIVER], stdin=subprocess.PIPE, stdout=subprocess.PIPE,
                                  text=True, bufsize=1)
        self.calls = 0

    def call(self, req):
        self.calls += 1
        self.p.stdin.write(json.dumps(req, separators=(',', ':')) + '\n')
        self.p.stdin.flush()
        line = self.p.stdout.readline()
        if not line:
            raise LeanError('driver died')
        rep = json.loads(line)
        return rep

    def ok(self, req):
        rep = self.call(req)
        if 'err' in rep:
            raise LeanError(rep['err'] + ' for ' + json.dumps(req)[:300])
        return rep['ok']

    def close(self):
        try:
            self.p.stdin.close()
            self.p.wait(timeout=5)
        except Exception:
            self.p.kill()


# --------------------------------------------------------------------------- proof gate

def _strip_comments(src):
    src = re.sub(r'/-.*?-/', lambda m: '\n' * m.group(0).count('\n'), src, flags=re.S)
    src = re.sub(r'--.*', '', src)
    return src


def property_modules(pid):
    """the property's theorem files: Properties/<pid>.lean plus any continuation files Properties/<pid>_*.lean"""
    d = os.path.join(LEAN_DIR, 'PyhfProofs', 'Properties')
    files = [f for f in sorted(os.listdir(d)) if f == f'{pid}.lean' or (f.startswith(pid + '_') and f.endswith('.lean'))]
    return [f'PyhfProofs.Properties.{f[:-5]}' for f in files]


def property_theorems(pid):
    """fully qualified names of every `theorem` in PyhfProofs/Properties/<pid>.lean and its continuation files <pid>_*.lean"""
    path = os.path.join(LEAN_DIR, 'PyhfProofs', 'Properties', f'{pid}.lean')
    if not os.path.exists(path):
        return path, []
    names = []
    for mod in property_modules(pid):
        names += _file_theorems(os.path.join(LEAN_DIR, *mod.split('.')) + '.lean')
    return path, names


def _file_theorems(path):
    src = _strip_comments(open(path).read())
    ns = []
    names = []
    for line in src.splitlines():
        m = re.match(r'\s*namespace\s+(\S+)', line)
        if m:
            ns.append(m.group(1)); continue
        m = re.match(r'\s*end\s+(\S+)\s*$', line)
        if m and ns and ns[-1] == m.group(1):
            ns.pop(); continue
        m = re.match(r'\s*(?:@\[[^\]]*\]\s*)?(?:private\s+|protected\s+)?theorem\s+(\S+)', line)
        if m:
            names.append('.'.join(ns + [m.group(1)]))
    return names


def proof_gate(pid, thorough=False):
    """returns dict(obligations=[...], discharged=[...], failures=[...], checker_cmd=str, wall_s=float)"""
    t0 = time.time()
    failures = []
    mods = property_modules(pid) or [f'PyhfProofs.Properties.{pid}']
    mod = ' '.join(mods)
    cmd = f'cd lean && lake build driver {mod} && lake env lean <audit: #print axioms of every theorem in {mod}>'
    r = subprocess.run(['lake', 'build', 'driver'] + mods, cwd=LEAN_DIR, capture_output=True, text=True)
    path, names = property_theorems(pid)
    if r.returncode != 0:
        tail = (r.stdout + r.stderr)[-1500:]
        failures.append({'kind': 'build', 'module': mod, 'log_tail': tail})
        return dict(obligations=names, discharged=[], failures=failures, checker_cmd=cmd, wall_s=time.time() - t0)
    # forbidden constructs anywhere in the project sources
    for root, _, files in os.walk(LEAN_DIR):
        if '.lake' in root:
            continue
        for f in files:
            if f.endswith('.lean'):
                src = _strip_comments(open(os.path.join(root, f)).read())
                m = FORBIDDEN.search(src)
                if m:
                    failures.append({'kind': 'forbidden', 'file': os.path.join(root, f), 'token': m.group(0)})
    discharged = []
    if names:
        tmp = tempfile.mkdtemp(prefix='pyhf_verif_audit_')
        try:
            af = os.path.join(tmp, 'Audit.lean')
            with open(af, 'w') as fh:
                for m_ in mods: fh.write(f'import {m_}\n')
                for n in names:
                    fh.write(f'#print axioms {n}\n')
            a = subprocess.run(['lake', 'env', 'lean', af], cwd=LEAN_DIR, capture_output=True, text=True)
            out = a.stdout + a.stderr
            flat = re.sub(r'\s+', ' ', out)
            for n in names:
                m = re.search(r"'" + re.escape(n) + r"' (does not depend on any axioms|depends on axioms: \[([^\]]*)\])", flat)
                if not m:
                    failures.append({'kind': 'audit-missing', 'theorem': n, 'log_tail': out[-400:]})
                    continue
                axs = set(x.strip() for x in (m.group(2) or '').split(',') if x.strip())
                if axs - ALLOWED_AXIOMS:
                    failures.append({'kind': 'axioms', 'theorem': n, 'axioms': sorted(axs)})
                else:
                    discharged.append(n)
        finally:
            shutil.rmtree(tmp, ignore_errors=True)
    else:
        failures.append({'kind': 'no-theorems', 'file': path})
    if thorough and not failures:
        c = subprocess.run(['lake', 'env', 'leanchecker'] + mods, cwd=LEAN_DIR, capture_output=True, text=True)
        cmd += f' && lake env leanchecker {mod}'
        if c.returncode != 0:
            failures.append({'kind': 'leanchecker', 'log_tail': (c.stdout + c.stderr)[-800:]})
    return dict(obligations=names, discharged=discharged, failures=failures, checker_cmd=cmd, wall_s=time.time() - t0)


# --------------------------------------------------------------------------- run context

class Ctx:
    def __init__(self, pid, tier, seed, replay=None):
        self.pid, self.tier, self.seed, self.replay = pid, tier, seed, replay
        self.rng = random.Random(seed)
        self.t0 = time.time()
        self.evaluations = 0
        self.distinct = set()
        self.hist = {}
        self.samples = []
        self.disagreements = []   # model vs implementation (correspondence)
        self.failures = []        # implementation-side oracle failures (concrete failing inputs)
        self.known_hits = []
        self.notes = {}
        self.assumptions = []
        self._lean = None

    @property
    def thorough(self):
        return self.tier == 'thorough'

    @property
    def lean(self):
        if self._lean is None:
            self._lean = Lean()
        return self._lean

    def n(self, quick, thorough):
        return thorough if self.thorough else quick

    def count(self, k=1):
        self.evaluations += k

    def nontrivial(self, key):
        """register a distinct non-trivial case (hashable key or json-able object)"""
        if not isinstance(key, (str, int, tuple)):
            key = json.dumps(key, sort_keys=True, default=str)
        if isinstance(key, str) and len(key) > 64:
            key = hashlib.sha1(key.encode()).hexdigest()
        self.distinct.add(key)

    def tally(self, name, key):
        h = self.hist.setdefault(name, {})
        key = str(key)
        h[key] = h.get(key, 0) + 1

    def sample(self, obj, cap=4):
        if len(self.samples) < cap:
            self.samples.append(obj)

    def disagree(self, op, inp, model, impl, note=''):
        """model and implementation differ on `inp` for correspondence operation `op`"""
        if len(self.disagreements) < 50:
            self.disagreements.append({'op': op, 'input': inp, 'model': model, 'impl': impl, 'note': note})
        else:
            self.disagreements.append(None)

    def fail(self, signature, what, inp, observed=None, expected=None, repro=None):
        """implementation-side oracle failure: a concrete input on which the property is false"""
        if len(self.failures) < 50:
            self.failures.append({'signature': signature, 'what': what, 'input': inp,
                                  'observed': observed, 'expected': expected, 'reproducer': repro})
        else:
            self.failures.append(None)


def close(a, b, rtol, atol=0.0):
    import math
    if isinstance(a, (list, tuple)):
        return len(a) == len(b) and all(close(x, y, rtol, atol) for x, y in zip(a, b))
    a = float(a); b = float(b)
    if math.isnan(a) or math.isnan(b):
        return math.isnan(a) and math.isnan(b)
    if math.isinf(a) or math.isinf(b):
        return a == b
    return abs(a - b) <= atol + rtol * max(abs(a), abs(b))


def load_known():
    p = os.path.join(VERIF, 'known_findings.json')
    if not os.path.exists(p):
        return {'findings': [], 'fixed': []}
    return json.load(open(p))


def finish(ctx, gate, level='proof', extra_cov=None, rule=''):
    """apply known findings, print lines, write evidence, return exit code"""
    known = [k for k in load_known().get('findings', []) if k['property'] == ctx.pid]
    known_sigs = {k['signature']: k for k in known}
    fails = [f for f in ctx.failures if f is not None]
    new_fail = [f for f in fails if f['signature'] not in known_sigs]
    hit = {}
    for f in fails:
        if f['signature'] in known_sigs:
            hit.setdefault(f['signature'], f)
    for k in known:
        if k['signature'] in hit:
            print(f"KNOWN-FINDING: property={ctx.pid} {k['signature']}: {k['what']}")
        else:
            print(f"note: known finding {k['signature']} did not reproduce in this run (stale entry or not exercised)")
    disagreements = [d for d in ctx.disagreements if d is not None]
    rc = 0
    os.makedirs(os.path.join(VERIF, 'replays'), exist_ok=True)
    import glob
    for old in glob.glob(os.path.join(VERIF, 'replays', f'{ctx.pid}-{ctx.seed}-*.json')):
        os.remove(old)
    nviol = 0
    if new_fail:
        sigs = []
        for f in new_fail:
            if f['signature'] in sigs:
                continue
            sigs.append(f['signature'])
            rp = os.path.join(VERIF, 'replays', f"{ctx.pid}-{ctx.seed}-{len(sigs)}.json")
            json.dump({'property': ctx.pid, 'kind': 'failing-input', **f}, open(rp, 'w'), indent=1, default=str)
            print(f"VIOLATION property={ctx.pid} replay={rp}")
            nviol += 1
        rc = 1
    elif disagreements or gate['failures']:
        rp = os.path.join(VERIF, 'replays', f"{ctx.pid}-{ctx.seed}-unproved.json")
        json.dump({'property': ctx.pid, 'kind': 'obligation-no-longer-checks',
                   'proof_gate_failures': gate['failures'],
                   'correspondence_disagreements': disagreements[:10],
                   'n_disagreements': len(ctx.disagreements),
                   'explanation': 'the theorem(s) or model/implementation correspondence named here no longer check; '
                                  'the implementation-side oracles found no input on which the property itself fails'},
                  open(rp, 'w'), indent=1, default=str)
        print(f"VIOLATION property={ctx.pid} replay={rp} no-failing-input-found")
        nviol += 1
        rc = 1
    cov = {
        'obligations': len(gate['obligations']),
        'discharged': len(gate['discharged']),
        'checker_cmd': gate['checker_cmd'],
        'trusted_base': TRUSTED_BASE + ctx.assumptions,
        'theorems': gate['obligations'],
        'proof_gate_wall_s': round(gate['wall_s'], 2),
        'evaluations': ctx.evaluations,
        'distinct_nontrivial': len(ctx.distinct),
        'rule': rule,
        'samples': ctx.samples or ['(none)'],
        'input_distribution': ctx.hist,
        'correspondence_disagreements': len(ctx.disagreements),
        'oracle_failures': len(ctx.failures),
        'known_findings_reproduced': sorted(hit),
        'lean_driver_calls': ctx._lean.calls if ctx._lean else 0,
    }
    cov.update(ctx.notes)
    if extra_cov:
        cov.update(extra_cov)
    ev = {'property_id': ctx.pid, 'tier': ctx.tier, 'seed': ctx.seed, 'level': level,
          'coverage': cov, 'assumptions': TRUSTED_BASE + ctx.assumptions,
          'wall_s': round(time.time() - ctx.t0, 2), 'violations': nviol}
    os.makedirs(os.path.join(VERIF, 'evidence'), exist_ok=True)
    json.dump(ev, open(os.path.join(VERIF, 'evidence', f'{ctx.pid}.json'), 'w'), indent=1, default=str)
    if ctx._lean:
        ctx._lean.close()
    print(f"{ctx.pid} {ctx.tier} seed={ctx.seed}: theorems {len(gate['discharged'])}/{len(gate['obligations'])}, "
          f"evaluations {ctx.evaluations}, distinct {len(ctx.distinct)}, disagreements {len(ctx.disagreements)}, "
          f"oracle failures {len(ctx.failures)} ({len(new_fail)} new), {time.time() - ctx.t0:.1f}s -> exit {rc}")
    return rc
