"""Regenerates lean/PyhfGen/CliTable.lean: the option table of the `pyhf` command line, read off the running `click` command objects.

For every subcommand the properties talk about (contrib / completions are outside), each parameter's kind (argument | option),
destination name, option strings, `multiple`, flag-ness, `nargs`, the admissible choices and the default are emitted as a Lean table.
`Properties/C19_Gen.lean` proves (kernel evaluation) that the validity predicates of the hand-written glue model — backend names,
optimisers, test statistics, calculator types, join modes, modifier types — are **exactly** the choice lists click enforces now, that the
defaults the model assumes are click's, that the options the model treats as dictionaries / lists are the `multiple` ones, and that every
option of every modelled subcommand is one the model's `Args` carries (no option the model does not know about).
Usage: python -m harness.gen_cli [--check]
"""
import hashlib, inspect, os, sys

VERIF = os.path.dirname(os.path.dirname(os.path.abspath(__file__)))
OUT = os.path.join(VERIF, 'lean', 'PyhfGen', 'CliTable.lean')
SKIP = {'contrib', 'completions'}

HEADER = '''/-!
# GENERATED — do not edit.  Regenerated on every C19 check by `harness/gen_cli.py` from the `click` command objects of `pyhf.cli`
(`cli/infer.py`, `cli/spec.py`, `cli/patchset.py`, `cli/rootio.py`): one row per parameter of every modelled subcommand.
-/
namespace Pyhf.Gen

/-- one command-line parameter as click declares it -/
structure CliParam where
  isOption : Bool
  dest : String
  opts : List String
  multiple : Bool
  isFlag : Bool
  nargs : Nat
  choices : List String
  /-- the default rendered as text (`none` = no default / unset) -/
  default : Option String
deriving DecidableEq, Repr

'''


def q(s): return '"' + str(s).replace('\\', '\\\\').replace('"', '\\"') + '"'


def generate():
    import click
    import pyhf.cli
    from pyhf.cli import cli
    rows = []

    def walk(g, prefix=''):
        for name, cmd in sorted(g.commands.items()):
            if name in SKIP: continue
            if isinstance(cmd, click.Group): walk(cmd, prefix + name + ' '); continue
            ps = []
            for p in cmd.params:
                isopt = not isinstance(p, click.Argument)
                ch = list(p.type.choices) if isinstance(p.type, click.Choice) else []
                d = p.default
                if d is None or 'UNSET' in repr(d) or d == [] or d == (): dflt = 'none'
                elif name == 'xml2json' and p.name == 'basedir': dflt = 'some "<cwd>"'      # the working directory at import time
                elif isinstance(d, (list, tuple)): dflt = 'some ' + q(','.join(map(str, d)))
                else: dflt = 'some ' + q(d)
                ps.append(f'    {{ isOption := {"true" if isopt else "false"}, dest := {q(p.name)}, opts := [{", ".join(q(o) for o in p.opts)}], '
                          f'multiple := {"true" if getattr(p, "multiple", False) else "false"}, isFlag := {"true" if getattr(p, "is_flag", False) else "false"}, '
                          f'nargs := {p.nargs}, choices := [{", ".join(q(c) for c in ch)}], default := {dflt} }}')
            rows.append((prefix + name, ps, hashlib.sha256(inspect.getsource(cmd.callback).encode()).hexdigest()[:12]))
    walk(cli)
    out = [HEADER]
    out.append('/-- subcommand → its parameters in declaration order -/')
    out.append('def cliTable : List (String × List CliParam) := [')
    out.append(',\n'.join(f'  -- callback source sha256 {dg}…\n  ({q(n)}, [\n' + ',\n'.join(ps) + '])' for n, ps, dg in rows))
    out.append(']\n')
    out.append('end Pyhf.Gen\n')
    return '\n'.join(out)


def regenerate(check_only=False):
    text = generate()
    old = open(OUT).read() if os.path.exists(OUT) else None
    if text == old: return False, text
    if check_only: return True, text
    os.makedirs(os.path.dirname(OUT), exist_ok=True)
    tmp = OUT + f'.{os.getpid()}.tmp'
    open(tmp, 'w').write(text); os.replace(tmp, OUT)
    return True, text


if __name__ == '__main__':
    changed, _ = regenerate(check_only='--check' in sys.argv)
    print('changed' if changed else 'unchanged', OUT)
    sys.exit(1 if (changed and '--check' in sys.argv) else 0)
