"""Regenerates lean/PyhfGen/Limits.lean: `pyhf.infer.intervals.upper_limits` executed symbolically.

* `linear_grid_scan` on a three-point scan `(m0, m1, m2)` with `hypotest` replaced by a stub that returns symbolic values — observed
  `c<i>` and expected band `e<i>_<k>` at scan point i — and `numpy.interp` left **uninterpreted** (`npInterp x xp fp`, list arguments):
  the six generated limits record *which level, which curve (in which order) and which abscissae* the code hands to the interpolation.
* `upper_limit` with the two scan routines replaced by recorders: which routine is called, with which level and (automatic mode) which
  initial bracket, for `scan=None` and for a given scan.
`Properties/C09_Gen.lean` proves the grid limits equal to the model's `gridLimit` (with `npInterp` := the model of numpy.interp) and the
forwarded level equal to the caller's.  Usage: python -m harness.gen_limits [--check]
"""
import hashlib, inspect, os, sys
import numpy as np
from harness import symexec as sx
from harness.symexec import var, Sym

VERIF = os.path.dirname(os.path.dirname(os.path.abspath(__file__)))
OUT = os.path.join(VERIF, 'lean', 'PyhfGen', 'Limits.lean')
N = 3

HEADER = '''import PyhfModel.Basic
/-!
# GENERATED — do not edit.  Regenerated on every C09 check by `harness/gen_limits.py` from `src/pyhf/infer/intervals/upper_limits.py` by
symbolic execution: `linear_grid_scan` on a three-point scan with symbolic hypotest results (`numpy.interp` uninterpreted), and
`upper_limit` with the scan routines replaced by recorders.
-/
namespace Pyhf.Gen
section
variable {K : Type} [Add K] [Sub K] [Mul K] [Div K] [Neg K] [OfNat K 0] [OfNat K 1]
  [OfScientific K] [LT K] [LE K] [DecidableLT K] [DecidableLE K]
'''


class SymNp:
    """stands in for `np` inside upper_limits.py: `interp` stays uninterpreted, the rest is numpy's own"""
    def __getattr__(self, name): return getattr(np, name)
    @staticmethod
    def interp(x, xp, fp): return Sym.app('npInterp', x, list(xp), list(fp))


def digest(obj): return hashlib.sha256(inspect.getsource(obj).encode()).hexdigest()[:16]


def generate():
    import pyhf, logging
    import pyhf.infer.intervals.upper_limits as ul
    logging.getLogger('pyhf').setLevel(logging.CRITICAL)
    mgr = sys.modules['pyhf.tensor.manager']
    sb = sx.make_backend(pyhf)
    sd, sc = mgr.this.state['default'], mgr.this.state['current']
    saved = {k: getattr(ul, k) for k in ('np', 'hypotest', 'linear_grid_scan', 'toms748_scan')}
    out = [HEADER]
    scan_vars = [f'm{i}' for i in range(N)]
    obs_vars = [f'c{i}' for i in range(N)]
    exp_vars = [f'e{i}_{k}' for i in range(N) for k in range(5)]
    try:
        mgr.this.state['default'] = (sb, sd[1]); mgr.this.state['current'] = (sb, sc[1])
        ul.np = SymNp()
        seen_kwargs = []

        def fake_hypotest(mu, data, model, return_expected_set=False, **kw):
            i = scan_vars.index(mu.t[1])
            seen_kwargs.append(kw)
            return np.asarray(var(f'c{i}'), dtype=object), [np.asarray(var(f'e{i}_{k}'), dtype=object) for k in range(5)]
        ul.hypotest = fake_hypotest

        def run_grid():
            scan = np.asarray([var(m) for m in scan_vars], dtype=object)
            obs, exp = saved['linear_grid_scan'](None, None, scan, level=var('level'), test_stat='qtilde')
            return [sx.lit(obs)] + [sx.lit(x) for x in exp]
        tree = sx.paths(run_grid)
        if tree[0] != 'leaf': raise RuntimeError('linear_grid_scan branched on symbolic values')
        assert all(kw == {'test_stat': 'qtilde'} for kw in seen_kwargs), seen_kwargs
        sig = '(npInterp : K → List K → List K → K) (level ' + ' '.join(scan_vars) + ' ' + ' '.join(obs_vars) + ' ' + ' '.join(exp_vars) + ' : K)'
        out.append(f'/-! `linear_grid_scan` (source sha256 {digest(saved["linear_grid_scan"])}…), `_interp` ({digest(ul._interp)}…): scan `(m0, m1, m2)`; `hypotest` at `m<i>` returns\nobserved `c<i>` and the expected band `e<i>_0 … e<i>_4`; extra keyword arguments reach `hypotest` unchanged -/\n')
        names = ['obs'] + [f'exp{k}' for k in range(5)]
        for j, nm in enumerate(names):
            out.append(f'def grid_limit_{nm} {sig} : K :=\n{sx.lean_tree(("leaf", tree[1][j]))}\n')
        # ---- upper_limit: which routine, which level, which bracket
        calls = []

        def rec_grid(data, model, scan, level=0.05, return_results=False, **kw):
            calls.append(('grid', level, kw)); return Sym.app('gridScan', level), [Sym.app('gridScan', level)] * 5

        def rec_toms(data, model, lo, hi, level=0.05, from_upper_limit_fn=False, **kw):
            calls.append(('toms', level, lo, hi, kw)); r = Sym.app('tomsScan', level, lo, hi)
            return (r, [r] * 5, ([], [])) if from_upper_limit_fn else (r, [r] * 5)
        ul.linear_grid_scan, ul.toms748_scan = rec_grid, rec_toms

        class Cfg:
            poi_index = 1; poi_name = 'mu'
            def suggested_bounds(self): return [(var('other_lo'), var('other_hi')), (var('poi_lo'), var('poi_hi'))]
            def par_slice(self, name): return slice(1, 2) if name == 'mu' else slice(0, 1)
        class Mdl: config = Cfg()
        auto = ul.upper_limit(None, Mdl(), scan=None, level=var('level'), test_stat='q')
        grid = ul.upper_limit(None, Mdl(), scan=np.asarray([var(m) for m in scan_vars], dtype=object), level=var('level'), test_stat='q')
        assert [c[0] for c in calls] == ['toms', 'grid'] and calls[0][4] == {'test_stat': 'q'} and calls[1][2] == {'test_stat': 'q'}, calls
        out.append(f'/-! `upper_limit` (source sha256 {digest(ul.upper_limit)}…): the observed limit it returns, with the scan routines as parameters; the model\'s suggested\nPOI bounds are `(poi_lo, poi_hi)`; extra keyword arguments reach the scan routine unchanged -/\n')
        out.append('def upper_limit_auto (tomsScan : K → K → K → K) (level poi_lo poi_hi : K) : K :=\n' + sx.lean_tree(('leaf', sx.lit(auto[0]))) + '\n')
        out.append('def upper_limit_grid (gridScan : K → K) (level : K) : K :=\n' + sx.lean_tree(('leaf', sx.lit(grid[0]))) + '\n')
    finally:
        for k, v in saved.items(): setattr(ul, k, v)
        mgr.this.state['default'] = sd; mgr.this.state['current'] = sc
    out.append('end\nend Pyhf.Gen\n')
    return '\n'.join(out)


def regenerate(check_only=False):
    text = generate()
    old = open(OUT).read() if os.path.exists(OUT) else None
    if text == old: return False, text
    if check_only: return True, text
    os.makedirs(os.path.dirname(OUT), exist_ok=True)
    tmp = OUT + f'.{os.getpid()}.tmp'
    open(tmp, 'w').write(text); os.replace(tmp, OUT)
    return True, text


if __name__ == '__main__':
    changed, _ = regenerate(check_only='--check' in sys.argv)
    print('changed' if changed else 'unchanged', OUT)
    sys.exit(1 if (changed and '--check' in sys.argv) else 0)
