"""Regenerates lean/PyhfGen/Ws.lean: `Workspace` operations executed on a *symbolic workspace*, by symbolic execution of the running code.

One base workspace W (two channels with different sample sets; a normalisation systematic and a free normalisation shared across
channels and samples; an MC-statistical uncertainty; the signal strength as POI; one measurement with a parameter configuration; all
yields, variations, uncertainties and **observations** symbolic) is pushed through the real `pyhf.Workspace` methods:

* `base`      W.model().logpdf(pars, W.data(model))
* `shuf`      the same workspace listed in reverse order everywhere (channels, samples, modifiers, observations)
* `sorted`    Workspace.sorted(shuffled W)
* `ren`       W.rename(channels, samples, modifiers): new names chosen so that every sorted order changes
* `prCR`      W.prune(channels=['CR'])            (keeps SR)
* `prSR`      W.prune(channels=['SR'])            (keeps CR)
* `prSys`     W.prune(modifiers=['sysA'])
* `prSig`     W.prune(samples=['signal'])         (model built without POI)
* `comb`      Workspace.combine(prSR, prCR)       (the two halves joined again)
* `split`     the signal sample split into two samples with identical modifiers           (C15 rewrites, built as specifications)
* `ghost`     an additional zero-yield sample;  `null`: an additional shape systematic whose variations equal the nominal
* `chsplit`   the two bins of SR as two one-bin channels

For each, `Model.logpdf` on the workspace's own data (`Workspace.data`: observations in the model's channel order followed by the
configured auxiliary data) is executed with every parameter symbolic and the two log-density primitives uninterpreted; the full value
(and for the halves `Model.mainlogpdf`) becomes one Lean definition, parameters named after the parameter they stand for.
`Properties/C16_Gen.lean` proves the likelihood relations between them for all real parameters, data and observations.
JSON-schema validation is switched off during the execution (symbolic numbers are not JSON numbers); everything else is the code as it is.
Usage: python -m harness.gen_ws [--check]
"""
import copy, hashlib, inspect, os, re, sys
import numpy as np
from harness import symexec as sx
from harness.symexec import var, Sym
from harness.gen_model import project, lean_par

VERIF = os.path.dirname(os.path.dirname(os.path.abspath(__file__)))
OUT = os.path.join(VERIF, 'lean', 'PyhfGen', 'Ws.lean')

SYMS = ['c0', 'clo', 'chi', 's0', 's1', 'slo', 'shi', 'b0', 'b1', 'e0', 'e1', 'oc0', 'os0', 'os1', 'sa0', 'sa1', 'sb0', 'sb1']
# every parameter any variant can have, under the name it has in the *base* workspace; a renamed parameter is emitted under its base name
BASE_PARS = ['k_bkg', 'mu', 'sysA', 'stat_SR[0]', 'stat_SR[1]', 'nullsys']
REN = {'channels': {'CR': 'ZR', 'SR': 'AR'}, 'samples': {'bkg': 'zbkg', 'signal': 'asig'}, 'modifiers': {'sysA': 'zsys', 'k_bkg': 'zk', 'mu': 'amu', 'stat_SR': 'astat'}}


def mod(t, n, d=None): return {'name': n, 'type': t, 'data': d}


def base_spec():
    v = var
    return {
        'channels': [
            {'name': 'CR', 'samples': [
                {'name': 'bkg', 'data': [v('c0')], 'modifiers': [mod('normsys', 'sysA', {'lo': v('clo'), 'hi': v('chi')}), mod('normfactor', 'k_bkg')]}]},
            {'name': 'SR', 'samples': [
                {'name': 'signal', 'data': [v('s0'), v('s1')], 'modifiers': [mod('normfactor', 'mu'), mod('normsys', 'sysA', {'lo': v('slo'), 'hi': v('shi')})]},
                {'name': 'bkg', 'data': [v('b0'), v('b1')], 'modifiers': [mod('normfactor', 'k_bkg'), mod('staterror', 'stat_SR', [v('e0'), v('e1')])]}]}],
        'observations': [{'name': 'CR', 'data': [v('oc0')]}, {'name': 'SR', 'data': [v('os0'), v('os1')]}],
        'measurements': [{'name': 'meas', 'config': {'poi': 'mu', 'parameters': [{'name': 'mu', 'bounds': [[0.0, 8.0]], 'inits': [1.0]}]}}],
        'version': '1.0.0'}


def split_spec():
    """the signal sample split into two samples with identical modifiers (yields sa + sb)"""
    s = base_spec(); v = var
    sr = s['channels'][1]
    sig_mods = lambda: [mod('normfactor', 'mu'), mod('normsys', 'sysA', {'lo': v('slo'), 'hi': v('shi')})]
    sr['samples'] = [{'name': 'sigA', 'data': [v('sa0'), v('sa1')], 'modifiers': sig_mods()},
                     {'name': 'sigB', 'data': [v('sb0'), v('sb1')], 'modifiers': sig_mods()}, sr['samples'][1]]
    return s


def ghost_spec():
    """an extra sample with zero yields (carrying the shared systematic and its own free normalisation)"""
    s = base_spec(); v = var
    s['channels'][1]['samples'].append({'name': 'ghost', 'data': [0.0, 0.0], 'modifiers': [mod('normsys', 'sysA', {'lo': v('slo'), 'hi': v('shi')}), mod('normfactor', 'k_bkg')]})
    return s


def null_spec():
    """a correlated-shape systematic whose variations equal the nominal, on the SR background"""
    s = base_spec(); v = var
    s['channels'][1]['samples'][1]['modifiers'].append(mod('histosys', 'nullsys', {'lo_data': [v('b0'), v('b1')], 'hi_data': [v('b0'), v('b1')]}))
    return s


def chsplit_spec():
    """the two bins of SR as two one-bin channels (the MC-statistical modifier, being per channel, becomes one per new channel)"""
    s = base_spec(); v = var
    sig_mods = lambda: [mod('normfactor', 'mu'), mod('normsys', 'sysA', {'lo': v('slo'), 'hi': v('shi')})]
    new = [{'name': f'SR{b}', 'samples': [
        {'name': 'signal', 'data': [v(f's{b}')], 'modifiers': sig_mods()},
        {'name': 'bkg', 'data': [v(f'b{b}')], 'modifiers': [mod('normfactor', 'k_bkg'), mod('staterror', f'stat_SR{b}', [v(f'e{b}')])]}]} for b in range(2)]
    s['channels'] = [s['channels'][0]] + new
    s['observations'] = [s['observations'][0]] + [{'name': f'SR{b}', 'data': [v(f'os{b}')]} for b in range(2)]
    return s


def shuffled(spec):
    s = copy.deepcopy(spec)
    s['channels'].reverse(); s['observations'].reverse()
    for c in s['channels']:
        c['samples'].reverse()
        for smp in c['samples']: smp['modifiers'].reverse()
    return s


HEADER = '''import PyhfModel.Basic
/-!
# GENERATED — do not edit.  Regenerated on every C16 check by `harness/gen_ws.py`: `Workspace.rename / prune / combine / sorted` and
`Workspace.model / data` executed on a symbolic workspace (all yields, variations, uncertainties and observations symbolic), then
`Model.logpdf` on the workspace's own data with symbolic parameters.  Parameters carry the name they have in the base workspace.
-/
namespace Pyhf.Gen
section
variable {K : Type} [Add K] [Sub K] [Mul K] [Div K] [Neg K] [OfNat K 0] [OfNat K 1]
  [OfScientific K] [LT K] [LE K] [DecidableLT K] [DecidableLE K] [DecidableEq K]
'''


def generate():
    import pyhf, logging
    logging.getLogger('pyhf').setLevel(logging.CRITICAL)
    mgr = sys.modules['pyhf.tensor.manager']
    sb = sx.make_backend(pyhf)
    lift = lambda a: np.vectorize(sx.lit, otypes=[object])(np.asarray(a, dtype=object))

    def el(f, *arrs):
        arrs = np.broadcast_arrays(*[lift(a) for a in arrs])
        res = np.empty(arrs[0].shape, dtype=object)
        for idx in np.ndindex(arrs[0].shape): res[idx] = f(*[a[idx] for a in arrs])
        return res
    sb.poisson_logpdf = lambda n, lam: el(lambda a, b: Sym.app('lpois', a, b), n, lam)
    sb.normal_logpdf = lambda x, mu, sigma: el(lambda a, b, c: Sym.app('lnorm', a, b, c), x, mu, sigma)
    nbmod = sys.modules['pyhf.tensor.numpy_backend']; orig_cls = nbmod.numpy_backend
    schema = sys.modules['pyhf.schema']; orig_validate = schema.validate
    sd, sc = mgr.this.state['default'], mgr.this.state['current']
    W = pyhf.Workspace
    inv = {kind: {new: old for old, new in REN[kind].items()} for kind in REN}

    def base_name(parname):
        """the base-workspace name of a (possibly renamed) parameter, e.g. 'astat[1]' -> 'stat_SR[1]'"""
        if re.fullmatch(r'stat_SR\d(\[0\])?', parname): return f'stat_SR[{parname[7]}]'        # the channel-split variant
        m = re.fullmatch(r'([^\[]+)(\[\d+\])?', parname)
        return inv['modifiers'].get(m.group(1), m.group(1)) + (m.group(2) or '')

    variants = {
        'base': lambda: (W(base_spec()), {}),
        'shuf': lambda: (W(shuffled(base_spec())), {}),
        'sorted': lambda: (W.sorted(W(shuffled(base_spec()))), {}),
        'ren': lambda: (W(base_spec()).rename(**REN), {}),
        'prCR': lambda: (W(base_spec()).prune(channels=['CR']), {}),
        'prSR': lambda: (W(base_spec()).prune(channels=['SR']), {'poi_name': None}),       # the signal (and with it the POI) lives in SR only
        'prSys': lambda: (W(base_spec()).prune(modifiers=['sysA']), {}),
        'prSig': lambda: (W(base_spec()).prune(samples=['signal']), {'poi_name': None}),
        'split': lambda: (W(split_spec()), {}),
        'ghost': lambda: (W(ghost_spec()), {}),
        'null': lambda: (W(null_spec()), {}),
        'chsplit': lambda: (W(chsplit_spec()), {}),
        'comb': lambda: (W.combine(W(base_spec()).prune(channels=['SR']), W(base_spec()).prune(channels=['CR']), join='outer'), {}),
    }
    MAIN_TOO = ('prCR', 'prSR')
    out = [HEADER]
    src = hashlib.sha256((inspect.getsource(sys.modules['pyhf.workspace']) + inspect.getsource(sys.modules['pyhf.pdf'])).encode()).hexdigest()[:16]
    out.append(f'/-! workspace.py + pdf.py sha256 {src}… -/\n')
    try:
        mgr.this.state['default'] = (sb, sd[1]); mgr.this.state['current'] = (sb, sc[1])
        nbmod.numpy_backend = lambda *a, **k: sb
        schema.validate = lambda *a, **k: None
        for tag, mk in variants.items():
            info = {}

            def run(which='logpdf'):
                ws, kw = mk()
                m = ws.model(validate=False, **kw)
                names = list(m.config.par_names)
                info['names'] = names; info['channels'] = list(m.config.channels); info['poi'] = m.config.poi_name
                pars = np.asarray([var(lean_par(base_name(n))) for n in names], dtype=object)
                data = ws.data(m)
                info['ndata'] = len(data)
                if which == 'main':
                    maindata = np.asarray(ws.data(m, include_auxdata=False), dtype=object)
                    return [sx.lit(x) for x in np.ravel(m.mainlogpdf(maindata, pars))]
                return [sx.lit(x) for x in np.ravel(m.logpdf(pars, np.asarray(data, dtype=object)))]
            sig = '(P : Prim K) (lpois : K → K → K) (lnorm : K → K → K → K) (' + ' '.join(SYMS) + ' : K) (' + ' '.join(lean_par(p) for p in BASE_PARS) + ' : K)'
            tree = sx.paths(run, positive=SYMS)
            # numeric self-check: the same Workspace operations on a workspace of random numbers, real numpy backend
            mgr.this.state['default'] = sd; mgr.this.state['current'] = sc; nbmod.numpy_backend = orig_cls
            try:
                me = sys.modules[base_spec.__module__]
                def reference(env):
                    saved_var = me.var
                    me.var = lambda n_: env[n_]
                    try:
                        ws, kw = mk()
                        m = ws.model(validate=False, **kw)
                        pars = np.asarray([env[lean_par(base_name(n))] for n in m.config.par_names])
                        return m.logpdf(pars, np.asarray(ws.data(m)))
                    finally:
                        me.var = saved_var

                def sampler(rng):
                    env = {x: rng.uniform(20, 80) for x in SYMS}
                    for x in ('clo', 'chi', 'slo', 'shi'): env[x] = rng.uniform(0.7, 1.3)
                    for x in ('e0', 'e1'): env[x] = rng.uniform(1, 8)
                    for p_ in BASE_PARS: env[lean_par(p_)] = rng.choice([rng.uniform(-2.5, 2.5), 1.0, -1.0]) if p_ in ('sysA', 'nullsys') else rng.uniform(0.5, 1.5)
                    return env
                from scipy.special import xlogy, gammaln
                funcs = {'lpois': lambda n_, lam: float(xlogy(n_, lam) - lam - gammaln(n_ + 1.0)),
                         'lnorm': lambda x_, mu_, sg_: float(-np.log(sg_ * np.sqrt(2 * np.pi)) - ((x_ - mu_) / (np.sqrt(2) * sg_)) ** 2)}
                sx.selfcheck(f'ws/{tag}', tree, None, sampler, reference, funcs=funcs, n=30, rtol=1e-8)
            finally:
                mgr.this.state['default'] = (sb, sd[1]); mgr.this.state['current'] = (sb, sc[1]); nbmod.numpy_backend = lambda *a, **k: sb
            out.append(f'/-- `{tag}`: `Model.logpdf(pars, Workspace.data(model))`; channels {info["channels"]}, parameters {info["names"]}, POI {info["poi"]!r}, {info["ndata"]} data entries -/')
            out.append(f'def ws_{tag}_logpdf {sig} : K :=\n{sx.lean_tree(project(tree, 0))}\n')
            if tag in MAIN_TOO:
                mtree = sx.paths(lambda: run('main'), positive=SYMS)
                out.append(f'/-- `{tag}`: `Model.mainlogpdf(Workspace.data(model, include_auxdata=False), pars)` -/')
                out.append(f'def ws_{tag}_main {sig} : K :=\n{sx.lean_tree(project(mtree, 0))}\n')
    finally:
        schema.validate = orig_validate
        nbmod.numpy_backend = orig_cls
        mgr.this.state['default'] = sd; mgr.this.state['current'] = sc
    out.append('end\nend Pyhf.Gen\n')
    return '\n'.join(out)


def regenerate(check_only=False):
    text = generate()
    old = open(OUT).read() if os.path.exists(OUT) else None
    if text == old: return False, text
    if check_only: return True, text
    os.makedirs(os.path.dirname(OUT), exist_ok=True)
    tmp = OUT + f'.{os.getpid()}.tmp'
    open(tmp, 'w').write(text); os.replace(tmp, OUT)
    return True, text


if __name__ == '__main__':
    changed, _ = regenerate(check_only='--check' in sys.argv)
    print('changed' if changed else 'unchanged', OUT)
    sys.exit(1 if (changed and '--check' in sys.argv) else 0)
