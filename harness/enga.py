"""Engine A glue: pyhf spec -> driver request, model replies, independent reference formula."""
import copy, math
import numpy as np
from harness.core import f2b, b2f, fl, unfl

ERRMAP = {'InvalidModel': 'InvalidModel', 'InvalidModifier': 'InvalidModifier', 'InvalidNameReuse': 'InvalidNameReuse',
          'InvalidSpecification': 'InvalidSpecification', 'InvalidPdfParameters': 'InvalidPdfParameters',
          'InvalidPdfData': 'InvalidPdfData'}


def to_driver_spec(spec):
    chans = []
    for c in spec['channels']:
        samples = []
        for s in c['samples']:
            mods = []
            for m in s['modifiers']:
                d = {'name': m['name'], 'type': m['type']}
                t = m['type']
                if t == 'histosys':
                    d['lo'] = fl(m['data']['lo_data']); d['hi'] = fl(m['data']['hi_data'])
                elif t == 'normsys':
                    d['lo'] = fl([m['data']['lo']]); d['hi'] = fl([m['data']['hi']])
                elif t in ('shapesys', 'staterror'):
                    d['lo'] = fl(m['data'])
                mods.append(d)
            samples.append({'name': s['name'], 'data': fl(s['data']), 'modifiers': mods})
        chans.append({'name': c['name'], 'samples': samples})
    pars = []
    for p in spec.get('parameters', []):
        d = {'name': p['name']}
        for k in ('inits', 'auxdata', 'sigmas', 'factors'):
            d[k] = fl(p[k]) if k in p else None
        d['bounds'] = [fl(list(b)) for b in p['bounds']] if 'bounds' in p else None
        d['fixed'] = p['fixed'] if 'fixed' in p else None
        pars.append(d)
    return {'channels': chans, 'parameters': pars}


def settings(histo='4p', norm='4', clip_sample=None, clip_bin=None, poi='mu'):
    st = {'histo': histo, 'norm': norm, 'clip_sample': None if clip_sample is None else f2b(clip_sample),
          'clip_bin': None if clip_bin is None else f2b(clip_bin), 'poi': poi}
    if poi is None: del st['poi']       # a model without parameter of interest
    return st


def model_call(lean, spec, st, queries):
    rep = lean.ok({'op': 'model', 'spec': to_driver_spec(spec), 'settings': st, 'queries': queries})
    return rep['error'], rep['results']


def impl_model(pyhf, spec, st_kwargs, batch_size=None):
    """returns (error-class-name | None, model)"""
    try:
        m = pyhf.Model(copy.deepcopy(spec), batch_size=batch_size, **st_kwargs)
        return None, m
    except Exception as e:  # noqa
        return type(e).__name__, None


def impl_kwargs(histo='4p', norm='4', clip_sample=None, clip_bin=None, poi='mu'):
    kw = {'modifier_settings': {'histosys': {'interpcode': 'code' + histo}, 'normsys': {'interpcode': 'code' + norm}},
          'poi_name': poi}
    if clip_sample is not None: kw['clip_sample_data'] = clip_sample
    if clip_bin is not None: kw['clip_bin_data'] = clip_bin
    return kw


def impl_config(m):
    c = m.config
    return {
        'channels': list(c.channels), 'samples': list(c.samples), 'modifiers': [list(x) for x in c.modifiers],
        'channel_nbins': [[k, int(c.channel_nbins[k])] for k in c.channels],
        'channel_slices': [[k, c.channel_slices[k].start, c.channel_slices[k].stop] for k in c.channels],
        'par_order': list(c.par_order),
        'par_slices': [[k, c.par_slice(k).start, c.par_slice(k).stop] for k in c.par_order],
        'npars': int(c.npars), 'par_names': list(c.par_names),
        'init': [float(x) for x in c.suggested_init()],
        'bounds': [[float(a), float(b)] for a, b in c.suggested_bounds()],
        'fixed': [bool(x) for x in c.suggested_fixed()],
        'auxdata': [float(x) for x in c.auxdata], 'auxdata_order': list(c.auxdata_order),
        'nmaindata': int(c.nmaindata), 'nauxdata': int(c.nauxdata),
        'poi_index': None if c.poi_index is None else int(c.poi_index),
    }


def model_config(res):
    out = dict(res)
    out['init'] = unfl(res['init']); out['bounds'] = unfl(res['bounds']); out['auxdata'] = unfl(res['auxdata'])
    out.pop('paramsets', None)
    out.pop('wf', None)
    return out


# ---------------------------------------------------------------- independent reference (C01/C02 oracle)

def _slow(pyhf, code):
    key = {'0': 0, '1': 1, '2': 2, '4': 4, '4p': '4p'}[code]
    it = pyhf.interpolators.get(key, do_tensorized_calc=False)([[[[1.0], [1.0], [1.0]]]], subscribe=False)
    return getattr(it, 'summand', None) or it.product


def reference_expected(pyhf, spec, config, pars, histo='4p', norm='4', clip_sample=None, clip_bin=None):
    """HistFactory rate formula evaluated by loops straight from the raw spec dictionary; parameters are looked
    up by *name* through config.par_slice.  Returns ({channel: [rates]}, {channel: {sample: [rates]}})"""
    hs, ns = _slow(pyhf, histo), _slow(pyhf, norm)
    sl = {n: config.par_slice(n) for n in config.par_order}
    # staterror / shapesys component offset per (name, channel): position among the modifier's bins in channel order
    offsets = {}
    for name, typ in config.modifiers:
        if typ in ('staterror', 'shapesys'):
            off = 0
            for cn in config.channels:
                ch = [c for c in spec['channels'] if c['name'] == cn][0]
                has = any(any(m['name'] == name and m['type'] == typ for m in s['modifiers']) for s in ch['samples'])
                if has:
                    offsets[(name, typ, cn)] = off
                    off += len(ch['samples'][0]['data'])
    out, bys = {}, {}
    for ch in spec['channels']:
        nb = len(ch['samples'][0]['data'])
        tot = [0.0] * nb
        bys[ch['name']] = {}
        for s in ch['samples']:
            rates = []
            for b in range(nb):
                nom = s['data'][b]
                delta = 0.0
                fac = 1.0
                for m in s['modifiers']:
                    t, n = m['type'], m['name']
                    th = pars[sl[n]]
                    if t == 'histosys':
                        delta += hs(m['data']['lo_data'][b], nom, m['data']['hi_data'][b], th[0])
                    elif t == 'normsys':
                        fac *= ns(m['data']['lo'], 1.0, m['data']['hi'], th[0])
                    elif t in ('normfactor', 'lumi'):
                        fac *= th[0]
                    elif t == 'shapefactor':
                        fac *= th[b]
                    else:
                        fac *= th[offsets[(n, t, ch['name'])] + b]
                r = fac * (nom + delta)
                if clip_sample is not None: r = max(r, clip_sample)
                rates.append(r)
            bys[ch['name']][s['name']] = rates
            tot = [a + r for a, r in zip(tot, rates)]
        if clip_bin is not None: tot = [max(x, clip_bin) for x in tot]
        out[ch['name']] = tot
    return out, bys


def lpois(n, lam):
    from scipy.special import xlogy, gammaln
    return float(xlogy(n, lam) - lam - gammaln(n + 1.0))


def lnorm(x, mu, sigma):
    return float(-math.log(sigma * math.sqrt(2 * math.pi)) - 0.5 * ((x - mu) / sigma) ** 2)


def terms_logpdf(terms):
    """(kind, datum, loc, scale) bit-quadruples from the driver -> (main, constraint) log-density"""
    tot = 0.0
    for k, d, l, s in terms:
        d, l, s = b2f(d), b2f(l), b2f(s)
        tot += lpois(d, l) if k == 'poisson' else lnorm(d, l, s)
    return tot
