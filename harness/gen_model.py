"""Regenerates lean/PyhfGen/Model.lean: the expected rates pyhf's tensor code computes for a family of specification *shapes* with fully
symbolic yields, variations, uncertainties and parameters, next to the HistFactory rate formula of the same shapes.

For each shape in SHAPES the real construction path (`pyhf.Model(spec)`: builders, combined modifiers, parameter sets, viewers) and
`Model.expected_actualdata(pars)` are executed by symbolic execution (harness/symexec.py) through the symbolic tensor backend; all
sample data are positive symbols, all parameters free symbols.  Every feasible path is enumerated and bin `b` of the result becomes the
Lean definition `Pyhf.Gen.<shape>_bin<b>`.  Independently, `formula()` below writes the declared HistFactory formula of the shape,
bin by bin, from the specification dictionary *by name* (sum over the channel's samples of the product of the declared factors times
nominal plus declared shifts), using the hand-written interpolation functions `Interp.slow4` / `Interp.slow4p` that C03 is about:
`Pyhf.Gen.<shape>_ref<b>`.  `PyhfProofs/Properties/C01_Gen.lean` proves the two equal for all real parameter values and all positive data.
Usage: python -m harness.gen_model [--check]
"""
import hashlib, inspect, os, re, sys
import numpy as np
from harness import symexec as sx
from harness.symexec import var, Sym

VERIF = os.path.dirname(os.path.dirname(os.path.abspath(__file__)))
OUT = os.path.join(VERIF, 'lean', 'PyhfGen', 'Model.lean')


def ns(mod, *a):
    return {'name': a[0], 'type': mod, 'data': a[1] if len(a) > 1 else None}


# data entries are symbol names; a list = one symbol per bin
SHAPES = {
    # one channel, signal with the POI, background with a normalisation and a correlated-shape systematic
    'shapeA': {'channels': [{'name': 'SR', 'samples': [
        {'name': 'signal', 'data': ['s0', 's1'], 'modifiers': [ns('normfactor', 'mu')]},
        {'name': 'bkg', 'data': ['b0', 'b1'], 'modifiers': [ns('normsys', 'sysA', {'lo': 'nlo', 'hi': 'nhi'}),
                                                          ns('histosys', 'sysB', {'lo_data': ['hl0', 'hl1'], 'hi_data': ['hh0', 'hh1']})]}]}]},
    # bin-wise uncertainties: uncorrelated shape on one sample, MC-statistical shared by two samples, luminosity on one of them, and a
    # unit-width systematic that precedes the width-carrying constraints in the auxiliary-data order
    'shapeB': {'channels': [{'name': 'SR', 'samples': [
        {'name': 'signal', 'data': ['s0', 's1'], 'modifiers': [ns('normfactor', 'mu'), ns('staterror', 'stat_SR', ['es0', 'es1']), ns('lumi', 'lumi')]},
        {'name': 'bkg', 'data': ['b0', 'b1'], 'modifiers': [ns('shapesys', 'uncorr', ['u0', 'u1']), ns('staterror', 'stat_SR', ['eb0', 'eb1']),
                                                          ns('histosys', 'sysH', {'lo_data': ['hl0', 'hl1'], 'hi_data': ['hh0', 'hh1']})]}]}],
        'parameters': [{'name': 'lumi', 'auxdata': [1.0], 'sigmas': [0.02], 'bounds': [[0.5, 1.5]], 'inits': [1.0]}]},
    # two channels with different sample sets, one systematic shared across channels and samples, a free shape factor
    'shapeC': {'channels': [
        {'name': 'CR', 'samples': [{'name': 'bkg', 'data': ['c0'], 'modifiers': [ns('normsys', 'sysA', {'lo': 'clo', 'hi': 'chi'}), ns('normfactor', 'k_bkg')]}]},
        {'name': 'SR', 'samples': [
            {'name': 'signal', 'data': ['s0', 's1'], 'modifiers': [ns('normfactor', 'mu'), ns('normsys', 'sysA', {'lo': 'slo', 'hi': 'shi'})]},
            {'name': 'bkg', 'data': ['b0', 'b1'], 'modifiers': [ns('normfactor', 'k_bkg'), ns('shapefactor', 'sf_SR')]}]}]},
    # non-default interpolation codes (`modifier_settings`): piecewise-exponential normalisation (code 1) shared by both samples,
    # piecewise-linear shape (code 0)
    'shapeD': {'settings': {'normsys': {'interpcode': 'code1'}, 'histosys': {'interpcode': 'code0'}}, 'channels': [{'name': 'SR', 'samples': [
        {'name': 'signal', 'data': ['s0', 's1'], 'modifiers': [ns('normfactor', 'mu'), ns('normsys', 'sysN', {'lo': 'slo', 'hi': 'shi'})]},
        {'name': 'bkg', 'data': ['b0', 'b1'], 'modifiers': [ns('normsys', 'sysN', {'lo': 'blo', 'hi': 'bhi'}),
                                                          ns('histosys', 'sysH', {'lo_data': ['hl0', 'hl1'], 'hi_data': ['hh0', 'hh1']})]}]}]},
    # quadratic-interpolation / linear-extrapolation shape (code 2) next to the default normalisation code
    'shapeE': {'settings': {'histosys': {'interpcode': 'code2'}, 'normsys': {'interpcode': 'code4'}}, 'channels': [{'name': 'SR', 'samples': [
        {'name': 'signal', 'data': ['s0'], 'modifiers': [ns('normfactor', 'mu')]},
        {'name': 'bkg', 'data': ['b0'], 'modifiers': [ns('histosys', 'sysH', {'lo_data': ['hl0'], 'hi_data': ['hh0']}), ns('normsys', 'sysN', {'lo': 'blo', 'hi': 'bhi'})]}]}]},
    # bin-wise constraints only: the Poisson-constrained block (shapesys) precedes the Gaussian-constrained one (staterror) in the auxiliary
    # data, so the [normal, poisson] constraint viewer has to reorder; evaluated batched on 2-D data as well (C10)
    'shapeF': {'channels': [{'name': 'SR', 'samples': [
        {'name': 'signal', 'data': ['s0', 's1'], 'modifiers': [ns('normfactor', 'mu'), ns('staterror', 'stat_SR', ['es0', 'es1'])]},
        {'name': 'bkg', 'data': ['b0', 'b1'], 'modifiers': [ns('shapesys', 'uncorr', ['u0', 'u1']), ns('staterror', 'stat_SR', ['eb0', 'eb1'])]}]}]},
    # fixed parameters keep their constraint terms: a luminosity held constant by the measurement (configured width), and an MC-statistical
    # bin without uncertainty (literal 0: the construction fixes that component and gives its term unit width)
    'shapeH': {'channels': [{'name': 'SR', 'samples': [
        {'name': 'signal', 'data': ['s0', 's1'], 'modifiers': [ns('normfactor', 'mu'), ns('lumi', 'lumi')]},
        {'name': 'bkg', 'data': ['b0', 'b1'], 'modifiers': [ns('staterror', 'stat_SR', ['e0', 0.0])]}]}],
        'parameters': [{'name': 'lumi', 'auxdata': [1.0], 'sigmas': [0.05], 'bounds': [[0.5, 1.5]], 'inits': [1.0], 'fixed': True}]},
}

NORM_FN = {'code1': 'Interp.slow1 P', 'code4': 'Interp.slow4 P (1.0 : K)'}
HISTO_FN = {'code0': 'Interp.slow0', 'code2': 'Interp.slow2', 'code4p': 'Interp.slow4p'}


def settings_of(spec):
    # without `modifier_settings` the configuration's defaults apply (code4 / code4p); a caller-supplied dictionary *replaces* them as a
    # whole, so a modifier type it does not mention falls back to the default of its combined-modifier class (code1 / code0)
    if 'settings' not in spec: return 'code4', 'code4p'
    st = spec['settings']
    return st.get('normsys', {}).get('interpcode', 'code1'), st.get('histosys', {}).get('interpcode', 'code0')


def build(spec, **kw):
    import pyhf
    st = spec.get('settings')
    if st: kw['modifier_settings'] = st
    return pyhf.Model(symbolic(spec), poi_name='mu', validate=False, **kw)


BATCHED = ('shapeB', 'shapeC')      # shapes also evaluated with batch_size=2
BATCHED_LOGPDF = ('shapeF', 'shapeH')        # shapes whose batched `logpdf` (two parameter rows, two data rows) and batched `expected_data` are translated


def symbols(spec):
    out = []
    def walk(x):
        if isinstance(x, str) and re.fullmatch(r'[a-z]+[0-9]*', x): out.append(x)
        elif isinstance(x, list): [walk(y) for y in x]
        elif isinstance(x, dict): [walk(v) for k, v in x.items() if k in ('data', 'lo', 'hi', 'lo_data', 'hi_data')]
    for c in spec['channels']:
        for s in c['samples']:
            walk(s['data'])
            for m in s['modifiers']: walk(m['data'])
    seen = []
    for x in out:
        if x not in seen: seen.append(x)
    return seen


def symbolic(spec):
    def conv(x):
        if isinstance(x, str) and re.fullmatch(r'[a-z]+[0-9]*', x): return var(x)
        if isinstance(x, list): return [conv(y) for y in x]
        if isinstance(x, dict): return {k: conv(v) for k, v in x.items()}
        return x
    out = {'channels': [{'name': c['name'], 'samples': [{'name': s['name'], 'data': conv(s['data']),
                                                          'modifiers': [{'name': m['name'], 'type': m['type'], 'data': conv(m['data'])} for m in s['modifiers']]}
                                                         for s in c['samples']]} for c in spec['channels']]}
    if 'parameters' in spec: out['parameters'] = spec['parameters']
    return out


def lean_par(name):
    return 'p_' + re.sub(r'[^A-Za-z0-9]', '_', name).strip('_')


def formula(spec, channels, par_index):
    """the declared HistFactory formula, bin by bin in the order of `channels`; parameters by name.
    `par_index(name, b)`: the Lean variable of component b of the parameter set `name`"""
    out = []
    ncode, hcode = settings_of(spec)
    by_name = {c['name']: c for c in spec['channels']}
    for cname in channels:
        c = by_name[cname]
        nb = len(c['samples'][0]['data'])
        for b in range(nb):
            terms = []
            for s in c['samples']:
                nom = s['data'][b]
                fac = []; shifts = []
                for m in s['modifiers']:
                    t, n, d = m['type'], m['name'], m['data']
                    if t in ('normfactor', 'lumi'): fac.append(par_index(n, 0))
                    elif t == 'normsys': fac.append(f'({NORM_FN[ncode]} {d["lo"]} (1.0 : K) {d["hi"]} {par_index(n, 0)})')
                    elif t in ('shapefactor', 'shapesys', 'staterror'): fac.append(par_index(n, b))
                    elif t == 'histosys': shifts.append(f'({HISTO_FN[hcode]} {d["lo_data"][b]} {nom} {d["hi_data"][b]} {par_index(n, 0)})')
                    else: raise ValueError(t)
                core = '(' + ' + '.join([nom] + shifts) + ')'
                terms.append('(' + ' * '.join(fac + [core]) + ')')
            out.append(' + '.join(terms))
    return out


def lean_num(x):
    return x if isinstance(x, str) else sx.lean_const(x)


def constraint_terms(spec, info, par_index):
    """one term per constrained parameter component, in config.auxdata_order, with widths / factors written from the specification"""
    mods = {}      # name -> list of (type, channel, sample, modifier)
    for c in spec['channels']:
        for smp in sorted(c['samples'], key=lambda x: x['name']):
            for m in smp['modifiers']: mods.setdefault(m['name'], []).append((m['type'], c, smp, m))
    terms = []; k = 0
    for n in info['auxorder']:
        ptype, npar = info['ptype'][n]
        t0, c0, smp0, m0 = mods[n][0]
        for i in range(npar):
            a = f'a{k}'; k += 1
            th = par_index(n, i)
            if t0 in ('normsys', 'histosys'): terms.append(f'lnorm {a} {th} (1.0 : K)')
            elif t0 == 'lumi':
                sg = next(p for p in spec['parameters'] if p['name'] == n)['sigmas'][i]
                terms.append(f'lnorm {a} {th} {sx.lean_const(sg)}')
            elif t0 == 'shapesys':
                terms.append(f'lpois {a} ({th} * ((P.pow {smp0["data"][i]} (2.0 : K)) / (P.pow {m0["data"][i]} (2.0 : K))))')
            elif t0 == 'staterror':
                decl = [(smp, m) for (t, c, smp, m) in mods[n]]
                if all(isinstance(m['data'][i], (int, float)) and m['data'][i] == 0 for smp, m in decl):
                    terms.append(f'lnorm {a} {th} (1.0 : K)')      # no uncertainty in this bin: the component is fixed and its term has unit width
                    continue
                tot = '(' + ' + '.join(smp['data'][i] for smp, m in decl) + ')'
                ssum = '(' + ' + '.join(f'(P.pow ({lean_num(m["data"][i])} / {tot}) (2.0 : K))' for smp, m in decl) + ')'
                sg = f'(P.sqrt {ssum})'      # positive data: the width does not vanish (a vanishing width would be replaced by 1 and the parameter fixed)
                terms.append(f'lnorm {a} {th} {sg}')
            else: raise ValueError(t0)
    return terms


HEADER = '''import PyhfModel.Basic
import PyhfModel.Interp
/-!
# GENERATED — do not edit.  Regenerated on every C01 check by `harness/gen_model.py`: for each specification shape, `<shape>_bin<b>` is
bin `b` of `Model.expected_actualdata` as computed by pyhf's construction path and tensor code, executed symbolically (all yields,
variations, uncertainties and parameters symbolic; data positive), and `<shape>_ref<b>` is the declared HistFactory rate formula of
that bin written from the specification by name.
-/
namespace Pyhf.Gen
section
variable {K : Type} [Add K] [Sub K] [Mul K] [Div K] [Neg K] [OfNat K 0] [OfNat K 1]
  [OfScientific K] [LT K] [LE K] [DecidableLT K] [DecidableLE K] [DecidableEq K]
'''


def generate():
    import pyhf, logging
    logging.getLogger('pyhf').setLevel(logging.CRITICAL)
    mgr = sys.modules['pyhf.tensor.manager']
    sb = sx.make_backend(pyhf)
    lift = lambda a: np.vectorize(sx.lit, otypes=[object])(np.asarray(a, dtype=object))

    def el(f, *arrs):
        arrs = np.broadcast_arrays(*[lift(a) for a in arrs])
        res = np.empty(arrs[0].shape, dtype=object)
        for idx in np.ndindex(arrs[0].shape): res[idx] = f(*[a[idx] for a in arrs])
        return res
    # the two log-density primitives stay uninterpreted (their exactness is C04)
    sb.poisson_logpdf = lambda n, lam: el(lambda a, b: Sym.app('lpois', a, b), n, lam)
    sb.normal_logpdf = lambda x, mu, sigma: el(lambda a, b, c: Sym.app('lnorm', a, b, c), x, mu, sigma)
    nbmod = sys.modules['pyhf.tensor.numpy_backend']; orig_cls = nbmod.numpy_backend
    sd, sc = mgr.this.state['default'], mgr.this.state['current']
    out = [HEADER]
    src = hashlib.sha256((inspect.getsource(sys.modules['pyhf.pdf']) + ''.join(inspect.getsource(sys.modules[f'pyhf.modifiers.{m}']) for m in
                          ('histosys', 'lumi', 'normfactor', 'normsys', 'shapefactor', 'shapesys', 'staterror'))).encode()).hexdigest()[:16]
    try:
        mgr.this.state['default'] = (sb, sd[1]); mgr.this.state['current'] = (sb, sc[1])
        nbmod.numpy_backend = lambda *a, **k: sb       # the basic distribution classes instantiate the backend class themselves
        for shape, spec in SHAPES.items():
            syms = symbols(spec)
            info = {}

            def run():
                m = build(spec)
                names = list(m.config.par_names)
                info['names'] = names; info['channels'] = list(m.config.channels)
                info['slices'] = {n: (m.config.par_slice(n).start, m.config.par_slice(n).stop) for n in m.config.par_order}
                pars = np.asarray([var(lean_par(n)) for n in names], dtype=object)
                res = m.expected_actualdata(pars)
                return [sx.lit(x) for x in np.ravel(res)]
            tree = sx.paths(run, positive=syms)
            names = info['names']
            parvars = [lean_par(n) for n in names]
            sig = '(P : Prim K) (' + ' '.join(syms) + ' : K) (' + ' '.join(parvars) + ' : K)'
            nb = len(tree_leaf(tree))

            def par_index(n, b):
                a, z = info['slices'][n]
                return parvars[a + b] if z - a > 1 else parvars[a]
            refs = formula(spec, info['channels'], par_index)
            assert len(refs) == nb, (len(refs), nb)
            out.append(f'/-! ## {shape}: channels {info["channels"]}, parameters {names} (pdf.py + modifiers/*.py sha256 {src}…) -/\n')
            for b in range(nb):
                out.append(f'def {shape}_bin{b} {sig} : K :=\n{sx.lean_tree(project(tree, b))}\n')
                out.append(f'def {shape}_ref{b} {sig} : K :=\n  {refs[b]}\n')
            # ---- the log-likelihood: Model.logpdf(pars, data) with symbolic main and auxiliary data
            def run_lp():
                m = build(spec)
                info['naux'] = m.config.nauxdata; info['auxorder'] = list(m.config.auxdata_order)
                info['ptype'] = {n: (m.config.param_set(n).pdf_type, m.config.param_set(n).n_parameters) for n in m.config.auxdata_order}
                pars = np.asarray([var(lean_par(n)) for n in m.config.par_names], dtype=object)
                data = np.asarray([var(f'd{i}') for i in range(m.config.nmaindata)] + [var(f'a{i}') for i in range(m.config.nauxdata)], dtype=object)
                return [sx.lit(x) for x in np.ravel(m.logpdf(pars, data))]
            ltree = sx.paths(run_lp, positive=syms)
            dvars = [f'd{i}' for i in range(nb)] + [f'a{i}' for i in range(info['naux'])]
            # ---- numeric self-check of the two translations against the real model on random numbers (real numpy backend)
            mgr.this.state['default'] = sd; mgr.this.state['current'] = sc; nbmod.numpy_backend = orig_cls
            try:
                def numeric(env):
                    def conv(x):
                        if isinstance(x, str) and re.fullmatch(r'[a-z]+[0-9]*', x): return env[x]
                        if isinstance(x, list): return [conv(y) for y in x]
                        if isinstance(x, dict): return {k: conv(v) for k, v in x.items()}
                        return x
                    sp = {'channels': [{'name': c['name'], 'samples': [{'name': s_['name'], 'data': conv(s_['data']), 'modifiers': [{'name': m_['name'], 'type': m_['type'], 'data': conv(m_['data'])} for m_ in s_['modifiers']]} for s_ in c['samples']]} for c in spec['channels']]}
                    if 'parameters' in spec: sp['parameters'] = spec['parameters']
                    kw = {'modifier_settings': spec['settings']} if spec.get('settings') else {}
                    return pyhf.Model(sp, poi_name='mu', validate=False, **kw)

                def sampler(rng):
                    env = {}
                    for x in syms:
                        base = rng.uniform(20, 80)
                        env[x] = base
                    for x in syms:      # variations / uncertainties relative to a nominal-size number
                        if x[0] in 'eu' and x not in ('u',): env[x] = rng.uniform(1, 8)
                        if x.endswith('lo') or x.endswith('hi'): env[x] = rng.uniform(0.7, 1.3)
                    for v_, n_ in zip(parvars, names):
                        env[v_] = rng.choice([rng.uniform(-2.5, 2.5), 1.0, -1.0, 0.0]) if re.match(r'sys', n_) else rng.uniform(0.5, 1.5)
                    for d_ in dvars: env[d_] = rng.uniform(0.5, 90.0)
                    return env
                from scipy.special import xlogy, gammaln
                funcs = {'lpois': lambda n_, lam: float(xlogy(n_, lam) - lam - gammaln(n_ + 1.0)),
                         'lnorm': lambda x_, mu_, sg_: float(-np.log(sg_ * np.sqrt(2 * np.pi)) - ((x_ - mu_) / (np.sqrt(2) * sg_)) ** 2)}
                sx.selfcheck(f'{shape}/expected_actualdata', tree, None, sampler, lambda env: numeric(env).expected_actualdata(np.asarray([env[v_] for v_ in parvars])))
                sx.selfcheck(f'{shape}/logpdf', ltree, None, sampler,
                             lambda env: numeric(env).logpdf(np.asarray([env[v_] for v_ in parvars]), np.asarray([env[d_] for d_ in dvars])), funcs=funcs, rtol=1e-8)
            finally:
                mgr.this.state['default'] = (sb, sd[1]); mgr.this.state['current'] = (sb, sc[1]); nbmod.numpy_backend = lambda *a, **k: sb
            lsig = ('(P : Prim K) (lpois : K → K → K) (lnorm : K → K → K → K) (' + ' '.join(syms) + ' : K) (' + ' '.join(parvars) + ' : K) ('
                    + ' '.join(dvars) + ' : K)')
            out.append(f'/-- `Model.logpdf(pars, data)` of {shape}: main data d, auxiliary data a; `lpois`, `lnorm` = the two log-density primitives -/')
            out.append(f'def {shape}_logpdf {lsig} : K :=\n{sx.lean_tree(project(ltree, 0))}\n')
            rate_args = 'P ' + ' '.join(syms) + ' ' + ' '.join(parvars)
            main_terms = [f'lpois d{b} ({shape}_bin{b} {rate_args})' for b in range(nb)]
            cons = constraint_terms(spec, info, par_index)
            # ---- batched evaluation: Model(spec, batch_size=2) on two symbolic parameter rows; each row of the result must be the unbatched function of its own row
            if shape in BATCHED:
                def run_batch():
                    m = build(spec, batch_size=2)
                    rows = np.asarray([[var(f'r{t}_' + lean_par(n)) for n in m.config.par_names] for t in range(2)], dtype=object)
                    res = m.expected_actualdata(rows)
                    assert np.shape(res) == (2, nb), np.shape(res)
                    return [sx.lit(x) for x in np.ravel(res)]
                btree = sx.paths(run_batch, positive=syms)
                bsig = ('(P : Prim K) (' + ' '.join(syms) + ' : K) (' + ' '.join('r0_' + v for v in parvars) + ' : K) (' + ' '.join('r1_' + v for v in parvars) + ' : K)')
                for t in range(2):
                    for b in range(nb):
                        out.append(f'/-- row {t}, bin {b} of `Model(spec, batch_size=2).expected_actualdata` on the parameter rows r0, r1 -/')
                        out.append(f'def {shape}_batch_row{t}_bin{b} {bsig} : K :=\n{sx.lean_tree(project(btree, t * nb + b))}\n')
            if shape in BATCHED_LOGPDF:
                nd = nb + info['naux']

                def run_batch_lp():
                    m = build(spec, batch_size=2)
                    rows = np.asarray([[var(f'r{t}_' + lean_par(n)) for n in m.config.par_names] for t in range(2)], dtype=object)
                    data = np.asarray([[var(f'r{t}_' + d) for d in dvars] for t in range(2)], dtype=object)
                    lp = m.logpdf(rows, data); ed = m.expected_data(rows)
                    assert np.shape(lp) == (2,) and np.shape(ed) == (2, nd), (np.shape(lp), np.shape(ed))
                    return [sx.lit(x) for x in np.ravel(lp)] + [sx.lit(x) for x in np.ravel(ed)]
                bltree = sx.paths(run_batch_lp, positive=syms)
                blsig = ('(P : Prim K) (lpois : K → K → K) (lnorm : K → K → K → K) (' + ' '.join(syms) + ' : K) (' + ' '.join(f'r{t}_' + v for t in range(2) for v in parvars)
                         + ' : K) (' + ' '.join(f'r{t}_' + d for t in range(2) for d in dvars) + ' : K)')
                for t in range(2):
                    out.append(f'/-- row {t} of `Model(spec, batch_size=2).logpdf(rows, data)` on the parameter rows r0, r1 and the data rows r0, r1 -/')
                    out.append(f'def {shape}_batch_row{t}_logpdf {blsig} : K :=\n{sx.lean_tree(project(bltree, t))}\n')
                    for k in range(nd):
                        out.append(f'/-- row {t}, entry {k} of `Model(spec, batch_size=2).expected_data(rows)` (main bins, then auxiliary data) -/')
                        out.append(f'def {shape}_batch_row{t}_expdata{k} {blsig} : K :=\n{sx.lean_tree(project(bltree, 2 + t * nd + k))}\n')

                def run_expdata():
                    m = build(spec)
                    pars = np.asarray([var(lean_par(n)) for n in m.config.par_names], dtype=object)
                    return [sx.lit(x) for x in np.ravel(m.expected_data(pars))]
                etree = sx.paths(run_expdata, positive=syms)
                for k in range(nd):
                    out.append(f'/-- entry {k} of the unbatched `Model.expected_data(pars)` -/')
                    out.append(f'def {shape}_expdata{k} {sig} : K :=\n{sx.lean_tree(project(etree, k))}\n')
            out.append(f'/-- the template: one Poisson term per bin on the rates above, one constraint term per constrained parameter component in `auxdata_order` -/')
            out.append(f'def {shape}_logpdf_ref {lsig} : K :=\n  (' + ' + '.join(main_terms) + ')' + (' + (' + ' + '.join(cons) + ')' if cons else '') + '\n')
    finally:
        nbmod.numpy_backend = orig_cls
        mgr.this.state['default'] = sd; mgr.this.state['current'] = sc
    out.append('end\nend Pyhf.Gen\n')
    return '\n'.join(out)


def tree_leaf(t):
    while t[0] != 'leaf': t = t[2]
    return t[1]


def project(t, b):
    """the decision tree of component b, with branches that do not matter for it merged"""
    if t[0] == 'leaf': return ('leaf', t[1][b])
    l, r = project(t[2], b), project(t[3], b)
    if repr_tree(l) == repr_tree(r): return l
    return ('ite', t[1], l, r)


def repr_tree(t):
    if t[0] == 'leaf': return repr(t[1].t if isinstance(t[1], Sym) else t[1])
    return f'ite({t[1].t!r},{repr_tree(t[2])},{repr_tree(t[3])})'


def regenerate(check_only=False):
    text = generate()
    old = open(OUT).read() if os.path.exists(OUT) else None
    if text == old: return False, text
    if check_only: return True, text
    os.makedirs(os.path.dirname(OUT), exist_ok=True)
    tmp = OUT + f'.{os.getpid()}.tmp'
    open(tmp, 'w').write(text); os.replace(tmp, OUT)
    return True, text


if __name__ == '__main__':
    changed, _ = regenerate(check_only='--check' in sys.argv)
    print('changed' if changed else 'unchanged', OUT)
    sys.exit(1 if (changed and '--check' in sys.argv) else 0)
