"""KKT optimality certificate for affine-rate models (C05; theorems kkt_lower_bound / twoNllAffine_first_order / kkt_certificate).

For a model whose expected rates are affine in the free parameters and positive on the whole box, twice the negative
log-likelihood is, up to parameter-independent constants,

    f(θ) = 2 Σ_b (ν_b(θ) − n_b log ν_b(θ)) + Σ_k ((θ_k − a_k)/σ_k)²        (Poisson constraints are further Poisson terms, ν = τ·θ)

and the theorem says: at a feasible θ⁺ whose gradient g (given by `gradAffine`) satisfies the sign conditions of a box-constrained
minimum up to ε, every feasible θ has f(θ) ≥ f(θ⁺) − ε·Σ(ub − lb).  The harness (i) decides affinity *structurally* from the
specification (every sample carries at most one free multiplicative parameter, no free interpolated modifier), (ii) extracts the
affine coefficients from pyhf's own expected_actualdata by exact differences, (iii) polishes pyhf's fit result (any method would do:
only the certificate at the polished point counts), (iv) evaluates g by the theorem's formula and ε, and (v) returns the certified
lower bound on the global minimum in pyhf's own normalisation (constants cancel in f(θ) − f(θ⁺)).  Floating-point evaluation of the
certificate is not itself proved (labelled in the evidence)."""
import math
import numpy as np


def free_factor_count(spec, free_names):
    """max number of free multiplicative parameter sets on one sample; inf if a free interpolated (normsys/histosys) modifier exists"""
    worst = 0
    for c in spec['channels']:
        for s in c['samples']:
            k = 0
            for m in s['modifiers']:
                if m['name'] not in free_names: continue
                if m['type'] in ('normsys', 'histosys'): return math.inf
                k += 1
            worst = max(worst, k)
    return worst


def certificate(pyhf, m, spec, data, theta_hat, fixed_mask, bounds):
    """returns None if the family hypothesis fails, else dict(lower=…, eps=…, polished=…, f_polished=…, width=…)"""
    from scipy.optimize import minimize
    cfg = m.config
    theta_hat = np.asarray(theta_hat, dtype=float)
    free = [j for j, f in enumerate(fixed_mask) if not f]
    if not free: return None
    free_names = set()
    for n in cfg.par_order:
        sl = cfg.par_slice(n)
        if any(j in free for j in range(sl.start, sl.stop)): free_names.add(n)
    if free_factor_count(spec, free_names) > 1: return None
    nmain = cfg.nmaindata
    lb = np.array([bounds[j][0] for j in free], dtype=float); ub = np.array([bounds[j][1] for j in free], dtype=float)

    def rates(th):
        return np.asarray(m.expected_actualdata(np.asarray(th)), dtype=float)
    base = theta_hat.copy()
    nu0 = rates(base)
    A = np.zeros((nmain, len(free)))
    for col, j in enumerate(free):
        t = base.copy(); t[j] += 1.0
        A[:, col] = rates(t) - nu0
        t2 = base.copy(); t2[j] += 2.0
        if not np.allclose(rates(t2) - nu0, 2 * A[:, col], rtol=1e-9, atol=1e-9 * (1 + np.abs(nu0).max())): return None   # not affine after all
    c = nu0 - A @ base[free]
    # constraint terms of the free components
    gauss = []   # (col, aux, sigma)
    pois = []    # (col, aux, tau)
    aux = list(data[nmain:]); pos = 0
    for n in cfg.auxdata_order:
        ps = cfg.param_set(n); sl = cfg.par_slice(n)
        for i in range(ps.n_parameters):
            j = sl.start + i
            if j in free:
                col = free.index(j)
                if ps.pdf_type == 'normal': gauss.append((col, aux[pos + i], float(np.asarray(ps.width())[i])))
                else: pois.append((col, aux[pos + i], float(np.asarray(ps.factors)[i])))
        pos += ps.n_parameters
    n_main = np.asarray(data[:nmain], dtype=float)
    # all Poisson terms: main bins and Poisson-constrained auxiliary measurements
    Cc = np.concatenate([c, np.zeros(len(pois))]); AA = np.vstack([A] + [np.eye(len(free))[col:col + 1] * tau for col, _, tau in pois]) if pois else A
    nn = np.concatenate([n_main, np.array([a for _, a, _ in pois], dtype=float)])
    if np.any(nn < 0): return None
    # positivity on the whole box (affine ⇒ minimum at a vertex)
    vmin = Cc + np.minimum(AA * lb, AA * ub).sum(axis=1)
    if np.any(vmin <= 0): return None

    def f(x):
        nu = Cc + AA @ x
        return 2 * float(np.sum(nu - nn * np.log(nu))) + float(sum(((x[col] - a) / s) ** 2 for col, a, s in gauss))

    def grad(x):
        nu = Cc + AA @ x
        g = 2 * (AA.T @ (1 - nn / nu))
        for col, a, s in gauss: g[col] += 2 * (x[col] - a) / s ** 2
        return g
    x0 = np.clip(theta_hat[free], lb, ub)
    res = minimize(f, x0, jac=grad, method='L-BFGS-B', bounds=list(zip(lb, ub)), options={'ftol': 1e-15, 'gtol': 1e-12, 'maxiter': 2000})
    xp = np.clip(res.x, lb, ub)
    if f(xp) > f(x0): xp = x0
    # a few Newton steps on the coordinates strictly inside their bounds (only the certificate at the final point counts)
    for _ in range(4):
        inside = np.array([lb[k] < xp[k] < ub[k] for k in range(len(free))])
        if not inside.any(): break
        nu = Cc + AA @ xp
        H = 2 * (AA.T * (nn / nu ** 2)) @ AA
        for col, a, sg in gauss: H[col, col] += 2 / sg ** 2
        gI = grad(xp)[inside]; HI = H[np.ix_(inside, inside)]
        try:
            step = np.linalg.solve(HI, gI)
        except np.linalg.LinAlgError:
            break
        cand = xp.copy(); cand[inside] = cand[inside] - step
        cand = np.clip(cand, lb, ub)
        if np.all(Cc + AA @ cand > 0) and f(cand) <= f(xp): xp = cand
        else: break
    g = grad(xp)
    eps = 0.0
    for k in range(len(free)):
        if xp[k] > lb[k]: eps = max(eps, g[k])
        if xp[k] < ub[k]: eps = max(eps, -g[k])
    width = float(np.sum(ub - lb))
    polished = theta_hat.copy(); polished[free] = xp
    tw = lambda th: float(np.asarray(pyhf.infer.mle.twice_nll(np.asarray(th), data, m)).ravel()[0])
    f_pol = tw(polished)
    # the model formula and pyhf's objective must differ by a constant (ties the theorem's f to the implementation)
    const_hat = tw(theta_hat) - f(np.clip(theta_hat[free], lb, ub)) if np.all((theta_hat[free] >= lb) & (theta_hat[free] <= ub)) else None
    const_pol = f_pol - f(xp)
    return {'lower': f_pol - eps * width, 'eps': float(eps), 'width': width, 'polished': polished.tolist(), 'f_polished': f_pol,
            'const_mismatch': None if const_hat is None else abs(const_hat - const_pol), 'nfree': len(free)}
