"""Symbolic execution of pyhf code: a translator from the *running* Python code to Lean definitions.

The real functions (scalar reference interpolators, and the vectorised interpolators through a symbolic tensor backend built on
numpy object arrays) are executed on symbolic scalars.  Arithmetic builds expression trees; a comparison whose truth value the code
asks for (`if`, `and`, `np.where`) consults a decision oracle, and the function is re-executed once per feasible decision sequence
(path enumeration).  The result is a decision tree of expressions = the function the code computes on one cell, emitted as a Lean
definition generic in the number type.  Trusted: this module (≈150 lines), CPython's evaluation of the code under test, numpy's
object-dtype element-wise dispatch (`+ - * /`, comparisons, `where`, `einsum`, ufunc → method).
"""
import math
import numpy as np


class Oracle:
    """replays a prefix of decisions, then answers True and records the branch point"""
    def __init__(self):
        self.prefix = []
        self.trace = []
        self.assumed = {}
        self.positive = set()

    def decide(self, cond):
        key = repr(cond.t)
        if key in self.assumed: return self.assumed[key]      # a stated precondition of the code under test (e.g. `assert alpha0 > 0`)
        # declared-positive symbols (yields, uncertainties): expressions built from them by + × ÷, positive constants, powers and square
        # roots are positive; such an expression compared with a non-positive constant is decided
        if self.positive:
            def sign(s_):
                """'pos' (> 0), 'nonneg' (≥ 0) or None, by structure"""
                t = s_.t
                if t[0] == 'var': return 'pos' if t[1] in self.positive else None
                if t[0] == 'const': return 'pos' if t[1] > 0 else ('nonneg' if t[1] == 0 else None)
                if t[0] == 'add':
                    a, b = sign(t[1]), sign(t[2])
                    if a is None or b is None: return None
                    return 'pos' if 'pos' in (a, b) else 'nonneg'
                if t[0] == 'mul':
                    a, b = sign(t[1]), sign(t[2])
                    if a is None or b is None: return None
                    return 'pos' if (a, b) == ('pos', 'pos') else 'nonneg'
                if t[0] == 'div':
                    a, b = sign(t[1]), sign(t[2])
                    if b != 'pos' or a is None: return None
                    return a
                if t[0] == 'pow':
                    a = sign(t[1])
                    if a == 'pos': return 'pos'
                    if a == 'nonneg' and t[2].t[0] == 'const' and t[2].t[1] > 0: return 'nonneg'
                    return None
                if t[0] == 'sqrt': return sign(t[1])
                return None
            pos = lambda s_: sign(s_) == 'pos'
            nonpos_c = lambda s_: s_.t[0] == 'const' and s_.t[1] <= 0
            k1, a1, b1 = cond.t
            if k1 in ('lt', 'le') and nonpos_c(a1) and pos(b1): return True
            if k1 in ('lt', 'le') and pos(a1) and nonpos_c(b1): return False
            if k1 == 'eq' and ((pos(a1) and nonpos_c(b1)) or (nonpos_c(a1) and pos(b1))): return False
            if k1 == 'ne' and ((pos(a1) and nonpos_c(b1)) or (nonpos_c(a1) and pos(b1))): return True
        if self.positive:
            isv = lambda s: s.t[0] == 'var' and s.t[1] in self.positive
            nonpos = lambda s: s.t[0] == 'const' and s.t[1] <= 0
            k0, a0, b0 = cond.t
            if k0 in ('lt', 'le') and nonpos(a0) and isv(b0): return True
            if k0 in ('lt', 'le') and isv(a0) and nonpos(b0): return False
            if k0 == 'eq' and ((isv(a0) and nonpos(b0)) or (nonpos(a0) and isv(b0))): return False
            if k0 == 'ne' and ((isv(a0) and nonpos(b0)) or (nonpos(a0) and isv(b0))): return True
        # comparisons with an infinite constant are decided (symbolic values stand for finite reals)
        k, a, b = cond.t
        inf = lambda s, sign: s.t[0] == 'const' and s.t[1] == sign * math.inf
        if k in ('lt', 'le') and (inf(a, -1) or inf(b, +1)) and not (inf(b, -1) or inf(a, +1)): return True
        if k in ('lt', 'le') and (inf(a, +1) or inf(b, -1)): return False
        for c, v in self.trace:                               # the same question within one execution gets the same answer
            if repr(c.t) == key: return v
        i = len(self.trace)
        v = self.prefix[i] if i < len(self.prefix) else True
        self.trace.append((cond, v))
        return v


ORACLE = Oracle()


def lit(x):
    if isinstance(x, Sym): return x
    if isinstance(x, np.ndarray) and x.size == 1: return lit(x.reshape(-1)[0])      # a one-element tensor
    if isinstance(x, (bool, np.bool_)): raise TypeError('boolean used as a number')
    if isinstance(x, (int, float, np.integer, np.floating)): return Sym(('const', float(x)))
    raise TypeError(f'cannot lift {type(x)}')


class Sym:
    __slots__ = ('t',)

    def __init__(self, t): self.t = t
    def __add__(a, b): return Sym(('add', a, lit(b)))
    def __radd__(a, b): return Sym(('add', lit(b), a))
    def __sub__(a, b): return Sym(('sub', a, lit(b)))
    def __rsub__(a, b): return Sym(('sub', lit(b), a))
    def __mul__(a, b): return Sym(('mul', a, lit(b)))
    def __rmul__(a, b): return Sym(('mul', lit(b), a))
    def __truediv__(a, b): return Sym(('div', a, lit(b)))
    def __rtruediv__(a, b): return Sym(('div', lit(b), a))
    def __neg__(a): return Sym(('neg', a))
    def __pos__(a): return a
    def __pow__(a, b): return Sym(('pow', a, lit(b)))
    def __rpow__(a, b): return Sym(('pow', lit(b), a))
    def __abs__(a): return Sym(('abs', a))
    def log(a): return Sym(('log', a))
    def exp(a): return Sym(('exp', a))
    def sqrt(a): return Sym(('sqrt', a))
    @staticmethod
    def app(fname, *args):
        """uninterpreted function application; an argument may be a list of numbers (emitted as a Lean list)"""
        conv = lambda a: Sym(('list', tuple(lit(x) for x in a))) if isinstance(a, (list, tuple)) else lit(a)
        return Sym(('app', fname, tuple(conv(a) for a in args)))
    def __lt__(a, b): return Cond(('lt', a, lit(b)))
    def __gt__(a, b): return Cond(('lt', lit(b), a))
    def __le__(a, b): return Cond(('le', a, lit(b)))
    def __ge__(a, b): return Cond(('le', lit(b), a))
    def __eq__(a, b): return Cond(('eq', a, lit(b)))
    def __ne__(a, b): return Cond(('ne', a, lit(b)))
    def __bool__(a): raise TypeError('truth value of a symbolic number')
    def __float__(a): raise TypeError('float() of a symbolic number')
    __hash__ = object.__hash__      # identity: containers never fall back on the symbolic `==`
    def __repr__(a): return f'Sym{a.t!r}'


class Cond(Sym):
    __slots__ = ()
    def __bool__(a): return ORACLE.decide(a)


class SymMath:
    """stands in for the `math` module inside the code under test"""
    @staticmethod
    def pow(a, b): return lit(a) ** b
    @staticmethod
    def log(a): return lit(a).log()
    @staticmethod
    def exp(a): return lit(a).exp()
    @staticmethod
    def sqrt(a): return lit(a).sqrt()
    @staticmethod
    def fabs(a): return abs(lit(a))


def paths(fn, assume=(), positive=()):
    """`assume`: conditions (Cond objects) taken to hold without branching.  All feasible executions of `fn()` as a decision tree: ('leaf', value) | ('ite', cond, tree_true, tree_false)"""
    ORACLE.assumed = {repr(c.t): True for c in assume}
    ORACLE.positive = set(positive)
    results = []
    stack = [[]]
    while stack:
        prefix = stack.pop()
        ORACLE.prefix, ORACLE.trace = prefix, []
        value = fn()
        trace = list(ORACLE.trace)
        results.append((trace, value))
        for i in range(len(prefix), len(trace)):
            stack.append([v for _, v in trace[:i]] + [False])
        if len(results) > 4096: raise RuntimeError('path explosion')

    def build(items, depth):
        if len(items) == 1 and len(items[0][0]) == depth: return ('leaf', items[0][1])
        cond = items[0][0][depth][0]
        t = [it for it in items if it[0][depth][1]]; f = [it for it in items if not it[0][depth][1]]
        return ('ite', cond, build(t, depth + 1), build(f, depth + 1))
    return build(results, 0)


# ----------------------------------------------------------------------------------------------- Lean emission

def lean_const(v):
    """a float constant as a Lean decimal literal denoting **exactly** the double (the shortest round-trip representation is used only
    when it is exact, e.g. 0.5, 0.9375, 12.0; 0.1 or 2/3 are written out in full)"""
    from decimal import Decimal
    v = float(v)
    if v != v: return 'nanK'       # not-a-number: an opaque value the enclosing definition takes as the parameter `nanK`
    if v in (math.inf, -math.inf): raise ValueError('infinite constant')
    r = repr(abs(v))
    if 'e' in r or 'E' in r or Decimal(r) != Decimal(abs(v)):
        r = format(Decimal(abs(v)), 'f')
    if '.' not in r: r += '.0'
    return f'({r} : K)' if v >= 0 and not (v == 0 and math.copysign(1, v) < 0) else f'(-({r} : K))'


def lean_expr(s, prim='P'):
    t = s.t if isinstance(s, Sym) else lit(s).t
    k = t[0]
    if k == 'var': return t[1]
    if k == 'const': return lean_const(t[1])
    b = {'add': '+', 'sub': '-', 'mul': '*', 'div': '/'}
    if k in b: return f'({lean_expr(t[1], prim)} {b[k]} {lean_expr(t[2], prim)})'
    if k == 'neg': return f'(-{lean_expr(t[1], prim)})'
    if k == 'pow': return f'({prim}.pow {lean_expr(t[1], prim)} {lean_expr(t[2], prim)})'
    if k == 'abs': return f'(absK {lean_expr(t[1], prim)})'
    if k in ('log', 'exp', 'sqrt'): return f'({prim}.{k} {lean_expr(t[1], prim)})'
    if k == 'list': return '[' + ', '.join(lean_expr(a, prim) for a in t[1]) + ']'
    if k == 'app': return '(' + t[1] + ''.join(' ' + lean_expr(a, prim) for a in t[2]) + ')'
    if k == 'lt': return f'{lean_expr(t[1], prim)} < {lean_expr(t[2], prim)}'
    if k == 'le': return f'{lean_expr(t[1], prim)} ≤ {lean_expr(t[2], prim)}'
    if k == 'eq': return f'{lean_expr(t[1], prim)} = {lean_expr(t[2], prim)}'
    if k == 'ne': return f'{lean_expr(t[1], prim)} ≠ {lean_expr(t[2], prim)}'
    raise ValueError(k)


def lean_tree(tree, prim='P', indent=2):
    pad = ' ' * indent
    if tree[0] == 'leaf': return pad + lean_expr(tree[1], prim)
    return (f'{pad}if {lean_expr(tree[1], prim)} then\n{lean_tree(tree[2], prim, indent + 2)}\n{pad}else\n{lean_tree(tree[3], prim, indent + 2)}')


def var(name): return Sym(('var', name))


# ----------------------------------------------------------------------------------------------- symbolic tensor backend

def make_backend(pyhf):
    base = pyhf.tensor.numpy_backend

    class symbolic_backend(base):
        """numpy backend whose tensors may be object arrays of `Sym`"""
        def astensor(self, tensor_in, dtype='float'):
            a = np.asarray(tensor_in)
            if a.dtype == object or any(isinstance(x, Sym) for x in np.ravel(np.asarray(tensor_in, dtype=object))):
                return np.asarray(tensor_in, dtype=object)
            return super().astensor(tensor_in, dtype)

        @staticmethod
        def _lift(a):
            a = np.asarray(a)
            return np.vectorize(lit, otypes=[object])(a) if a.dtype == object else a      # plain numbers inside an object tensor → constants

        def power(self, a, b):
            if getattr(a, 'dtype', None) == object or getattr(b, 'dtype', None) == object:
                return np.power(self._lift(np.asarray(a, dtype=object)), b)
            return super().power(a, b)
        def log(self, a): return np.log(self._lift(a))
        def exp(self, a): return np.exp(self._lift(a))
        def sqrt(self, a): return np.sqrt(self._lift(a))
        def abs(self, a): return np.abs(self._lift(a))
    return symbolic_backend()


# ----------------------------------------------------------------------------------------------- numeric self-check of a translation

def evaluate(x, env, funcs=None):
    """the numeric value of a symbolic expression / decision tree under `env` (variable name → float); `funcs`: uninterpreted function
    name → Python callable.  Used by the generators to check that the translation, evaluated at random points, reproduces what the code
    under translation returns on the same numbers."""
    funcs = funcs or {}
    if isinstance(x, tuple) and x and x[0] in ('leaf', 'ite'):
        if x[0] == 'leaf': return evaluate(x[1], env, funcs)
        return evaluate(x[2] if holds(x[1], env, funcs) else x[3], env, funcs)
    t = lit(x).t
    k = t[0]
    if k == 'var': return env[t[1]]
    if k == 'const': return t[1]
    if k == 'add': return evaluate(t[1], env, funcs) + evaluate(t[2], env, funcs)
    if k == 'sub': return evaluate(t[1], env, funcs) - evaluate(t[2], env, funcs)
    if k == 'mul': return evaluate(t[1], env, funcs) * evaluate(t[2], env, funcs)
    if k == 'div': return evaluate(t[1], env, funcs) / evaluate(t[2], env, funcs)
    if k == 'neg': return -evaluate(t[1], env, funcs)
    if k == 'pow': return math.pow(evaluate(t[1], env, funcs), evaluate(t[2], env, funcs))
    if k == 'abs': return abs(evaluate(t[1], env, funcs))
    if k == 'log': return math.log(evaluate(t[1], env, funcs))
    if k == 'exp': return math.exp(evaluate(t[1], env, funcs))
    if k == 'sqrt': return math.sqrt(evaluate(t[1], env, funcs))
    if k == 'list': return [evaluate(a, env, funcs) for a in t[1]]
    if k == 'app': return funcs[t[1]](*[evaluate(a, env, funcs) for a in t[2]])
    raise ValueError(k)


def holds(c, env, funcs=None):
    k, a, b = c.t
    x, y = evaluate(a, env, funcs), evaluate(b, env, funcs)
    return {'lt': x < y, 'le': x <= y, 'eq': x == y, 'ne': x != y}[k]


SELFCHECKS = {}      # what → (points, largest relative deviation): filled by `selfcheck`, copied into the evidence by harness.main


def selfcheck(what, tree, names, sampler, reference, funcs=None, n=60, rtol=1e-9, seed=12345):
    """evaluate `tree` (a decision tree whose leaves are expressions or lists of expressions) at `n` random points drawn by `sampler(rng)`
    (→ dict name → float) and compare with `reference(env)`; raises if the translation does not reproduce the code"""
    import random
    rng = random.Random(seed)
    worst = 0.0
    for _ in range(n):
        env = sampler(rng)
        t = tree
        while t[0] == 'ite': t = t[2] if holds(t[1], env, funcs) else t[3]
        got = [evaluate(v, env, funcs) for v in t[1]] if isinstance(t[1], (list, tuple)) else [evaluate(t[1], env, funcs)]
        want = [float(v) for v in np.ravel(reference(env))]
        if len(got) != len(want): raise RuntimeError(f'translator self-check {what}: {len(got)} values translated, the code returns {len(want)}')
        for g, w in zip(got, want):
            d = abs(g - w) / max(abs(w), 1e-300) if w != 0 else abs(g)
            worst = max(worst, d)
            if not (d <= rtol or abs(g - w) <= 1e-12):
                raise RuntimeError(f'translator self-check {what}: translation gives {g!r}, the code {w!r} at {env}')
    SELFCHECKS[what] = {'points': n, 'max_rel_deviation': worst}
    return worst


# ----------------------------------------------------------------------------------------------- symbolic atoms (names, opaque values)

class Atom:
    """an opaque value of which only equality with other atoms of the same kind can be asked (a patch name, a value, …).  All atoms of a
    kind hash alike, so a Python dictionary or set holding them decides membership by `==`, which consults the decision oracle; atoms of
    different kinds (and atoms vs anything else) are never equal."""
    __slots__ = ('kind', 'name')

    def __init__(self, kind, name): self.kind, self.name = kind, name
    def __hash__(self): return hash(('Atom', self.kind))
    def __eq__(self, other):
        if not isinstance(other, Atom) or other.kind != self.kind: return False
        if other.name == self.name: return True
        a, b = sorted([self.name, other.name])
        return bool(Cond(('eq', var(a), var(b))))
    def __ne__(self, other): return not self.__eq__(other)
    def __repr__(self): return self.name
    __str__ = __repr__
