"""Regenerates lean/PyhfGen/Events.lean: `events.Callables` — subscription, dispatch, flush — executed with *symbolic liveness*.

Three objects subscribe a bound method and one plain function is subscribed in between (`Callables.append`, as `events.subscribe`
does); the `weakref` module seen by `events.py` is replaced by one whose references to the three objects are alive or dead according
to the decision oracle (one decision per object, constant during the run; references to functions are always alive).  `Callables.__call__`
is then executed: recorded are the callbacks actually invoked, in order, and the registry left behind after the flush.  All eight
liveness patterns are enumerated.  `Properties/C11_Gen.lean` proves both equal to the model's `Events.fire`: dead references are never
called, live ones are called in subscription order, exactly the dead entries disappear.
Usage: python -m harness.gen_events [--check]
"""
import hashlib, inspect, os, sys
from harness import symexec as sx
from harness.symexec import var, Cond, lit

VERIF = os.path.dirname(os.path.dirname(os.path.abspath(__file__)))
OUT = os.path.join(VERIF, 'lean', 'PyhfGen', 'Events.lean')
FUNC_ID = 9

HEADER = '''/-!
# GENERATED — do not edit.  Regenerated on every C11 check by `harness/gen_events.py`: `events.Callables` with three subscribed bound
methods (objects 0, 1, 2) and one plain function (id 9, subscribed second), dispatched once with symbolic liveness `a0 a1 a2` of the
three objects.  Result: (callbacks invoked, in order; registry entries left after the flush).
-/
namespace Pyhf.Gen
'''


def lean_tree(t, indent=2):
    pad = ' ' * indent
    if t[0] == 'leaf': return pad + t[1]
    name = t[1].t[1].t[1]
    return f'{pad}if {name} = true then\n{lean_tree(t[2], indent + 2)}\n{pad}else\n{lean_tree(t[3], indent + 2)}'


def generate():
    import pyhf.events as ev
    saved = ev.weakref

    class Owner:
        def __init__(self, i, log): self.i, self.log = i, log
        def cb(self): self.log.append(self.i)

    class FakeRef:
        def __init__(self, target): self.target = target
        def __call__(self):
            if isinstance(self.target, Owner):
                return self.target if bool(Cond(('eq', var(f'a{self.target.i}'), lit(1.0)))) else None
            return self.target

    class FakeWeakref:
        ref = FakeRef

    def run():
        log = []
        owners = [Owner(i, log) for i in range(3)]
        c = ev.Callables()
        c.append(owners[0].cb)
        c.append(lambda: log.append(FUNC_ID))
        c.append(owners[1].cb)
        c.append(owners[2].cb)
        c()
        left = [(arg.target.i if arg is not None else FUNC_ID) for func, arg in c._callbacks]
        return f'([{", ".join(map(str, log))}], [{", ".join(map(str, left))}])'
    try:
        ev.weakref = FakeWeakref
        tree = sx.paths(run)
    finally:
        ev.weakref = saved
    dg = hashlib.sha256(inspect.getsource(ev.Callables).encode()).hexdigest()[:16]
    out = [HEADER, f'/-- `events.Callables` (source sha256 {dg}…): `append` ×4, then `__call__()` -/',
           f'def callables_dispatch (a0 a1 a2 : Bool) : List Nat × List Nat :=\n{lean_tree(tree)}\n', 'end Pyhf.Gen\n']
    return '\n'.join(out)


def regenerate(check_only=False):
    text = generate()
    old = open(OUT).read() if os.path.exists(OUT) else None
    if text == old: return False, text
    if check_only: return True, text
    tmp = OUT + f'.{os.getpid()}.tmp'
    open(tmp, 'w').write(text); os.replace(tmp, OUT)
    return True, text


if __name__ == '__main__':
    changed, _ = regenerate(check_only='--check' in sys.argv)
    print('changed' if changed else 'unchanged', OUT)
    sys.exit(1 if (changed and '--check' in sys.argv) else 0)
