"""Regenerates lean/PyhfGen/PatchSet.lean: `PatchSet.__init__` and `__getitem__` executed on *symbolic names and values*.

A patch set with three patches whose names `n0 n1 n2` and (one-component) values `v0 v1 v2` are opaque atoms is constructed by the real
`pyhf.PatchSet`: every dictionary membership test the constructor makes consults the decision oracle, so all feasible combinations of
equalities between the names and between the values are enumerated.  Per combination the translation records whether the constructor
accepts or which duplicate it reports, and — when it accepts — which patch each name and each value tuple looks up.
`Properties/C17_Gen.lean` proves the outcome equal to the model (`PatchSet.build`) for all strings and values, and the lookups
correct.  JSON-schema validation is switched off (atoms are not JSON strings).  Usage: python -m harness.gen_patchset [--check]
"""
import hashlib, inspect, os, sys
from harness import symexec as sx
from harness.symexec import Atom

VERIF = os.path.dirname(os.path.dirname(os.path.abspath(__file__)))
OUT = os.path.join(VERIF, 'lean', 'PyhfGen', 'PatchSet.lean')
N = 3

HEADER = '''/-!
# GENERATED — do not edit.  Regenerated on every C17 check by `harness/gen_patchset.py`: `pyhf.PatchSet(spec)` constructed on three patches
with symbolic names `n0 n1 n2` and symbolic one-component value tuples `(v0,) (v1,) (v2,)`; every feasible combination of equalities
enumerated.  Outcome: `"ok"`, or the duplicate the constructor reports; for accepted sets the patch index each key looks up.
-/
namespace Pyhf.Gen
section
variable {V : Type} [DecidableEq V]
'''


def lean_tree(t, indent=2):
    pad = ' ' * indent
    if t[0] == 'leaf': return pad + t[1]
    k, a, b = t[1].t
    return f'{pad}if {a.t[1]} = {b.t[1]} then\n{lean_tree(t[2], indent + 2)}\n{pad}else\n{lean_tree(t[3], indent + 2)}'


def generate():
    import pyhf, pyhf.patchset as psmod
    saved = psmod.schema.validate
    out = [HEADER]
    names = [Atom('name', f'n{i}') for i in range(N)]
    vals = [Atom('value', f'v{i}') for i in range(N)]

    def spec():
        return {'metadata': {'references': {}, 'description': 'd', 'digests': {}, 'labels': ['x']},
                'patches': [{'metadata': {'name': names[i], 'values': [vals[i]]}, 'patch': []} for i in range(N)], 'version': '1.0.0'}

    def run():
        try:
            ps = pyhf.PatchSet(spec())
        except pyhf.exceptions.InvalidPatchSet as e:
            msg = str(e)
            kind = 'dupName' if 'by name' in msg else ('dupValues' if 'by values' in msg else 'labelCount')
            return '"' + kind + '"'
        # accepted: which patch does every key reach?  (patches are identified by position)
        pos = {id(p): i for i, p in enumerate(ps.patches)}
        found = [pos[id(ps[names[i]])] for i in range(N)] + [pos[id(ps[(vals[i],)])] for i in range(N)] + [pos[id(ps[[vals[i]]])] for i in range(N)]
        return '"ok:' + ','.join(map(str, found)) + '"'
    try:
        psmod.schema.validate = lambda *a, **k: None
        tree = sx.paths(run)
    finally:
        psmod.schema.validate = saved
    dg = hashlib.sha256(inspect.getsource(pyhf.PatchSet.__init__).encode() + inspect.getsource(pyhf.PatchSet.__getitem__).encode()).hexdigest()[:16]
    out.append(f'/-- `PatchSet.__init__` + `__getitem__` (source sha256 {dg}…): `"dupName"` / `"dupValues"` = the `InvalidPatchSet` raised; `"ok:i0,i1,i2,j0,j1,j2,k0,k1,k2"` =\naccepted, with the position of the patch found under name `n_m` (`i_m`), under the tuple `(v_m,)` (`j_m`) and under the list `[v_m]` (`k_m`) -/')
    out.append(f'def patchset_ctor3 (n0 n1 n2 : String) (v0 v1 v2 : V) : String :=\n{lean_tree(tree)}\n')
    # ---- `verify` / `apply` with two listed algorithms: recorded digests r0 (sha256), r1 (md5) and computed digests c0, c1 are atoms, so
    # each comparison `digest_calc == digest` consults the oracle; `utils.digest` is replaced by the uninterpreted computed digest
    rec = {'sha256': Atom('digest', 'r0'), 'md5': Atom('digest', 'r1')}
    calc = {'sha256': Atom('digest', 'c0'), 'md5': Atom('digest', 'c1')}
    saved_digest = psmod.utils.digest; saved_ws = psmod.Workspace

    def vspec():
        return {'metadata': {'references': {}, 'description': 'd', 'digests': dict(rec), 'labels': ['x']},
                'patches': [{'metadata': {'name': 'p', 'values': [1]}, 'patch': [{'op': 'add', 'path': '/x', 'value': 1}]}], 'version': '1.0.0'}

    def vrun():
        ps = pyhf.PatchSet(vspec())
        res = []
        for what in ('verify', 'apply'):
            ws = {'y': 2}
            try:
                o = ps.verify(ws) if what == 'verify' else ps.apply(ws, 'p')
                if what == 'apply' and not (dict(o) == {'y': 2, 'x': 1} and ws == {'y': 2}): res.append('wrong-result')
                else: res.append('ok')
            except pyhf.exceptions.PatchSetVerificationError:
                res.append('verification')
        return '"' + ','.join(res) + '"'
    try:
        psmod.schema.validate = lambda *a, **k: None
        psmod.utils.digest = lambda spec_, algorithm='sha256': calc[algorithm]
        saved_ws = psmod.Workspace; psmod.Workspace = lambda spec_: spec_          # the toy document is no workspace: wrapping it is not the subject
        vtree = sx.paths(vrun)
    finally:
        psmod.schema.validate = saved; psmod.utils.digest = saved_digest; psmod.Workspace = saved_ws
    dg2 = hashlib.sha256(inspect.getsource(pyhf.PatchSet.verify).encode() + inspect.getsource(pyhf.PatchSet.apply).encode()).hexdigest()[:16]
    out.append(f'/-- `PatchSet.verify` + `PatchSet.apply` (source sha256 {dg2}…) on a patch set listing two algorithms, recorded digests `r0` (sha256), `r1` (md5), digests\nof the given workspace `c0`, `c1`: outcome of `verify`, then of `apply` (`"ok"` = returned — for `apply`: the JSON patch applied to a copy, the\nworkspace itself untouched; `"verification"` = `PatchSetVerificationError`) -/')
    out.append(f'def patchset_verify2 (c0 c1 r0 r1 : String) : String :=\n{lean_tree(vtree)}\n')
    out.append('end\nend Pyhf.Gen\n')
    return '\n'.join(out)


def regenerate(check_only=False):
    text = generate()
    old = open(OUT).read() if os.path.exists(OUT) else None
    if text == old: return False, text
    if check_only: return True, text
    tmp = OUT + f'.{os.getpid()}.tmp'
    open(tmp, 'w').write(text); os.replace(tmp, OUT)
    return True, text


if __name__ == '__main__':
    changed, _ = regenerate(check_only='--check' in sys.argv)
    print('changed' if changed else 'unchanged', OUT)
    sys.exit(1 if (changed and '--check' in sys.argv) else 0)
