"""Regenerates lean/PyhfGen/Infer.lean from pyhf's inference sources by symbolic execution (harness/symexec.py).

* the five test statistics of `pyhf.infer.test_statistics` (qmu, qmu_tilde, tmu, tmu_tilde, q0) with the two fits replaced by
  symbolic results: `fit` → (μ̂, v_free), `fixed_poi_fit(μ)` → (·, fixedVal μ) with `fixedVal` an uninterpreted function, so the
  value of μ the code passes to the conditional fit is part of the translation;
* `AsymptoticCalculator.teststatistic` (for 'q', 'qtilde', 'q0') with the statistic evaluations replaced by symbolic q and q_A,
  `AsymptoticCalculator.distributions` (the two shifts), `AsymptoticTestStatDistribution.pvalue / expected_value` for the normal base
  distribution, `AsymptoticCalculator.pvalues` (CLs+b, CLb, CLs) with Φ uninterpreted.

`PyhfProofs/Properties/C06_Gen.lean` / `C07_Gen.lean` prove the generated functions equal to the hand-written model the C06 / C07
theorems are about.  Usage: python -m harness.gen_infer [--check]
"""
import hashlib, inspect, os, sys
import numpy as np
from harness import symexec as sx
from harness.symexec import var, Sym

VERIF = os.path.dirname(os.path.dirname(os.path.abspath(__file__)))
OUT = os.path.join(VERIF, 'lean', 'PyhfGen', 'Infer.lean')

HEADER = '''import PyhfModel.Basic
/-!
# GENERATED — do not edit.  Regenerated on every C06 / C07 check by `harness/gen_infer.py` from `src/pyhf/infer/test_statistics.py`
and `src/pyhf/infer/calculators.py` by symbolic execution of the running code (fits, statistic evaluations and Φ symbolic).
-/
namespace Pyhf.Gen
section
variable {K : Type} [Add K] [Sub K] [Mul K] [Div K] [Neg K] [OfNat K 0] [OfNat K 1]
  [OfScientific K] [LT K] [LE K] [DecidableLT K] [DecidableLE K] [DecidableEq K]
'''


def merge(t):
    """a decision tree with branches that do not change the result merged (e.g. a comparison that only triggers a warning)"""
    if t[0] == 'leaf': return t
    l, r = merge(t[2]), merge(t[3])
    if repr_tree(l) == repr_tree(r): return l
    return ('ite', t[1], l, r)


def repr_tree(t):
    if t[0] == 'leaf': return repr(t[1].t if isinstance(t[1], Sym) else t[1])
    return f'ite({t[1].t!r},{repr_tree(t[2])},{repr_tree(t[3])})'


def digest(obj):
    return hashlib.sha256(inspect.getsource(obj).encode()).hexdigest()[:16]


def generate():
    import pyhf, pyhf.infer, logging
    logging.getLogger('pyhf').setLevel(logging.CRITICAL)
    tsm = sys.modules['pyhf.infer.test_statistics']; calcmod = sys.modules['pyhf.infer.calculators']; utilsmod = sys.modules['pyhf.infer.utils']
    mgr = sys.modules['pyhf.tensor.manager']
    sb = sx.make_backend(pyhf)
    sb.normal_cdf = lambda x, mu=0.0, sigma=1.0: np.asarray(Sym.app('Phi', (sx.lit(x) - mu) / sigma), dtype=object)   # Φ stays uninterpreted
    saved = mgr.this.state['current']
    out = [HEADER]

    class Cfg: poi_index = 0
    class Pdf: config = Cfg()

    # both fits are uninterpreted functions *of the POI bounds they are handed* (and the conditional one of the value it is asked to hold):
    # which bounds and which μ the code passes on is part of the translation
    def fit(data, pdf, init, bounds, fixed, return_fitted_val=False, **kw):
        lo, hi = bounds[pdf.config.poi_index]
        return np.asarray([Sym.app('muhatOf', lo, hi)], dtype=object), Sym.app('vfreeOf', lo, hi)

    def fixed_poi_fit(mu, data, pdf, init, bounds, fixed, return_fitted_val=False, **kw):
        lo, hi = bounds[pdf.config.poi_index]
        return np.asarray([Sym.app('fixedPar', mu)], dtype=object), Sym.app('fixedValOf', lo, hi, mu)
    of, ofx = tsm.fit, tsm.fixed_poi_fit
    oget, oasimov = utilsmod.get_test_stat, calcmod.generate_asimov_data
    try:
        mgr.this.state['current'] = (sb, saved[1])
        tsm.fit, tsm.fixed_poi_fit = fit, fixed_poi_fit
        # ---- test statistics
        for name in ['qmu', 'qmu_tilde', 'tmu', 'tmu_tilde', 'q0']:
            f = getattr(tsm, name)
            tree = sx.paths(lambda: f(var('mu'), None, Pdf(), [1.0], [(var('blo'), var('bhi'))], [False]))
            out.append(f'/-- `test_statistics.py::{name}` (source sha256 {digest(f)}…): value, called with POI bounds `(blo, bhi)`; `fit` handed the POI\nbounds `(l, h)` returns `(muhatOf l h, vfreeOf l h)`, `fixed_poi_fit μ` handed them returns the objective value `fixedValOf l h μ` -/')
            out.append(f'def {name} (fixedValOf : K → K → K → K) (vfreeOf muhatOf : K → K → K) (blo bhi mu : K) : K :=\n{sx.lean_tree(merge(tree))}\n')
        # ---- asymptotic calculator
        for ts in ['q', 'qtilde', 'q0']:
            calls = []

            def fake_get(name):
                def f(poi, data, pdf, init, bounds, fixed, return_fitted_pars=False, **kw):
                    calls.append(1)
                    v = var('q') if len(calls) == 1 else var('qA')       # first call: observed data, second: Asimov data
                    return (np.asarray(v, dtype=object), (None, None)) if return_fitted_pars else np.asarray(v, dtype=object)
                return f

            def run_ts():
                calls.clear()
                utilsmod.get_test_stat = fake_get
                calcmod.generate_asimov_data = lambda *a, **k: ([0.0], None)
                calc = calcmod.AsymptoticCalculator([1.0], None, [1.0], [(0.0, 10.0)], [False], test_stat=ts, calc_base_dist='normal')
                return calc.teststatistic(1.0)
            tree = sx.paths(run_ts)
            out.append(f'/-- `calculators.py::AsymptoticCalculator.teststatistic` for test_stat="{ts}" (source sha256 {digest(calcmod.AsymptoticCalculator.teststatistic)}…),\nwith the observed statistic `q` and its Asimov value `qA` symbolic -/')
            out.append(f'def asym_teststat_{ts} (P : Prim K) (q qA : K) : K :=\n{sx.lean_tree(tree)}\n')
        # distributions: shifts of the two base distributions given sqrt(q_A)
        def run_shifts(which):
            calc = calcmod.AsymptoticCalculator([1.0], None, [1.0], [(0.0, 10.0)], [False], test_stat='qtilde', calc_base_dist='normal')
            calc.sqrtqmuA_v = np.asarray(var('sA'), dtype=object)
            sbd, bd = calc.distributions(1.0)
            return (sbd, bd)[which].shift
        for which, nm in ((0, 'sb'), (1, 'b')):
            out.append(f'/-- shift of the {"signal-plus-background" if which == 0 else "background-only"} distribution (`AsymptoticCalculator.distributions`, source sha256 {digest(calcmod.AsymptoticCalculator.distributions)}…) -/')
            out.append(f'def asym_shift_{nm} (sA : K) : K :=\n{sx.lean_tree(sx.paths(lambda: run_shifts(which)))}\n')
        D = calcmod.AsymptoticTestStatDistribution
        out.append(f'/-- `AsymptoticTestStatDistribution.pvalue` (normal base distribution; source sha256 {digest(D.pvalue)}…) -/')
        out.append(f'def asym_pvalue (Phi : K → K) (shift value : K) : K :=\n{sx.lean_tree(sx.paths(lambda: D(var("shift")).pvalue(var("value"))))}\n')
        out.append(f'/-- `AsymptoticTestStatDistribution.expected_value` (normal base distribution; source sha256 {digest(D.expected_value)}…) -/')
        out.append(f'def asym_expected_value (shift nsigma : K) : K :=\n{sx.lean_tree(sx.paths(lambda: D(var("shift")).expected_value(var("nsigma"))))}\n')

        def run_pvalues(i):
            calc = calcmod.AsymptoticCalculator([1.0], None, [1.0], [(0.0, 10.0)], [False], test_stat='qtilde', calc_base_dist='normal')
            return calc.pvalues(var('t'), D(var('shiftSB')), D(var('shiftB')))[i]
        for i, nm in enumerate(['clsb', 'clb', 'cls']):
            out.append(f'/-- component {i} of `AsymptoticCalculator.pvalues` (source sha256 {digest(calcmod.AsymptoticCalculator.pvalues)}…) -/')
            out.append(f'def asym_{nm} (Phi : K → K) (t shiftSB shiftB : K) : K :=\n{sx.lean_tree(sx.paths(lambda: run_pvalues(i)))}\n')
        # ---- expected band: `expected_pvalues` through the real `distributions` (normal and clipped-normal base distribution, √q_A symbolic)
        for base in ('normal', 'clipped_normal'):
            def run_band():
                calc = calcmod.AsymptoticCalculator([1.0], None, [1.0], [(0.0, 10.0)], [False], test_stat='qtilde', calc_base_dist=base)
                calc.sqrtqmuA_v = np.asarray(var('sA'), dtype=object)
                sbd, bd = calc.distributions(1.0)
                clsb, clb, cls = calc.expected_pvalues(sbd, bd)
                return [sx.lit(x) for x in clsb] + [sx.lit(x) for x in clb] + [sx.lit(x) for x in cls]
            from harness.gen_model import project
            btree = sx.paths(run_band, positive=['sA'] if base == 'clipped_normal' else ())
            tag = 'normal' if base == 'normal' else 'clipped'
            for j, nm in enumerate(['clsb', 'clb', 'cls']):
                for k in range(5):
                    out.append(f'/-- entry {k} (n_sigma = {[2, 1, 0, -1, -2][k]}) of the expected {nm} band, `AsymptoticCalculator.expected_pvalues` (source sha256 {digest(calcmod.AsymptoticCalculator.expected_pvalues)}…), base distribution {base!r}' + (', √q_A > 0' if base != 'normal' else '') + ' -/')
                    out.append(f'def asym_band_{tag}_{nm}{k} (Phi : K → K) (nanK sA : K) : K :=\n{sx.lean_tree(project(btree, j * 5 + k))}\n')
        # ---- hypotest: which quantities are returned, in which order, for every flag combination (32-row table)
        infmod = sys.modules['pyhf.infer']
        ocreate, ocheck = infmod.utils.create_calculator, infmod._check_hypotest_prerequisites

        class FakeCalc:
            def teststatistic(self, poi): return var('t')
            def distributions(self, poi): return ('sb_dist', 'b_dist')
            def pvalues(self, t, a, b): return var('CLsb'), var('CLb'), var('CLs')
            def expected_pvalues(self, a, b):
                return ([var(f'CLsb_exp{i}') for i in range(5)], [var(f'CLb_exp{i}') for i in range(5)], [var(f'CLs_exp{i}') for i in range(5)])

        class FakeCfg:
            poi_index = 0
            def suggested_init(self): return [1.0]
            def suggested_bounds(self): return [(0.0, 10.0)]
            def suggested_fixed(self): return [False]

        class FakePdf: config = FakeCfg()

        def names(x):
            if isinstance(x, FakeCalc): return ['calculator']
            if isinstance(x, (list, tuple)): return [n for y in x for n in names(y)]
            t = sx.lit(x).t
            assert t[0] == 'var', t
            return [t[1]]
        rows = []
        try:
            infmod.utils.create_calculator = lambda *a, **k: FakeCalc()
            infmod._check_hypotest_prerequisites = lambda *a, **k: None
            for q0 in (False, True):
                for tp in (False, True):
                    for ex in (False, True):
                        for es in (False, True):
                            for ca in (False, True):
                                r = infmod.hypotest(1.0, [1.0], FakePdf(), return_tail_probs=tp, return_expected=ex, return_expected_set=es,
                                                    return_calculator=ca, test_stat='q0' if q0 else 'qtilde')
                                bare = not isinstance(r, tuple)
                                items = [names(r)] if bare else [names(x) for x in r]
                                rows.append((tp, ex, es, ca, q0, bare, items))
        finally:
            infmod.utils.create_calculator, infmod._check_hypotest_prerequisites = ocreate, ocheck
        # ---- `_check_hypotest_prerequisites` (+ `utils.all_pois_floating`) over every POI position / fixed-flag pattern of a three-parameter
        # model, and `hypotest` itself: the check runs before anything else and with the caller's flags (defaults: the model's suggestion)
        prereq_rows = []
        for poi in (None, 0, 1, 2):
            for bits in range(8):
                fixed = [bool(bits >> k & 1) for k in range(3)]
                class PCfg:
                    poi_index = poi
                    def suggested_init(self): return [1.0, 1.0, 1.0]
                    def suggested_bounds(self): return [(0.0, 10.0)] * 3
                    def suggested_fixed(self): return list(fixed)
                class PPdf: config = PCfg()
                outs = []
                class QCfg(PCfg):
                    def suggested_fixed(self): return [False, False, False]
                class QPdf: config = QCfg()
                class RCfg(PCfg):                                      # a model suggesting the opposite of what the caller passes
                    def suggested_fixed(self): return [not f for f in fixed]
                class RPdf: config = RCfg()
                # the check called directly / `hypotest` with the flags coming from the model's suggestion / `hypotest` with the flags passed
                # by the caller (the model suggesting none)
                for mode in ('direct', 'suggested', 'caller', 'override'):
                    try:
                        if mode == 'direct': ocheck(PPdf(), [1.0], [1.0] * 3, [(0.0, 10.0)] * 3, fixed)
                        else:
                            infmod.utils.create_calculator = lambda *a, **k: FakeCalc()
                            try:
                                if mode == 'suggested': infmod.hypotest(1.0, [1.0], PPdf())
                                elif mode == 'caller': infmod.hypotest(1.0, [1.0], QPdf(), fixed_params=fixed)
                                else:
                                    # the caller's starting point, bounds and flags are used as given — also where they are all zero / all
                                    # False — and reach the calculator verbatim
                                    seen_args = []
                                    infmod.utils.create_calculator = lambda *a, **k: (seen_args.append(a), FakeCalc())[1]
                                    c_init, c_bounds = [0.0, 0.0, 0.0], [(0.0, 5.0)] * 3
                                    try: infmod.hypotest(1.0, [1.0], RPdf(), init_pars=c_init, par_bounds=c_bounds, fixed_params=fixed)
                                    finally:
                                        if seen_args and (list(seen_args[0][3]) != c_init or list(seen_args[0][4]) != c_bounds or list(seen_args[0][5]) != fixed):
                                            raise RuntimeError(f'hypotest does not hand the caller\'s init_pars / par_bounds / fixed_params to the calculator as given: {seen_args[0][3:6]} for {c_init, c_bounds, fixed}')
                            finally: infmod.utils.create_calculator = ocreate
                        outs.append('ok')
                    except Exception as e:  # noqa
                        outs.append(type(e).__name__)
                if not (outs[0] == outs[1] == outs[2] == outs[3]):
                    raise RuntimeError(f'hypotest prerequisites differ between the direct check, suggested flags and caller flags: poi={poi} fixed={fixed} -> {outs}')
                prereq_rows.append((poi, fixed, outs[0]))
        B = lambda b: 'true' if b else 'false'
        L = lambda it: '[' + ', '.join('[' + ', '.join(f'"{n}"' for n in i) + ']' for i in it) + ']'
        out.append(f'/-- `infer/__init__.py::hypotest` (source sha256 {digest(infmod.hypotest)}…): the returned pieces, each as the list of the calculator quantities it\nholds, for every combination of the four `return_*` flags and q0 / not q0 (obtained by running `hypotest` with a symbolic calculator) -/')
        out.append('def hypotest_returns (tailProbs expected expectedSet calculator isQ0 : Bool) : List (List String) :=\n  match tailProbs, expected, expectedSet, calculator, isQ0 with\n'
                   + '\n'.join(f'  | {B(tp)}, {B(ex)}, {B(es)}, {B(ca)}, {B(q0)} => {L(items)}' for tp, ex, es, ca, q0, bare, items in rows) + '\n')
        out.append(f'/-- `_check_hypotest_prerequisites` (source sha256 {digest(ocheck)}…) for a three-parameter model: the exception class raised (`"ok"` = none), the same\nwhether the fixed flags are passed by the caller or come from the model\'s suggestion inside `hypotest` -/')
        out.append('def hypotest_prereq (poi : Option Nat) (f0 f1 f2 : Bool) : String :=\n  match poi, f0, f1, f2 with\n'
                   + '\n'.join(f'  | {"none" if poi is None else "some " + str(poi)}, {B(fx[0])}, {B(fx[1])}, {B(fx[2])} => "{o}"' for poi, fx, o in prereq_rows) + '\n  | _, _, _, _ => "out-of-range"\n')
        out.append('/-- is the result a bare value (not a tuple)? -/')
        out.append('def hypotest_bare (tailProbs expected expectedSet calculator isQ0 : Bool) : Bool :=\n  match tailProbs, expected, expectedSet, calculator, isQ0 with\n'
                   + '\n'.join(f'  | {B(tp)}, {B(ex)}, {B(es)}, {B(ca)}, {B(q0)} => {B(bare)}' for tp, ex, es, ca, q0, bare, items in rows) + '\n')
    finally:
        tsm.fit, tsm.fixed_poi_fit = of, ofx
        utilsmod.get_test_stat, calcmod.generate_asimov_data = oget, oasimov
        mgr.this.state['current'] = saved
    out.append('end\nend Pyhf.Gen\n')
    return '\n'.join(out)


def regenerate(check_only=False):
    text = generate()
    old = open(OUT).read() if os.path.exists(OUT) else None
    if text == old: return False, text
    if check_only: return True, text
    os.makedirs(os.path.dirname(OUT), exist_ok=True)
    tmp = OUT + f'.{os.getpid()}.tmp'
    open(tmp, 'w').write(text); os.replace(tmp, OUT)
    return True, text


if __name__ == '__main__':
    changed, _ = regenerate(check_only='--check' in sys.argv)
    print('changed' if changed else 'unchanged', OUT)
    sys.exit(1 if (changed and '--check' in sys.argv) else 0)
