"""Regenerates lean/PyhfGen/XmlNum.lean: the *numeric* content of the XML + ROOT round trip, executed symbolically.

`writexml.build_sample` (→ `build_modifier`, `_export_root_histogram`) is run on one sample of two bins carrying every data-bearing
modifier type — all yields, variations and uncertainties symbolic — with the ROOT file replaced by a dictionary and numbers written
into XML attributes as tokens; the resulting `<Sample>` element is handed to `readxml.process_sample`, whose histogram reads come from
that dictionary and whose `float(...)` of an attribute resolves the token.  Likewise `writexml.build_measurement` → `<Measurement>` →
`readxml.process_measurements` for the luminosity settings.  What comes back (nominal yields, histosys templates, normsys factors,
absolute bin-wise uncertainties after the relative-form detour, luminosity centre / width / bounds / initial value) is emitted as Lean
definitions in the original symbols.  `Properties/C18_Gen.lean` proves each equal to what went in (bin-wise uncertainties: for a
non-vanishing nominal yield; a vanishing one gives 0 — the documented loss) and the luminosity width `σ/c·c = σ`.
The array namespace of `writexml` is replaced by a small symbolic one (`divide(..., out=, where=)` element by element, `array(...).T`,
`zeros_like`, `asarray`, `arange`); `uproot` is not involved.  Usage: python -m harness.gen_xml [--check]
"""
import builtins, hashlib, inspect, os, sys
import xml.etree.ElementTree as ET
import numpy as real_np
from harness import symexec as sx
from harness.symexec import var, Sym
from harness.gen_model import project

VERIF = os.path.dirname(os.path.dirname(os.path.abspath(__file__)))
OUT = os.path.join(VERIF, 'lean', 'PyhfGen', 'XmlNum.lean')
NB = 2

HEADER = '''import PyhfModel.Basic
/-!
# GENERATED — do not edit.  Regenerated on every C18 check by `harness/gen_xml.py`: `writexml.build_sample` / `build_measurement` and
`readxml.process_sample` / `process_measurements` executed back to back on symbolic numbers (ROOT file = a dictionary, numbers in XML
attributes = tokens).  `n<b>` nominal yields, `lo<b>`/`hi<b>` histosys templates, `nlo`/`nhi` normsys factors, `es<b>` staterror and
`us<b>` shapesys absolute uncertainties; `lc`/`ls` luminosity centre and width.
-/
namespace Pyhf.Gen
section
variable {K : Type} [Add K] [Sub K] [Mul K] [Div K] [Neg K] [OfNat K 0] [OfNat K 1]
  [OfScientific K] [LT K] [LE K] [DecidableLT K] [DecidableLE K] [DecidableEq K]
'''

TOKENS = {}


def tok(x):
    t = f'⟦{len(TOKENS)}⟧'
    TOKENS[t] = x
    return t


class SymNp:
    """stands in for `np` inside writexml.py"""
    @staticmethod
    def asarray(x, *a, **k): return x if isinstance(x, Sym) else real_np.asarray(x, dtype=object)
    @staticmethod
    def arange(n): return real_np.arange(n)
    @staticmethod
    def zeros_like(x): return 0.0 if isinstance(x, Sym) else real_np.zeros(real_np.shape(real_np.asarray(x, dtype=object)), dtype=object)
    @staticmethod
    def array(x, dtype=None): return real_np.array(x, dtype=object)
    @staticmethod
    def divide(a, b, out=None, where=True, dtype=None):
        """numpy's semantics: the quotient where `where` holds, the entry of `out` elsewhere"""
        if isinstance(a, Sym) or isinstance(b, Sym):
            return (sx.lit(a) / sx.lit(b)) if bool(where) else out
        A = real_np.asarray(a, dtype=object); B = real_np.asarray(b, dtype=object); W = real_np.broadcast_to(real_np.asarray(where, dtype=object), A.shape)
        O = real_np.asarray(out, dtype=object)
        res = real_np.empty(A.shape, dtype=object)
        for i in real_np.ndindex(A.shape): res[i] = (sx.lit(A[i]) / sx.lit(B[i])) if bool(W[i]) else O[i]
        return res


def generate():
    import pyhf, pyhf.writexml as wx, pyhf.readxml as rx
    TOKENS.clear()
    saved = dict(np=wx.np, uproot=wx.uproot, rootfile=wx._ROOT_DATA_FILE, imp=rx.import_root_histogram, sym_str=Sym.__str__)
    had_float = hasattr(rx, 'float')
    out = [HEADER]
    n = [var(f'n{b}') for b in range(NB)]
    sample = {'name': 'bkg', 'data': n, 'modifiers': [
        {'name': 'sysH', 'type': 'histosys', 'data': {'lo_data': [var(f'lo{b}') for b in range(NB)], 'hi_data': [var(f'hi{b}') for b in range(NB)]}},
        {'name': 'sysN', 'type': 'normsys', 'data': {'lo': var('nlo'), 'hi': var('nhi')}},
        {'name': 'staterror_SR', 'type': 'staterror', 'data': [var(f'es{b}') for b in range(NB)]},
        {'name': 'uncorr', 'type': 'shapesys', 'data': [var(f'us{b}') for b in range(NB)]},
        {'name': 'lumi', 'type': 'lumi', 'data': None}]}
    meas = {'name': 'meas', 'config': {'poi': 'mu', 'parameters': [{'name': 'lumi', 'auxdata': [var('lc')], 'sigmas': [var('ls')], 'inits': [var('lc')], 'bounds': [[0.0, 10.0]]}]}}
    spec = {'channels': [{'name': 'SR', 'samples': [sample]}], 'measurements': [meas]}

    class FakeFile(dict):
        file_path = 'data.root'

    class FakeUproot:
        @staticmethod
        def to_writable(t): return t

    def run():
        store = FakeFile()
        wx._ROOT_DATA_FILE = store
        elem = wx.build_sample(spec, sample, 'SR')
        rx.import_root_histogram = lambda resolver, rootfile, path, name, *a, **k: (list(store[name][0]), [0.0] * len(store[name][0]))
        back = rx.process_sample(elem, None, 'data.root', '', 'SR')
        mods = {m['type']: m for m in back['modifiers']}
        vals = list(back['data']) + list(mods['histosys']['data']['lo_data']) + list(mods['histosys']['data']['hi_data']) \
            + [mods['normsys']['data']['lo'], mods['normsys']['data']['hi']] + list(mods['staterror']['data']) + list(mods['shapesys']['data'])
        top = ET.Element('Combination'); top.append(wx.build_measurement(meas, {'lumi': 'lumi'}))
        pm = rx.process_measurements(top)[0]['config']['parameters'][0]
        vals += [pm['auxdata'][0], pm['sigmas'][0], pm['inits'][0], pm['bounds'][0][0], pm['bounds'][0][1]]
        info['mods'] = [(m['name'], m['type']) for m in back['modifiers']]
        return [sx.lit(v) for v in vals]
    info = {}
    try:
        wx.np = SymNp; wx.uproot = FakeUproot
        Sym.__str__ = lambda self: tok(self)
        rx.float = lambda s: TOKENS[s] if isinstance(s, str) and s in TOKENS else builtins.float(s)
        tree = sx.paths(run)
    finally:
        wx.np = saved['np']; wx.uproot = saved['uproot']; wx._ROOT_DATA_FILE = saved['rootfile']; rx.import_root_histogram = saved['imp']
        Sym.__str__ = saved['sym_str']
        if not had_float: del rx.float
    names = [f'nominal{b}' for b in range(NB)] + [f'histo_lo{b}' for b in range(NB)] + [f'histo_hi{b}' for b in range(NB)] + ['norm_lo', 'norm_hi'] \
        + [f'staterror{b}' for b in range(NB)] + [f'shapesys{b}' for b in range(NB)] + ['lumi_auxdata', 'lumi_sigma', 'lumi_init', 'lumi_bound_lo', 'lumi_bound_hi']
    syms = [f'n{b}' for b in range(NB)] + [f'lo{b}' for b in range(NB)] + [f'hi{b}' for b in range(NB)] + ['nlo', 'nhi'] + [f'es{b}' for b in range(NB)] + [f'us{b}' for b in range(NB)] + ['lc', 'ls']
    dg = hashlib.sha256((inspect.getsource(wx.build_modifier) + inspect.getsource(wx.build_sample) + inspect.getsource(wx.build_measurement)
                         + inspect.getsource(rx.process_sample) + inspect.getsource(rx.process_measurements)).encode()).hexdigest()[:16]
    out.append(f'/-! writexml.build_modifier / build_sample / build_measurement + readxml.process_sample / process_measurements sha256 {dg}…;\nmodifiers of the re-imported sample: {info["mods"]} -/\n')
    sig = '(' + ' '.join(syms) + ' : K)'
    for k, nm in enumerate(names):
        out.append(f'/-- `{nm}` after export and re-import -/')
        out.append(f'def xml_rt_{nm} {sig} : K :=\n{sx.lean_tree(project(tree, k))}\n')
    out.append('end\nend Pyhf.Gen\n')
    return '\n'.join(out)


def regenerate(check_only=False):
    text = generate()
    old = open(OUT).read() if os.path.exists(OUT) else None
    if text == old: return False, text
    if check_only: return True, text
    tmp = OUT + f'.{os.getpid()}.tmp'
    open(tmp, 'w').write(text); os.replace(tmp, OUT)
    return True, text


if __name__ == '__main__':
    changed, _ = regenerate(check_only='--check' in sys.argv)
    print('changed' if changed else 'unchanged', OUT)
    sys.exit(1 if (changed and '--check' in sys.argv) else 0)
