"""Regenerates lean/PyhfGen/Join.lean: `workspace._join_items` executed on lists of items with *symbolic names and bodies*.

Two left items and two right items, each `{'name': <atom>, 'body': <atom>}`, are joined by the real `_join_items` under each of the
four join modes (no deep merging); every membership / equality test consults the decision oracle, so all feasible combinations of
equalities between names and between bodies are enumerated.  The result is recorded as the list of (name, body) pairs in order.
`Properties/C16_GenJoin.lean` proves it equal to the model `WS.joinItems` for all strings and bodies.
Usage: python -m harness.gen_join [--check]
"""
import hashlib, inspect, os, sys
from harness import symexec as sx
from harness.symexec import Atom

VERIF = os.path.dirname(os.path.dirname(os.path.abspath(__file__)))
OUT = os.path.join(VERIF, 'lean', 'PyhfGen', 'Join.lean')
JOINS = [('none', 'none'), ('outer', 'outer'), ('left outer', 'leftOuter'), ('right outer', 'rightOuter')]

HEADER = '''/-!
# GENERATED — do not edit.  Regenerated on every C16 check by `harness/gen_join.py`: `_join_items(join, [L0, L1], [R0, R1])` of
`src/pyhf/workspace.py` on items with symbolic names (`nl0 nl1 nr0 nr1`) and bodies (`bl0 bl1 br0 br1`), every feasible combination of
equalities enumerated; the result as the list of (name, body) pairs.
-/
namespace Pyhf.Gen
section
variable {B : Type} [DecidableEq B]
'''


def lean_tree(t, indent=2):
    pad = ' ' * indent
    if t[0] == 'leaf': return pad + t[1]
    k, a, b = t[1].t
    return f'{pad}if {a.t[1]} = {b.t[1]} then\n{lean_tree(t[2], indent + 2)}\n{pad}else\n{lean_tree(t[3], indent + 2)}'


def merge(t):
    """branches with identical outcomes merged"""
    if t[0] == 'leaf': return t
    l, r = merge(t[2]), merge(t[3])
    if tree_key(l) == tree_key(r): return l
    return ('ite', t[1], l, r)


def tree_key(t):
    return t[1] if t[0] == 'leaf' else f'ite({t[1].t[1].t[1]}={t[1].t[2].t[1]},{tree_key(t[2])},{tree_key(t[3])})'


def generate():
    import pyhf.workspace as wsmod
    out = [HEADER]
    dg = hashlib.sha256(inspect.getsource(wsmod._join_items).encode()).hexdigest()[:16]
    out.append(f'/-! `_join_items` source sha256 {dg}… -/\n')
    for jname, jlean in JOINS:
        def run():
            L = [{'name': Atom('name', f'nl{i}'), 'body': Atom('body', f'bl{i}')} for i in range(2)]
            R = [{'name': Atom('name', f'nr{i}'), 'body': Atom('body', f'br{i}')} for i in range(2)]
            res = wsmod._join_items(jname, L, R)
            return '[' + ', '.join(f'({it["name"].name}, {it["body"].name})' for it in res) + ']'
        tree = sx.paths(run)
        out.append(f'/-- `_join_items({jname!r}, [L0, L1], [R0, R1])` -/')
        out.append(f'def join_{jlean} (nl0 nl1 nr0 nr1 : String) (bl0 bl1 br0 br1 : B) : List (String × B) :=\n{lean_tree(tree)}\n')
    # ---- the checked joins: `_join_channels` (no channel merging) and `_join_observations` — join, then the post-check of the mode
    import pyhf
    for fname, tag in (('_join_channels', 'chan'), ('_join_observations', 'obs')):
        fn = getattr(wsmod, fname)
        dgc = hashlib.sha256(inspect.getsource(fn).encode()).hexdigest()[:16]
        for jname, jlean in JOINS:
            def run():
                L = [{'name': Atom('name', f'nl{i}'), 'body': Atom('body', f'bl{i}')} for i in range(2)]
                R = [{'name': Atom('name', f'nr{i}'), 'body': Atom('body', f'br{i}')} for i in range(2)]
                try:
                    res = fn(jname, L, R)
                except pyhf.exceptions.InvalidWorkspaceOperation:
                    return 'none'
                return 'some [' + ', '.join(f'({it["name"].name}, {it["body"].name})' for it in res) + ']'
            tree = sx.paths(run)
            out.append(f'/-- `{fname}({jname!r}, [L0, L1], [R0, R1])` (source sha256 {dgc}…): `none` = `InvalidWorkspaceOperation` -/')
            out.append(f'def join_{tag}_{jlean} (nl0 nl1 nr0 nr1 : String) (bl0 bl1 br0 br1 : B) : Option (List (String × B)) :=\n{lean_tree(merge(tree))}\n')
    # ---- `_join_measurements`: one measurement on each side, each with one parameter configuration; names, POIs, parameter names and
    # parameter bodies symbolic
    out.append('end\n\nsection\nvariable {P : Type} [DecidableEq P]\n')
    dgm = hashlib.sha256((inspect.getsource(wsmod._join_measurements) + inspect.getsource(wsmod._join_parameter_configs)).encode()).hexdigest()[:16]
    for jname, jlean in JOINS:
        def run():
            mk = lambda side: [{'name': Atom('name', f'm{side}'), 'config': {'poi': Atom('poi', f'poi{side}'),
                                                                           'parameters': [{'name': Atom('pname', f'p{side}'), 'body': Atom('pbody', f'c{side}')}]}}]
            try:
                res = wsmod._join_measurements(jname, mk('l'), mk('r'))
            except pyhf.exceptions.InvalidWorkspaceOperation:
                return 'none'
            return 'some [' + ', '.join('(' + m['name'].name + ', ' + m['config']['poi'].name + ', [' + ', '.join(f'({q["name"].name}, {q["body"].name})' for q in m['config']['parameters']) + '])' for m in res) + ']'
        tree = sx.paths(run)
        out.append(f'/-- `_join_measurements({jname!r}, [Ml], [Mr])` (source sha256 {dgm}…); measurement = (name, POI, parameter configurations); `none` = `InvalidWorkspaceOperation` -/')
        out.append(f'def join_meas_{jlean} (ml mr poil poir pl pr : String) (cl cr : P) : Option (List (String × String × List (String × P))) :=\n{lean_tree(merge(tree))}\n')
    out.append('end\nend Pyhf.Gen\n')
    return '\n'.join(out)


def regenerate(check_only=False):
    text = generate()
    old = open(OUT).read() if os.path.exists(OUT) else None
    if text == old: return False, text
    if check_only: return True, text
    tmp = OUT + f'.{os.getpid()}.tmp'
    open(tmp, 'w').write(text); os.replace(tmp, OUT)
    return True, text


if __name__ == '__main__':
    changed, _ = regenerate(check_only='--check' in sys.argv)
    print('changed' if changed else 'unchanged', OUT)
    sys.exit(1 if (changed and '--check' in sys.argv) else 0)
