"""Regenerates lean/PyhfGen/Prob.lean: the probability primitives as the numpy and jax backends *compose* them, obtained by symbolic
execution of the running backend methods.

`numpy_backend.poisson_logpdf / poisson / normal_logpdf` and the same three methods of `jax_backend` are executed on symbolic scalars.
The library functions the code calls are replaced in the backend module's namespace: `xlogy`, `gammaln` become uninterpreted
applications, and the array namespace (`np` resp. `jnp`) becomes a symbolic one whose `sqrt / log / exp / square / divide` build
expression nodes and whose `pi` is the symbol `pi` (so `np.sqrt(2)` stays √2 and is not rounded to a decimal).  What the translation
records is therefore the *composition* the source writes down; `Properties/C04_Gen.lean` proves it equal to the model `Pyhf.Prob`, about
which the C04 identity and forward-error theorems are stated.  torch / tensorflow delegate to their distribution classes (no formula in
pyhf's source) and stay with the differential grid.
Usage: python -m harness.gen_prob [--check]
"""
import hashlib, inspect, os, sys
from harness import symexec as sx
from harness.symexec import var, Sym, lit

VERIF = os.path.dirname(os.path.dirname(os.path.abspath(__file__)))
OUT = os.path.join(VERIF, 'lean', 'PyhfGen', 'Prob.lean')

HEADER = '''import PyhfModel.Basic
/-!
# GENERATED — do not edit.  Regenerated on every C04 check by `harness/gen_prob.py` from `src/pyhf/tensor/numpy_backend.py` and
`jax_backend.py` by symbolic execution of the running methods (`xlogy`, `gammaln` uninterpreted; the array namespace symbolic, `pi` a
symbol).  Source digests are recorded per definition.
-/
namespace Pyhf.Gen
section
variable {K : Type} [Add K] [Sub K] [Mul K] [Div K] [Neg K] [OfNat K 0] [OfNat K 1]
  [OfScientific K] [LT K] [LE K] [DecidableLT K] [DecidableLE K]
'''


class SymNp:
    """stands in for `np` / `jnp` inside the backend methods under translation"""
    pi = var('pi')
    @staticmethod
    def asarray(x, *a, **k): return x
    @staticmethod
    def sqrt(x): return lit(x).sqrt()
    @staticmethod
    def log(x): return lit(x).log()
    @staticmethod
    def exp(x): return lit(x).exp()
    @staticmethod
    def square(x): return lit(x) * lit(x)
    @staticmethod
    def divide(a, b): return lit(a) / lit(b)
    @staticmethod
    def multiply(a, b): return lit(a) * lit(b)
    @staticmethod
    def subtract(a, b): return lit(a) - lit(b)
    @staticmethod
    def add(a, b): return lit(a) + lit(b)
    @staticmethod
    def negative(a): return -lit(a)
    @staticmethod
    def power(a, b): return lit(a) ** b


BACKENDS = [('np', 'pyhf.tensor.numpy_backend', 'numpy_backend', 'np'), ('jax', 'pyhf.tensor.jax_backend', 'jax_backend', 'jnp')]
METHODS = [('poisson_logpdf', ('n', 'lam'), True), ('poisson', ('n', 'lam'), True), ('normal_logpdf', ('x', 'mu', 'sigma'), False)]


def generate():
    import importlib
    out = [HEADER]
    for tag, modname, clsname, npname in BACKENDS:
        mod = importlib.import_module(modname)
        cls = getattr(mod, clsname)
        saved = {k: getattr(mod, k) for k in (npname, 'xlogy', 'gammaln')}
        try:
            setattr(mod, npname, SymNp)
            mod.xlogy = lambda a, b: Sym.app('xlogy', a, b)
            mod.gammaln = lambda a: Sym.app('lgamma', a)
            for meth, args, pois in METHODS:
                fn = getattr(cls, meth)
                o = cls.__new__(cls)
                tree = sx.paths(lambda: lit(fn(o, *[var(a) for a in args])))
                digest = hashlib.sha256(inspect.getsource(fn).encode()).hexdigest()[:16]
                sig = ('(P : Prim K) (xlogy : K → K → K) (lgamma : K → K) (n lam : K)' if pois else '(P : Prim K) (pi : K) (x mu sigma : K)')
                out.append(f'/-- `{clsname}.{meth}` (source sha256 {digest}…) -/')
                out.append(f'def {tag}_{meth} {sig} : K :=\n{sx.lean_tree(tree)}\n')
        finally:
            for k, v in saved.items(): setattr(mod, k, v)
    out.append('end\nend Pyhf.Gen\n')
    return '\n'.join(out)


def regenerate(check_only=False):
    text = generate()
    old = open(OUT).read() if os.path.exists(OUT) else None
    if text == old: return False, text
    if check_only: return True, text
    os.makedirs(os.path.dirname(OUT), exist_ok=True)
    tmp = OUT + f'.{os.getpid()}.tmp'
    open(tmp, 'w').write(text); os.replace(tmp, OUT)
    return True, text


if __name__ == '__main__':
    changed, _ = regenerate(check_only='--check' in sys.argv)
    print('changed' if changed else 'unchanged', OUT)
    sys.exit(1 if (changed and '--check' in sys.argv) else 0)
