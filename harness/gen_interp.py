"""Regenerates lean/PyhfGen/Interp.lean from the interpolator sources of the checked-out pyhf by symbolic execution (harness/symexec.py).

For every interpolation code the scalar reference (`_slow_codeK.summand/product`) and one cell of the vectorised implementation
(`codeK.__init__/_precompute/__call__` on a 1×1×1×1 histogram set, through the symbolic tensor backend) are executed on symbolic
down / nominal / up / alpha (and alpha0 for code 4); the decision trees are written as Lean definitions `Pyhf.Gen.slow_codeK`,
`Pyhf.Gen.fast_codeK`, generic in the number type.  `PyhfProofs/Properties/C03_Gen.lean` proves each of them equal, over ℝ, to the
hand-written model function the C03 theorems are about — so those theorems hold of what the code computes *now*.
Usage: python -m harness.gen_interp [--check]   (writes the file only when its content changes; --check: exit 1 if it would change)
"""
import hashlib, inspect, os, sys
import numpy as np
from harness import symexec as sx
from harness.symexec import var

VERIF = os.path.dirname(os.path.dirname(os.path.abspath(__file__)))
OUT = os.path.join(VERIF, 'lean', 'PyhfGen', 'Interp.lean')
CODES = [('0', 'code0', 'summand'), ('1', 'code1', 'product'), ('2', 'code2', 'summand'), ('4', 'code4', 'product'), ('4p', 'code4p', 'summand')]

HEADER = '''import PyhfModel.Basic
/-!
# GENERATED — do not edit.  Regenerated on every C03 check by `harness/gen_interp.py` from `src/pyhf/interpolators/code*.py`
by symbolic execution of the running code (scalar reference classes `_slow_codeK`, and one cell of the vectorised classes `codeK`
through a symbolic tensor backend).  Source digests are recorded per definition.
-/
namespace Pyhf.Gen
section
variable {K : Type} [Add K] [Sub K] [Mul K] [Div K] [Neg K] [OfNat K 0] [OfNat K 1]
  [OfScientific K] [LT K] [LE K] [DecidableLT K] [DecidableLE K]
'''


def generate():
    import pyhf, pyhf.interpolators
    mgr = sys.modules['pyhf.tensor.manager']
    sb = sx.make_backend(pyhf)
    saved_default = mgr.this.state['default']
    saved_current = mgr.this.state['current']
    out = [HEADER]
    try:
        mgr.this.state['default'] = (sb, saved_default[1])
        mgr.this.state['current'] = (sb, saved_current[1])
        for tag, modname, meth in CODES:
            mod = sys.modules[f'pyhf.interpolators.{modname}']
            slow_cls = getattr(mod, f'_slow_{modname}'); fast_cls = getattr(mod, modname)
            had_math = hasattr(mod, 'math'); old_math = getattr(mod, 'math', None)
            if had_math: mod.math = sx.SymMath
            try:
                is4 = (modname == 'code4')
                args = 'P a0 dn nom up a' if is4 else 'P dn nom up a'
                sig = '(P : Prim K) (a0 dn nom up a : K)' if is4 else '(P : Prim K) (dn nom up a : K)'

                def slow():
                    o = slow_cls.__new__(slow_cls)
                    if is4: o.alpha0 = var('a0')
                    return getattr(o, meth)(var('dn'), var('nom'), var('up'), var('a'))

                def fast():
                    h = [[[[var('dn')], [var('nom')], [var('up')]]]]
                    it = fast_cls(h, subscribe=False, alpha0=var('a0')) if is4 else fast_cls(h, subscribe=False)
                    res = it(np.asarray([[var('a')]], dtype=object))
                    assert np.shape(res) == (1, 1, 1, 1), np.shape(res)
                    return res[0][0][0][0]
                for kind, fn, cls in (('slow', slow, slow_cls), ('fast', fast, fast_cls)):
                    tree = sx.paths(fn, assume=[var('a0') > 0] if is4 else ())     # code4 asserts alpha0 > 0 at construction
                    # numeric self-check of the translation: the decision tree, evaluated at random points (incl. the breakpoints), must
                    # reproduce what the class returns on the same numbers with the real numpy backend and the real `math` module
                    if had_math: mod.math = old_math
                    mgr.this.state['default'] = saved_default; mgr.this.state['current'] = saved_current
                    try:
                        def sampler(rng):
                            nom = rng.uniform(5, 100)
                            env = {'nom': nom, 'up': nom * rng.uniform(0.6, 1.5), 'dn': nom * rng.uniform(0.6, 1.5), 'a0': rng.choice([1.0, 0.5, 2.0]) if is4 else 1.0}
                            env['a'] = rng.choice([rng.uniform(-3, 3), env['a0'], -env['a0'], 0.0, 1.0, -1.0])
                            return env

                        def reference(env, kind=kind, cls=cls):
                            if kind == 'slow':
                                o = cls.__new__(cls)
                                if is4: o.alpha0 = env['a0']
                                return getattr(o, meth)(env['dn'], env['nom'], env['up'], env['a'])
                            h = [[[[env['dn']], [env['nom']], [env['up']]]]]
                            it = cls(h, subscribe=False, alpha0=env['a0']) if is4 else cls(h, subscribe=False)
                            return np.asarray(it(np.asarray([[env['a']]])))
                        sx.selfcheck(f'{modname}/{kind}', ('leaf', [tree]) if tree[0] == 'leaf' else wrap_leaves(tree), None, sampler, reference)
                    finally:
                        mgr.this.state['default'] = (sb, saved_default[1]); mgr.this.state['current'] = (sb, saved_current[1])
                        if had_math: mod.math = sx.SymMath
                    digest = hashlib.sha256(inspect.getsource(cls).encode()).hexdigest()[:16]
                    out.append(f'/-- `{modname}.py::{cls.__name__}` (source sha256 {digest}…), one cell -/')
                    out.append(f'def {kind}_{modname} {sig} : K :=\n{sx.lean_tree(tree)}\n')
            finally:
                if had_math: mod.math = old_math
    finally:
        mgr.this.state['default'] = saved_default
        mgr.this.state['current'] = saved_current
    out.append('end\nend Pyhf.Gen\n')
    return '\n'.join(out)


def wrap_leaves(t):
    return ('leaf', [t[1]]) if t[0] == 'leaf' else ('ite', t[1], wrap_leaves(t[2]), wrap_leaves(t[3]))


def regenerate(check_only=False):
    """returns (changed: bool, text)"""
    text = generate()
    old = open(OUT).read() if os.path.exists(OUT) else None
    if text == old: return False, text
    if check_only: return True, text
    os.makedirs(os.path.dirname(OUT), exist_ok=True)
    tmp = OUT + f'.{os.getpid()}.tmp'
    open(tmp, 'w').write(text); os.replace(tmp, OUT)
    return True, text


if __name__ == '__main__':
    changed, _ = regenerate(check_only='--check' in sys.argv)
    print('changed' if changed else 'unchanged', OUT)
    sys.exit(1 if (changed and '--check' in sys.argv) else 0)
