"""Regenerates lean/PyhfGen/Fit.lean: the fit plumbing of `pyhf.optimize` executed symbolically.

`OptimizerMixin.minimize` (→ `common.shim` → `opt_numpy.wrap_objective` → `_internal_minimize` → `_internal_postprocess`) is run on a
four-parameter problem with a stub optimiser: `_minimize` evaluates the wrapped objective once at a symbolic point `x` and returns that
point as the fit result.  Initial values, bounds, fixed values and the minimiser's point are all symbols.  For several `fixed_vals`
lists — none, one, two in index order, two **out of order**, three forming a non-involutive permutation — and for `do_stitch` on/off
the generated file records: the start vector and bounds handed to the minimiser, the fixed values handed to it, the parameter vector
the **objective** is evaluated at, and the parameters `minimize` **returns**.
`mle.fit` / `mle.fixed_poi_fit` are executed with `opt.minimize` replaced by a recorder: which `fixed_vals` they derive from the
`fixed_params` flags and initial values, and (fixed-POI fit) which value is forced at which position.
`Properties/C05_Gen.lean` proves them equal to the model (`stitchPars`, `variableIdx`, `fixedVals`, `fixedPoiInputs`).
Usage: python -m harness.gen_fit [--check]
"""
import hashlib, inspect, os, sys
import numpy as np
from harness import symexec as sx
from harness.symexec import var, Sym

VERIF = os.path.dirname(os.path.dirname(os.path.abspath(__file__)))
OUT = os.path.join(VERIF, 'lean', 'PyhfGen', 'Fit.lean')
NP = 4
CASES = {'none': [], 'one': [1], 'two': [0, 3], 'two_rev': [3, 0], 'three_perm': [2, 0, 1]}

HEADER = '''import PyhfModel.Basic
/-!
# GENERATED — do not edit.  Regenerated on every C05 check by `harness/gen_fit.py` from `src/pyhf/optimize/{mixins,common,opt_numpy}.py`
and `src/pyhf/infer/mle.py` by symbolic execution with a stub optimiser (four parameters; `i<k>` initial values, `lo<k>`/`hi<k>` bounds,
`f<k>` the value parameter k is fixed at, `x<j>` component j of the point the minimiser works at / returns).
-/
namespace Pyhf.Gen
section
variable {K : Type} [Add K] [Sub K] [Mul K] [Div K] [Neg K] [OfNat K 0] [OfNat K 1]
  [OfScientific K] [LT K] [LE K] [DecidableLT K] [DecidableLE K]
'''


def digest(obj): return hashlib.sha256(inspect.getsource(obj).encode()).hexdigest()[:16]


def lst(xs): return '[' + ', '.join(sx.lean_expr(sx.lit(x)) for x in xs) + ']'


def generate():
    import pyhf, logging
    from pyhf.optimize import mixins, common
    import pyhf.infer.mle as mle
    logging.getLogger('pyhf').setLevel(logging.CRITICAL)
    mgr = sys.modules['pyhf.tensor.manager']
    sb = sx.make_backend(pyhf)
    sd, sc = mgr.this.state['default'], mgr.this.state['current']
    out = [HEADER]

    class Cfg:
        npars = NP
        poi_index = 1
        @property
        def par_names(self): return [f'p{k}' for k in range(NP)]       # a fresh list per access, like _ModelConfig.par_names
        def suggested_init(self): return [var(f'i{k}') for k in range(NP)]
        def suggested_bounds(self): return [(var(f'lo{k}'), var(f'hi{k}')) for k in range(NP)]
        def suggested_fixed(self): return [False] * NP
    class Pdf: config = Cfg()

    class Res:
        success = True

    rec = {}

    class StubOpt(mixins.OptimizerMixin):
        name = 'stub'
        def _get_minimizer(self, func, x0, bounds, fixed_vals=None, do_grad=False, par_names=None):
            rec['x0'] = list(x0); rec['bounds'] = list(bounds); rec['fixed_vals'] = list(fixed_vals or []); rec['par_names'] = par_names
            return None
        def _minimize(self, minimizer, func, x0, do_grad=False, bounds=None, fixed_vals=None, options={}):
            x = np.asarray([var(f'x{j}') for j in range(len(x0))], dtype=object)
            r = Res(); r.x = x; r.fun = func(x)
            return r
    objective = lambda pars, data, pdf: [Sym.app('nll', list(np.ravel(pars)))]       # like twice_nll: a one-element tensor
    init = [var(f'i{k}') for k in range(NP)]
    bounds = [(var(f'lo{k}'), var(f'hi{k}')) for k in range(NP)]
    sig = ('(' + ' '.join(f'i{k}' for k in range(NP)) + ' ' + ' '.join(f'lo{k} hi{k}' for k in range(NP)) + ' ' + ' '.join(f'f{k}' for k in range(NP))
           + ' ' + ' '.join(f'x{k}' for k in range(NP)) + ' : K)')
    try:
        mgr.this.state['default'] = (sb, sd[1]); mgr.this.state['current'] = (sb, sc[1])
        out.append(f'/-! `OptimizerMixin.minimize` ({digest(mixins.OptimizerMixin.minimize)}…), `_internal_postprocess` ({digest(mixins.OptimizerMixin._internal_postprocess)}…), `shim` ({digest(common.shim)}…) -/\n')
        for case, idxs in CASES.items():
            fv = [(k, var(f'f{k}')) for k in idxs]
            for stitch in (True, False):
                tag = f'{case}_{"stitch" if stitch else "nostitch"}'
                rec.clear()
                pars, val = StubOpt().minimize(objective, [0.0], Pdf(), init, bounds, fv or None, return_fitted_val=True, do_grad=False, do_stitch=stitch)
                objarg = sx.lit(val).t
                assert objarg[0] == 'app' and objarg[1] == 'nll', objarg
                seen = objarg[2][0].t[1]       # the list node: the parameter vector the objective was evaluated at
                out.append(f'/-- fixed_vals = {[(k, "f%d" % k) for k in idxs]}, do_stitch = {stitch}: start vector handed to the minimiser -/')
                out.append(f'def fit_{tag}_x0 {sig} : List K := {lst(rec["x0"])}\n')
                out.append(f'def fit_{tag}_bounds_lo {sig} : List K := {lst([b[0] for b in rec["bounds"]])}\n')
                out.append(f'def fit_{tag}_bounds_hi {sig} : List K := {lst([b[1] for b in rec["bounds"]])}\n')
                out.append(f'/-- the (index, value) pairs the minimiser itself is asked to hold fixed -/')
                out.append(f'def fit_{tag}_minimizer_fixed {sig} : List (Nat × K) := [' + ', '.join(f'({k}, {sx.lean_expr(sx.lit(v))})' for k, v in rec['fixed_vals']) + ']\n')
                out.append(f'/-- the parameter vector the objective is evaluated at when the minimiser works at `x` -/')
                out.append(f'def fit_{tag}_objective_arg {sig} : List K := {lst(seen)}\n')
                out.append(f'/-- the parameters `minimize` returns when the minimiser returns `x` -/')
                out.append(f'def fit_{tag}_result {sig} : List K := {lst(np.ravel(pars))}\n')
                pn = rec['par_names']
                out.append(f'def fit_{tag}_par_names : List String := [' + ', '.join(f'"{n}"' for n in (pn or [])) + ']\n')
        # ---- mle.fit / mle.fixed_poi_fit: which fixed_vals they derive
        calls = []

        class RecOpt:
            def minimize(self, objective, data, pdf, init_pars, par_bounds, fixed_vals=None, **kw):
                calls.append((list(init_pars), list(par_bounds), list(fixed_vals or []), kw)); return 'result'
        mgr.this.state['current'] = (sb, RecOpt())
        out.append(f'/-! `mle.fit` ({digest(mle.fit)}…), `mle.fixed_poi_fit` ({digest(mle.fixed_poi_fit)}…): the (index, value) pairs handed to the optimiser; POI index 1 -/\n')
        for tag, flags in (('ftft', [False, True, False, True]), ('tfft', [True, False, False, True])):
            calls.clear()
            mle.fit([0.0], Pdf(), init, bounds, flags)
            mle.fixed_poi_fit(var('poival'), [0.0], Pdf(), init, bounds, flags)
            (i1, b1, fv1, kw1), (i2, b2, fv2, kw2) = calls
            assert b1 == bounds and b2 == bounds and not kw1 and not kw2, (kw1, kw2)
            msig = '(' + ' '.join(f'i{k}' for k in range(NP)) + ' poival : K)'
            pr = lambda fvs: '[' + ', '.join(f'({int(k)}, {sx.lean_expr(sx.lit(v))})' for k, v in fvs) + ']'
            out.append(f'/-- `fit(..., fixed_params={flags})` -/')
            out.append(f'def mle_fit_{tag}_fixed_vals {msig} : List (Nat × K) := {pr(fv1)}\n')
            out.append(f'def mle_fit_{tag}_init {msig} : List K := {lst(i1)}\n')
            out.append(f'/-- `fixed_poi_fit(poival, ..., fixed_params={flags})` -/')
            out.append(f'def mle_fixed_poi_fit_{tag}_fixed_vals {msig} : List (Nat × K) := {pr(fv2)}\n')
            out.append(f'def mle_fixed_poi_fit_{tag}_init {msig} : List K := {lst(i2)}\n')
    finally:
        mgr.this.state['default'] = sd; mgr.this.state['current'] = sc
    out.append('end\nend Pyhf.Gen\n')
    return '\n'.join(out)


def regenerate(check_only=False):
    text = generate()
    old = open(OUT).read() if os.path.exists(OUT) else None
    if text == old: return False, text
    if check_only: return True, text
    os.makedirs(os.path.dirname(OUT), exist_ok=True)
    tmp = OUT + f'.{os.getpid()}.tmp'
    open(tmp, 'w').write(text); os.replace(tmp, OUT)
    return True, text


if __name__ == '__main__':
    changed, _ = regenerate(check_only='--check' in sys.argv)
    print('changed' if changed else 'unchanged', OUT)
    sys.exit(1 if (changed and '--check' in sys.argv) else 0)
