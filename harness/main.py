import argparse, importlib, json, os, signal, sys, time
from harness import core


def main():
    ap = argparse.ArgumentParser()
    ap.add_argument('pid')
    ap.add_argument('--tier', default=os.environ.get('VERIF_TIER', 'quick'), choices=['quick', 'thorough'])
    ap.add_argument('--replay', default=None)
    ap.add_argument('--timeout', type=int, default=None)
    a = ap.parse_args()
    seed = int(os.environ.get('VERIF_SEED', '0') or 0)
    limit = a.timeout or (1500 if a.tier == 'quick' else 4 * 3600)

    def on_alarm(*_):
        print(f'TIMEOUT after {limit}s (not a violation)')
        os._exit(2)
    signal.signal(signal.SIGALRM, on_alarm)
    signal.alarm(limit)
    import logging
    logging.getLogger('pyhf').setLevel(logging.CRITICAL)
    mod = importlib.import_module(f'harness.props.{a.pid.lower()}')
    replay = json.load(open(a.replay)) if a.replay else None
    ctx = core.Ctx(a.pid, a.tier, seed, replay)
    pre_fail = []
    GEN = {'C01': ['gen_model'], 'C02': ['gen_model'], 'C03': ['gen_interp', 'gen_interp_multi'], 'C04': ['gen_prob'], 'C05': ['gen_fit'], 'C06': ['gen_infer'],
           'C07': ['gen_infer'], 'C08': ['gen_infer'], 'C09': ['gen_limits'], 'C10': ['gen_model'], 'C11': ['gen_events'], 'C12': ['gen_config'], 'C13': ['gen_model', 'gen_prob', 'gen_interp'], 'C14': ['gen_toys'], 'C15': ['gen_ws'], 'C16': ['gen_ws', 'gen_join'], 'C17': ['gen_patchset'], 'C18': ['gen_xml'], 'C19': ['gen_cli'], 'C20': ['gen_exc']}
    for g in GEN.get(a.pid, []):
        # the generated part of the model is re-derived from the current source before anything is built
        try:
            gen = importlib.import_module('harness.' + g)
            changed, _ = gen.regenerate()
            if changed: print(f'{a.pid}: {os.path.relpath(gen.OUT, core.VERIF)} regenerated from the current sources (content changed)')
        except Exception as e:  # noqa — the code left the subset the translator handles
            import traceback
            pre_fail.append({'kind': 'translator', 'generator': g, 'what': f'symbolic execution of the current sources failed: {type(e).__name__}: {str(e)[:200]}',
                             'log_tail': traceback.format_exc()[-800:]})
    from harness import symexec as _sx
    if _sx.SELFCHECKS:
        ctx.notes['translator_selfcheck'] = dict(_sx.SELFCHECKS)      # the translations, evaluated numerically at random points, reproduce the code
    gate = core.proof_gate(a.pid, thorough=(a.tier == 'thorough'))
    gate['failures'] = pre_fail + gate['failures']
    if pre_fail: gate['discharged'] = []      # the theorems speak about generated definitions that could not be re-derived from the current source
    try:
        mod.run(ctx)
    except core.LeanError as e:
        ctx.disagree('driver', str(e)[:500], None, None, 'Lean driver error')
    except Exception as e:  # noqa — the implementation raised where the harness relies on documented behaviour
        import traceback
        tb = traceback.format_exc()
        ctx.fail(f'{a.pid}/unexpected-exception', f'the implementation raised {type(e).__name__} in a call the harness relies on (the run stopped there)',
                 {'seed': seed, 'tier': a.tier, 'rerun': f'VERIF_SEED={seed} ./check {a.pid} --tier {a.tier}'}, tb[-1500:])
    rc = core.finish(ctx, gate, level=getattr(mod, 'LEVEL', 'proof'), rule=getattr(mod, 'RULE', ''))
    sys.stdout.flush()
    os._exit(rc)


if __name__ == '__main__':
    main()
