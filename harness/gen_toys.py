"""Regenerates lean/PyhfGen/Toys.lean: the toy-based calculator executed symbolically.

* `EmpiricalDistribution(samples).pvalue(value)` on three symbolic samples and a symbolic value, through the symbolic tensor backend:
  every feasible outcome of the three comparisons is enumerated — the decision tree of the tail fraction;
* `ToyCalculator.distributions(poi_test)` with two toys per hypothesis, for the statistics q̃, q and q0: the two conditional fits, the
  sampling and the statistic are uninterpreted (`condFit μ`, `toyData pars j`, `ts μ data`), so **which μ each generating fit holds, which
  pseudo-data each statistic evaluation sees and which μ it tests** are part of the translation; also every setting forwarded to the
  fits and statistic evaluations is asserted to be the calculator's own;
* `ToyCalculator.teststatistic` and `.pvalues` (CLs+b, CLb, CLs from the two distributions).
`Properties/C14_Gen.lean` proves them equal to the model (`empiricalCounts`, `toyFitMus`).  Usage: python -m harness.gen_toys [--check]
"""
import hashlib, inspect, os, sys
import numpy as np
from harness import symexec as sx
from harness.symexec import var, Sym

VERIF = os.path.dirname(os.path.dirname(os.path.abspath(__file__)))
OUT = os.path.join(VERIF, 'lean', 'PyhfGen', 'Toys.lean')

HEADER = '''import PyhfModel.Basic
/-!
# GENERATED — do not edit.  Regenerated on every C14 check by `harness/gen_toys.py` from `src/pyhf/infer/calculators.py` by symbolic
execution: `EmpiricalDistribution.pvalue` on three samples; `ToyCalculator.distributions / teststatistic / pvalues` with the fits, the
sampling and the statistic uninterpreted.
-/
namespace Pyhf.Gen
section
variable {K : Type} [Add K] [Sub K] [Mul K] [Div K] [Neg K] [OfNat K 0] [OfNat K 1]
  [OfScientific K] [LT K] [LE K] [DecidableLT K] [DecidableLE K]
'''


def digest(obj): return hashlib.sha256(inspect.getsource(obj).encode()).hexdigest()[:16]


def generate():
    import pyhf, pyhf.infer, logging
    logging.getLogger('pyhf').setLevel(logging.CRITICAL)
    calcmod = sys.modules['pyhf.infer.calculators']; utilsmod = sys.modules['pyhf.infer.utils']
    mgr = sys.modules['pyhf.tensor.manager']
    sb = sx.make_backend(pyhf)
    sd, sc = mgr.this.state['default'], mgr.this.state['current']
    saved = {'fixed_poi_fit': calcmod.fixed_poi_fit, 'get_test_stat': utilsmod.get_test_stat}
    out = [HEADER]
    try:
        mgr.this.state['default'] = (sb, sd[1]); mgr.this.state['current'] = (sb, sc[1])
        # ---- tail fraction
        ED = calcmod.EmpiricalDistribution

        def run_pv():
            d = ED(np.asarray([var('s0'), var('s1'), var('s2')], dtype=object))
            return sx.lit(d.pvalue(var('v')))
        tree = sx.paths(run_pv)
        out.append(f'/-- `EmpiricalDistribution([s0, s1, s2]).pvalue(v)` (source sha256 {digest(ED.pvalue)}…) -/')
        out.append(f'def emp_pvalue3 (s0 s1 s2 v : K) : K :=\n{sx.lean_tree(tree)}\n')
        # ---- toy calculator wiring
        INIT, BOUNDS, FIXED = [1.0, 1.0], [(0.0, 10.0), (0.1, 5.0)], [False, True]

        class Pdf:
            class config:
                poi_index = 0
                @staticmethod
                def suggested_init(): return [9.0, 9.0]
                @staticmethod
                def suggested_bounds(): return [(-9.0, 9.0)] * 2
                @staticmethod
                def suggested_fixed(): return [False, False]

            def make_pdf(self, pars):
                class D:
                    def sample(_, shape):
                        assert tuple(shape) == (2,), shape
                        return [Sym.app('toyData', pars, j) for j in range(2)]
                return D()
        log = []

        def fake_fixed(poi, data, pdf, init, bounds, fixed, **kw):
            log.append(('fit', data, init, bounds, fixed, kw))
            return Sym.app('condFit', poi)

        def fake_get(name):
            def f(poi, data, pdf, init, bounds, fixed, **kw):
                log.append(('ts', None, init, bounds, fixed, kw))
                return np.asarray(Sym.app('ts', poi, data), dtype=object)
            return f
        calcmod.fixed_poi_fit = fake_fixed; utilsmod.get_test_stat = fake_get
        sigw = '(condFit : K → K) (toyData : K → K → K) (ts : K → K → K) (poi : K)'
        for tsname in ('qtilde', 'q', 'q0'):
            log.clear()
            calc = calcmod.ToyCalculator(var('obsdata'), Pdf(), init_pars=INIT, par_bounds=BOUNDS, fixed_params=FIXED, test_stat=tsname, ntoys=2, track_progress=False)
            sbd, bd = calc.distributions(var('poi'))
            # every fit / statistic evaluation ran with the calculator's own settings; the generating fits saw the observed data
            assert all(e[2] == INIT and e[3] == BOUNDS and e[4] == FIXED and not e[5] for e in log), log
            assert [e[1].t for e in log if e[0] == 'fit'] == [('var', 'obsdata')] * 2, log
            for tag, d in (('signal', sbd), ('bkg', bd)):
                smp = [sx.lit(x) for x in np.ravel(d.samples)]
                out.append(f'/-- `ToyCalculator(test_stat={tsname!r}, ntoys=2).distributions(poi)`: the samples of the {tag}-like distribution (`distributions`: source sha256 {digest(calcmod.ToyCalculator.distributions)}…) -/')
                out.append(f'def toy_{tsname}_{tag}_samples {sigw} : List K :=\n  [' + ', '.join(sx.lean_expr(x) for x in smp) + ']\n')
            t = calc.teststatistic(var('poi'))
            out.append(f'/-- `ToyCalculator(test_stat={tsname!r}).teststatistic(poi)` on the observed data `obs` -/')
            out.append(f'def toy_{tsname}_teststat (ts : K → K → K) (obs poi : K) : K :=\n  ' + sx.lean_expr(sx.lit(t)).replace('obsdata', 'obs') + '\n')

        class Dist:
            def __init__(self, nm): self.nm = nm
            def pvalue(self, t): return np.asarray(Sym.app(self.nm, t), dtype=object)
        calc = calcmod.ToyCalculator(var('obsdata'), Pdf(), test_stat='qtilde', ntoys=2, track_progress=False)
        pv = calc.pvalues(var('t'), Dist('pvalSB'), Dist('pvalB'))
        out.append(f'/-- `ToyCalculator.pvalues(t, sb, b)` (source sha256 {digest(calcmod.ToyCalculator.pvalues)}…): (CLs+b, CLb, CLs) with `pvalSB`, `pvalB` the two distributions\' `pvalue` -/')
        out.append('def toy_pvalues (pvalSB pvalB : K → K) (t : K) : List K :=\n  [' + ', '.join(sx.lean_expr(sx.lit(x)) for x in pv) + ']\n')
    finally:
        calcmod.fixed_poi_fit = saved['fixed_poi_fit']; utilsmod.get_test_stat = saved['get_test_stat']
        mgr.this.state['default'] = sd; mgr.this.state['current'] = sc
    out.append('end\nend Pyhf.Gen\n')
    return '\n'.join(out)


def regenerate(check_only=False):
    text = generate()
    old = open(OUT).read() if os.path.exists(OUT) else None
    if text == old: return False, text
    if check_only: return True, text
    os.makedirs(os.path.dirname(OUT), exist_ok=True)
    tmp = OUT + f'.{os.getpid()}.tmp'
    open(tmp, 'w').write(text); os.replace(tmp, OUT)
    return True, text


if __name__ == '__main__':
    changed, _ = regenerate(check_only='--check' in sys.argv)
    print('changed' if changed else 'unchanged', OUT)
    sys.exit(1 if (changed and '--check' in sys.argv) else 0)
