"""Regenerates lean/PyhfGen/Exceptions.lean: the exception classes `pyhf.exceptions` defines now (names and whether each derives from
`Exception` only), read off the running module.  `Properties/C20_Gen.lean` proves that the failure classes the construction-path model
marks as pyhf's own (`Err.isPyhf`) are exactly those of its classes that this module defines — so "refused with a pyhf exception" in the
C20 theorems refers to classes that exist under these names.  Usage: python -m harness.gen_exc [--check]
"""
import inspect, os, sys

VERIF = os.path.dirname(os.path.dirname(os.path.abspath(__file__)))
OUT = os.path.join(VERIF, 'lean', 'PyhfGen', 'Exceptions.lean')


def generate():
    import builtins
    import pyhf.exceptions as e
    names = sorted(n for n, c in inspect.getmembers(e, inspect.isclass) if c.__module__ == 'pyhf.exceptions' and issubclass(c, Exception))
    bases = sorted({b.__name__ for n in names for b in getattr(e, n).__mro__[1:] if b is not object and b.__module__ == 'builtins'})
    q = lambda s: '"' + s + '"'
    return ('/-!\n# GENERATED — do not edit.  Regenerated on every C20 check by `harness/gen_exc.py` from the running `pyhf.exceptions` module.\n-/\n'
            'namespace Pyhf.Gen\n\n/-- the exception classes defined in `pyhf/exceptions/__init__.py` -/\n'
            f'def pyhfExceptionClasses : List String := [{", ".join(q(n) for n in names)}]\n\n'
            '/-- the builtin classes they derive from (nothing more specific than `Exception`: a caller catching `ValueError`, `KeyError`, … never\ncatches one of them by accident) -/\n'
            f'def pyhfExceptionBases : List String := [{", ".join(q(n) for n in bases)}]\n\nend Pyhf.Gen\n')


def regenerate(check_only=False):
    text = generate()
    old = open(OUT).read() if os.path.exists(OUT) else None
    if text == old: return False, text
    if check_only: return True, text
    tmp = OUT + f'.{os.getpid()}.tmp'
    open(tmp, 'w').write(text); os.replace(tmp, OUT)
    return True, text


if __name__ == '__main__':
    changed, _ = regenerate(check_only='--check' in sys.argv)
    print('changed' if changed else 'unchanged', OUT)
    sys.exit(1 if (changed and '--check' in sys.argv) else 0)
