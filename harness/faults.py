"""Structural fault injector for C20: each function returns a list of (fault_class, faulty_spec, poi) variants."""
import copy


def _chs(spec): return spec['channels']


def inject_all(rng, spec, max_per_class=3):
    out = []

    def add(cls, s, poi='mu'):
        out.append((cls, s, poi))

    chans = _chs(spec)
    # a) two channels with one name
    for _ in range(min(max_per_class, len(chans))):
        s = copy.deepcopy(spec); c = copy.deepcopy(rng.choice(s['channels']))
        for sm in c['samples']:
            sm['data'] = [x + 10.0 for x in sm['data']]
            sm['modifiers'] = [m for m in sm['modifiers'] if m['type'] in ('normfactor', 'normsys', 'lumi')]
        if rng.random() < 0.5 and len(c['samples']) > 1:
            c['samples'] = c['samples'][:1]
        s['channels'].insert(rng.randrange(len(s['channels']) + 1), c)
        add('dup-channel', s)
    # b) two samples with one name in a channel
    for _ in range(max_per_class):
        s = copy.deepcopy(spec); c = rng.choice(s['channels']); sm = copy.deepcopy(rng.choice(c['samples']))
        sm['data'] = [x + 5.0 for x in sm['data']]
        sm['modifiers'] = [m for m in sm['modifiers'] if m['type'] in ('normfactor', 'normsys', 'lumi')]
        c['samples'].insert(rng.randrange(len(c['samples']) + 1), sm)
        add('dup-sample', s)
    # c) one (name, type) modifier twice on a sample with different data
    cands = [(ci, si, mi) for ci, c in enumerate(chans) for si, sm in enumerate(c['samples']) for mi, m in enumerate(sm['modifiers'])
             if m['type'] in ('normsys', 'histosys', 'staterror')]
    rng.shuffle(cands)
    for ci, si, mi in cands[:max_per_class]:
        s = copy.deepcopy(spec); sm = s['channels'][ci]['samples'][si]; m = copy.deepcopy(sm['modifiers'][mi])
        if m['type'] == 'normsys': m['data'] = {'lo': 0.5, 'hi': 1.5}
        elif m['type'] == 'histosys': m['data'] = {'lo_data': [x * 0.5 for x in sm['data']], 'hi_data': [x * 1.5 for x in sm['data']]}
        else: m['data'] = [x * 0.5 for x in sm['data']]
        sm['modifiers'].insert(rng.randrange(len(sm['modifiers']) + 1), m)
        add('dup-modifier', s)
    # d) sample data length differs from the channel's bin count
    for _ in range(max_per_class):
        s = copy.deepcopy(spec); c = rng.choice(s['channels'])
        if len(c['samples']) < 2: continue
        k = rng.randrange(1, len(c['samples']))
        sm = c['samples'][k]
        if any(m['type'] in ('histosys', 'shapesys', 'staterror') for m in sm['modifiers']): continue
        sm['data'] = sm['data'] + [7.0] if rng.random() < 0.5 or len(sm['data']) == 1 else sm['data'][:-1]
        add('sample-length', s)
    # d') two compensating sample-length errors of one sample in two channels (bin-wise modifier data follow the sample)
    byname = {}
    for ci, c in enumerate(chans):
        for si, sm in enumerate(c['samples']):
            byname.setdefault(sm['name'], []).append((ci, si))
    for nm, pl in byname.items():
        if len(pl) >= 2 and all(si > 0 for _, si in pl[:2]):
            (c1, s1), (c2, s2) = pl[0], pl[1]
            s = copy.deepcopy(spec)
            a = s['channels'][c1]['samples'][s1]; b = s['channels'][c2]['samples'][s2]
            if len(b['data']) < 2: continue
            def grow(sm):
                sm['data'] = sm['data'] + [3.0]
                for m in sm['modifiers']:
                    if m['type'] == 'histosys': m['data']['lo_data'] += [2.0]; m['data']['hi_data'] += [4.0]
                    elif m['type'] in ('shapesys', 'staterror'): m['data'] = m['data'] + [0.3]
            def shrink(sm):
                sm['data'] = sm['data'][:-1]
                for m in sm['modifiers']:
                    if m['type'] == 'histosys': m['data']['lo_data'] = m['data']['lo_data'][:-1]; m['data']['hi_data'] = m['data']['hi_data'][:-1]
                    elif m['type'] in ('shapesys', 'staterror'): m['data'] = m['data'][:-1]
            grow(a); shrink(b)
            add('sample-length-compensating', s)
            break
    # e) modifier data of the wrong length
    cands = [(ci, si, mi) for ci, c in enumerate(chans) for si, sm in enumerate(c['samples']) for mi, m in enumerate(sm['modifiers'])
             if m['type'] in ('histosys', 'shapesys', 'staterror')]
    rng.shuffle(cands)
    for ci, si, mi in cands[:max_per_class]:
        s = copy.deepcopy(spec); m = s['channels'][ci]['samples'][si]['modifiers'][mi]
        longer = rng.random() < 0.5
        def chg(l): return l + [1.0] if longer or len(l) == 1 else l[:-1]
        if m['type'] == 'histosys':
            m['data']['lo_data'] = chg(m['data']['lo_data']); m['data']['hi_data'] = chg(m['data']['hi_data'])
        else: m['data'] = chg(m['data'])
        add('modifier-length', s)
    # e') two compensating modifier-length errors across channels (same name/type/sample)
    for name in {m['name'] for c in chans for sm in c['samples'] for m in sm['modifiers'] if m['type'] == 'histosys'}:
        places = [(ci, si, mi) for ci, c in enumerate(chans) for si, sm in enumerate(c['samples']) for mi, m in enumerate(sm['modifiers'])
                  if m['type'] == 'histosys' and m['name'] == name]
        bysample = {}
        for ci, si, mi in places: bysample.setdefault(chans[ci]['samples'][si]['name'], []).append((ci, si, mi))
        for smn, pl in bysample.items():
            if len(pl) >= 2:
                s = copy.deepcopy(spec)
                (c1, s1, m1), (c2, s2, m2) = pl[0], pl[1]
                a = s['channels'][c1]['samples'][s1]['modifiers'][m1]['data']; b = s['channels'][c2]['samples'][s2]['modifiers'][m2]['data']
                if len(b['lo_data']) < 2: continue
                a['lo_data'] = a['lo_data'] + [b['lo_data'][-1]]; a['hi_data'] = a['hi_data'] + [b['hi_data'][-1]]
                b['lo_data'] = b['lo_data'][:-1]; b['hi_data'] = b['hi_data'][:-1]
                add('modifier-length-compensating', s)
                break
    # f) a bin-wise modifier shared between places with different bin counts
    nbins = {c['name']: len(c['samples'][0]['data']) for c in chans}
    diff = [(a, b) for a in nbins for b in nbins if a != b and nbins[a] != nbins[b]]
    if diff:
        for _ in range(max_per_class):
            a, b = rng.choice(diff)
            s = copy.deepcopy(spec)
            for cn in (a, b):
                c = [c for c in s['channels'] if c['name'] == cn][0]
                sm = c['samples'][0]
                sm['modifiers'] = [m for m in sm['modifiers'] if m['type'] != 'shapefactor'] + [{'name': 'sf_shared', 'type': 'shapefactor', 'data': None}]
            add('binwise-shared-shapefactor', s)
    if len(chans) >= 2:
        for _ in range(max_per_class):
            s = copy.deepcopy(spec); c1, c2 = rng.sample(s['channels'], 2)
            # staterror shared across channels, declared by different sample sets
            c1['samples'][0]['modifiers'] = [m for m in c1['samples'][0]['modifiers'] if m['type'] != 'staterror'] + \
                [{'name': 'stat_shared', 'type': 'staterror', 'data': [x * 0.1 for x in c1['samples'][0]['data']]}]
            tgt = c2['samples'][-1]
            tgt['modifiers'] = [m for m in tgt['modifiers'] if m['type'] != 'staterror'] + \
                [{'name': 'stat_shared', 'type': 'staterror', 'data': [x * 0.1 for x in tgt['data']]}]
            if c1['samples'][0]['name'] != tgt['name']:
                add('binwise-shared-staterror-masks', s)
    # g) one parameter name demanded with conflicting constraint types or sizes
    allm = [(ci, si) for ci, c in enumerate(chans) for si, sm in enumerate(c['samples'])]
    for _ in range(max_per_class):
        s = copy.deepcopy(spec)
        (c1, s1) = rng.choice(allm); (c2, s2) = rng.choice(allm)
        t1, t2 = rng.choice([('normsys', 'normfactor'), ('normfactor', 'shapefactor'), ('histosys', 'lumi'), ('normsys', 'staterror'),
                             ('shapefactor', 'staterror'), ('normfactor', 'histosys')])
        def mk(t, sm):
            if t == 'normsys': return {'name': 'clash', 'type': t, 'data': {'lo': 0.9, 'hi': 1.1}}
            if t == 'histosys': return {'name': 'clash', 'type': t, 'data': {'lo_data': [x * 0.9 for x in sm['data']], 'hi_data': [x * 1.1 for x in sm['data']]}}
            if t == 'staterror': return {'name': 'clash', 'type': t, 'data': [x * 0.1 for x in sm['data']]}
            return {'name': 'clash', 'type': t, 'data': None}
        sm1 = s['channels'][c1]['samples'][s1]; sm2 = s['channels'][c2]['samples'][s2]
        if (c1, s1) == (c2, s2) and t1 == t2: continue
        sm1['modifiers'] = [m for m in sm1['modifiers'] if m['type'] not in (t1,)] + [mk(t1, sm1)]
        sm2['modifiers'] = [m for m in sm2['modifiers'] if m['type'] not in (t2,)] + [mk(t2, sm2)]
        if t2 == 'lumi' or t1 == 'lumi':
            s['parameters'] = [p for p in s['parameters'] if p['name'] != 'lumi']
        add('conflicting-paramset', s)
    # h) override of the wrong length
    for _ in range(max_per_class):
        s = copy.deepcopy(spec)
        names = {}
        for c in s['channels']:
            for sm in c['samples']:
                for m in sm['modifiers']:
                    names.setdefault(m['name'], (m['type'], len(sm['data'])))
        nm = rng.choice(sorted(names)); t, nb = names[nm]
        n = 1 if t in ('normsys', 'histosys', 'normfactor', 'lumi') else nb
        key = rng.choice(['inits', 'bounds'] + (['auxdata'] if t in ('normsys', 'histosys', 'staterror', 'shapesys', 'lumi') else []) +
                         (['sigmas'] if t in ('staterror', 'lumi') else []) + (['factors'] if t == 'shapesys' else []))
        bad = n + rng.choice([1, 2]) if rng.random() < 0.7 or n == 1 else n - 1
        val = [[0.0, 2.0]] * bad if key == 'bounds' else [1.0] * bad
        p = [p for p in s['parameters'] if p['name'] == nm]
        if p: p[0][key] = val
        else: s['parameters'].append({'name': nm, key: val})
        add('override-length' + ('-lumi' if t == 'lumi' else ''), s)
    # h') duplicate parameter configuration
    if spec['parameters']:
        s = copy.deepcopy(spec); s['parameters'].append(copy.deepcopy(rng.choice(s['parameters'])))
        add('duplicate-parameter-config', s)
    # i) undefined POI / multi-component POI
    add('undefined-poi', copy.deepcopy(spec), 'no_such_parameter')
    multi = [m['name'] for c in chans for sm in c['samples'] for m in sm['modifiers'] if m['type'] in ('shapesys', 'staterror', 'shapefactor') and len(sm['data']) > 1]
    if multi: add('multi-component-poi', copy.deepcopy(spec), rng.choice(multi))
    # j) luminosity modifier without luminosity settings
    s = copy.deepcopy(spec)
    if not any(m['type'] == 'lumi' for c in s['channels'] for sm in c['samples'] for m in sm['modifiers']):
        s['channels'][0]['samples'][0]['modifiers'].append({'name': 'lumi', 'type': 'lumi', 'data': None})
    s['parameters'] = [p for p in s['parameters'] if p['name'] != 'lumi']
    add('lumi-without-settings', s)
    s = copy.deepcopy(s); s['parameters'].append({'name': 'lumi', 'auxdata': [1.0], 'inits': [1.0], 'bounds': [[0.5, 1.5]]})
    add('lumi-without-sigmas', s)
    # shapesys reuse (non-shared modifier on two samples)
    ss = [(ci, si, m) for ci, c in enumerate(chans) for si, sm in enumerate(c['samples']) for m in sm['modifiers'] if m['type'] == 'shapesys']
    if ss:
        ci, si, m = rng.choice(ss); s = copy.deepcopy(spec)
        others = [(cj, sj) for cj, c in enumerate(chans) for sj, sm in enumerate(c['samples']) if (cj, sj) != (ci, si)]
        if others:
            cj, sj = rng.choice(others); tgt = s['channels'][cj]['samples'][sj]
            tgt['modifiers'] = [x for x in tgt['modifiers'] if x['type'] != 'shapesys'] + [{'name': m['name'], 'type': 'shapesys', 'data': [x * 0.1 for x in tgt['data']]}]
            add('shapesys-reuse', s)
    return out
