"""Generator of well-formed HistFactory specifications (shared by C01/C02/C10/C12/C13/C15/C20)."""
import copy, math

SAMPLE_POOL = ['signal', 'bkg1', 'bkg2', 'qcd', 'ttbar']
SYS_POOL = ['sysA', 'sysB', 'sysC', 'jes']


def rnd_yield(rng):
    r = rng.random()
    if r < 0.2:
        return float(rng.choice([1, 2, 4, 8, 10, 12, 20, 50, 64]))
    return round(rng.uniform(5, 120), rng.choice([0, 1, 3]))


def gen_spec(rng, max_channels=3, max_samples=3, max_bins=4, want=None, simple=False, avoid=(), cross_channel_stat=False, zero_stat_unc=False):
    """returns (spec, info).  `want`: optional set of modifier types that must appear; `avoid`: systematic names / modifier types never used
    `cross_channel_stat`: allow one MC-statistical name shared by several channels (only for the checks of the tensor engine: the XML
    format and the sample-splitting rewrites of other checks presuppose one staterror name per channel).
    `zero_stat_unc`: a sample may declare MC-statistical uncertainty 0 in a bin where it has a yield (a data-driven background next to
    simulated ones): its yield still counts in the total the bin's width is relative to.
    (parameter sets are created by modifier type — histosys, lumi, normfactor, normsys, shapefactor, shapesys, staterror — then by name, so
    avoiding SYS_POOL and 'lumi' puts the Poisson-constrained shapesys block *first* in the auxiliary data)."""
    nch = rng.randint(1, max_channels)
    gap_layout = cross_channel_stat and (not simple) and max_channels >= 3 and rng.random() < 0.12
    if gap_layout: nch = 3
    chan_names = rng.sample(['SR', 'CR1', 'CR2', 'VR', 'A_ch'], nch)
    channels = []
    shapefactor_bins = {}   # name -> nbins
    used_types = set()
    # one MC-statistical name shared by several channels: declared there by one and the same sample (construction refuses declaring
    # samples whose channel sets differ); one parameter per bin of every declaring channel, and channels that do not declare it may lie
    # between them in the configuration's channel order
    shared_stat = set(rng.sample(chan_names, rng.randint(2, nch))) if (cross_channel_stat and nch >= 2 and not simple and rng.random() < 0.25) else set()
    if gap_layout: shared_stat = {min(chan_names), max(chan_names)}       # the channel that does not declare it sorts between the two that do
    shared_sample = rng.choice(SAMPLE_POOL[1:])
    for cname in chan_names:
        nb = rng.randint(1, max_bins)
        ns = rng.randint(1, max_samples)
        snames = rng.sample(SAMPLE_POOL, ns)
        if 'signal' not in snames and cname == chan_names[0]:
            snames[0] = 'signal'
        if cname in shared_stat and shared_sample not in snames:
            k = max(i for i, n_ in enumerate(snames) if n_ != 'signal') if any(n_ != 'signal' for n_ in snames) else None
            if k is not None: snames[k] = shared_sample
            else: snames.append(shared_sample)
        stat_samples = [s for s in snames if rng.random() < 0.5]
        samples = []
        for sname in snames:
            data = [rnd_yield(rng) for _ in range(nb)]
            mods = []
            if 'normfactor' in avoid:
                pass
            elif sname == 'signal':
                mods.append({'name': 'mu', 'type': 'normfactor', 'data': None})
            elif rng.random() < 0.25:
                mods.append({'name': rng.choice(['mu', 'k_bkg']), 'type': 'normfactor', 'data': None})
            if not simple:
                for sysn in SYS_POOL:
                    r = rng.random()
                    if sysn in avoid: continue
                    if r < 0.22:
                        mods.append({'name': sysn, 'type': 'normsys',
                                     'data': {'lo': round(rng.uniform(0.7, 0.97), 3), 'hi': round(rng.uniform(1.03, 1.3), 3)}})
                    if 0.15 < r < 0.37:
                        lo = [round(d * rng.uniform(0.75, 1.0), 3) for d in data]
                        hi = [round(d * rng.uniform(1.0, 1.3), 3) for d in data]
                        if rng.random() < 0.3:   # one-sided / asymmetric-sign variations
                            hi = [round(d * rng.uniform(0.8, 1.0), 3) for d in data]
                        mods.append({'name': sysn, 'type': 'histosys', 'data': {'lo_data': lo, 'hi_data': hi}})
                if rng.random() < 0.3 and 'lumi' not in avoid:
                    mods.append({'name': 'lumi', 'type': 'lumi', 'data': None})
                if rng.random() < 0.3:
                    unc = [round(d * rng.uniform(0.05, 0.3), 3) for d in data]
                    if rng.random() < 0.25:
                        unc[rng.randrange(nb)] = 0.0     # zero-uncertainty bin -> fixed gamma
                    mods.append({'name': f'ss_{cname}_{sname}', 'type': 'shapesys', 'data': unc})
                if cname in shared_stat and sname == shared_sample:
                    unc = [round(d * rng.uniform(0.02, 0.2), 3) for d in data]
                    mods.append({'name': 'staterror_shared', 'type': 'staterror', 'data': unc})
                elif sname in stat_samples:
                    unc = [round(d * rng.uniform(0.02, 0.2), 3) for d in data]
                    if zero_stat_unc and rng.random() < 0.35: unc[rng.randrange(nb)] = 0.0
                    mods.append({'name': f'staterror_{cname}', 'type': 'staterror', 'data': unc})
                if rng.random() < 0.15:
                    cand = [n for n, b in shapefactor_bins.items() if b == nb]
                    if cand and rng.random() < 0.5:
                        sfn = rng.choice(cand)
                    else:
                        sfn = f'sf_{cname}'
                        shapefactor_bins[sfn] = nb
                    if not any(m['type'] == 'shapefactor' for m in mods):
                        mods.append({'name': sfn, 'type': 'shapefactor', 'data': None})
            rng.shuffle(mods)
            used_types.update(m['type'] for m in mods)
            samples.append({'name': sname, 'data': data, 'modifiers': mods})
        if not simple and ns >= 2 and rng.random() < 0.15:
            # an empty bin in one sample (valid: e.g. cancelling MC weights) while its variations / MC-statistical uncertainty stay
            # non-zero and another sample populates the bin
            b = rng.randrange(nb); k = rng.randrange(ns)
            if any(sm['data'][b] >= 5 for j, sm in enumerate(samples) if j != k):
                samples[k]['data'][b] = 0.0
        rng.shuffle(samples)
        channels.append({'name': cname, 'samples': samples})
    rng.shuffle(channels)
    parameters = []
    if 'lumi' in used_types:
        c = rng.choice([1.0, 1.0, 0.95, 1.1, 2.0])
        parameters.append({'name': 'lumi', 'auxdata': [c], 'sigmas': [round(c * rng.choice([0.017, 0.05, 0.1]), 4)],
                           'bounds': [[round(0.5 * c, 3), round(1.5 * c, 3)]], 'inits': [c]})
        if rng.random() < 0.3:
            parameters[-1]['fixed'] = True
    spec = {'channels': channels, 'parameters': parameters}
    if want and not (set(want) <= used_types):
        return gen_spec(rng, max_channels, max_samples, max_bins, want, simple, avoid, cross_channel_stat)
    return spec, {'types': sorted(used_types), 'nch': nch}


def add_overrides(rng, spec, model_names):
    """random admissible measurement overrides for existing parameter names"""
    spec = copy.deepcopy(spec)
    have = {p['name'] for p in spec['parameters']}
    for name, (n, kind) in model_names.items():
        if name in have or rng.random() > (0.6 if kind in ('shapesys', 'staterror') else 0.35):
            continue
        p = {'name': name}
        if kind in ('normsys', 'histosys'):
            if rng.random() < 0.5: p['inits'] = [round(rng.uniform(-0.5, 0.5), 2)] * n
            if rng.random() < 0.5: p['bounds'] = [[-4.0, 4.0]] * n
            if rng.random() < 0.4: p['auxdata'] = [round(rng.uniform(-0.3, 0.3), 2)] * n
        elif kind == 'normfactor':
            if rng.random() < 0.6: p['inits'] = [round(rng.uniform(0.5, 2.0), 2)]
            if rng.random() < 0.6: p['bounds'] = [[rng.choice([-5.0, 0.0]), rng.choice([5.0, 10.0, 20.0])]]
        elif kind == 'staterror':
            if rng.random() < 0.5: p['inits'] = [round(rng.uniform(0.9, 1.1), 2) for _ in range(n)]
            if rng.random() < 0.3: p['sigmas'] = [round(rng.uniform(0.02, 0.2), 3) for _ in range(n)]
            if rng.random() < 0.3: p['auxdata'] = [round(rng.uniform(0.9, 1.1), 2) for _ in range(n)]
        elif kind == 'shapesys':
            if rng.random() < 0.4: p['factors'] = [round(rng.uniform(5, 50), 1) for _ in range(n)]
            if rng.random() < 0.4: p['auxdata'] = [round(rng.uniform(5, 50), 1) for _ in range(n)]
        elif kind == 'shapefactor':
            if rng.random() < 0.5: p['inits'] = [round(rng.uniform(0.5, 2.0), 2) for _ in range(n)]
        if rng.random() < (0.5 if kind in ('shapesys', 'staterror') else 0.3): p['fixed'] = rng.random() < 0.5
        if len(p) > 1:
            spec['parameters'].append(p)
    rng.shuffle(spec['parameters'])
    return spec


def gen_pars(rng, init, bounds, names):
    """a parameter point hitting interpolation regimes: core, tails, breakpoints and neighbours"""
    out = []
    for x0, (lo, hi), nm in zip(init, bounds, names):
        alpha_like = (lo < 0 and abs(x0) < 0.6 and hi <= 5.5)
        r = rng.random()
        if alpha_like:
            if r < 0.15: v = rng.choice([1.0, -1.0, 0.0])
            elif r < 0.3: v = rng.choice([1.0, -1.0]) * (1 + rng.choice([1, -1]) * 2.0 ** -40)
            elif r < 0.6: v = rng.uniform(-1, 1)
            elif r < 0.9: v = rng.choice([-1, 1]) * rng.uniform(1, 3.5)
            else: v = rng.choice([lo, hi])
            v = min(max(v, lo), hi) if rng.random() < 0.5 else v
        else:
            if r < 0.2: v = x0
            elif r < 0.9: v = rng.uniform(max(lo, 0.3 * (x0 if x0 > 0 else 1)), min(hi, 1.8 * (x0 if x0 > 0 else 1)))
            else: v = rng.choice([0.5, 1.0, 1.5, 2.0])
            if v <= 0: v = 0.7
        out.append(float(v))
    return out
