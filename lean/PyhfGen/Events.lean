/-!
# GENERATED — do not edit.  Regenerated on every C11 check by `harness/gen_events.py`: `events.Callables` with three subscribed bound
methods (objects 0, 1, 2) and one plain function (id 9, subscribed second), dispatched once with symbolic liveness `a0 a1 a2` of the
three objects.  Result: (callbacks invoked, in order; registry entries left after the flush).
-/
namespace Pyhf.Gen

/-- `events.Callables` (source sha256 948ca1cb1c81855e…): `append` ×4, then `__call__()` -/
def callables_dispatch (a0 a1 a2 : Bool) : List Nat × List Nat :=
  if a0 = true then
    if a1 = true then
      if a2 = true then
        ([0, 9, 1, 2], [0, 9, 1, 2])
      else
        ([0, 9, 1], [0, 9, 1])
    else
      if a2 = true then
        ([0, 9, 2], [0, 9, 2])
      else
        ([0, 9], [0, 9])
  else
    if a1 = true then
      if a2 = true then
        ([9, 1, 2], [9, 1, 2])
      else
        ([9, 1], [9, 1])
    else
      if a2 = true then
        ([9, 2], [9, 2])
      else
        ([9], [9])

end Pyhf.Gen
