/-!
# GENERATED — do not edit.  Regenerated on every C16 check by `harness/gen_join.py`: `_join_items(join, [L0, L1], [R0, R1])` of
`src/pyhf/workspace.py` on items with symbolic names (`nl0 nl1 nr0 nr1`) and bodies (`bl0 bl1 br0 br1`), every feasible combination of
equalities enumerated; the result as the list of (name, body) pairs.
-/
namespace Pyhf.Gen
section
variable {B : Type} [DecidableEq B]

/-! `_join_items` source sha256 933a013d1e9716ab… -/

/-- `_join_items('none', [L0, L1], [R0, R1])` -/
def join_none (nl0 nl1 nr0 nr1 : String) (bl0 bl1 br0 br1 : B) : List (String × B) :=
  if nl0 = nr0 then
    if nl0 = nr1 then
      [(nl0, bl0), (nl1, bl1), (nr0, br0), (nr1, br1)]
    else
      if nl1 = nr1 then
        [(nl0, bl0), (nl1, bl1), (nr0, br0), (nr1, br1)]
      else
        [(nl0, bl0), (nl1, bl1), (nr0, br0), (nr1, br1)]
  else
    if nl1 = nr0 then
      if nl0 = nr1 then
        [(nl0, bl0), (nl1, bl1), (nr0, br0), (nr1, br1)]
      else
        if nl1 = nr1 then
          [(nl0, bl0), (nl1, bl1), (nr0, br0), (nr1, br1)]
        else
          [(nl0, bl0), (nl1, bl1), (nr0, br0), (nr1, br1)]
    else
      if nl0 = nr1 then
        [(nl0, bl0), (nl1, bl1), (nr0, br0), (nr1, br1)]
      else
        if nl1 = nr1 then
          [(nl0, bl0), (nl1, bl1), (nr0, br0), (nr1, br1)]
        else
          [(nl0, bl0), (nl1, bl1), (nr0, br0), (nr1, br1)]

/-- `_join_items('outer', [L0, L1], [R0, R1])` -/
def join_outer (nl0 nl1 nr0 nr1 : String) (bl0 bl1 br0 br1 : B) : List (String × B) :=
  if nl0 = nr0 then
    if bl0 = br0 then
      if nl0 = nr1 then
        if bl0 = br1 then
          [(nl0, bl0), (nl1, bl1)]
        else
          if nl1 = nr1 then
            if bl1 = br1 then
              [(nl0, bl0), (nl1, bl1)]
            else
              [(nl0, bl0), (nl1, bl1), (nr1, br1)]
          else
            [(nl0, bl0), (nl1, bl1), (nr1, br1)]
      else
        if nl1 = nr1 then
          if bl1 = br1 then
            [(nl0, bl0), (nl1, bl1)]
          else
            [(nl0, bl0), (nl1, bl1), (nr1, br1)]
        else
          [(nl0, bl0), (nl1, bl1), (nr1, br1)]
    else
      if nl1 = nr0 then
        if bl1 = br0 then
          if nl0 = nr1 then
            if bl0 = br1 then
              [(nl0, bl0), (nl1, bl1)]
            else
              if nl1 = nr1 then
                if bl1 = br1 then
                  [(nl0, bl0), (nl1, bl1)]
                else
                  [(nl0, bl0), (nl1, bl1), (nr1, br1)]
              else
                [(nl0, bl0), (nl1, bl1), (nr1, br1)]
          else
            if nl1 = nr1 then
              if bl1 = br1 then
                [(nl0, bl0), (nl1, bl1)]
              else
                [(nl0, bl0), (nl1, bl1), (nr1, br1)]
            else
              [(nl0, bl0), (nl1, bl1), (nr1, br1)]
        else
          if nl0 = nr1 then
            if bl0 = br1 then
              [(nl0, bl0), (nl1, bl1), (nr0, br0)]
            else
              if nl1 = nr1 then
                if bl1 = br1 then
                  [(nl0, bl0), (nl1, bl1), (nr0, br0)]
                else
                  [(nl0, bl0), (nl1, bl1), (nr0, br0), (nr1, br1)]
              else
                [(nl0, bl0), (nl1, bl1), (nr0, br0), (nr1, br1)]
          else
            if nl1 = nr1 then
              if bl1 = br1 then
                [(nl0, bl0), (nl1, bl1), (nr0, br0)]
              else
                [(nl0, bl0), (nl1, bl1), (nr0, br0), (nr1, br1)]
            else
              [(nl0, bl0), (nl1, bl1), (nr0, br0), (nr1, br1)]
      else
        if nl0 = nr1 then
          if bl0 = br1 then
            [(nl0, bl0), (nl1, bl1), (nr0, br0)]
          else
            if nl1 = nr1 then
              if bl1 = br1 then
                [(nl0, bl0), (nl1, bl1), (nr0, br0)]
              else
                [(nl0, bl0), (nl1, bl1), (nr0, br0), (nr1, br1)]
            else
              [(nl0, bl0), (nl1, bl1), (nr0, br0), (nr1, br1)]
        else
          if nl1 = nr1 then
            if bl1 = br1 then
              [(nl0, bl0), (nl1, bl1), (nr0, br0)]
            else
              [(nl0, bl0), (nl1, bl1), (nr0, br0), (nr1, br1)]
          else
            [(nl0, bl0), (nl1, bl1), (nr0, br0), (nr1, br1)]
  else
    if nl1 = nr0 then
      if bl1 = br0 then
        if nl0 = nr1 then
          if bl0 = br1 then
            [(nl0, bl0), (nl1, bl1)]
          else
            if nl1 = nr1 then
              if bl1 = br1 then
                [(nl0, bl0), (nl1, bl1)]
              else
                [(nl0, bl0), (nl1, bl1), (nr1, br1)]
            else
              [(nl0, bl0), (nl1, bl1), (nr1, br1)]
        else
          if nl1 = nr1 then
            if bl1 = br1 then
              [(nl0, bl0), (nl1, bl1)]
            else
              [(nl0, bl0), (nl1, bl1), (nr1, br1)]
          else
            [(nl0, bl0), (nl1, bl1), (nr1, br1)]
      else
        if nl0 = nr1 then
          if bl0 = br1 then
            [(nl0, bl0), (nl1, bl1), (nr0, br0)]
          else
            if nl1 = nr1 then
              if bl1 = br1 then
                [(nl0, bl0), (nl1, bl1), (nr0, br0)]
              else
                [(nl0, bl0), (nl1, bl1), (nr0, br0), (nr1, br1)]
            else
              [(nl0, bl0), (nl1, bl1), (nr0, br0), (nr1, br1)]
        else
          if nl1 = nr1 then
            if bl1 = br1 then
              [(nl0, bl0), (nl1, bl1), (nr0, br0)]
            else
              [(nl0, bl0), (nl1, bl1), (nr0, br0), (nr1, br1)]
          else
            [(nl0, bl0), (nl1, bl1), (nr0, br0), (nr1, br1)]
    else
      if nl0 = nr1 then
        if bl0 = br1 then
          [(nl0, bl0), (nl1, bl1), (nr0, br0)]
        else
          if nl1 = nr1 then
            if bl1 = br1 then
              [(nl0, bl0), (nl1, bl1), (nr0, br0)]
            else
              [(nl0, bl0), (nl1, bl1), (nr0, br0), (nr1, br1)]
          else
            [(nl0, bl0), (nl1, bl1), (nr0, br0), (nr1, br1)]
      else
        if nl1 = nr1 then
          if bl1 = br1 then
            [(nl0, bl0), (nl1, bl1), (nr0, br0)]
          else
            [(nl0, bl0), (nl1, bl1), (nr0, br0), (nr1, br1)]
        else
          [(nl0, bl0), (nl1, bl1), (nr0, br0), (nr1, br1)]

/-- `_join_items('left outer', [L0, L1], [R0, R1])` -/
def join_leftOuter (nl0 nl1 nr0 nr1 : String) (bl0 bl1 br0 br1 : B) : List (String × B) :=
  if nl0 = nr0 then
    if nl0 = nr1 then
      [(nl0, bl0), (nl1, bl1)]
    else
      if nl1 = nr1 then
        [(nl0, bl0), (nl1, bl1)]
      else
        [(nl0, bl0), (nl1, bl1), (nr1, br1)]
  else
    if nl1 = nr0 then
      if nl0 = nr1 then
        [(nl0, bl0), (nl1, bl1)]
      else
        if nl1 = nr1 then
          [(nl0, bl0), (nl1, bl1)]
        else
          [(nl0, bl0), (nl1, bl1), (nr1, br1)]
    else
      if nl0 = nr1 then
        [(nl0, bl0), (nl1, bl1), (nr0, br0)]
      else
        if nl1 = nr1 then
          [(nl0, bl0), (nl1, bl1), (nr0, br0)]
        else
          [(nl0, bl0), (nl1, bl1), (nr0, br0), (nr1, br1)]

/-- `_join_items('right outer', [L0, L1], [R0, R1])` -/
def join_rightOuter (nl0 nl1 nr0 nr1 : String) (bl0 bl1 br0 br1 : B) : List (String × B) :=
  if nl0 = nr0 then
    if nl1 = nr0 then
      [(nr0, br0), (nr1, br1)]
    else
      if nl1 = nr1 then
        [(nr0, br0), (nr1, br1)]
      else
        [(nr0, br0), (nr1, br1), (nl1, bl1)]
  else
    if nl0 = nr1 then
      if nl1 = nr0 then
        [(nr0, br0), (nr1, br1)]
      else
        if nl1 = nr1 then
          [(nr0, br0), (nr1, br1)]
        else
          [(nr0, br0), (nr1, br1), (nl1, bl1)]
    else
      if nl1 = nr0 then
        [(nr0, br0), (nr1, br1), (nl0, bl0)]
      else
        if nl1 = nr1 then
          [(nr0, br0), (nr1, br1), (nl0, bl0)]
        else
          [(nr0, br0), (nr1, br1), (nl0, bl0), (nl1, bl1)]

/-- `_join_channels('none', [L0, L1], [R0, R1])` (source sha256 ac659b0e427702f5…): `none` = `InvalidWorkspaceOperation` -/
def join_chan_none (nl0 nl1 nr0 nr1 : String) (bl0 bl1 br0 br1 : B) : Option (List (String × B)) :=
  if nl0 = nr0 then
    none
  else
    if nl1 = nr0 then
      if nl0 = nr1 then
        none
      else
        if nl0 = nl1 then
          some [(nl0, bl0), (nl1, bl1), (nr0, br0), (nr1, br1)]
        else
          none
    else
      if nl0 = nr1 then
        none
      else
        if nl1 = nr1 then
          if nl0 = nl1 then
            some [(nl0, bl0), (nl1, bl1), (nr0, br0), (nr1, br1)]
          else
            none
        else
          some [(nl0, bl0), (nl1, bl1), (nr0, br0), (nr1, br1)]

/-- `_join_channels('outer', [L0, L1], [R0, R1])` (source sha256 ac659b0e427702f5…): `none` = `InvalidWorkspaceOperation` -/
def join_chan_outer (nl0 nl1 nr0 nr1 : String) (bl0 bl1 br0 br1 : B) : Option (List (String × B)) :=
  if nl0 = nr0 then
    if bl0 = br0 then
      if nl0 = nr1 then
        if bl0 = br1 then
          if nl0 = nl1 then
            none
          else
            some [(nl0, bl0), (nl1, bl1)]
        else
          if nl1 = nr1 then
            if bl1 = br1 then
              if nl0 = nl1 then
                none
              else
                some [(nl0, bl0), (nl1, bl1)]
            else
              none
          else
            none
      else
        if nl1 = nr1 then
          if bl1 = br1 then
            if nl0 = nl1 then
              none
            else
              some [(nl0, bl0), (nl1, bl1)]
          else
            none
        else
          if nl0 = nl1 then
            none
          else
            some [(nl0, bl0), (nl1, bl1), (nr1, br1)]
    else
      if nl1 = nr0 then
        if bl1 = br0 then
          if nl0 = nr1 then
            if bl0 = br1 then
              if nl0 = nl1 then
                none
              else
                some [(nl0, bl0), (nl1, bl1)]
            else
              if nl1 = nr1 then
                if bl1 = br1 then
                  if nl0 = nl1 then
                    none
                  else
                    some [(nl0, bl0), (nl1, bl1)]
                else
                  none
              else
                none
          else
            if nl1 = nr1 then
              if bl1 = br1 then
                if nl0 = nl1 then
                  none
                else
                  some [(nl0, bl0), (nl1, bl1)]
              else
                none
            else
              if nl0 = nl1 then
                none
              else
                some [(nl0, bl0), (nl1, bl1), (nr1, br1)]
        else
          none
      else
        none
  else
    if nl1 = nr0 then
      if bl1 = br0 then
        if nl0 = nr1 then
          if bl0 = br1 then
            if nl0 = nl1 then
              none
            else
              some [(nl0, bl0), (nl1, bl1)]
          else
            if nl1 = nr1 then
              if bl1 = br1 then
                if nl0 = nl1 then
                  none
                else
                  some [(nl0, bl0), (nl1, bl1)]
              else
                none
            else
              none
        else
          if nl1 = nr1 then
            if bl1 = br1 then
              if nl0 = nl1 then
                none
              else
                some [(nl0, bl0), (nl1, bl1)]
            else
              none
          else
            if nl0 = nl1 then
              none
            else
              some [(nl0, bl0), (nl1, bl1), (nr1, br1)]
      else
        none
    else
      if nl0 = nr1 then
        if bl0 = br1 then
          if nl0 = nl1 then
            none
          else
            some [(nl0, bl0), (nl1, bl1), (nr0, br0)]
        else
          if nl1 = nr1 then
            if bl1 = br1 then
              if nl0 = nl1 then
                none
              else
                some [(nl0, bl0), (nl1, bl1), (nr0, br0)]
            else
              none
          else
            none
      else
        if nl1 = nr1 then
          if bl1 = br1 then
            if nl0 = nl1 then
              none
            else
              some [(nl0, bl0), (nl1, bl1), (nr0, br0)]
          else
            none
        else
          if nl0 = nl1 then
            none
          else
            if nr0 = nr1 then
              none
            else
              some [(nl0, bl0), (nl1, bl1), (nr0, br0), (nr1, br1)]

/-- `_join_channels('left outer', [L0, L1], [R0, R1])` (source sha256 ac659b0e427702f5…): `none` = `InvalidWorkspaceOperation` -/
def join_chan_leftOuter (nl0 nl1 nr0 nr1 : String) (bl0 bl1 br0 br1 : B) : Option (List (String × B)) :=
  if nl0 = nr0 then
    if nl0 = nr1 then
      some [(nl0, bl0), (nl1, bl1)]
    else
      if nl1 = nr1 then
        some [(nl0, bl0), (nl1, bl1)]
      else
        some [(nl0, bl0), (nl1, bl1), (nr1, br1)]
  else
    if nl1 = nr0 then
      if nl0 = nr1 then
        some [(nl0, bl0), (nl1, bl1)]
      else
        if nl1 = nr1 then
          some [(nl0, bl0), (nl1, bl1)]
        else
          some [(nl0, bl0), (nl1, bl1), (nr1, br1)]
    else
      if nl0 = nr1 then
        some [(nl0, bl0), (nl1, bl1), (nr0, br0)]
      else
        if nl1 = nr1 then
          some [(nl0, bl0), (nl1, bl1), (nr0, br0)]
        else
          some [(nl0, bl0), (nl1, bl1), (nr0, br0), (nr1, br1)]

/-- `_join_channels('right outer', [L0, L1], [R0, R1])` (source sha256 ac659b0e427702f5…): `none` = `InvalidWorkspaceOperation` -/
def join_chan_rightOuter (nl0 nl1 nr0 nr1 : String) (bl0 bl1 br0 br1 : B) : Option (List (String × B)) :=
  if nl0 = nr0 then
    if nl1 = nr0 then
      some [(nr0, br0), (nr1, br1)]
    else
      if nl1 = nr1 then
        some [(nr0, br0), (nr1, br1)]
      else
        some [(nr0, br0), (nr1, br1), (nl1, bl1)]
  else
    if nl0 = nr1 then
      if nl1 = nr0 then
        some [(nr0, br0), (nr1, br1)]
      else
        if nl1 = nr1 then
          some [(nr0, br0), (nr1, br1)]
        else
          some [(nr0, br0), (nr1, br1), (nl1, bl1)]
    else
      if nl1 = nr0 then
        some [(nr0, br0), (nr1, br1), (nl0, bl0)]
      else
        if nl1 = nr1 then
          some [(nr0, br0), (nr1, br1), (nl0, bl0)]
        else
          some [(nr0, br0), (nr1, br1), (nl0, bl0), (nl1, bl1)]

/-- `_join_observations('none', [L0, L1], [R0, R1])` (source sha256 b6d261f37c7fc101…): `none` = `InvalidWorkspaceOperation` -/
def join_obs_none (nl0 nl1 nr0 nr1 : String) (bl0 bl1 br0 br1 : B) : Option (List (String × B)) :=
  if nl0 = nr0 then
    none
  else
    if nl1 = nr0 then
      if nl0 = nr1 then
        none
      else
        if nl0 = nl1 then
          some [(nl0, bl0), (nl1, bl1), (nr0, br0), (nr1, br1)]
        else
          none
    else
      if nl0 = nr1 then
        none
      else
        if nl1 = nr1 then
          if nl0 = nl1 then
            some [(nl0, bl0), (nl1, bl1), (nr0, br0), (nr1, br1)]
          else
            none
        else
          some [(nl0, bl0), (nl1, bl1), (nr0, br0), (nr1, br1)]

/-- `_join_observations('outer', [L0, L1], [R0, R1])` (source sha256 b6d261f37c7fc101…): `none` = `InvalidWorkspaceOperation` -/
def join_obs_outer (nl0 nl1 nr0 nr1 : String) (bl0 bl1 br0 br1 : B) : Option (List (String × B)) :=
  if nl0 = nr0 then
    if bl0 = br0 then
      if nl0 = nr1 then
        if bl0 = br1 then
          if nl0 = nl1 then
            none
          else
            some [(nl0, bl0), (nl1, bl1)]
        else
          if nl1 = nr1 then
            if bl1 = br1 then
              if nl0 = nl1 then
                none
              else
                some [(nl0, bl0), (nl1, bl1)]
            else
              none
          else
            none
      else
        if nl1 = nr1 then
          if bl1 = br1 then
            if nl0 = nl1 then
              none
            else
              some [(nl0, bl0), (nl1, bl1)]
          else
            none
        else
          if nl0 = nl1 then
            none
          else
            some [(nl0, bl0), (nl1, bl1), (nr1, br1)]
    else
      if nl1 = nr0 then
        if bl1 = br0 then
          if nl0 = nr1 then
            if bl0 = br1 then
              if nl0 = nl1 then
                none
              else
                some [(nl0, bl0), (nl1, bl1)]
            else
              if nl1 = nr1 then
                if bl1 = br1 then
                  if nl0 = nl1 then
                    none
                  else
                    some [(nl0, bl0), (nl1, bl1)]
                else
                  none
              else
                none
          else
            if nl1 = nr1 then
              if bl1 = br1 then
                if nl0 = nl1 then
                  none
                else
                  some [(nl0, bl0), (nl1, bl1)]
              else
                none
            else
              if nl0 = nl1 then
                none
              else
                some [(nl0, bl0), (nl1, bl1), (nr1, br1)]
        else
          none
      else
        none
  else
    if nl1 = nr0 then
      if bl1 = br0 then
        if nl0 = nr1 then
          if bl0 = br1 then
            if nl0 = nl1 then
              none
            else
              some [(nl0, bl0), (nl1, bl1)]
          else
            if nl1 = nr1 then
              if bl1 = br1 then
                if nl0 = nl1 then
                  none
                else
                  some [(nl0, bl0), (nl1, bl1)]
              else
                none
            else
              none
        else
          if nl1 = nr1 then
            if bl1 = br1 then
              if nl0 = nl1 then
                none
              else
                some [(nl0, bl0), (nl1, bl1)]
            else
              none
          else
            if nl0 = nl1 then
              none
            else
              some [(nl0, bl0), (nl1, bl1), (nr1, br1)]
      else
        none
    else
      if nl0 = nr1 then
        if bl0 = br1 then
          if nl0 = nl1 then
            none
          else
            some [(nl0, bl0), (nl1, bl1), (nr0, br0)]
        else
          if nl1 = nr1 then
            if bl1 = br1 then
              if nl0 = nl1 then
                none
              else
                some [(nl0, bl0), (nl1, bl1), (nr0, br0)]
            else
              none
          else
            none
      else
        if nl1 = nr1 then
          if bl1 = br1 then
            if nl0 = nl1 then
              none
            else
              some [(nl0, bl0), (nl1, bl1), (nr0, br0)]
          else
            none
        else
          if nl0 = nl1 then
            none
          else
            if nr0 = nr1 then
              none
            else
              some [(nl0, bl0), (nl1, bl1), (nr0, br0), (nr1, br1)]

/-- `_join_observations('left outer', [L0, L1], [R0, R1])` (source sha256 b6d261f37c7fc101…): `none` = `InvalidWorkspaceOperation` -/
def join_obs_leftOuter (nl0 nl1 nr0 nr1 : String) (bl0 bl1 br0 br1 : B) : Option (List (String × B)) :=
  if nl0 = nr0 then
    if nl0 = nr1 then
      some [(nl0, bl0), (nl1, bl1)]
    else
      if nl1 = nr1 then
        some [(nl0, bl0), (nl1, bl1)]
      else
        some [(nl0, bl0), (nl1, bl1), (nr1, br1)]
  else
    if nl1 = nr0 then
      if nl0 = nr1 then
        some [(nl0, bl0), (nl1, bl1)]
      else
        if nl1 = nr1 then
          some [(nl0, bl0), (nl1, bl1)]
        else
          some [(nl0, bl0), (nl1, bl1), (nr1, br1)]
    else
      if nl0 = nr1 then
        some [(nl0, bl0), (nl1, bl1), (nr0, br0)]
      else
        if nl1 = nr1 then
          some [(nl0, bl0), (nl1, bl1), (nr0, br0)]
        else
          some [(nl0, bl0), (nl1, bl1), (nr0, br0), (nr1, br1)]

/-- `_join_observations('right outer', [L0, L1], [R0, R1])` (source sha256 b6d261f37c7fc101…): `none` = `InvalidWorkspaceOperation` -/
def join_obs_rightOuter (nl0 nl1 nr0 nr1 : String) (bl0 bl1 br0 br1 : B) : Option (List (String × B)) :=
  if nl0 = nr0 then
    if nl1 = nr0 then
      some [(nr0, br0), (nr1, br1)]
    else
      if nl1 = nr1 then
        some [(nr0, br0), (nr1, br1)]
      else
        some [(nr0, br0), (nr1, br1), (nl1, bl1)]
  else
    if nl0 = nr1 then
      if nl1 = nr0 then
        some [(nr0, br0), (nr1, br1)]
      else
        if nl1 = nr1 then
          some [(nr0, br0), (nr1, br1)]
        else
          some [(nr0, br0), (nr1, br1), (nl1, bl1)]
    else
      if nl1 = nr0 then
        some [(nr0, br0), (nr1, br1), (nl0, bl0)]
      else
        if nl1 = nr1 then
          some [(nr0, br0), (nr1, br1), (nl0, bl0)]
        else
          some [(nr0, br0), (nr1, br1), (nl0, bl0), (nl1, bl1)]

end

section
variable {P : Type} [DecidableEq P]

/-- `_join_measurements('none', [Ml], [Mr])` (source sha256 a17c6294d320c799…); measurement = (name, POI, parameter configurations); `none` = `InvalidWorkspaceOperation` -/
def join_meas_none (ml mr poil poir pl pr : String) (cl cr : P) : Option (List (String × String × List (String × P))) :=
  if ml = mr then
    none
  else
    some [(ml, poil, [(pl, cl)]), (mr, poir, [(pr, cr)])]

/-- `_join_measurements('outer', [Ml], [Mr])` (source sha256 a17c6294d320c799…); measurement = (name, POI, parameter configurations); `none` = `InvalidWorkspaceOperation` -/
def join_meas_outer (ml mr poil poir pl pr : String) (cl cr : P) : Option (List (String × String × List (String × P))) :=
  if ml = mr then
    if poil = poir then
      if pl = pr then
        if cl = cr then
          some [(ml, poil, [(pl, cl)])]
        else
          none
      else
        some [(ml, poil, [(pl, cl), (pr, cr)])]
    else
      none
  else
    some [(ml, poil, [(pl, cl)]), (mr, poir, [(pr, cr)])]

/-- `_join_measurements('left outer', [Ml], [Mr])` (source sha256 a17c6294d320c799…); measurement = (name, POI, parameter configurations); `none` = `InvalidWorkspaceOperation` -/
def join_meas_leftOuter (ml mr poil poir pl pr : String) (cl cr : P) : Option (List (String × String × List (String × P))) :=
  if ml = mr then
    some [(ml, poil, [(pl, cl)])]
  else
    some [(ml, poil, [(pl, cl)]), (mr, poir, [(pr, cr)])]

/-- `_join_measurements('right outer', [Ml], [Mr])` (source sha256 a17c6294d320c799…); measurement = (name, POI, parameter configurations); `none` = `InvalidWorkspaceOperation` -/
def join_meas_rightOuter (ml mr poil poir pl pr : String) (cl cr : P) : Option (List (String × String × List (String × P))) :=
  if ml = mr then
    some [(mr, poir, [(pr, cr)])]
  else
    some [(mr, poir, [(pr, cr)]), (ml, poil, [(pl, cl)])]

end
end Pyhf.Gen
