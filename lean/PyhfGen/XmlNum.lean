import PyhfModel.Basic
/-!
# GENERATED — do not edit.  Regenerated on every C18 check by `harness/gen_xml.py`: `writexml.build_sample` / `build_measurement` and
`readxml.process_sample` / `process_measurements` executed back to back on symbolic numbers (ROOT file = a dictionary, numbers in XML
attributes = tokens).  `n<b>` nominal yields, `lo<b>`/`hi<b>` histosys templates, `nlo`/`nhi` normsys factors, `es<b>` staterror and
`us<b>` shapesys absolute uncertainties; `lc`/`ls` luminosity centre and width.
-/
namespace Pyhf.Gen
section
variable {K : Type} [Add K] [Sub K] [Mul K] [Div K] [Neg K] [OfNat K 0] [OfNat K 1]
  [OfScientific K] [LT K] [LE K] [DecidableLT K] [DecidableLE K] [DecidableEq K]

/-! writexml.build_modifier / build_sample / build_measurement + readxml.process_sample / process_measurements sha256 d2c64f0c3f9caf87…;
modifiers of the re-imported sample: [('lumi', 'lumi'), ('sysH', 'histosys'), ('sysN', 'normsys'), ('staterror_SR', 'staterror'), ('uncorr', 'shapesys')] -/

/-- `nominal0` after export and re-import -/
def xml_rt_nominal0 (n0 n1 lo0 lo1 hi0 hi1 nlo nhi es0 es1 us0 us1 lc ls : K) : K :=
  n0

/-- `nominal1` after export and re-import -/
def xml_rt_nominal1 (n0 n1 lo0 lo1 hi0 hi1 nlo nhi es0 es1 us0 us1 lc ls : K) : K :=
  n1

/-- `histo_lo0` after export and re-import -/
def xml_rt_histo_lo0 (n0 n1 lo0 lo1 hi0 hi1 nlo nhi es0 es1 us0 us1 lc ls : K) : K :=
  lo0

/-- `histo_lo1` after export and re-import -/
def xml_rt_histo_lo1 (n0 n1 lo0 lo1 hi0 hi1 nlo nhi es0 es1 us0 us1 lc ls : K) : K :=
  lo1

/-- `histo_hi0` after export and re-import -/
def xml_rt_histo_hi0 (n0 n1 lo0 lo1 hi0 hi1 nlo nhi es0 es1 us0 us1 lc ls : K) : K :=
  hi0

/-- `histo_hi1` after export and re-import -/
def xml_rt_histo_hi1 (n0 n1 lo0 lo1 hi0 hi1 nlo nhi es0 es1 us0 us1 lc ls : K) : K :=
  hi1

/-- `norm_lo` after export and re-import -/
def xml_rt_norm_lo (n0 n1 lo0 lo1 hi0 hi1 nlo nhi es0 es1 us0 us1 lc ls : K) : K :=
  nlo

/-- `norm_hi` after export and re-import -/
def xml_rt_norm_hi (n0 n1 lo0 lo1 hi0 hi1 nlo nhi es0 es1 us0 us1 lc ls : K) : K :=
  nhi

/-- `staterror0` after export and re-import -/
def xml_rt_staterror0 (n0 n1 lo0 lo1 hi0 hi1 nlo nhi es0 es1 us0 us1 lc ls : K) : K :=
  if n0 ≠ (0.0 : K) then
    ((es0 / n0) * n0)
  else
    ((0.0 : K) * n0)

/-- `staterror1` after export and re-import -/
def xml_rt_staterror1 (n0 n1 lo0 lo1 hi0 hi1 nlo nhi es0 es1 us0 us1 lc ls : K) : K :=
  if n1 ≠ (0.0 : K) then
    ((es1 / n1) * n1)
  else
    ((0.0 : K) * n1)

/-- `shapesys0` after export and re-import -/
def xml_rt_shapesys0 (n0 n1 lo0 lo1 hi0 hi1 nlo nhi es0 es1 us0 us1 lc ls : K) : K :=
  if n0 ≠ (0.0 : K) then
    (n0 * (us0 / n0))
  else
    (n0 * (0.0 : K))

/-- `shapesys1` after export and re-import -/
def xml_rt_shapesys1 (n0 n1 lo0 lo1 hi0 hi1 nlo nhi es0 es1 us0 us1 lc ls : K) : K :=
  if n1 ≠ (0.0 : K) then
    (n1 * (us1 / n1))
  else
    (n1 * (0.0 : K))

/-- `lumi_auxdata` after export and re-import -/
def xml_rt_lumi_auxdata (n0 n1 lo0 lo1 hi0 hi1 nlo nhi es0 es1 us0 us1 lc ls : K) : K :=
  lc

/-- `lumi_sigma` after export and re-import -/
def xml_rt_lumi_sigma (n0 n1 lo0 lo1 hi0 hi1 nlo nhi es0 es1 us0 us1 lc ls : K) : K :=
  (lc * (ls / lc))

/-- `lumi_init` after export and re-import -/
def xml_rt_lumi_init (n0 n1 lo0 lo1 hi0 hi1 nlo nhi es0 es1 us0 us1 lc ls : K) : K :=
  lc

/-- `lumi_bound_lo` after export and re-import -/
def xml_rt_lumi_bound_lo (n0 n1 lo0 lo1 hi0 hi1 nlo nhi es0 es1 us0 us1 lc ls : K) : K :=
  (lc - ((5.0 : K) * (lc * (ls / lc))))

/-- `lumi_bound_hi` after export and re-import -/
def xml_rt_lumi_bound_hi (n0 n1 lo0 lo1 hi0 hi1 nlo nhi es0 es1 us0 us1 lc ls : K) : K :=
  (lc + ((5.0 : K) * (lc * (ls / lc))))

end
end Pyhf.Gen
