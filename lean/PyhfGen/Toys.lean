import PyhfModel.Basic
/-!
# GENERATED — do not edit.  Regenerated on every C14 check by `harness/gen_toys.py` from `src/pyhf/infer/calculators.py` by symbolic
execution: `EmpiricalDistribution.pvalue` on three samples; `ToyCalculator.distributions / teststatistic / pvalues` with the fits, the
sampling and the statistic uninterpreted.
-/
namespace Pyhf.Gen
section
variable {K : Type} [Add K] [Sub K] [Mul K] [Div K] [Neg K] [OfNat K 0] [OfNat K 1]
  [OfScientific K] [LT K] [LE K] [DecidableLT K] [DecidableLE K]

/-- `EmpiricalDistribution([s0, s1, s2]).pvalue(v)` (source sha256 2a0c1e5588742be4…) -/
def emp_pvalue3 (s0 s1 s2 v : K) : K :=
  if v ≤ s0 then
    if v ≤ s1 then
      if v ≤ s2 then
        (1.0 : K)
      else
        (0.66666666666666662965923251249478198587894439697265625 : K)
    else
      if v ≤ s2 then
        (0.66666666666666662965923251249478198587894439697265625 : K)
      else
        (0.333333333333333314829616256247390992939472198486328125 : K)
  else
    if v ≤ s1 then
      if v ≤ s2 then
        (0.66666666666666662965923251249478198587894439697265625 : K)
      else
        (0.333333333333333314829616256247390992939472198486328125 : K)
    else
      if v ≤ s2 then
        (0.333333333333333314829616256247390992939472198486328125 : K)
      else
        (0.0 : K)

/-- `ToyCalculator(test_stat='qtilde', ntoys=2).distributions(poi)`: the samples of the signal-like distribution (`distributions`: source sha256 a80f2a218baae7a2…) -/
def toy_qtilde_signal_samples (condFit : K → K) (toyData : K → K → K) (ts : K → K → K) (poi : K) : List K :=
  [(ts poi (toyData (condFit poi) (0.0 : K))), (ts poi (toyData (condFit poi) (1.0 : K)))]

/-- `ToyCalculator(test_stat='qtilde', ntoys=2).distributions(poi)`: the samples of the bkg-like distribution (`distributions`: source sha256 a80f2a218baae7a2…) -/
def toy_qtilde_bkg_samples (condFit : K → K) (toyData : K → K → K) (ts : K → K → K) (poi : K) : List K :=
  [(ts poi (toyData (condFit (0.0 : K)) (0.0 : K))), (ts poi (toyData (condFit (0.0 : K)) (1.0 : K)))]

/-- `ToyCalculator(test_stat='qtilde').teststatistic(poi)` on the observed data `obs` -/
def toy_qtilde_teststat (ts : K → K → K) (obs poi : K) : K :=
  (ts poi obs)

/-- `ToyCalculator(test_stat='q', ntoys=2).distributions(poi)`: the samples of the signal-like distribution (`distributions`: source sha256 a80f2a218baae7a2…) -/
def toy_q_signal_samples (condFit : K → K) (toyData : K → K → K) (ts : K → K → K) (poi : K) : List K :=
  [(ts poi (toyData (condFit poi) (0.0 : K))), (ts poi (toyData (condFit poi) (1.0 : K)))]

/-- `ToyCalculator(test_stat='q', ntoys=2).distributions(poi)`: the samples of the bkg-like distribution (`distributions`: source sha256 a80f2a218baae7a2…) -/
def toy_q_bkg_samples (condFit : K → K) (toyData : K → K → K) (ts : K → K → K) (poi : K) : List K :=
  [(ts poi (toyData (condFit (0.0 : K)) (0.0 : K))), (ts poi (toyData (condFit (0.0 : K)) (1.0 : K)))]

/-- `ToyCalculator(test_stat='q').teststatistic(poi)` on the observed data `obs` -/
def toy_q_teststat (ts : K → K → K) (obs poi : K) : K :=
  (ts poi obs)

/-- `ToyCalculator(test_stat='q0', ntoys=2).distributions(poi)`: the samples of the signal-like distribution (`distributions`: source sha256 a80f2a218baae7a2…) -/
def toy_q0_signal_samples (condFit : K → K) (toyData : K → K → K) (ts : K → K → K) (poi : K) : List K :=
  [(ts poi (toyData (condFit poi) (0.0 : K))), (ts poi (toyData (condFit poi) (1.0 : K)))]

/-- `ToyCalculator(test_stat='q0', ntoys=2).distributions(poi)`: the samples of the bkg-like distribution (`distributions`: source sha256 a80f2a218baae7a2…) -/
def toy_q0_bkg_samples (condFit : K → K) (toyData : K → K → K) (ts : K → K → K) (poi : K) : List K :=
  [(ts poi (toyData (condFit (1.0 : K)) (0.0 : K))), (ts poi (toyData (condFit (1.0 : K)) (1.0 : K)))]

/-- `ToyCalculator(test_stat='q0').teststatistic(poi)` on the observed data `obs` -/
def toy_q0_teststat (ts : K → K → K) (obs poi : K) : K :=
  (ts poi obs)

/-- `ToyCalculator.pvalues(t, sb, b)` (source sha256 8e53a8273e606f0d…): (CLs+b, CLb, CLs) with `pvalSB`, `pvalB` the two distributions' `pvalue` -/
def toy_pvalues (pvalSB pvalB : K → K) (t : K) : List K :=
  [(pvalSB t), (pvalB t), ((pvalSB t) / (pvalB t))]

end
end Pyhf.Gen
