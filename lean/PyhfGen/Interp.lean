import PyhfModel.Basic
/-!
# GENERATED — do not edit.  Regenerated on every C03 check by `harness/gen_interp.py` from `src/pyhf/interpolators/code*.py`
by symbolic execution of the running code (scalar reference classes `_slow_codeK`, and one cell of the vectorised classes `codeK`
through a symbolic tensor backend).  Source digests are recorded per definition.
-/
namespace Pyhf.Gen
section
variable {K : Type} [Add K] [Sub K] [Mul K] [Div K] [Neg K] [OfNat K 0] [OfNat K 1]
  [OfScientific K] [LT K] [LE K] [DecidableLT K] [DecidableLE K]

/-- `code0.py::_slow_code0` (source sha256 38828b010760f154…), one cell -/
def slow_code0 (P : Prim K) (dn nom up a : K) : K :=
  if (0.0 : K) < a then
    ((up - nom) * a)
  else
    ((nom - dn) * a)

/-- `code0.py::code0` (source sha256 9b0b82829a872817…), one cell -/
def fast_code0 (P : Prim K) (dn nom up a : K) : K :=
  if (0.0 : K) < a then
    ((0.0 : K) + (a * (up - nom)))
  else
    ((0.0 : K) + (a * (nom - dn)))

/-- `code1.py::_slow_code1` (source sha256 ff66e9c72fff2457…), one cell -/
def slow_code1 (P : Prim K) (dn nom up a : K) : K :=
  if (0.0 : K) < a then
    (P.pow (up / nom) a)
  else
    (P.pow (dn / nom) (-a))

/-- `code1.py::code1` (source sha256 995631d9da8443f2…), one cell -/
def fast_code1 (P : Prim K) (dn nom up a : K) : K :=
  if (0.0 : K) < a then
    (P.pow ((0.0 : K) + ((1.0 : K) * (up / nom))) ((0.0 : K) + (a * (1.0 : K))))
  else
    (P.pow ((0.0 : K) + ((1.0 : K) * (dn / nom))) ((0.0 : K) + ((-a) * (1.0 : K))))

/-- `code2.py::_slow_code2` (source sha256 d55c50a7fb9e208a…), one cell -/
def slow_code2 (P : Prim K) (dn nom up a : K) : K :=
  if (1.0 : K) < a then
    (((((0.5 : K) * (up - dn)) + ((2.0 : K) * (((0.5 : K) * (up + dn)) - nom))) * (a - (1.0 : K))) + ((((0.5 : K) * (up + dn)) - nom) + ((0.5 : K) * (up - dn))))
  else
    if (-(1.0 : K)) ≤ a then
      if a ≤ (1.0 : K) then
        ((((((0.5 : K) * (up + dn)) - nom) * a) * a) + (((0.5 : K) * (up - dn)) * a))
      else
        (((((0.5 : K) * (up - dn)) - ((2.0 : K) * (((0.5 : K) * (up + dn)) - nom))) * (a + (1.0 : K))) + ((((0.5 : K) * (up + dn)) - nom) - ((0.5 : K) * (up - dn))))
    else
      (((((0.5 : K) * (up - dn)) - ((2.0 : K) * (((0.5 : K) * (up + dn)) - nom))) * (a + (1.0 : K))) + ((((0.5 : K) * (up + dn)) - nom) - ((0.5 : K) * (up - dn))))

/-- `code2.py::code2` (source sha256 1119d98e4c316f28…), one cell -/
def fast_code2 (P : Prim K) (dn nom up a : K) : K :=
  if (1.0 : K) < a then
    if (-(1.0 : K)) ≤ a then
      (((0.0 : K) + ((a - (1.0 : K)) * (((0.5 : K) * (up - dn)) + ((2.0 : K) * (((0.5 : K) * (up + dn)) - nom))))) + ((0.0 : K) + ((1.0 : K) * ((((0.5 : K) * (up + dn)) - nom) + ((0.5 : K) * (up - dn))))))
    else
      (((0.0 : K) + ((a + (1.0 : K)) * (((0.5 : K) * (up - dn)) - ((2.0 : K) * (((0.5 : K) * (up + dn)) - nom))))) + ((0.0 : K) + ((1.0 : K) * ((((0.5 : K) * (up + dn)) - nom) - ((0.5 : K) * (up - dn))))))
  else
    if (-(1.0 : K)) ≤ a then
      (((0.0 : K) + ((a * a) * (((0.5 : K) * (up + dn)) - nom))) + ((0.0 : K) + (a * ((0.5 : K) * (up - dn)))))
    else
      (((0.0 : K) + ((a + (1.0 : K)) * (((0.5 : K) * (up - dn)) - ((2.0 : K) * (((0.5 : K) * (up + dn)) - nom))))) + ((0.0 : K) + ((1.0 : K) * ((((0.5 : K) * (up + dn)) - nom) - ((0.5 : K) * (up - dn))))))

/-- `code4.py::_slow_code4` (source sha256 1f5fb73e07a554ef…), one cell -/
def slow_code4 (P : Prim K) (a0 dn nom up a : K) : K :=
  if a0 ≤ a then
    (P.pow (up / nom) a)
  else
    if (-a0) < a then
      if a < a0 then
        (((((((1.0 : K) + ((((((((0.0 : K) + (((15.0 : K) / ((16.0 : K) * a0)) * ((P.pow (up / nom) a0) - (1.0 : K)))) + (((-(15.0 : K)) / ((16.0 : K) * a0)) * ((P.pow (dn / nom) a0) - (1.0 : K)))) + ((-(0.4375 : K)) * ((P.log (up / nom)) * (P.pow (up / nom) a0)))) + ((-(0.4375 : K)) * ((-(P.log (dn / nom))) * (P.pow (dn / nom) a0)))) + (((0.0625 : K) * a0) * ((P.pow (P.log (up / nom)) (2.0 : K)) * (P.pow (up / nom) a0)))) + (((-(0.0625 : K)) * a0) * ((P.pow (P.log (dn / nom)) (2.0 : K)) * (P.pow (dn / nom) a0)))) * (P.pow a (1.0 : K)))) + ((((((((0.0 : K) + (((3.0 : K) / ((2.0 : K) * (P.pow a0 (2.0 : K)))) * ((P.pow (up / nom) a0) - (1.0 : K)))) + (((3.0 : K) / ((2.0 : K) * (P.pow a0 (2.0 : K)))) * ((P.pow (dn / nom) a0) - (1.0 : K)))) + (((-(9.0 : K)) / ((16.0 : K) * a0)) * ((P.log (up / nom)) * (P.pow (up / nom) a0)))) + (((9.0 : K) / ((16.0 : K) * a0)) * ((-(P.log (dn / nom))) * (P.pow (dn / nom) a0)))) + ((0.0625 : K) * ((P.pow (P.log (up / nom)) (2.0 : K)) * (P.pow (up / nom) a0)))) + ((0.0625 : K) * ((P.pow (P.log (dn / nom)) (2.0 : K)) * (P.pow (dn / nom) a0)))) * (P.pow a (2.0 : K)))) + ((((((((0.0 : K) + (((-(5.0 : K)) / ((8.0 : K) * (P.pow a0 (3.0 : K)))) * ((P.pow (up / nom) a0) - (1.0 : K)))) + (((5.0 : K) / ((8.0 : K) * (P.pow a0 (3.0 : K)))) * ((P.pow (dn / nom) a0) - (1.0 : K)))) + (((5.0 : K) / ((8.0 : K) * (P.pow a0 (2.0 : K)))) * ((P.log (up / nom)) * (P.pow (up / nom) a0)))) + (((5.0 : K) / ((8.0 : K) * (P.pow a0 (2.0 : K)))) * ((-(P.log (dn / nom))) * (P.pow (dn / nom) a0)))) + (((-(1.0 : K)) / ((8.0 : K) * a0)) * ((P.pow (P.log (up / nom)) (2.0 : K)) * (P.pow (up / nom) a0)))) + (((1.0 : K) / ((8.0 : K) * a0)) * ((P.pow (P.log (dn / nom)) (2.0 : K)) * (P.pow (dn / nom) a0)))) * (P.pow a (3.0 : K)))) + ((((((((0.0 : K) + (((3.0 : K) / ((-(2.0 : K)) * (P.pow a0 (4.0 : K)))) * ((P.pow (up / nom) a0) - (1.0 : K)))) + (((3.0 : K) / ((-(2.0 : K)) * (P.pow a0 (4.0 : K)))) * ((P.pow (dn / nom) a0) - (1.0 : K)))) + (((-(7.0 : K)) / ((-(8.0 : K)) * (P.pow a0 (3.0 : K)))) * ((P.log (up / nom)) * (P.pow (up / nom) a0)))) + (((7.0 : K) / ((-(8.0 : K)) * (P.pow a0 (3.0 : K)))) * ((-(P.log (dn / nom))) * (P.pow (dn / nom) a0)))) + (((-(1.0 : K)) / ((8.0 : K) * (P.pow a0 (2.0 : K)))) * ((P.pow (P.log (up / nom)) (2.0 : K)) * (P.pow (up / nom) a0)))) + (((-(1.0 : K)) / ((8.0 : K) * (P.pow a0 (2.0 : K)))) * ((P.pow (P.log (dn / nom)) (2.0 : K)) * (P.pow (dn / nom) a0)))) * (P.pow a (4.0 : K)))) + ((((((((0.0 : K) + (((3.0 : K) / ((16.0 : K) * (P.pow a0 (5.0 : K)))) * ((P.pow (up / nom) a0) - (1.0 : K)))) + (((-(3.0 : K)) / ((16.0 : K) * (P.pow a0 (5.0 : K)))) * ((P.pow (dn / nom) a0) - (1.0 : K)))) + (((-(3.0 : K)) / ((16.0 : K) * (P.pow a0 (4.0 : K)))) * ((P.log (up / nom)) * (P.pow (up / nom) a0)))) + (((-(3.0 : K)) / ((16.0 : K) * (P.pow a0 (4.0 : K)))) * ((-(P.log (dn / nom))) * (P.pow (dn / nom) a0)))) + (((1.0 : K) / ((16.0 : K) * (P.pow a0 (3.0 : K)))) * ((P.pow (P.log (up / nom)) (2.0 : K)) * (P.pow (up / nom) a0)))) + (((-(1.0 : K)) / ((16.0 : K) * (P.pow a0 (3.0 : K)))) * ((P.pow (P.log (dn / nom)) (2.0 : K)) * (P.pow (dn / nom) a0)))) * (P.pow a (5.0 : K)))) + ((((((((0.0 : K) + (((1.0 : K) / ((2.0 : K) * (P.pow a0 (6.0 : K)))) * ((P.pow (up / nom) a0) - (1.0 : K)))) + (((1.0 : K) / ((2.0 : K) * (P.pow a0 (6.0 : K)))) * ((P.pow (dn / nom) a0) - (1.0 : K)))) + (((-(5.0 : K)) / ((16.0 : K) * (P.pow a0 (5.0 : K)))) * ((P.log (up / nom)) * (P.pow (up / nom) a0)))) + (((5.0 : K) / ((16.0 : K) * (P.pow a0 (5.0 : K)))) * ((-(P.log (dn / nom))) * (P.pow (dn / nom) a0)))) + (((1.0 : K) / ((16.0 : K) * (P.pow a0 (4.0 : K)))) * ((P.pow (P.log (up / nom)) (2.0 : K)) * (P.pow (up / nom) a0)))) + (((1.0 : K) / ((16.0 : K) * (P.pow a0 (4.0 : K)))) * ((P.pow (P.log (dn / nom)) (2.0 : K)) * (P.pow (dn / nom) a0)))) * (P.pow a (6.0 : K))))
      else
        (P.pow (dn / nom) (-a))
    else
      (P.pow (dn / nom) (-a))

/-- `code4.py::code4` (source sha256 c4768ce1bc5308ad…), one cell -/
def fast_code4 (P : Prim K) (a0 dn nom up a : K) : K :=
  if a0 ≤ a then
    if (-a0) < a then
      if a0 ≤ ((0.0 : K) + ((absK a) * (1.0 : K))) then
        (P.pow ((0.0 : K) + ((1.0 : K) * (up / nom))) ((0.0 : K) + ((absK a) * (1.0 : K))))
      else
        (P.pow ((0.0 : K) + ((1.0 : K) * (up / nom))) (1.0 : K))
    else
      if a0 ≤ ((0.0 : K) + ((absK a) * (1.0 : K))) then
        (P.pow ((0.0 : K) + ((1.0 : K) * (dn / nom))) ((0.0 : K) + ((absK a) * (1.0 : K))))
      else
        (P.pow ((0.0 : K) + ((1.0 : K) * (dn / nom))) (1.0 : K))
  else
    if (-a0) < a then
      if a0 ≤ ((0.0 : K) + ((absK a) * (1.0 : K))) then
        (P.pow ((1.0 : K) + (((((((0.0 : K) + ((((((((0.0 : K) + ((((15.0 : K) / ((16.0 : K) * a0)) * (1.0 : K)) * ((P.pow (up / nom) ((1.0 : K) * a0)) - (1.0 : K)))) + ((((-(15.0 : K)) / ((16.0 : K) * a0)) * (1.0 : K)) * ((P.pow (dn / nom) ((1.0 : K) * a0)) - (1.0 : K)))) + ((-(0.4375 : K)) * ((P.log (up / nom)) * (P.pow (up / nom) ((1.0 : K) * a0))))) + ((-(0.4375 : K)) * ((-(P.log (dn / nom))) * (P.pow (dn / nom) ((1.0 : K) * a0))))) + ((((0.0625 : K) * a0) * (1.0 : K)) * ((P.pow (P.log (up / nom)) (2.0 : K)) * (P.pow (up / nom) ((1.0 : K) * a0))))) + ((((-(0.0625 : K)) * a0) * (1.0 : K)) * ((P.pow (P.log (dn / nom)) (2.0 : K)) * (P.pow (dn / nom) ((1.0 : K) * a0))))) * a)) + ((((((((0.0 : K) + ((((3.0 : K) / ((2.0 : K) * (P.pow a0 (2.0 : K)))) * (1.0 : K)) * ((P.pow (up / nom) ((1.0 : K) * a0)) - (1.0 : K)))) + ((((3.0 : K) / ((2.0 : K) * (P.pow a0 (2.0 : K)))) * (1.0 : K)) * ((P.pow (dn / nom) ((1.0 : K) * a0)) - (1.0 : K)))) + ((((-(9.0 : K)) / ((16.0 : K) * a0)) * (1.0 : K)) * ((P.log (up / nom)) * (P.pow (up / nom) ((1.0 : K) * a0))))) + ((((9.0 : K) / ((16.0 : K) * a0)) * (1.0 : K)) * ((-(P.log (dn / nom))) * (P.pow (dn / nom) ((1.0 : K) * a0))))) + ((0.0625 : K) * ((P.pow (P.log (up / nom)) (2.0 : K)) * (P.pow (up / nom) ((1.0 : K) * a0))))) + ((0.0625 : K) * ((P.pow (P.log (dn / nom)) (2.0 : K)) * (P.pow (dn / nom) ((1.0 : K) * a0))))) * (P.pow a (2.0 : K)))) + ((((((((0.0 : K) + ((((-(5.0 : K)) / ((8.0 : K) * (P.pow a0 (3.0 : K)))) * (1.0 : K)) * ((P.pow (up / nom) ((1.0 : K) * a0)) - (1.0 : K)))) + ((((5.0 : K) / ((8.0 : K) * (P.pow a0 (3.0 : K)))) * (1.0 : K)) * ((P.pow (dn / nom) ((1.0 : K) * a0)) - (1.0 : K)))) + ((((5.0 : K) / ((8.0 : K) * (P.pow a0 (2.0 : K)))) * (1.0 : K)) * ((P.log (up / nom)) * (P.pow (up / nom) ((1.0 : K) * a0))))) + ((((5.0 : K) / ((8.0 : K) * (P.pow a0 (2.0 : K)))) * (1.0 : K)) * ((-(P.log (dn / nom))) * (P.pow (dn / nom) ((1.0 : K) * a0))))) + ((((-(1.0 : K)) / ((8.0 : K) * a0)) * (1.0 : K)) * ((P.pow (P.log (up / nom)) (2.0 : K)) * (P.pow (up / nom) ((1.0 : K) * a0))))) + ((((1.0 : K) / ((8.0 : K) * a0)) * (1.0 : K)) * ((P.pow (P.log (dn / nom)) (2.0 : K)) * (P.pow (dn / nom) ((1.0 : K) * a0))))) * (P.pow a (3.0 : K)))) + ((((((((0.0 : K) + ((((3.0 : K) / ((-(2.0 : K)) * (P.pow a0 (4.0 : K)))) * (1.0 : K)) * ((P.pow (up / nom) ((1.0 : K) * a0)) - (1.0 : K)))) + ((((3.0 : K) / ((-(2.0 : K)) * (P.pow a0 (4.0 : K)))) * (1.0 : K)) * ((P.pow (dn / nom) ((1.0 : K) * a0)) - (1.0 : K)))) + ((((-(7.0 : K)) / ((-(8.0 : K)) * (P.pow a0 (3.0 : K)))) * (1.0 : K)) * ((P.log (up / nom)) * (P.pow (up / nom) ((1.0 : K) * a0))))) + ((((7.0 : K) / ((-(8.0 : K)) * (P.pow a0 (3.0 : K)))) * (1.0 : K)) * ((-(P.log (dn / nom))) * (P.pow (dn / nom) ((1.0 : K) * a0))))) + ((((-(1.0 : K)) / ((8.0 : K) * (P.pow a0 (2.0 : K)))) * (1.0 : K)) * ((P.pow (P.log (up / nom)) (2.0 : K)) * (P.pow (up / nom) ((1.0 : K) * a0))))) + ((((-(1.0 : K)) / ((8.0 : K) * (P.pow a0 (2.0 : K)))) * (1.0 : K)) * ((P.pow (P.log (dn / nom)) (2.0 : K)) * (P.pow (dn / nom) ((1.0 : K) * a0))))) * (P.pow a (4.0 : K)))) + ((((((((0.0 : K) + ((((3.0 : K) / ((16.0 : K) * (P.pow a0 (5.0 : K)))) * (1.0 : K)) * ((P.pow (up / nom) ((1.0 : K) * a0)) - (1.0 : K)))) + ((((-(3.0 : K)) / ((16.0 : K) * (P.pow a0 (5.0 : K)))) * (1.0 : K)) * ((P.pow (dn / nom) ((1.0 : K) * a0)) - (1.0 : K)))) + ((((-(3.0 : K)) / ((16.0 : K) * (P.pow a0 (4.0 : K)))) * (1.0 : K)) * ((P.log (up / nom)) * (P.pow (up / nom) ((1.0 : K) * a0))))) + ((((-(3.0 : K)) / ((16.0 : K) * (P.pow a0 (4.0 : K)))) * (1.0 : K)) * ((-(P.log (dn / nom))) * (P.pow (dn / nom) ((1.0 : K) * a0))))) + ((((1.0 : K) / ((16.0 : K) * (P.pow a0 (3.0 : K)))) * (1.0 : K)) * ((P.pow (P.log (up / nom)) (2.0 : K)) * (P.pow (up / nom) ((1.0 : K) * a0))))) + ((((-(1.0 : K)) / ((16.0 : K) * (P.pow a0 (3.0 : K)))) * (1.0 : K)) * ((P.pow (P.log (dn / nom)) (2.0 : K)) * (P.pow (dn / nom) ((1.0 : K) * a0))))) * (P.pow a (5.0 : K)))) + ((((((((0.0 : K) + ((((1.0 : K) / ((2.0 : K) * (P.pow a0 (6.0 : K)))) * (1.0 : K)) * ((P.pow (up / nom) ((1.0 : K) * a0)) - (1.0 : K)))) + ((((1.0 : K) / ((2.0 : K) * (P.pow a0 (6.0 : K)))) * (1.0 : K)) * ((P.pow (dn / nom) ((1.0 : K) * a0)) - (1.0 : K)))) + ((((-(5.0 : K)) / ((16.0 : K) * (P.pow a0 (5.0 : K)))) * (1.0 : K)) * ((P.log (up / nom)) * (P.pow (up / nom) ((1.0 : K) * a0))))) + ((((5.0 : K) / ((16.0 : K) * (P.pow a0 (5.0 : K)))) * (1.0 : K)) * ((-(P.log (dn / nom))) * (P.pow (dn / nom) ((1.0 : K) * a0))))) + ((((1.0 : K) / ((16.0 : K) * (P.pow a0 (4.0 : K)))) * (1.0 : K)) * ((P.pow (P.log (up / nom)) (2.0 : K)) * (P.pow (up / nom) ((1.0 : K) * a0))))) + ((((1.0 : K) / ((16.0 : K) * (P.pow a0 (4.0 : K)))) * (1.0 : K)) * ((P.pow (P.log (dn / nom)) (2.0 : K)) * (P.pow (dn / nom) ((1.0 : K) * a0))))) * (P.pow a (6.0 : K))))) ((0.0 : K) + ((absK a) * (1.0 : K))))
      else
        (P.pow ((1.0 : K) + (((((((0.0 : K) + ((((((((0.0 : K) + ((((15.0 : K) / ((16.0 : K) * a0)) * (1.0 : K)) * ((P.pow (up / nom) ((1.0 : K) * a0)) - (1.0 : K)))) + ((((-(15.0 : K)) / ((16.0 : K) * a0)) * (1.0 : K)) * ((P.pow (dn / nom) ((1.0 : K) * a0)) - (1.0 : K)))) + ((-(0.4375 : K)) * ((P.log (up / nom)) * (P.pow (up / nom) ((1.0 : K) * a0))))) + ((-(0.4375 : K)) * ((-(P.log (dn / nom))) * (P.pow (dn / nom) ((1.0 : K) * a0))))) + ((((0.0625 : K) * a0) * (1.0 : K)) * ((P.pow (P.log (up / nom)) (2.0 : K)) * (P.pow (up / nom) ((1.0 : K) * a0))))) + ((((-(0.0625 : K)) * a0) * (1.0 : K)) * ((P.pow (P.log (dn / nom)) (2.0 : K)) * (P.pow (dn / nom) ((1.0 : K) * a0))))) * a)) + ((((((((0.0 : K) + ((((3.0 : K) / ((2.0 : K) * (P.pow a0 (2.0 : K)))) * (1.0 : K)) * ((P.pow (up / nom) ((1.0 : K) * a0)) - (1.0 : K)))) + ((((3.0 : K) / ((2.0 : K) * (P.pow a0 (2.0 : K)))) * (1.0 : K)) * ((P.pow (dn / nom) ((1.0 : K) * a0)) - (1.0 : K)))) + ((((-(9.0 : K)) / ((16.0 : K) * a0)) * (1.0 : K)) * ((P.log (up / nom)) * (P.pow (up / nom) ((1.0 : K) * a0))))) + ((((9.0 : K) / ((16.0 : K) * a0)) * (1.0 : K)) * ((-(P.log (dn / nom))) * (P.pow (dn / nom) ((1.0 : K) * a0))))) + ((0.0625 : K) * ((P.pow (P.log (up / nom)) (2.0 : K)) * (P.pow (up / nom) ((1.0 : K) * a0))))) + ((0.0625 : K) * ((P.pow (P.log (dn / nom)) (2.0 : K)) * (P.pow (dn / nom) ((1.0 : K) * a0))))) * (P.pow a (2.0 : K)))) + ((((((((0.0 : K) + ((((-(5.0 : K)) / ((8.0 : K) * (P.pow a0 (3.0 : K)))) * (1.0 : K)) * ((P.pow (up / nom) ((1.0 : K) * a0)) - (1.0 : K)))) + ((((5.0 : K) / ((8.0 : K) * (P.pow a0 (3.0 : K)))) * (1.0 : K)) * ((P.pow (dn / nom) ((1.0 : K) * a0)) - (1.0 : K)))) + ((((5.0 : K) / ((8.0 : K) * (P.pow a0 (2.0 : K)))) * (1.0 : K)) * ((P.log (up / nom)) * (P.pow (up / nom) ((1.0 : K) * a0))))) + ((((5.0 : K) / ((8.0 : K) * (P.pow a0 (2.0 : K)))) * (1.0 : K)) * ((-(P.log (dn / nom))) * (P.pow (dn / nom) ((1.0 : K) * a0))))) + ((((-(1.0 : K)) / ((8.0 : K) * a0)) * (1.0 : K)) * ((P.pow (P.log (up / nom)) (2.0 : K)) * (P.pow (up / nom) ((1.0 : K) * a0))))) + ((((1.0 : K) / ((8.0 : K) * a0)) * (1.0 : K)) * ((P.pow (P.log (dn / nom)) (2.0 : K)) * (P.pow (dn / nom) ((1.0 : K) * a0))))) * (P.pow a (3.0 : K)))) + ((((((((0.0 : K) + ((((3.0 : K) / ((-(2.0 : K)) * (P.pow a0 (4.0 : K)))) * (1.0 : K)) * ((P.pow (up / nom) ((1.0 : K) * a0)) - (1.0 : K)))) + ((((3.0 : K) / ((-(2.0 : K)) * (P.pow a0 (4.0 : K)))) * (1.0 : K)) * ((P.pow (dn / nom) ((1.0 : K) * a0)) - (1.0 : K)))) + ((((-(7.0 : K)) / ((-(8.0 : K)) * (P.pow a0 (3.0 : K)))) * (1.0 : K)) * ((P.log (up / nom)) * (P.pow (up / nom) ((1.0 : K) * a0))))) + ((((7.0 : K) / ((-(8.0 : K)) * (P.pow a0 (3.0 : K)))) * (1.0 : K)) * ((-(P.log (dn / nom))) * (P.pow (dn / nom) ((1.0 : K) * a0))))) + ((((-(1.0 : K)) / ((8.0 : K) * (P.pow a0 (2.0 : K)))) * (1.0 : K)) * ((P.pow (P.log (up / nom)) (2.0 : K)) * (P.pow (up / nom) ((1.0 : K) * a0))))) + ((((-(1.0 : K)) / ((8.0 : K) * (P.pow a0 (2.0 : K)))) * (1.0 : K)) * ((P.pow (P.log (dn / nom)) (2.0 : K)) * (P.pow (dn / nom) ((1.0 : K) * a0))))) * (P.pow a (4.0 : K)))) + ((((((((0.0 : K) + ((((3.0 : K) / ((16.0 : K) * (P.pow a0 (5.0 : K)))) * (1.0 : K)) * ((P.pow (up / nom) ((1.0 : K) * a0)) - (1.0 : K)))) + ((((-(3.0 : K)) / ((16.0 : K) * (P.pow a0 (5.0 : K)))) * (1.0 : K)) * ((P.pow (dn / nom) ((1.0 : K) * a0)) - (1.0 : K)))) + ((((-(3.0 : K)) / ((16.0 : K) * (P.pow a0 (4.0 : K)))) * (1.0 : K)) * ((P.log (up / nom)) * (P.pow (up / nom) ((1.0 : K) * a0))))) + ((((-(3.0 : K)) / ((16.0 : K) * (P.pow a0 (4.0 : K)))) * (1.0 : K)) * ((-(P.log (dn / nom))) * (P.pow (dn / nom) ((1.0 : K) * a0))))) + ((((1.0 : K) / ((16.0 : K) * (P.pow a0 (3.0 : K)))) * (1.0 : K)) * ((P.pow (P.log (up / nom)) (2.0 : K)) * (P.pow (up / nom) ((1.0 : K) * a0))))) + ((((-(1.0 : K)) / ((16.0 : K) * (P.pow a0 (3.0 : K)))) * (1.0 : K)) * ((P.pow (P.log (dn / nom)) (2.0 : K)) * (P.pow (dn / nom) ((1.0 : K) * a0))))) * (P.pow a (5.0 : K)))) + ((((((((0.0 : K) + ((((1.0 : K) / ((2.0 : K) * (P.pow a0 (6.0 : K)))) * (1.0 : K)) * ((P.pow (up / nom) ((1.0 : K) * a0)) - (1.0 : K)))) + ((((1.0 : K) / ((2.0 : K) * (P.pow a0 (6.0 : K)))) * (1.0 : K)) * ((P.pow (dn / nom) ((1.0 : K) * a0)) - (1.0 : K)))) + ((((-(5.0 : K)) / ((16.0 : K) * (P.pow a0 (5.0 : K)))) * (1.0 : K)) * ((P.log (up / nom)) * (P.pow (up / nom) ((1.0 : K) * a0))))) + ((((5.0 : K) / ((16.0 : K) * (P.pow a0 (5.0 : K)))) * (1.0 : K)) * ((-(P.log (dn / nom))) * (P.pow (dn / nom) ((1.0 : K) * a0))))) + ((((1.0 : K) / ((16.0 : K) * (P.pow a0 (4.0 : K)))) * (1.0 : K)) * ((P.pow (P.log (up / nom)) (2.0 : K)) * (P.pow (up / nom) ((1.0 : K) * a0))))) + ((((1.0 : K) / ((16.0 : K) * (P.pow a0 (4.0 : K)))) * (1.0 : K)) * ((P.pow (P.log (dn / nom)) (2.0 : K)) * (P.pow (dn / nom) ((1.0 : K) * a0))))) * (P.pow a (6.0 : K))))) (1.0 : K))
    else
      if a0 ≤ ((0.0 : K) + ((absK a) * (1.0 : K))) then
        (P.pow ((0.0 : K) + ((1.0 : K) * (dn / nom))) ((0.0 : K) + ((absK a) * (1.0 : K))))
      else
        (P.pow ((0.0 : K) + ((1.0 : K) * (dn / nom))) (1.0 : K))

/-- `code4p.py::_slow_code4p` (source sha256 9c371fb7c9aaa5a5…), one cell -/
def slow_code4p (P : Prim K) (dn nom up a : K) : K :=
  if (1.0 : K) < a then
    ((up - nom) * a)
  else
    if a < (-(1.0 : K)) then
      ((nom - dn) * a)
    else
      (a * (((0.5 : K) * ((up - nom) + (nom - dn))) + ((a * ((0.0625 : K) * ((up - nom) - (nom - dn)))) * ((15.0 : K) + ((a * a) * ((-(10.0 : K)) + ((a * a) * (3.0 : K))))))))

/-- `code4p.py::code4p` (source sha256 2f23ab7d43a91662…), one cell -/
def fast_code4p (P : Prim K) (dn nom up a : K) : K :=
  if (1.0 : K) < a then
    if a < (-(1.0 : K)) then
      ((0.0 : K) + (a * (nom - dn)))
    else
      ((0.0 : K) + (a * (up - nom)))
  else
    if a < (-(1.0 : K)) then
      ((0.0 : K) + (a * (nom - dn)))
    else
      (((0.0 : K) + (((P.pow a (2.0 : K)) * (((P.pow a (2.0 : K)) * (((P.pow a (2.0 : K)) * (3.0 : K)) - (10.0 : K))) + (15.0 : K))) * ((0.0625 : K) * ((up - nom) - (nom - dn))))) + ((0.0 : K) + (a * ((0.5 : K) * ((up - nom) + (nom - dn))))))

end
end Pyhf.Gen
