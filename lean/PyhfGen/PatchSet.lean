/-!
# GENERATED — do not edit.  Regenerated on every C17 check by `harness/gen_patchset.py`: `pyhf.PatchSet(spec)` constructed on three patches
with symbolic names `n0 n1 n2` and symbolic one-component value tuples `(v0,) (v1,) (v2,)`; every feasible combination of equalities
enumerated.  Outcome: `"ok"`, or the duplicate the constructor reports; for accepted sets the patch index each key looks up.
-/
namespace Pyhf.Gen
section
variable {V : Type} [DecidableEq V]

/-- `PatchSet.__init__` + `__getitem__` (source sha256 89d458b4c3a24d1a…): `"dupName"` / `"dupValues"` = the `InvalidPatchSet` raised; `"ok:i0,i1,i2,j0,j1,j2,k0,k1,k2"` =
accepted, with the position of the patch found under name `n_m` (`i_m`), under the tuple `(v_m,)` (`j_m`) and under the list `[v_m]` (`k_m`) -/
def patchset_ctor3 (n0 n1 n2 : String) (v0 v1 v2 : V) : String :=
  if n0 = n1 then
    "dupName"
  else
    if v0 = v1 then
      "dupValues"
    else
      if n0 = n2 then
        "dupName"
      else
        if n1 = n2 then
          "dupName"
        else
          if v0 = v2 then
            "dupValues"
          else
            if v1 = v2 then
              "dupValues"
            else
              "ok:0,1,2,0,1,2,0,1,2"

/-- `PatchSet.verify` + `PatchSet.apply` (source sha256 b4a1fb75be305613…) on a patch set listing two algorithms, recorded digests `r0` (sha256), `r1` (md5), digests
of the given workspace `c0`, `c1`: outcome of `verify`, then of `apply` (`"ok"` = returned — for `apply`: the JSON patch applied to a copy, the
workspace itself untouched; `"verification"` = `PatchSetVerificationError`) -/
def patchset_verify2 (c0 c1 r0 r1 : String) : String :=
  if c0 = r0 then
    if c1 = r1 then
      "ok,ok"
    else
      "verification,verification"
  else
    "verification,verification"

end
end Pyhf.Gen
