import PyhfModel.Basic
/-!
# GENERATED — do not edit.  Regenerated on every C05 check by `harness/gen_fit.py` from `src/pyhf/optimize/{mixins,common,opt_numpy}.py`
and `src/pyhf/infer/mle.py` by symbolic execution with a stub optimiser (four parameters; `i<k>` initial values, `lo<k>`/`hi<k>` bounds,
`f<k>` the value parameter k is fixed at, `x<j>` component j of the point the minimiser works at / returns).
-/
namespace Pyhf.Gen
section
variable {K : Type} [Add K] [Sub K] [Mul K] [Div K] [Neg K] [OfNat K 0] [OfNat K 1]
  [OfScientific K] [LT K] [LE K] [DecidableLT K] [DecidableLE K]

/-! `OptimizerMixin.minimize` (8b4871b630f0a563…), `_internal_postprocess` (5f35d76732d25ba4…), `shim` (b6378854df2796de…) -/

/-- fixed_vals = [], do_stitch = True: start vector handed to the minimiser -/
def fit_none_stitch_x0 (i0 i1 i2 i3 lo0 hi0 lo1 hi1 lo2 hi2 lo3 hi3 f0 f1 f2 f3 x0 x1 x2 x3 : K) : List K := [i0, i1, i2, i3]

def fit_none_stitch_bounds_lo (i0 i1 i2 i3 lo0 hi0 lo1 hi1 lo2 hi2 lo3 hi3 f0 f1 f2 f3 x0 x1 x2 x3 : K) : List K := [lo0, lo1, lo2, lo3]

def fit_none_stitch_bounds_hi (i0 i1 i2 i3 lo0 hi0 lo1 hi1 lo2 hi2 lo3 hi3 f0 f1 f2 f3 x0 x1 x2 x3 : K) : List K := [hi0, hi1, hi2, hi3]

/-- the (index, value) pairs the minimiser itself is asked to hold fixed -/
def fit_none_stitch_minimizer_fixed (i0 i1 i2 i3 lo0 hi0 lo1 hi1 lo2 hi2 lo3 hi3 f0 f1 f2 f3 x0 x1 x2 x3 : K) : List (Nat × K) := []

/-- the parameter vector the objective is evaluated at when the minimiser works at `x` -/
def fit_none_stitch_objective_arg (i0 i1 i2 i3 lo0 hi0 lo1 hi1 lo2 hi2 lo3 hi3 f0 f1 f2 f3 x0 x1 x2 x3 : K) : List K := [x0, x1, x2, x3]

/-- the parameters `minimize` returns when the minimiser returns `x` -/
def fit_none_stitch_result (i0 i1 i2 i3 lo0 hi0 lo1 hi1 lo2 hi2 lo3 hi3 f0 f1 f2 f3 x0 x1 x2 x3 : K) : List K := [x0, x1, x2, x3]

def fit_none_stitch_par_names : List String := ["p0", "p1", "p2", "p3"]

/-- fixed_vals = [], do_stitch = False: start vector handed to the minimiser -/
def fit_none_nostitch_x0 (i0 i1 i2 i3 lo0 hi0 lo1 hi1 lo2 hi2 lo3 hi3 f0 f1 f2 f3 x0 x1 x2 x3 : K) : List K := [i0, i1, i2, i3]

def fit_none_nostitch_bounds_lo (i0 i1 i2 i3 lo0 hi0 lo1 hi1 lo2 hi2 lo3 hi3 f0 f1 f2 f3 x0 x1 x2 x3 : K) : List K := [lo0, lo1, lo2, lo3]

def fit_none_nostitch_bounds_hi (i0 i1 i2 i3 lo0 hi0 lo1 hi1 lo2 hi2 lo3 hi3 f0 f1 f2 f3 x0 x1 x2 x3 : K) : List K := [hi0, hi1, hi2, hi3]

/-- the (index, value) pairs the minimiser itself is asked to hold fixed -/
def fit_none_nostitch_minimizer_fixed (i0 i1 i2 i3 lo0 hi0 lo1 hi1 lo2 hi2 lo3 hi3 f0 f1 f2 f3 x0 x1 x2 x3 : K) : List (Nat × K) := []

/-- the parameter vector the objective is evaluated at when the minimiser works at `x` -/
def fit_none_nostitch_objective_arg (i0 i1 i2 i3 lo0 hi0 lo1 hi1 lo2 hi2 lo3 hi3 f0 f1 f2 f3 x0 x1 x2 x3 : K) : List K := [x0, x1, x2, x3]

/-- the parameters `minimize` returns when the minimiser returns `x` -/
def fit_none_nostitch_result (i0 i1 i2 i3 lo0 hi0 lo1 hi1 lo2 hi2 lo3 hi3 f0 f1 f2 f3 x0 x1 x2 x3 : K) : List K := [x0, x1, x2, x3]

def fit_none_nostitch_par_names : List String := ["p0", "p1", "p2", "p3"]

/-- fixed_vals = [(1, 'f1')], do_stitch = True: start vector handed to the minimiser -/
def fit_one_stitch_x0 (i0 i1 i2 i3 lo0 hi0 lo1 hi1 lo2 hi2 lo3 hi3 f0 f1 f2 f3 x0 x1 x2 x3 : K) : List K := [i0, i2, i3]

def fit_one_stitch_bounds_lo (i0 i1 i2 i3 lo0 hi0 lo1 hi1 lo2 hi2 lo3 hi3 f0 f1 f2 f3 x0 x1 x2 x3 : K) : List K := [lo0, lo2, lo3]

def fit_one_stitch_bounds_hi (i0 i1 i2 i3 lo0 hi0 lo1 hi1 lo2 hi2 lo3 hi3 f0 f1 f2 f3 x0 x1 x2 x3 : K) : List K := [hi0, hi2, hi3]

/-- the (index, value) pairs the minimiser itself is asked to hold fixed -/
def fit_one_stitch_minimizer_fixed (i0 i1 i2 i3 lo0 hi0 lo1 hi1 lo2 hi2 lo3 hi3 f0 f1 f2 f3 x0 x1 x2 x3 : K) : List (Nat × K) := []

/-- the parameter vector the objective is evaluated at when the minimiser works at `x` -/
def fit_one_stitch_objective_arg (i0 i1 i2 i3 lo0 hi0 lo1 hi1 lo2 hi2 lo3 hi3 f0 f1 f2 f3 x0 x1 x2 x3 : K) : List K := [x0, f1, x1, x2]

/-- the parameters `minimize` returns when the minimiser returns `x` -/
def fit_one_stitch_result (i0 i1 i2 i3 lo0 hi0 lo1 hi1 lo2 hi2 lo3 hi3 f0 f1 f2 f3 x0 x1 x2 x3 : K) : List K := [x0, f1, x1, x2]

def fit_one_stitch_par_names : List String := ["p0", "p2", "p3"]

/-- fixed_vals = [(1, 'f1')], do_stitch = False: start vector handed to the minimiser -/
def fit_one_nostitch_x0 (i0 i1 i2 i3 lo0 hi0 lo1 hi1 lo2 hi2 lo3 hi3 f0 f1 f2 f3 x0 x1 x2 x3 : K) : List K := [i0, i1, i2, i3]

def fit_one_nostitch_bounds_lo (i0 i1 i2 i3 lo0 hi0 lo1 hi1 lo2 hi2 lo3 hi3 f0 f1 f2 f3 x0 x1 x2 x3 : K) : List K := [lo0, lo1, lo2, lo3]

def fit_one_nostitch_bounds_hi (i0 i1 i2 i3 lo0 hi0 lo1 hi1 lo2 hi2 lo3 hi3 f0 f1 f2 f3 x0 x1 x2 x3 : K) : List K := [hi0, hi1, hi2, hi3]

/-- the (index, value) pairs the minimiser itself is asked to hold fixed -/
def fit_one_nostitch_minimizer_fixed (i0 i1 i2 i3 lo0 hi0 lo1 hi1 lo2 hi2 lo3 hi3 f0 f1 f2 f3 x0 x1 x2 x3 : K) : List (Nat × K) := [(1, f1)]

/-- the parameter vector the objective is evaluated at when the minimiser works at `x` -/
def fit_one_nostitch_objective_arg (i0 i1 i2 i3 lo0 hi0 lo1 hi1 lo2 hi2 lo3 hi3 f0 f1 f2 f3 x0 x1 x2 x3 : K) : List K := [x0, x1, x2, x3]

/-- the parameters `minimize` returns when the minimiser returns `x` -/
def fit_one_nostitch_result (i0 i1 i2 i3 lo0 hi0 lo1 hi1 lo2 hi2 lo3 hi3 f0 f1 f2 f3 x0 x1 x2 x3 : K) : List K := [x0, x1, x2, x3]

def fit_one_nostitch_par_names : List String := ["p0", "p1", "p2", "p3"]

/-- fixed_vals = [(0, 'f0'), (3, 'f3')], do_stitch = True: start vector handed to the minimiser -/
def fit_two_stitch_x0 (i0 i1 i2 i3 lo0 hi0 lo1 hi1 lo2 hi2 lo3 hi3 f0 f1 f2 f3 x0 x1 x2 x3 : K) : List K := [i1, i2]

def fit_two_stitch_bounds_lo (i0 i1 i2 i3 lo0 hi0 lo1 hi1 lo2 hi2 lo3 hi3 f0 f1 f2 f3 x0 x1 x2 x3 : K) : List K := [lo1, lo2]

def fit_two_stitch_bounds_hi (i0 i1 i2 i3 lo0 hi0 lo1 hi1 lo2 hi2 lo3 hi3 f0 f1 f2 f3 x0 x1 x2 x3 : K) : List K := [hi1, hi2]

/-- the (index, value) pairs the minimiser itself is asked to hold fixed -/
def fit_two_stitch_minimizer_fixed (i0 i1 i2 i3 lo0 hi0 lo1 hi1 lo2 hi2 lo3 hi3 f0 f1 f2 f3 x0 x1 x2 x3 : K) : List (Nat × K) := []

/-- the parameter vector the objective is evaluated at when the minimiser works at `x` -/
def fit_two_stitch_objective_arg (i0 i1 i2 i3 lo0 hi0 lo1 hi1 lo2 hi2 lo3 hi3 f0 f1 f2 f3 x0 x1 x2 x3 : K) : List K := [f0, x0, x1, f3]

/-- the parameters `minimize` returns when the minimiser returns `x` -/
def fit_two_stitch_result (i0 i1 i2 i3 lo0 hi0 lo1 hi1 lo2 hi2 lo3 hi3 f0 f1 f2 f3 x0 x1 x2 x3 : K) : List K := [f0, x0, x1, f3]

def fit_two_stitch_par_names : List String := ["p1", "p2"]

/-- fixed_vals = [(0, 'f0'), (3, 'f3')], do_stitch = False: start vector handed to the minimiser -/
def fit_two_nostitch_x0 (i0 i1 i2 i3 lo0 hi0 lo1 hi1 lo2 hi2 lo3 hi3 f0 f1 f2 f3 x0 x1 x2 x3 : K) : List K := [i0, i1, i2, i3]

def fit_two_nostitch_bounds_lo (i0 i1 i2 i3 lo0 hi0 lo1 hi1 lo2 hi2 lo3 hi3 f0 f1 f2 f3 x0 x1 x2 x3 : K) : List K := [lo0, lo1, lo2, lo3]

def fit_two_nostitch_bounds_hi (i0 i1 i2 i3 lo0 hi0 lo1 hi1 lo2 hi2 lo3 hi3 f0 f1 f2 f3 x0 x1 x2 x3 : K) : List K := [hi0, hi1, hi2, hi3]

/-- the (index, value) pairs the minimiser itself is asked to hold fixed -/
def fit_two_nostitch_minimizer_fixed (i0 i1 i2 i3 lo0 hi0 lo1 hi1 lo2 hi2 lo3 hi3 f0 f1 f2 f3 x0 x1 x2 x3 : K) : List (Nat × K) := [(0, f0), (3, f3)]

/-- the parameter vector the objective is evaluated at when the minimiser works at `x` -/
def fit_two_nostitch_objective_arg (i0 i1 i2 i3 lo0 hi0 lo1 hi1 lo2 hi2 lo3 hi3 f0 f1 f2 f3 x0 x1 x2 x3 : K) : List K := [x0, x1, x2, x3]

/-- the parameters `minimize` returns when the minimiser returns `x` -/
def fit_two_nostitch_result (i0 i1 i2 i3 lo0 hi0 lo1 hi1 lo2 hi2 lo3 hi3 f0 f1 f2 f3 x0 x1 x2 x3 : K) : List K := [x0, x1, x2, x3]

def fit_two_nostitch_par_names : List String := ["p0", "p1", "p2", "p3"]

/-- fixed_vals = [(3, 'f3'), (0, 'f0')], do_stitch = True: start vector handed to the minimiser -/
def fit_two_rev_stitch_x0 (i0 i1 i2 i3 lo0 hi0 lo1 hi1 lo2 hi2 lo3 hi3 f0 f1 f2 f3 x0 x1 x2 x3 : K) : List K := [i1, i2]

def fit_two_rev_stitch_bounds_lo (i0 i1 i2 i3 lo0 hi0 lo1 hi1 lo2 hi2 lo3 hi3 f0 f1 f2 f3 x0 x1 x2 x3 : K) : List K := [lo1, lo2]

def fit_two_rev_stitch_bounds_hi (i0 i1 i2 i3 lo0 hi0 lo1 hi1 lo2 hi2 lo3 hi3 f0 f1 f2 f3 x0 x1 x2 x3 : K) : List K := [hi1, hi2]

/-- the (index, value) pairs the minimiser itself is asked to hold fixed -/
def fit_two_rev_stitch_minimizer_fixed (i0 i1 i2 i3 lo0 hi0 lo1 hi1 lo2 hi2 lo3 hi3 f0 f1 f2 f3 x0 x1 x2 x3 : K) : List (Nat × K) := []

/-- the parameter vector the objective is evaluated at when the minimiser works at `x` -/
def fit_two_rev_stitch_objective_arg (i0 i1 i2 i3 lo0 hi0 lo1 hi1 lo2 hi2 lo3 hi3 f0 f1 f2 f3 x0 x1 x2 x3 : K) : List K := [f0, x0, x1, f3]

/-- the parameters `minimize` returns when the minimiser returns `x` -/
def fit_two_rev_stitch_result (i0 i1 i2 i3 lo0 hi0 lo1 hi1 lo2 hi2 lo3 hi3 f0 f1 f2 f3 x0 x1 x2 x3 : K) : List K := [f0, x0, x1, f3]

def fit_two_rev_stitch_par_names : List String := ["p1", "p2"]

/-- fixed_vals = [(3, 'f3'), (0, 'f0')], do_stitch = False: start vector handed to the minimiser -/
def fit_two_rev_nostitch_x0 (i0 i1 i2 i3 lo0 hi0 lo1 hi1 lo2 hi2 lo3 hi3 f0 f1 f2 f3 x0 x1 x2 x3 : K) : List K := [i0, i1, i2, i3]

def fit_two_rev_nostitch_bounds_lo (i0 i1 i2 i3 lo0 hi0 lo1 hi1 lo2 hi2 lo3 hi3 f0 f1 f2 f3 x0 x1 x2 x3 : K) : List K := [lo0, lo1, lo2, lo3]

def fit_two_rev_nostitch_bounds_hi (i0 i1 i2 i3 lo0 hi0 lo1 hi1 lo2 hi2 lo3 hi3 f0 f1 f2 f3 x0 x1 x2 x3 : K) : List K := [hi0, hi1, hi2, hi3]

/-- the (index, value) pairs the minimiser itself is asked to hold fixed -/
def fit_two_rev_nostitch_minimizer_fixed (i0 i1 i2 i3 lo0 hi0 lo1 hi1 lo2 hi2 lo3 hi3 f0 f1 f2 f3 x0 x1 x2 x3 : K) : List (Nat × K) := [(3, f3), (0, f0)]

/-- the parameter vector the objective is evaluated at when the minimiser works at `x` -/
def fit_two_rev_nostitch_objective_arg (i0 i1 i2 i3 lo0 hi0 lo1 hi1 lo2 hi2 lo3 hi3 f0 f1 f2 f3 x0 x1 x2 x3 : K) : List K := [x0, x1, x2, x3]

/-- the parameters `minimize` returns when the minimiser returns `x` -/
def fit_two_rev_nostitch_result (i0 i1 i2 i3 lo0 hi0 lo1 hi1 lo2 hi2 lo3 hi3 f0 f1 f2 f3 x0 x1 x2 x3 : K) : List K := [x0, x1, x2, x3]

def fit_two_rev_nostitch_par_names : List String := ["p0", "p1", "p2", "p3"]

/-- fixed_vals = [(2, 'f2'), (0, 'f0'), (1, 'f1')], do_stitch = True: start vector handed to the minimiser -/
def fit_three_perm_stitch_x0 (i0 i1 i2 i3 lo0 hi0 lo1 hi1 lo2 hi2 lo3 hi3 f0 f1 f2 f3 x0 x1 x2 x3 : K) : List K := [i3]

def fit_three_perm_stitch_bounds_lo (i0 i1 i2 i3 lo0 hi0 lo1 hi1 lo2 hi2 lo3 hi3 f0 f1 f2 f3 x0 x1 x2 x3 : K) : List K := [lo3]

def fit_three_perm_stitch_bounds_hi (i0 i1 i2 i3 lo0 hi0 lo1 hi1 lo2 hi2 lo3 hi3 f0 f1 f2 f3 x0 x1 x2 x3 : K) : List K := [hi3]

/-- the (index, value) pairs the minimiser itself is asked to hold fixed -/
def fit_three_perm_stitch_minimizer_fixed (i0 i1 i2 i3 lo0 hi0 lo1 hi1 lo2 hi2 lo3 hi3 f0 f1 f2 f3 x0 x1 x2 x3 : K) : List (Nat × K) := []

/-- the parameter vector the objective is evaluated at when the minimiser works at `x` -/
def fit_three_perm_stitch_objective_arg (i0 i1 i2 i3 lo0 hi0 lo1 hi1 lo2 hi2 lo3 hi3 f0 f1 f2 f3 x0 x1 x2 x3 : K) : List K := [f0, f1, f2, x0]

/-- the parameters `minimize` returns when the minimiser returns `x` -/
def fit_three_perm_stitch_result (i0 i1 i2 i3 lo0 hi0 lo1 hi1 lo2 hi2 lo3 hi3 f0 f1 f2 f3 x0 x1 x2 x3 : K) : List K := [f0, f1, f2, x0]

def fit_three_perm_stitch_par_names : List String := ["p3"]

/-- fixed_vals = [(2, 'f2'), (0, 'f0'), (1, 'f1')], do_stitch = False: start vector handed to the minimiser -/
def fit_three_perm_nostitch_x0 (i0 i1 i2 i3 lo0 hi0 lo1 hi1 lo2 hi2 lo3 hi3 f0 f1 f2 f3 x0 x1 x2 x3 : K) : List K := [i0, i1, i2, i3]

def fit_three_perm_nostitch_bounds_lo (i0 i1 i2 i3 lo0 hi0 lo1 hi1 lo2 hi2 lo3 hi3 f0 f1 f2 f3 x0 x1 x2 x3 : K) : List K := [lo0, lo1, lo2, lo3]

def fit_three_perm_nostitch_bounds_hi (i0 i1 i2 i3 lo0 hi0 lo1 hi1 lo2 hi2 lo3 hi3 f0 f1 f2 f3 x0 x1 x2 x3 : K) : List K := [hi0, hi1, hi2, hi3]

/-- the (index, value) pairs the minimiser itself is asked to hold fixed -/
def fit_three_perm_nostitch_minimizer_fixed (i0 i1 i2 i3 lo0 hi0 lo1 hi1 lo2 hi2 lo3 hi3 f0 f1 f2 f3 x0 x1 x2 x3 : K) : List (Nat × K) := [(2, f2), (0, f0), (1, f1)]

/-- the parameter vector the objective is evaluated at when the minimiser works at `x` -/
def fit_three_perm_nostitch_objective_arg (i0 i1 i2 i3 lo0 hi0 lo1 hi1 lo2 hi2 lo3 hi3 f0 f1 f2 f3 x0 x1 x2 x3 : K) : List K := [x0, x1, x2, x3]

/-- the parameters `minimize` returns when the minimiser returns `x` -/
def fit_three_perm_nostitch_result (i0 i1 i2 i3 lo0 hi0 lo1 hi1 lo2 hi2 lo3 hi3 f0 f1 f2 f3 x0 x1 x2 x3 : K) : List K := [x0, x1, x2, x3]

def fit_three_perm_nostitch_par_names : List String := ["p0", "p1", "p2", "p3"]

/-! `mle.fit` (c21d09da96d612e5…), `mle.fixed_poi_fit` (5232d6760784a8f3…): the (index, value) pairs handed to the optimiser; POI index 1 -/

/-- `fit(..., fixed_params=[False, True, False, True])` -/
def mle_fit_ftft_fixed_vals (i0 i1 i2 i3 poival : K) : List (Nat × K) := [(1, i1), (3, i3)]

def mle_fit_ftft_init (i0 i1 i2 i3 poival : K) : List K := [i0, i1, i2, i3]

/-- `fixed_poi_fit(poival, ..., fixed_params=[False, True, False, True])` -/
def mle_fixed_poi_fit_ftft_fixed_vals (i0 i1 i2 i3 poival : K) : List (Nat × K) := [(1, poival), (3, i3)]

def mle_fixed_poi_fit_ftft_init (i0 i1 i2 i3 poival : K) : List K := [i0, poival, i2, i3]

/-- `fit(..., fixed_params=[True, False, False, True])` -/
def mle_fit_tfft_fixed_vals (i0 i1 i2 i3 poival : K) : List (Nat × K) := [(0, i0), (3, i3)]

def mle_fit_tfft_init (i0 i1 i2 i3 poival : K) : List K := [i0, i1, i2, i3]

/-- `fixed_poi_fit(poival, ..., fixed_params=[True, False, False, True])` -/
def mle_fixed_poi_fit_tfft_fixed_vals (i0 i1 i2 i3 poival : K) : List (Nat × K) := [(0, i0), (1, poival), (3, i3)]

def mle_fixed_poi_fit_tfft_init (i0 i1 i2 i3 poival : K) : List K := [i0, poival, i2, i3]

end
end Pyhf.Gen
