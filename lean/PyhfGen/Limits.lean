import PyhfModel.Basic
/-!
# GENERATED — do not edit.  Regenerated on every C09 check by `harness/gen_limits.py` from `src/pyhf/infer/intervals/upper_limits.py` by
symbolic execution: `linear_grid_scan` on a three-point scan with symbolic hypotest results (`numpy.interp` uninterpreted), and
`upper_limit` with the scan routines replaced by recorders.
-/
namespace Pyhf.Gen
section
variable {K : Type} [Add K] [Sub K] [Mul K] [Div K] [Neg K] [OfNat K 0] [OfNat K 1]
  [OfScientific K] [LT K] [LE K] [DecidableLT K] [DecidableLE K]

/-! `linear_grid_scan` (source sha256 8bca916f9f4b5ae9…), `_interp` (2443346ec51e01a5…): scan `(m0, m1, m2)`; `hypotest` at `m<i>` returns
observed `c<i>` and the expected band `e<i>_0 … e<i>_4`; extra keyword arguments reach `hypotest` unchanged -/

def grid_limit_obs (npInterp : K → List K → List K → K) (level m0 m1 m2 c0 c1 c2 e0_0 e0_1 e0_2 e0_3 e0_4 e1_0 e1_1 e1_2 e1_3 e1_4 e2_0 e2_1 e2_2 e2_3 e2_4 : K) : K :=
  (npInterp level [c2, c1, c0] [m2, m1, m0])

def grid_limit_exp0 (npInterp : K → List K → List K → K) (level m0 m1 m2 c0 c1 c2 e0_0 e0_1 e0_2 e0_3 e0_4 e1_0 e1_1 e1_2 e1_3 e1_4 e2_0 e2_1 e2_2 e2_3 e2_4 : K) : K :=
  (npInterp level [e2_0, e1_0, e0_0] [m2, m1, m0])

def grid_limit_exp1 (npInterp : K → List K → List K → K) (level m0 m1 m2 c0 c1 c2 e0_0 e0_1 e0_2 e0_3 e0_4 e1_0 e1_1 e1_2 e1_3 e1_4 e2_0 e2_1 e2_2 e2_3 e2_4 : K) : K :=
  (npInterp level [e2_1, e1_1, e0_1] [m2, m1, m0])

def grid_limit_exp2 (npInterp : K → List K → List K → K) (level m0 m1 m2 c0 c1 c2 e0_0 e0_1 e0_2 e0_3 e0_4 e1_0 e1_1 e1_2 e1_3 e1_4 e2_0 e2_1 e2_2 e2_3 e2_4 : K) : K :=
  (npInterp level [e2_2, e1_2, e0_2] [m2, m1, m0])

def grid_limit_exp3 (npInterp : K → List K → List K → K) (level m0 m1 m2 c0 c1 c2 e0_0 e0_1 e0_2 e0_3 e0_4 e1_0 e1_1 e1_2 e1_3 e1_4 e2_0 e2_1 e2_2 e2_3 e2_4 : K) : K :=
  (npInterp level [e2_3, e1_3, e0_3] [m2, m1, m0])

def grid_limit_exp4 (npInterp : K → List K → List K → K) (level m0 m1 m2 c0 c1 c2 e0_0 e0_1 e0_2 e0_3 e0_4 e1_0 e1_1 e1_2 e1_3 e1_4 e2_0 e2_1 e2_2 e2_3 e2_4 : K) : K :=
  (npInterp level [e2_4, e1_4, e0_4] [m2, m1, m0])

/-! `upper_limit` (source sha256 e448d5109af197a5…): the observed limit it returns, with the scan routines as parameters; the model's suggested
POI bounds are `(poi_lo, poi_hi)`; extra keyword arguments reach the scan routine unchanged -/

def upper_limit_auto (tomsScan : K → K → K → K) (level poi_lo poi_hi : K) : K :=
  (tomsScan level poi_lo poi_hi)

def upper_limit_grid (gridScan : K → K) (level : K) : K :=
  (gridScan level)

end
end Pyhf.Gen
