import PyhfModel.Basic
/-!
# GENERATED — do not edit.  Regenerated on every C12 check by `harness/gen_config.py`: the quantities `_ModelConfig` reports for a
specification with all seven modifier types whose measurement overrides are symbols (`i_*` initial values, `lo_*`/`hi_*` bounds, `x_*`
auxiliary data, `sg_*` widths, `f_*` factors), obtained by running `pyhf.Model(spec)` on symbolic numbers.
-/
namespace Pyhf.Gen
section
variable {K : Type} [Add K] [Sub K] [Mul K] [Div K] [Neg K] [OfNat K 0] [OfNat K 1]
  [OfScientific K] [LT K] [LE K] [DecidableLT K] [DecidableLE K]

/-! pdf.py + parameters/utils.py + parameters/paramsets.py sha256 1c62f2772510578e… -/

def cfg_par_order : List String := ["sysH", "lumi", "mu", "sysA", "sf", "uncorr", "stat_SR"]

def cfg_par_names : List String := ["sysH", "lumi", "mu", "sysA", "sf[0]", "sf[1]", "uncorr[0]", "uncorr[1]", "stat_SR[0]", "stat_SR[1]"]

def cfg_par_slices : List (String × Nat × Nat) := [("sysH", 0, 1), ("lumi", 1, 2), ("mu", 2, 3), ("sysA", 3, 4), ("sf", 4, 6), ("uncorr", 6, 8), ("stat_SR", 8, 10)]

def cfg_npars : Nat := 10

def cfg_poi_index : Nat := 2

def cfg_suggested_fixed : List Bool := [false, true, false, false, false, false, false, false, false, false]

def cfg_auxdata_order : List String := ["sysH", "lumi", "sysA", "uncorr", "stat_SR"]

def cfg_suggested_init (P : Prim K) (s0 s1 slo shi b0 b1 u0 u1 eb0 eb1 hl0 hl1 hh0 hh1 : K) (i_mu lo_mu hi_mu x_lumi sg_lumi i_lumi lo_lumi hi_lumi i_sysA x_sysA i_st0 i_st1 sg_st0 sg_st1 lo_sf0 hi_sf0 lo_sf1 hi_sf1 x_u0 x_u1 f_u0 f_u1 : K) : List K :=
  [(0.0 : K), i_lumi, i_mu, i_sysA, (1.0 : K), (1.0 : K), (1.0 : K), (1.0 : K), i_st0, i_st1]

def cfg_suggested_bounds_lo (P : Prim K) (s0 s1 slo shi b0 b1 u0 u1 eb0 eb1 hl0 hl1 hh0 hh1 : K) (i_mu lo_mu hi_mu x_lumi sg_lumi i_lumi lo_lumi hi_lumi i_sysA x_sysA i_st0 i_st1 sg_st0 sg_st1 lo_sf0 hi_sf0 lo_sf1 hi_sf1 x_u0 x_u1 f_u0 f_u1 : K) : List K :=
  [(-(5.0 : K)), lo_lumi, lo_mu, (-(5.0 : K)), lo_sf0, lo_sf1, (0.00000000010000000000000000364321973154977415791655470655996396089904010295867919921875 : K), (0.00000000010000000000000000364321973154977415791655470655996396089904010295867919921875 : K), (0.00000000010000000000000000364321973154977415791655470655996396089904010295867919921875 : K), (0.00000000010000000000000000364321973154977415791655470655996396089904010295867919921875 : K)]

def cfg_suggested_bounds_hi (P : Prim K) (s0 s1 slo shi b0 b1 u0 u1 eb0 eb1 hl0 hl1 hh0 hh1 : K) (i_mu lo_mu hi_mu x_lumi sg_lumi i_lumi lo_lumi hi_lumi i_sysA x_sysA i_st0 i_st1 sg_st0 sg_st1 lo_sf0 hi_sf0 lo_sf1 hi_sf1 x_u0 x_u1 f_u0 f_u1 : K) : List K :=
  [(5.0 : K), hi_lumi, hi_mu, (5.0 : K), hi_sf0, hi_sf1, (10.0 : K), (10.0 : K), (10.0 : K), (10.0 : K)]

def cfg_auxdata (P : Prim K) (s0 s1 slo shi b0 b1 u0 u1 eb0 eb1 hl0 hl1 hh0 hh1 : K) (i_mu lo_mu hi_mu x_lumi sg_lumi i_lumi lo_lumi hi_lumi i_sysA x_sysA i_st0 i_st1 sg_st0 sg_st1 lo_sf0 hi_sf0 lo_sf1 hi_sf1 x_u0 x_u1 f_u0 f_u1 : K) : List K :=
  [(0.0 : K), x_lumi, x_sysA, x_u0, x_u1, (1.0 : K), (1.0 : K)]

def cfg_normal_widths (P : Prim K) (s0 s1 slo shi b0 b1 u0 u1 eb0 eb1 hl0 hl1 hh0 hh1 : K) (i_mu lo_mu hi_mu x_lumi sg_lumi i_lumi lo_lumi hi_lumi i_sysA x_sysA i_st0 i_st1 sg_st0 sg_st1 lo_sf0 hi_sf0 lo_sf1 hi_sf1 x_u0 x_u1 f_u0 f_u1 : K) : List K :=
  [(1.0 : K), sg_lumi, (1.0 : K), sg_st0, sg_st1]

def cfg_poisson_factors (P : Prim K) (s0 s1 slo shi b0 b1 u0 u1 eb0 eb1 hl0 hl1 hh0 hh1 : K) (i_mu lo_mu hi_mu x_lumi sg_lumi i_lumi lo_lumi hi_lumi i_sysA x_sysA i_st0 i_st1 sg_st0 sg_st1 lo_sf0 hi_sf0 lo_sf1 hi_sf1 x_u0 x_u1 f_u0 f_u1 : K) : List K :=
  [f_u0, f_u1]

/-- the channel layout of a model whose specification lists ZR (3 bins), AR (1 bin), MR (2 bins) in this order -/
def lay_declared : List (String × Nat) := [("ZR", 3), ("AR", 1), ("MR", 2)]

def lay_channels : List String := ["AR", "MR", "ZR"]

def lay_samples : List String := ["qcd", "ttbar", "wjets"]

def lay_channel_nbins : List (String × Nat) := [("AR", 1), ("MR", 2), ("ZR", 3)]

def lay_channel_slices : List (String × Nat × Nat) := [("AR", 0, 1), ("MR", 1, 3), ("ZR", 3, 6)]

def lay_nmaindata : Nat := 6

def lay_par_slices : List (String × Nat × Nat) := [("mu", 0, 1), ("sfz", 1, 4), ("ssm", 4, 6)]

def lay_npars : Nat := 6

end
end Pyhf.Gen
