import PyhfModel.Basic
/-!
# GENERATED — do not edit.  Regenerated on every C04 check by `harness/gen_prob.py` from `src/pyhf/tensor/numpy_backend.py` and
`jax_backend.py` by symbolic execution of the running methods (`xlogy`, `gammaln` uninterpreted; the array namespace symbolic, `pi` a
symbol).  Source digests are recorded per definition.
-/
namespace Pyhf.Gen
section
variable {K : Type} [Add K] [Sub K] [Mul K] [Div K] [Neg K] [OfNat K 0] [OfNat K 1]
  [OfScientific K] [LT K] [LE K] [DecidableLT K] [DecidableLE K]

/-- `numpy_backend.poisson_logpdf` (source sha256 1d38ca88e9a77ff3…) -/
def np_poisson_logpdf (P : Prim K) (xlogy : K → K → K) (lgamma : K → K) (n lam : K) : K :=
  (((xlogy n lam) - lam) - (lgamma (n + (1.0 : K))))

/-- `numpy_backend.poisson` (source sha256 3edb65eb0f687708…) -/
def np_poisson (P : Prim K) (xlogy : K → K → K) (lgamma : K → K) (n lam : K) : K :=
  (P.exp (((xlogy n lam) - lam) - (lgamma (n + (1.0 : K)))))

/-- `numpy_backend.normal_logpdf` (source sha256 d27275578967c85d…) -/
def np_normal_logpdf (P : Prim K) (pi : K) (x mu sigma : K) : K :=
  ((-(P.log (sigma * (P.sqrt ((2.0 : K) * pi))))) + (-(((x - mu) / ((P.sqrt (2.0 : K)) * sigma)) * ((x - mu) / ((P.sqrt (2.0 : K)) * sigma)))))

/-- `jax_backend.poisson_logpdf` (source sha256 db2d1c7df3b74360…) -/
def jax_poisson_logpdf (P : Prim K) (xlogy : K → K → K) (lgamma : K → K) (n lam : K) : K :=
  (((xlogy n lam) - lam) - (lgamma (n + (1.0 : K))))

/-- `jax_backend.poisson` (source sha256 29c7181817457cd7…) -/
def jax_poisson (P : Prim K) (xlogy : K → K → K) (lgamma : K → K) (n lam : K) : K :=
  (P.exp (((xlogy n lam) - lam) - (lgamma (n + (1.0 : K)))))

/-- `jax_backend.normal_logpdf` (source sha256 03f7c6e7e610556a…) -/
def jax_normal_logpdf (P : Prim K) (pi : K) (x mu sigma : K) : K :=
  ((-(P.log (sigma * (P.sqrt ((2.0 : K) * pi))))) + (-(((x - mu) / ((P.sqrt (2.0 : K)) * sigma)) * ((x - mu) / ((P.sqrt (2.0 : K)) * sigma)))))

end
end Pyhf.Gen
