/-!
# GENERATED — do not edit.  Regenerated on every C20 check by `harness/gen_exc.py` from the running `pyhf.exceptions` module.
-/
namespace Pyhf.Gen

/-- the exception classes defined in `pyhf/exceptions/__init__.py` -/
def pyhfExceptionClasses : List String := ["FailedMinimization", "ImportBackendError", "InvalidArchiveHost", "InvalidBackend", "InvalidInterpCode", "InvalidMeasurement", "InvalidModel", "InvalidModifier", "InvalidNameReuse", "InvalidOptimizer", "InvalidPatchLookup", "InvalidPatchSet", "InvalidPdfData", "InvalidPdfParameters", "InvalidSpecification", "InvalidTestStatistic", "InvalidWorkspaceOperation", "PatchSetVerificationError", "UnspecifiedPOI", "Unsupported"]

/-- the builtin classes they derive from (nothing more specific than `Exception`: a caller catching `ValueError`, `KeyError`, … never
catches one of them by accident) -/
def pyhfExceptionBases : List String := ["BaseException", "Exception"]

end Pyhf.Gen
