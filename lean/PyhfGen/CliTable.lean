/-!
# GENERATED — do not edit.  Regenerated on every C19 check by `harness/gen_cli.py` from the `click` command objects of `pyhf.cli`
(`cli/infer.py`, `cli/spec.py`, `cli/patchset.py`, `cli/rootio.py`): one row per parameter of every modelled subcommand.
-/
namespace Pyhf.Gen

/-- one command-line parameter as click declares it -/
structure CliParam where
  isOption : Bool
  dest : String
  opts : List String
  multiple : Bool
  isFlag : Bool
  nargs : Nat
  choices : List String
  /-- the default rendered as text (`none` = no default / unset) -/
  default : Option String
deriving DecidableEq, Repr


/-- subcommand → its parameters in declaration order -/
def cliTable : List (String × List CliParam) := [
  -- callback source sha256 a1a1e2980339…
  ("cls", [
    { isOption := false, dest := "workspace", opts := ["workspace"], multiple := false, isFlag := false, nargs := 1, choices := [], default := some "-" },
    { isOption := true, dest := "output_file", opts := ["--output-file"], multiple := false, isFlag := false, nargs := 1, choices := [], default := none },
    { isOption := true, dest := "measurement", opts := ["--measurement"], multiple := false, isFlag := false, nargs := 1, choices := [], default := none },
    { isOption := true, dest := "patch", opts := ["-p", "--patch"], multiple := true, isFlag := false, nargs := 1, choices := [], default := none },
    { isOption := true, dest := "test_poi", opts := ["--test-poi"], multiple := false, isFlag := false, nargs := 1, choices := [], default := some "1.0" },
    { isOption := true, dest := "test_stat", opts := ["--test-stat"], multiple := false, isFlag := false, nargs := 1, choices := ["q", "qtilde"], default := some "qtilde" },
    { isOption := true, dest := "calctype", opts := ["--calctype"], multiple := false, isFlag := false, nargs := 1, choices := ["asymptotics", "toybased"], default := some "asymptotics" },
    { isOption := true, dest := "backend", opts := ["--backend"], multiple := false, isFlag := false, nargs := 1, choices := ["numpy", "pytorch", "tensorflow", "jax", "np", "torch", "tf"], default := some "numpy" },
    { isOption := true, dest := "optimizer", opts := ["--optimizer"], multiple := false, isFlag := false, nargs := 1, choices := ["scipy", "minuit"], default := some "scipy" },
    { isOption := true, dest := "optconf", opts := ["--optconf"], multiple := true, isFlag := false, nargs := 1, choices := [], default := none }]),
  -- callback source sha256 49b66d637cfc…
  ("combine", [
    { isOption := false, dest := "workspace_one", opts := ["workspace-one"], multiple := false, isFlag := false, nargs := 1, choices := [], default := some "-" },
    { isOption := false, dest := "workspace_two", opts := ["workspace-two"], multiple := false, isFlag := false, nargs := 1, choices := [], default := some "-" },
    { isOption := true, dest := "join", opts := ["-j", "--join"], multiple := false, isFlag := false, nargs := 1, choices := ["none", "outer", "left outer", "right outer"], default := some "none" },
    { isOption := true, dest := "output_file", opts := ["--output-file"], multiple := false, isFlag := false, nargs := 1, choices := [], default := none },
    { isOption := true, dest := "merge_channels", opts := ["--merge-channels"], multiple := false, isFlag := true, nargs := 1, choices := [], default := some "False" }]),
  -- callback source sha256 53489b65cfdf…
  ("digest", [
    { isOption := false, dest := "workspace", opts := ["workspace"], multiple := false, isFlag := false, nargs := 1, choices := [], default := some "-" },
    { isOption := true, dest := "algorithm", opts := ["-a", "--algorithm"], multiple := true, isFlag := false, nargs := 1, choices := [], default := some "sha256" },
    { isOption := true, dest := "output_json", opts := ["-j", "--json"], multiple := false, isFlag := true, nargs := 1, choices := [], default := none }]),
  -- callback source sha256 245ce049b571…
  ("fit", [
    { isOption := false, dest := "workspace", opts := ["workspace"], multiple := false, isFlag := false, nargs := 1, choices := [], default := some "-" },
    { isOption := true, dest := "output_file", opts := ["--output-file"], multiple := false, isFlag := false, nargs := 1, choices := [], default := none },
    { isOption := true, dest := "measurement", opts := ["--measurement"], multiple := false, isFlag := false, nargs := 1, choices := [], default := none },
    { isOption := true, dest := "patch", opts := ["-p", "--patch"], multiple := true, isFlag := false, nargs := 1, choices := [], default := none },
    { isOption := true, dest := "value", opts := ["--value"], multiple := false, isFlag := true, nargs := 1, choices := [], default := some "False" },
    { isOption := true, dest := "backend", opts := ["--backend"], multiple := false, isFlag := false, nargs := 1, choices := ["numpy", "pytorch", "tensorflow", "jax", "np", "torch", "tf"], default := some "numpy" },
    { isOption := true, dest := "optimizer", opts := ["--optimizer"], multiple := false, isFlag := false, nargs := 1, choices := ["scipy", "minuit"], default := some "scipy" },
    { isOption := true, dest := "optconf", opts := ["--optconf"], multiple := true, isFlag := false, nargs := 1, choices := [], default := none }]),
  -- callback source sha256 4ed16a8b06da…
  ("inspect", [
    { isOption := false, dest := "workspace", opts := ["workspace"], multiple := false, isFlag := false, nargs := 1, choices := [], default := some "-" },
    { isOption := true, dest := "output_file", opts := ["--output-file"], multiple := false, isFlag := false, nargs := 1, choices := [], default := none },
    { isOption := true, dest := "measurement", opts := ["--measurement"], multiple := false, isFlag := false, nargs := 1, choices := [], default := none }]),
  -- callback source sha256 f827ad648992…
  ("json2xml", [
    { isOption := false, dest := "workspace", opts := ["workspace"], multiple := false, isFlag := false, nargs := 1, choices := [], default := some "-" },
    { isOption := true, dest := "output_dir", opts := ["--output-dir"], multiple := false, isFlag := false, nargs := 1, choices := [], default := some "." },
    { isOption := true, dest := "specroot", opts := ["--specroot"], multiple := false, isFlag := false, nargs := 1, choices := [], default := some "config" },
    { isOption := true, dest := "dataroot", opts := ["--dataroot"], multiple := false, isFlag := false, nargs := 1, choices := [], default := some "data" },
    { isOption := true, dest := "resultprefix", opts := ["--resultprefix"], multiple := false, isFlag := false, nargs := 1, choices := [], default := some "FitConfig" },
    { isOption := true, dest := "patch", opts := ["-p", "--patch"], multiple := true, isFlag := false, nargs := 1, choices := [], default := none }]),
  -- callback source sha256 7835c7dbc2aa…
  ("patchset apply", [
    { isOption := false, dest := "background_only", opts := ["background-only"], multiple := false, isFlag := false, nargs := 1, choices := [], default := some "-" },
    { isOption := false, dest := "patchset", opts := ["patchset"], multiple := false, isFlag := false, nargs := 1, choices := [], default := some "-" },
    { isOption := true, dest := "name", opts := ["--name"], multiple := false, isFlag := false, nargs := 1, choices := [], default := none },
    { isOption := true, dest := "output_file", opts := ["--output-file"], multiple := false, isFlag := false, nargs := 1, choices := [], default := none }]),
  -- callback source sha256 764d77afc7dd…
  ("patchset extract", [
    { isOption := false, dest := "patchset", opts := ["patchset"], multiple := false, isFlag := false, nargs := 1, choices := [], default := some "-" },
    { isOption := true, dest := "name", opts := ["--name"], multiple := false, isFlag := false, nargs := 1, choices := [], default := none },
    { isOption := true, dest := "output_file", opts := ["--output-file"], multiple := false, isFlag := false, nargs := 1, choices := [], default := none },
    { isOption := true, dest := "with_metadata", opts := ["--with-metadata"], multiple := false, isFlag := true, nargs := 1, choices := [], default := some "False" }]),
  -- callback source sha256 537bf778711a…
  ("patchset inspect", [
    { isOption := false, dest := "patchset", opts := ["patchset"], multiple := false, isFlag := false, nargs := 1, choices := [], default := some "-" }]),
  -- callback source sha256 8f35179df32a…
  ("patchset verify", [
    { isOption := false, dest := "background_only", opts := ["background-only"], multiple := false, isFlag := false, nargs := 1, choices := [], default := some "-" },
    { isOption := false, dest := "patchset", opts := ["patchset"], multiple := false, isFlag := false, nargs := 1, choices := [], default := some "-" }]),
  -- callback source sha256 fd40109b1034…
  ("prune", [
    { isOption := false, dest := "workspace", opts := ["workspace"], multiple := false, isFlag := false, nargs := 1, choices := [], default := some "-" },
    { isOption := true, dest := "output_file", opts := ["--output-file"], multiple := false, isFlag := false, nargs := 1, choices := [], default := none },
    { isOption := true, dest := "channel", opts := ["-c", "--channel"], multiple := true, isFlag := false, nargs := 1, choices := [], default := none },
    { isOption := true, dest := "sample", opts := ["-s", "--sample"], multiple := true, isFlag := false, nargs := 1, choices := [], default := none },
    { isOption := true, dest := "modifier", opts := ["-m", "--modifier"], multiple := true, isFlag := false, nargs := 1, choices := [], default := none },
    { isOption := true, dest := "modifier_type", opts := ["-t", "--modifier-type"], multiple := true, isFlag := false, nargs := 1, choices := ["histosys", "lumi", "normfactor", "normsys", "shapefactor", "shapesys", "staterror"], default := none },
    { isOption := true, dest := "measurement", opts := ["--measurement"], multiple := true, isFlag := false, nargs := 1, choices := [], default := none }]),
  -- callback source sha256 d7c508fdaa41…
  ("rename", [
    { isOption := false, dest := "workspace", opts := ["workspace"], multiple := false, isFlag := false, nargs := 1, choices := [], default := some "-" },
    { isOption := true, dest := "output_file", opts := ["--output-file"], multiple := false, isFlag := false, nargs := 1, choices := [], default := none },
    { isOption := true, dest := "channel", opts := ["-c", "--channel"], multiple := true, isFlag := false, nargs := 2, choices := [], default := none },
    { isOption := true, dest := "sample", opts := ["-s", "--sample"], multiple := true, isFlag := false, nargs := 2, choices := [], default := none },
    { isOption := true, dest := "modifier", opts := ["-m", "--modifier"], multiple := true, isFlag := false, nargs := 2, choices := [], default := none },
    { isOption := true, dest := "measurement", opts := ["--measurement"], multiple := true, isFlag := false, nargs := 2, choices := [], default := none }]),
  -- callback source sha256 b07a132399d6…
  ("sort", [
    { isOption := false, dest := "workspace", opts := ["workspace"], multiple := false, isFlag := false, nargs := 1, choices := [], default := some "-" },
    { isOption := true, dest := "output_file", opts := ["--output-file"], multiple := false, isFlag := false, nargs := 1, choices := [], default := none }]),
  -- callback source sha256 30038329b89a…
  ("xml2json", [
    { isOption := false, dest := "entrypoint_xml", opts := ["entrypoint-xml"], multiple := false, isFlag := false, nargs := 1, choices := [], default := none },
    { isOption := true, dest := "basedir", opts := ["--basedir"], multiple := false, isFlag := false, nargs := 1, choices := [], default := some "<cwd>" },
    { isOption := true, dest := "mount", opts := ["-v", "--mount"], multiple := true, isFlag := false, nargs := 1, choices := [], default := none },
    { isOption := true, dest := "output_file", opts := ["--output-file"], multiple := false, isFlag := false, nargs := 1, choices := [], default := none },
    { isOption := true, dest := "track_progress", opts := ["--track-progress"], multiple := false, isFlag := true, nargs := 1, choices := [], default := some "True" },
    { isOption := true, dest := "validation_as_error", opts := ["--validation-as-error"], multiple := false, isFlag := true, nargs := 1, choices := [], default := some "True" }])
]

end Pyhf.Gen
