import PyhfModel.Basic
/-!
# GENERATED — do not edit.  Regenerated on every C06 / C07 check by `harness/gen_infer.py` from `src/pyhf/infer/test_statistics.py`
and `src/pyhf/infer/calculators.py` by symbolic execution of the running code (fits, statistic evaluations and Φ symbolic).
-/
namespace Pyhf.Gen
section
variable {K : Type} [Add K] [Sub K] [Mul K] [Div K] [Neg K] [OfNat K 0] [OfNat K 1]
  [OfScientific K] [LT K] [LE K] [DecidableLT K] [DecidableLE K] [DecidableEq K]

/-- `test_statistics.py::qmu` (source sha256 4163a196785545ff…): value, called with POI bounds `(blo, bhi)`; `fit` handed the POI
bounds `(l, h)` returns `(muhatOf l h, vfreeOf l h)`, `fixed_poi_fit μ` handed them returns the objective value `fixedValOf l h μ` -/
def qmu (fixedValOf : K → K → K → K) (vfreeOf muhatOf : K → K → K) (blo bhi mu : K) : K :=
  if (0.0 : K) ≤ ((fixedValOf blo bhi mu) - (vfreeOf blo bhi)) then
    if mu < (muhatOf blo bhi) then
      (0.0 : K)
    else
      ((fixedValOf blo bhi mu) - (vfreeOf blo bhi))
  else
    (0.0 : K)

/-- `test_statistics.py::qmu_tilde` (source sha256 6abb876c547e707a…): value, called with POI bounds `(blo, bhi)`; `fit` handed the POI
bounds `(l, h)` returns `(muhatOf l h, vfreeOf l h)`, `fixed_poi_fit μ` handed them returns the objective value `fixedValOf l h μ` -/
def qmu_tilde (fixedValOf : K → K → K → K) (vfreeOf muhatOf : K → K → K) (blo bhi mu : K) : K :=
  if (0.0 : K) ≤ ((fixedValOf blo bhi mu) - (vfreeOf blo bhi)) then
    if mu < (muhatOf blo bhi) then
      (0.0 : K)
    else
      ((fixedValOf blo bhi mu) - (vfreeOf blo bhi))
  else
    (0.0 : K)

/-- `test_statistics.py::tmu` (source sha256 44efdddbb13e78ef…): value, called with POI bounds `(blo, bhi)`; `fit` handed the POI
bounds `(l, h)` returns `(muhatOf l h, vfreeOf l h)`, `fixed_poi_fit μ` handed them returns the objective value `fixedValOf l h μ` -/
def tmu (fixedValOf : K → K → K → K) (vfreeOf muhatOf : K → K → K) (blo bhi mu : K) : K :=
  if (0.0 : K) ≤ ((fixedValOf blo bhi mu) - (vfreeOf blo bhi)) then
    ((fixedValOf blo bhi mu) - (vfreeOf blo bhi))
  else
    (0.0 : K)

/-- `test_statistics.py::tmu_tilde` (source sha256 ab40dc6376fb084a…): value, called with POI bounds `(blo, bhi)`; `fit` handed the POI
bounds `(l, h)` returns `(muhatOf l h, vfreeOf l h)`, `fixed_poi_fit μ` handed them returns the objective value `fixedValOf l h μ` -/
def tmu_tilde (fixedValOf : K → K → K → K) (vfreeOf muhatOf : K → K → K) (blo bhi mu : K) : K :=
  if (0.0 : K) ≤ ((fixedValOf blo bhi mu) - (vfreeOf blo bhi)) then
    ((fixedValOf blo bhi mu) - (vfreeOf blo bhi))
  else
    (0.0 : K)

/-- `test_statistics.py::q0` (source sha256 9b76463a1fe0144d…): value, called with POI bounds `(blo, bhi)`; `fit` handed the POI
bounds `(l, h)` returns `(muhatOf l h, vfreeOf l h)`, `fixed_poi_fit μ` handed them returns the objective value `fixedValOf l h μ` -/
def q0 (fixedValOf : K → K → K → K) (vfreeOf muhatOf : K → K → K) (blo bhi mu : K) : K :=
  if mu ≠ (0.0 : K) then
    if (0.0 : K) ≤ ((fixedValOf blo bhi (0.0 : K)) - (vfreeOf blo bhi)) then
      if (muhatOf blo bhi) < (0.0 : K) then
        (0.0 : K)
      else
        ((fixedValOf blo bhi (0.0 : K)) - (vfreeOf blo bhi))
    else
      (0.0 : K)
  else
    if (0.0 : K) ≤ ((fixedValOf blo bhi mu) - (vfreeOf blo bhi)) then
      if (muhatOf blo bhi) < (0.0 : K) then
        (0.0 : K)
      else
        ((fixedValOf blo bhi mu) - (vfreeOf blo bhi))
    else
      (0.0 : K)

/-- `calculators.py::AsymptoticCalculator.teststatistic` for test_stat="q" (source sha256 92c4a87699f89cba…),
with the observed statistic `q` and its Asimov value `qA` symbolic -/
def asym_teststat_q (P : Prim K) (q qA : K) : K :=
  ((P.sqrt q) - (P.sqrt qA))

/-- `calculators.py::AsymptoticCalculator.teststatistic` for test_stat="qtilde" (source sha256 92c4a87699f89cba…),
with the observed statistic `q` and its Asimov value `qA` symbolic -/
def asym_teststat_qtilde (P : Prim K) (q qA : K) : K :=
  if (P.sqrt q) ≤ (P.sqrt qA) then
    ((P.sqrt q) - (P.sqrt qA))
  else
    (((P.pow (P.sqrt q) (2.0 : K)) - (P.pow (P.sqrt qA) (2.0 : K))) / ((2.0 : K) * (P.sqrt qA)))

/-- `calculators.py::AsymptoticCalculator.teststatistic` for test_stat="q0" (source sha256 92c4a87699f89cba…),
with the observed statistic `q` and its Asimov value `qA` symbolic -/
def asym_teststat_q0 (P : Prim K) (q qA : K) : K :=
  ((P.sqrt q) - (P.sqrt qA))

/-- shift of the signal-plus-background distribution (`AsymptoticCalculator.distributions`, source sha256 fb3860e7d9a0e8c9…) -/
def asym_shift_sb (sA : K) : K :=
  (-sA)

/-- shift of the background-only distribution (`AsymptoticCalculator.distributions`, source sha256 fb3860e7d9a0e8c9…) -/
def asym_shift_b (sA : K) : K :=
  (0.0 : K)

/-- `AsymptoticTestStatDistribution.pvalue` (normal base distribution; source sha256 b30dd1b68e22fa12…) -/
def asym_pvalue (Phi : K → K) (shift value : K) : K :=
  (Phi (((-(value - shift)) - (0.0 : K)) / (1.0 : K)))

/-- `AsymptoticTestStatDistribution.expected_value` (normal base distribution; source sha256 0d4f38b069a06d81…) -/
def asym_expected_value (shift nsigma : K) : K :=
  (shift + nsigma)

/-- component 0 of `AsymptoticCalculator.pvalues` (source sha256 b8f145d0eec179c8…) -/
def asym_clsb (Phi : K → K) (t shiftSB shiftB : K) : K :=
  (Phi (((-(t - shiftSB)) - (0.0 : K)) / (1.0 : K)))

/-- component 1 of `AsymptoticCalculator.pvalues` (source sha256 b8f145d0eec179c8…) -/
def asym_clb (Phi : K → K) (t shiftSB shiftB : K) : K :=
  (Phi (((-(t - shiftB)) - (0.0 : K)) / (1.0 : K)))

/-- component 2 of `AsymptoticCalculator.pvalues` (source sha256 b8f145d0eec179c8…) -/
def asym_cls (Phi : K → K) (t shiftSB shiftB : K) : K :=
  ((Phi (((-(t - shiftSB)) - (0.0 : K)) / (1.0 : K))) / (Phi (((-(t - shiftB)) - (0.0 : K)) / (1.0 : K))))

/-- entry 0 (n_sigma = 2) of the expected clsb band, `AsymptoticCalculator.expected_pvalues` (source sha256 ab2634d9dd7f13e1…), base distribution 'normal' -/
def asym_band_normal_clsb0 (Phi : K → K) (nanK sA : K) : K :=
  (Phi (((-((2.0 : K) - (-sA))) - (0.0 : K)) / (1.0 : K)))

/-- entry 1 (n_sigma = 1) of the expected clsb band, `AsymptoticCalculator.expected_pvalues` (source sha256 ab2634d9dd7f13e1…), base distribution 'normal' -/
def asym_band_normal_clsb1 (Phi : K → K) (nanK sA : K) : K :=
  (Phi (((-((1.0 : K) - (-sA))) - (0.0 : K)) / (1.0 : K)))

/-- entry 2 (n_sigma = 0) of the expected clsb band, `AsymptoticCalculator.expected_pvalues` (source sha256 ab2634d9dd7f13e1…), base distribution 'normal' -/
def asym_band_normal_clsb2 (Phi : K → K) (nanK sA : K) : K :=
  (Phi (((-((0.0 : K) - (-sA))) - (0.0 : K)) / (1.0 : K)))

/-- entry 3 (n_sigma = -1) of the expected clsb band, `AsymptoticCalculator.expected_pvalues` (source sha256 ab2634d9dd7f13e1…), base distribution 'normal' -/
def asym_band_normal_clsb3 (Phi : K → K) (nanK sA : K) : K :=
  (Phi (((-((-(1.0 : K)) - (-sA))) - (0.0 : K)) / (1.0 : K)))

/-- entry 4 (n_sigma = -2) of the expected clsb band, `AsymptoticCalculator.expected_pvalues` (source sha256 ab2634d9dd7f13e1…), base distribution 'normal' -/
def asym_band_normal_clsb4 (Phi : K → K) (nanK sA : K) : K :=
  (Phi (((-((-(2.0 : K)) - (-sA))) - (0.0 : K)) / (1.0 : K)))

/-- entry 0 (n_sigma = 2) of the expected clb band, `AsymptoticCalculator.expected_pvalues` (source sha256 ab2634d9dd7f13e1…), base distribution 'normal' -/
def asym_band_normal_clb0 (Phi : K → K) (nanK sA : K) : K :=
  (Phi (((-(2.0 : K)) - (0.0 : K)) / (1.0 : K)))

/-- entry 1 (n_sigma = 1) of the expected clb band, `AsymptoticCalculator.expected_pvalues` (source sha256 ab2634d9dd7f13e1…), base distribution 'normal' -/
def asym_band_normal_clb1 (Phi : K → K) (nanK sA : K) : K :=
  (Phi (((-(1.0 : K)) - (0.0 : K)) / (1.0 : K)))

/-- entry 2 (n_sigma = 0) of the expected clb band, `AsymptoticCalculator.expected_pvalues` (source sha256 ab2634d9dd7f13e1…), base distribution 'normal' -/
def asym_band_normal_clb2 (Phi : K → K) (nanK sA : K) : K :=
  (Phi (((-(0.0 : K)) - (0.0 : K)) / (1.0 : K)))

/-- entry 3 (n_sigma = -1) of the expected clb band, `AsymptoticCalculator.expected_pvalues` (source sha256 ab2634d9dd7f13e1…), base distribution 'normal' -/
def asym_band_normal_clb3 (Phi : K → K) (nanK sA : K) : K :=
  (Phi (((1.0 : K) - (0.0 : K)) / (1.0 : K)))

/-- entry 4 (n_sigma = -2) of the expected clb band, `AsymptoticCalculator.expected_pvalues` (source sha256 ab2634d9dd7f13e1…), base distribution 'normal' -/
def asym_band_normal_clb4 (Phi : K → K) (nanK sA : K) : K :=
  (Phi (((2.0 : K) - (0.0 : K)) / (1.0 : K)))

/-- entry 0 (n_sigma = 2) of the expected cls band, `AsymptoticCalculator.expected_pvalues` (source sha256 ab2634d9dd7f13e1…), base distribution 'normal' -/
def asym_band_normal_cls0 (Phi : K → K) (nanK sA : K) : K :=
  ((Phi (((-((2.0 : K) - (-sA))) - (0.0 : K)) / (1.0 : K))) / (Phi (((-(2.0 : K)) - (0.0 : K)) / (1.0 : K))))

/-- entry 1 (n_sigma = 1) of the expected cls band, `AsymptoticCalculator.expected_pvalues` (source sha256 ab2634d9dd7f13e1…), base distribution 'normal' -/
def asym_band_normal_cls1 (Phi : K → K) (nanK sA : K) : K :=
  ((Phi (((-((1.0 : K) - (-sA))) - (0.0 : K)) / (1.0 : K))) / (Phi (((-(1.0 : K)) - (0.0 : K)) / (1.0 : K))))

/-- entry 2 (n_sigma = 0) of the expected cls band, `AsymptoticCalculator.expected_pvalues` (source sha256 ab2634d9dd7f13e1…), base distribution 'normal' -/
def asym_band_normal_cls2 (Phi : K → K) (nanK sA : K) : K :=
  ((Phi (((-((0.0 : K) - (-sA))) - (0.0 : K)) / (1.0 : K))) / (Phi (((-(0.0 : K)) - (0.0 : K)) / (1.0 : K))))

/-- entry 3 (n_sigma = -1) of the expected cls band, `AsymptoticCalculator.expected_pvalues` (source sha256 ab2634d9dd7f13e1…), base distribution 'normal' -/
def asym_band_normal_cls3 (Phi : K → K) (nanK sA : K) : K :=
  ((Phi (((-((-(1.0 : K)) - (-sA))) - (0.0 : K)) / (1.0 : K))) / (Phi (((1.0 : K) - (0.0 : K)) / (1.0 : K))))

/-- entry 4 (n_sigma = -2) of the expected cls band, `AsymptoticCalculator.expected_pvalues` (source sha256 ab2634d9dd7f13e1…), base distribution 'normal' -/
def asym_band_normal_cls4 (Phi : K → K) (nanK sA : K) : K :=
  ((Phi (((-((-(2.0 : K)) - (-sA))) - (0.0 : K)) / (1.0 : K))) / (Phi (((2.0 : K) - (0.0 : K)) / (1.0 : K))))

/-- entry 0 (n_sigma = 2) of the expected clsb band, `AsymptoticCalculator.expected_pvalues` (source sha256 ab2634d9dd7f13e1…), base distribution 'clipped_normal', √q_A > 0 -/
def asym_band_clipped_clsb0 (Phi : K → K) (nanK sA : K) : K :=
  if (-sA) < (2.0 : K) then
    if (-sA) ≤ (2.0 : K) then
      (Phi (((-((2.0 : K) - (-sA))) - (0.0 : K)) / (1.0 : K)))
    else
      nanK
  else
    if (-sA) ≤ (-sA) then
      (Phi (((-((-sA) - (-sA))) - (0.0 : K)) / (1.0 : K)))
    else
      nanK

/-- entry 1 (n_sigma = 1) of the expected clsb band, `AsymptoticCalculator.expected_pvalues` (source sha256 ab2634d9dd7f13e1…), base distribution 'clipped_normal', √q_A > 0 -/
def asym_band_clipped_clsb1 (Phi : K → K) (nanK sA : K) : K :=
  if (-sA) < (1.0 : K) then
    if (-sA) ≤ (1.0 : K) then
      (Phi (((-((1.0 : K) - (-sA))) - (0.0 : K)) / (1.0 : K)))
    else
      nanK
  else
    if (-sA) ≤ (-sA) then
      (Phi (((-((-sA) - (-sA))) - (0.0 : K)) / (1.0 : K)))
    else
      nanK

/-- entry 2 (n_sigma = 0) of the expected clsb band, `AsymptoticCalculator.expected_pvalues` (source sha256 ab2634d9dd7f13e1…), base distribution 'clipped_normal', √q_A > 0 -/
def asym_band_clipped_clsb2 (Phi : K → K) (nanK sA : K) : K :=
  if (-sA) < (0.0 : K) then
    if (-sA) ≤ (0.0 : K) then
      (Phi (((-((0.0 : K) - (-sA))) - (0.0 : K)) / (1.0 : K)))
    else
      nanK
  else
    if (-sA) ≤ (-sA) then
      (Phi (((-((-sA) - (-sA))) - (0.0 : K)) / (1.0 : K)))
    else
      nanK

/-- entry 3 (n_sigma = -1) of the expected clsb band, `AsymptoticCalculator.expected_pvalues` (source sha256 ab2634d9dd7f13e1…), base distribution 'clipped_normal', √q_A > 0 -/
def asym_band_clipped_clsb3 (Phi : K → K) (nanK sA : K) : K :=
  if (-sA) < (-(1.0 : K)) then
    if (-sA) ≤ (-(1.0 : K)) then
      (Phi (((-((-(1.0 : K)) - (-sA))) - (0.0 : K)) / (1.0 : K)))
    else
      nanK
  else
    if (-sA) ≤ (-sA) then
      (Phi (((-((-sA) - (-sA))) - (0.0 : K)) / (1.0 : K)))
    else
      nanK

/-- entry 4 (n_sigma = -2) of the expected clsb band, `AsymptoticCalculator.expected_pvalues` (source sha256 ab2634d9dd7f13e1…), base distribution 'clipped_normal', √q_A > 0 -/
def asym_band_clipped_clsb4 (Phi : K → K) (nanK sA : K) : K :=
  if (-sA) < (-(2.0 : K)) then
    if (-sA) ≤ (-(2.0 : K)) then
      (Phi (((-((-(2.0 : K)) - (-sA))) - (0.0 : K)) / (1.0 : K)))
    else
      nanK
  else
    if (-sA) ≤ (-sA) then
      (Phi (((-((-sA) - (-sA))) - (0.0 : K)) / (1.0 : K)))
    else
      nanK

/-- entry 0 (n_sigma = 2) of the expected clb band, `AsymptoticCalculator.expected_pvalues` (source sha256 ab2634d9dd7f13e1…), base distribution 'clipped_normal', √q_A > 0 -/
def asym_band_clipped_clb0 (Phi : K → K) (nanK sA : K) : K :=
  if (-sA) < (2.0 : K) then
    if (-sA) ≤ (2.0 : K) then
      (Phi (((-(2.0 : K)) - (0.0 : K)) / (1.0 : K)))
    else
      nanK
  else
    if (-sA) ≤ (-sA) then
      (Phi (((-((-sA) - (0.0 : K))) - (0.0 : K)) / (1.0 : K)))
    else
      nanK

/-- entry 1 (n_sigma = 1) of the expected clb band, `AsymptoticCalculator.expected_pvalues` (source sha256 ab2634d9dd7f13e1…), base distribution 'clipped_normal', √q_A > 0 -/
def asym_band_clipped_clb1 (Phi : K → K) (nanK sA : K) : K :=
  if (-sA) < (1.0 : K) then
    if (-sA) ≤ (1.0 : K) then
      (Phi (((-(1.0 : K)) - (0.0 : K)) / (1.0 : K)))
    else
      nanK
  else
    if (-sA) ≤ (-sA) then
      (Phi (((-((-sA) - (0.0 : K))) - (0.0 : K)) / (1.0 : K)))
    else
      nanK

/-- entry 2 (n_sigma = 0) of the expected clb band, `AsymptoticCalculator.expected_pvalues` (source sha256 ab2634d9dd7f13e1…), base distribution 'clipped_normal', √q_A > 0 -/
def asym_band_clipped_clb2 (Phi : K → K) (nanK sA : K) : K :=
  if (-sA) < (0.0 : K) then
    if (-sA) ≤ (0.0 : K) then
      (Phi (((-(0.0 : K)) - (0.0 : K)) / (1.0 : K)))
    else
      nanK
  else
    if (-sA) ≤ (-sA) then
      (Phi (((-((-sA) - (0.0 : K))) - (0.0 : K)) / (1.0 : K)))
    else
      nanK

/-- entry 3 (n_sigma = -1) of the expected clb band, `AsymptoticCalculator.expected_pvalues` (source sha256 ab2634d9dd7f13e1…), base distribution 'clipped_normal', √q_A > 0 -/
def asym_band_clipped_clb3 (Phi : K → K) (nanK sA : K) : K :=
  if (-sA) < (-(1.0 : K)) then
    if (-sA) ≤ (-(1.0 : K)) then
      (Phi (((1.0 : K) - (0.0 : K)) / (1.0 : K)))
    else
      nanK
  else
    if (-sA) ≤ (-sA) then
      (Phi (((-((-sA) - (0.0 : K))) - (0.0 : K)) / (1.0 : K)))
    else
      nanK

/-- entry 4 (n_sigma = -2) of the expected clb band, `AsymptoticCalculator.expected_pvalues` (source sha256 ab2634d9dd7f13e1…), base distribution 'clipped_normal', √q_A > 0 -/
def asym_band_clipped_clb4 (Phi : K → K) (nanK sA : K) : K :=
  if (-sA) < (-(2.0 : K)) then
    if (-sA) ≤ (-(2.0 : K)) then
      (Phi (((2.0 : K) - (0.0 : K)) / (1.0 : K)))
    else
      nanK
  else
    if (-sA) ≤ (-sA) then
      (Phi (((-((-sA) - (0.0 : K))) - (0.0 : K)) / (1.0 : K)))
    else
      nanK

/-- entry 0 (n_sigma = 2) of the expected cls band, `AsymptoticCalculator.expected_pvalues` (source sha256 ab2634d9dd7f13e1…), base distribution 'clipped_normal', √q_A > 0 -/
def asym_band_clipped_cls0 (Phi : K → K) (nanK sA : K) : K :=
  if (-sA) < (2.0 : K) then
    if (-sA) ≤ (2.0 : K) then
      ((Phi (((-((2.0 : K) - (-sA))) - (0.0 : K)) / (1.0 : K))) / (Phi (((-(2.0 : K)) - (0.0 : K)) / (1.0 : K))))
    else
      nanK
  else
    if (-sA) ≤ (-sA) then
      ((Phi (((-((-sA) - (-sA))) - (0.0 : K)) / (1.0 : K))) / (Phi (((-((-sA) - (0.0 : K))) - (0.0 : K)) / (1.0 : K))))
    else
      nanK

/-- entry 1 (n_sigma = 1) of the expected cls band, `AsymptoticCalculator.expected_pvalues` (source sha256 ab2634d9dd7f13e1…), base distribution 'clipped_normal', √q_A > 0 -/
def asym_band_clipped_cls1 (Phi : K → K) (nanK sA : K) : K :=
  if (-sA) < (1.0 : K) then
    if (-sA) ≤ (1.0 : K) then
      ((Phi (((-((1.0 : K) - (-sA))) - (0.0 : K)) / (1.0 : K))) / (Phi (((-(1.0 : K)) - (0.0 : K)) / (1.0 : K))))
    else
      nanK
  else
    if (-sA) ≤ (-sA) then
      ((Phi (((-((-sA) - (-sA))) - (0.0 : K)) / (1.0 : K))) / (Phi (((-((-sA) - (0.0 : K))) - (0.0 : K)) / (1.0 : K))))
    else
      nanK

/-- entry 2 (n_sigma = 0) of the expected cls band, `AsymptoticCalculator.expected_pvalues` (source sha256 ab2634d9dd7f13e1…), base distribution 'clipped_normal', √q_A > 0 -/
def asym_band_clipped_cls2 (Phi : K → K) (nanK sA : K) : K :=
  if (-sA) < (0.0 : K) then
    if (-sA) ≤ (0.0 : K) then
      ((Phi (((-((0.0 : K) - (-sA))) - (0.0 : K)) / (1.0 : K))) / (Phi (((-(0.0 : K)) - (0.0 : K)) / (1.0 : K))))
    else
      nanK
  else
    if (-sA) ≤ (-sA) then
      ((Phi (((-((-sA) - (-sA))) - (0.0 : K)) / (1.0 : K))) / (Phi (((-((-sA) - (0.0 : K))) - (0.0 : K)) / (1.0 : K))))
    else
      nanK

/-- entry 3 (n_sigma = -1) of the expected cls band, `AsymptoticCalculator.expected_pvalues` (source sha256 ab2634d9dd7f13e1…), base distribution 'clipped_normal', √q_A > 0 -/
def asym_band_clipped_cls3 (Phi : K → K) (nanK sA : K) : K :=
  if (-sA) < (-(1.0 : K)) then
    if (-sA) ≤ (-(1.0 : K)) then
      ((Phi (((-((-(1.0 : K)) - (-sA))) - (0.0 : K)) / (1.0 : K))) / (Phi (((1.0 : K) - (0.0 : K)) / (1.0 : K))))
    else
      nanK
  else
    if (-sA) ≤ (-sA) then
      ((Phi (((-((-sA) - (-sA))) - (0.0 : K)) / (1.0 : K))) / (Phi (((-((-sA) - (0.0 : K))) - (0.0 : K)) / (1.0 : K))))
    else
      nanK

/-- entry 4 (n_sigma = -2) of the expected cls band, `AsymptoticCalculator.expected_pvalues` (source sha256 ab2634d9dd7f13e1…), base distribution 'clipped_normal', √q_A > 0 -/
def asym_band_clipped_cls4 (Phi : K → K) (nanK sA : K) : K :=
  if (-sA) < (-(2.0 : K)) then
    if (-sA) ≤ (-(2.0 : K)) then
      ((Phi (((-((-(2.0 : K)) - (-sA))) - (0.0 : K)) / (1.0 : K))) / (Phi (((2.0 : K) - (0.0 : K)) / (1.0 : K))))
    else
      nanK
  else
    if (-sA) ≤ (-sA) then
      ((Phi (((-((-sA) - (-sA))) - (0.0 : K)) / (1.0 : K))) / (Phi (((-((-sA) - (0.0 : K))) - (0.0 : K)) / (1.0 : K))))
    else
      nanK

/-- `infer/__init__.py::hypotest` (source sha256 472d23221d578cb9…): the returned pieces, each as the list of the calculator quantities it
holds, for every combination of the four `return_*` flags and q0 / not q0 (obtained by running `hypotest` with a symbolic calculator) -/
def hypotest_returns (tailProbs expected expectedSet calculator isQ0 : Bool) : List (List String) :=
  match tailProbs, expected, expectedSet, calculator, isQ0 with
  | false, false, false, false, false => [["CLs"]]
  | false, false, false, true, false => [["CLs"], ["calculator"]]
  | false, false, true, false, false => [["CLs"], ["CLs_exp0", "CLs_exp1", "CLs_exp2", "CLs_exp3", "CLs_exp4"]]
  | false, false, true, true, false => [["CLs"], ["CLs_exp0", "CLs_exp1", "CLs_exp2", "CLs_exp3", "CLs_exp4"], ["calculator"]]
  | false, true, false, false, false => [["CLs"], ["CLs_exp2"]]
  | false, true, false, true, false => [["CLs"], ["CLs_exp2"], ["calculator"]]
  | false, true, true, false, false => [["CLs"], ["CLs_exp2"], ["CLs_exp0", "CLs_exp1", "CLs_exp2", "CLs_exp3", "CLs_exp4"]]
  | false, true, true, true, false => [["CLs"], ["CLs_exp2"], ["CLs_exp0", "CLs_exp1", "CLs_exp2", "CLs_exp3", "CLs_exp4"], ["calculator"]]
  | true, false, false, false, false => [["CLs"], ["CLsb", "CLb"]]
  | true, false, false, true, false => [["CLs"], ["CLsb", "CLb"], ["calculator"]]
  | true, false, true, false, false => [["CLs"], ["CLsb", "CLb"], ["CLs_exp0", "CLs_exp1", "CLs_exp2", "CLs_exp3", "CLs_exp4"]]
  | true, false, true, true, false => [["CLs"], ["CLsb", "CLb"], ["CLs_exp0", "CLs_exp1", "CLs_exp2", "CLs_exp3", "CLs_exp4"], ["calculator"]]
  | true, true, false, false, false => [["CLs"], ["CLsb", "CLb"], ["CLs_exp2"]]
  | true, true, false, true, false => [["CLs"], ["CLsb", "CLb"], ["CLs_exp2"], ["calculator"]]
  | true, true, true, false, false => [["CLs"], ["CLsb", "CLb"], ["CLs_exp2"], ["CLs_exp0", "CLs_exp1", "CLs_exp2", "CLs_exp3", "CLs_exp4"]]
  | true, true, true, true, false => [["CLs"], ["CLsb", "CLb"], ["CLs_exp2"], ["CLs_exp0", "CLs_exp1", "CLs_exp2", "CLs_exp3", "CLs_exp4"], ["calculator"]]
  | false, false, false, false, true => [["CLsb"]]
  | false, false, false, true, true => [["CLsb"], ["calculator"]]
  | false, false, true, false, true => [["CLsb"], ["CLsb_exp0", "CLsb_exp1", "CLsb_exp2", "CLsb_exp3", "CLsb_exp4"]]
  | false, false, true, true, true => [["CLsb"], ["CLsb_exp0", "CLsb_exp1", "CLsb_exp2", "CLsb_exp3", "CLsb_exp4"], ["calculator"]]
  | false, true, false, false, true => [["CLsb"], ["CLsb_exp2"]]
  | false, true, false, true, true => [["CLsb"], ["CLsb_exp2"], ["calculator"]]
  | false, true, true, false, true => [["CLsb"], ["CLsb_exp2"], ["CLsb_exp0", "CLsb_exp1", "CLsb_exp2", "CLsb_exp3", "CLsb_exp4"]]
  | false, true, true, true, true => [["CLsb"], ["CLsb_exp2"], ["CLsb_exp0", "CLsb_exp1", "CLsb_exp2", "CLsb_exp3", "CLsb_exp4"], ["calculator"]]
  | true, false, false, false, true => [["CLsb"], ["CLb"]]
  | true, false, false, true, true => [["CLsb"], ["CLb"], ["calculator"]]
  | true, false, true, false, true => [["CLsb"], ["CLb"], ["CLsb_exp0", "CLsb_exp1", "CLsb_exp2", "CLsb_exp3", "CLsb_exp4"]]
  | true, false, true, true, true => [["CLsb"], ["CLb"], ["CLsb_exp0", "CLsb_exp1", "CLsb_exp2", "CLsb_exp3", "CLsb_exp4"], ["calculator"]]
  | true, true, false, false, true => [["CLsb"], ["CLb"], ["CLsb_exp2"]]
  | true, true, false, true, true => [["CLsb"], ["CLb"], ["CLsb_exp2"], ["calculator"]]
  | true, true, true, false, true => [["CLsb"], ["CLb"], ["CLsb_exp2"], ["CLsb_exp0", "CLsb_exp1", "CLsb_exp2", "CLsb_exp3", "CLsb_exp4"]]
  | true, true, true, true, true => [["CLsb"], ["CLb"], ["CLsb_exp2"], ["CLsb_exp0", "CLsb_exp1", "CLsb_exp2", "CLsb_exp3", "CLsb_exp4"], ["calculator"]]

/-- `_check_hypotest_prerequisites` (source sha256 6c49aabe1cad378e…) for a three-parameter model: the exception class raised (`"ok"` = none), the same
whether the fixed flags are passed by the caller or come from the model's suggestion inside `hypotest` -/
def hypotest_prereq (poi : Option Nat) (f0 f1 f2 : Bool) : String :=
  match poi, f0, f1, f2 with
  | none, false, false, false => "UnspecifiedPOI"
  | none, true, false, false => "UnspecifiedPOI"
  | none, false, true, false => "UnspecifiedPOI"
  | none, true, true, false => "UnspecifiedPOI"
  | none, false, false, true => "UnspecifiedPOI"
  | none, true, false, true => "UnspecifiedPOI"
  | none, false, true, true => "UnspecifiedPOI"
  | none, true, true, true => "UnspecifiedPOI"
  | some 0, false, false, false => "ok"
  | some 0, true, false, false => "InvalidModel"
  | some 0, false, true, false => "ok"
  | some 0, true, true, false => "InvalidModel"
  | some 0, false, false, true => "ok"
  | some 0, true, false, true => "InvalidModel"
  | some 0, false, true, true => "ok"
  | some 0, true, true, true => "InvalidModel"
  | some 1, false, false, false => "ok"
  | some 1, true, false, false => "ok"
  | some 1, false, true, false => "InvalidModel"
  | some 1, true, true, false => "InvalidModel"
  | some 1, false, false, true => "ok"
  | some 1, true, false, true => "ok"
  | some 1, false, true, true => "InvalidModel"
  | some 1, true, true, true => "InvalidModel"
  | some 2, false, false, false => "ok"
  | some 2, true, false, false => "ok"
  | some 2, false, true, false => "ok"
  | some 2, true, true, false => "ok"
  | some 2, false, false, true => "InvalidModel"
  | some 2, true, false, true => "InvalidModel"
  | some 2, false, true, true => "InvalidModel"
  | some 2, true, true, true => "InvalidModel"
  | _, _, _, _ => "out-of-range"

/-- is the result a bare value (not a tuple)? -/
def hypotest_bare (tailProbs expected expectedSet calculator isQ0 : Bool) : Bool :=
  match tailProbs, expected, expectedSet, calculator, isQ0 with
  | false, false, false, false, false => true
  | false, false, false, true, false => false
  | false, false, true, false, false => false
  | false, false, true, true, false => false
  | false, true, false, false, false => false
  | false, true, false, true, false => false
  | false, true, true, false, false => false
  | false, true, true, true, false => false
  | true, false, false, false, false => false
  | true, false, false, true, false => false
  | true, false, true, false, false => false
  | true, false, true, true, false => false
  | true, true, false, false, false => false
  | true, true, false, true, false => false
  | true, true, true, false, false => false
  | true, true, true, true, false => false
  | false, false, false, false, true => true
  | false, false, false, true, true => false
  | false, false, true, false, true => false
  | false, false, true, true, true => false
  | false, true, false, false, true => false
  | false, true, false, true, true => false
  | false, true, true, false, true => false
  | false, true, true, true, true => false
  | true, false, false, false, true => false
  | true, false, false, true, true => false
  | true, false, true, false, true => false
  | true, false, true, true, true => false
  | true, true, false, false, true => false
  | true, true, false, true, true => false
  | true, true, true, false, true => false
  | true, true, true, true, true => false

end
end Pyhf.Gen
