/-!
# Engine D — the subscription state machine that keeps cached tensors in step with the global backend
(`src/pyhf/events.py`, `src/pyhf/tensor/manager.py::set_backend`, every `_precompute`)

Objects (models, combined modifiers, constraint objects, viewers, interpolators) subscribe `_precompute` to
`tensorlib_changed` when they are created.  `set_backend` stores the new state first, then — only if the backend
name or precision differs — calls the callbacks in subscription order, skipping dead weak references, and finally
flushes the dead references.  `_precompute` re-derives the object's cached tensors for the *current* backend from
its neutral data and from the (already refreshed) cached tensors of the objects it owns.
-/
namespace Pyhf.Events

/-- a subscribed object: whether it is still alive, the objects it owns (created before it), the backend tag its
cached tensors were built for, and the tags of the owned objects' caches it was built from -/
structure Obj where
  alive : Bool
  deps : List Nat
  tag : Nat
  depTags : List Nat
deriving Repr, DecidableEq

structure St where
  cur : Nat              -- tag of the current (backend, precision)
  reg : List Nat         -- `tensorlib_changed` callbacks, in subscription order (object ids)
  objs : List Obj        -- id = position
deriving Repr

inductive Op where
  | setBackend (t : Nat)
  | create (deps : List Nat)
  | delete (id : Nat)
deriving Repr

def dead : Obj := { alive := false, deps := [], tag := 0, depTags := [] }

def St.obj (s : St) (i : Nat) : Obj := s.objs.getD i dead

/-- `_precompute` of object `i` under the current backend -/
def precompute (s : St) (i : Nat) : St :=
  let o := s.obj i
  if o.alive then
    { s with objs := s.objs.set i { o with tag := s.cur, depTags := o.deps.map fun d => (s.obj d).tag } }
  else s        -- dead weak reference: skipped

/-- `Callables.__call__`: run every callback in order, then flush dead references -/
def fire (s : St) : St :=
  let s' := s.reg.foldl precompute s
  { s' with reg := s'.reg.filter fun i => (s'.obj i).alive }

def init : St := { cur := 0, reg := [], objs := [] }

def step (s : St) : Op → St
  | .setBackend t => if t = s.cur then s else fire { s with cur := t }
  | .create deps =>
    let id := s.objs.length
    { s with objs := s.objs ++ [{ alive := true, deps := deps, tag := s.cur, depTags := deps.map fun d => (s.obj d).tag }],
             reg := s.reg ++ [id] }
  | .delete id =>
    { s with objs := s.objs.set id { s.obj id with alive := false } }

def run (s : St) (ops : List Op) : St := ops.foldl step s

/-- what evaluating object `i` observes: the backend its cached tensors live on and those of its parts -/
def eval (s : St) (i : Nat) : Nat × List Nat := ((s.obj i).tag, (s.obj i).depTags)

/-- what a freshly created object with the same parts observes -/
def fresh (s : St) (i : Nat) : Nat × List Nat := (s.cur, (s.obj i).deps.map fun _ => s.cur)

/-- number of live callbacks (`len(events.trigger('tensorlib_changed'))` after a flush) -/
def liveCallbacks (s : St) : Nat := (s.reg.filter fun i => (s.obj i).alive).length

end Pyhf.Events
