import PyhfModel.Spec
/-!
# Engine A, layer 2 — parameter-set requirements, their reduction against the measurement
configuration, creation order, slices and auxiliary data
(`modifiers/*.py::required_parset`, `*_builder.append/finalize`,
`parameters/utils.py::reduce_paramsets_requirements`, `parameters/paramsets.py`,
`pdf.py::_finalize_parameters_specs/_create_parameters_from_spec/_create_and_register_paramsets`)
-/
namespace Pyhf

inductive PType | unconstrained | normal | poisson
deriving DecidableEq, Repr, BEq

def PType.str : PType → String
  | .unconstrained => "unconstrained" | .normal => "normal" | .poisson => "poisson"

/-- `fixed` is either one bool (expanded to `n` copies) or a per-component tuple -/
inductive FixedV | all (b : Bool) | each (bs : List Bool)
deriving DecidableEq, Repr, BEq

def FixedV.expand (n : Nat) : FixedV → List Bool
  | .all b => List.replicate n b
  | .each bs => bs

/-- a requirement-dictionary entry: absent key (the `'undefined'` sentinel), Python `None`, or a value -/
inductive Fld (α : Type) | undef | pyNone | val (a : α)
deriving Repr, BEq

/-- the dictionary returned by `required_parset` -/
structure Req (K : Type) where
  ptype : PType
  n : Nat
  isScalar : Bool
  inits : Fld (List K)
  bounds : Fld (List (K × K))
  auxdata : Fld (List K)
  factors : Fld (List K)
  sigmas : Fld (List K)
  fixed : FixedV
deriving Repr, BEq

/-- a created `paramset` object -/
structure Paramset (K : Type) where
  name : String
  n : Nat
  isScalar : Bool
  ptype : PType
  inits : Option (List K)          -- `none` = Python `None`
  bounds : Option (List (K × K))
  fixed : FixedV
  auxdata : Option (List K) := none
  sigmas : Option (List K) := none  -- kept only if truthy; otherwise unit widths
  factors : List K := []
deriving Repr

def Paramset.constrained (p : Paramset K) : Bool := p.ptype != .unconstrained

section
variable {K : Type} [Add K] [Sub K] [Mul K] [Div K] [Neg K] [OfNat K 0] [OfNat K 1]
  [OfScientific K] [LT K] [DecidableLT K] [BEq K]

def reqNormalScalar : Req K :=
  { ptype := .normal, n := 1, isScalar := true, inits := .val [0], bounds := .val [(-(5.0 : K), (5.0 : K))],
    auxdata := .val [0], factors := .undef, sigmas := .undef, fixed := .all false }

def reqNormfactor : Req K :=
  { ptype := .unconstrained, n := 1, isScalar := true, inits := .val [1], bounds := .val [((0 : K), (10.0 : K))],
    auxdata := .undef, factors := .undef, sigmas := .undef, fixed := .all false }

def reqLumi : Req K :=
  { ptype := .normal, n := 1, isScalar := true, inits := .pyNone, bounds := .pyNone,
    auxdata := .pyNone, factors := .undef, sigmas := .pyNone, fixed := .all false }

def reqShapefactor (n : Nat) : Req K :=
  { ptype := .unconstrained, n := n, isScalar := false, inits := .val (List.replicate n 1),
    bounds := .val (List.replicate n ((0 : K), (10.0 : K))),
    auxdata := .undef, factors := .undef, sigmas := .undef, fixed := .all false }

/-- `shapesys.required_parset(sample_data, modifier_data)` -/
def reqShapesys (P : Prim K) (sampleData modData : List K) : Req K :=
  let pairs := sampleData.zip modData
  let valid := pairs.map fun (s, m) => decide ((0 : K) < m) && decide ((0 : K) < s)
  let factors := (pairs.zip valid).map fun ((s, m), v) => if v then P.pow s (2.0 : K) / P.pow m (2.0 : K) else 1
  let n := pairs.length
  { ptype := .poisson, n := n, isScalar := false, inits := .val (List.replicate n 1),
    bounds := .val (List.replicate n ((1e-10 : K), (10.0 : K))),
    auxdata := .val factors, factors := .val factors, sigmas := .undef,
    fixed := .each (valid.map (!·)) }

/-- `staterror.required_parset(sigmas, fixed)` -/
def reqStaterror (sigmas : List K) (fixed : List Bool) : Req K :=
  let n := sigmas.length
  { ptype := .normal, n := n, isScalar := false, inits := .val (List.replicate n 1),
    bounds := .val (List.replicate n ((1e-10 : K), (10.0 : K))),
    auxdata := .val (List.replicate n 1), factors := .undef, sigmas := .val sigmas,
    fixed := .each fixed }

/-! ### mega-channel tables needed by the staterror requirement -/

/-- concatenate per-channel blocks in configuration order -/
def blocks {α : Type} (cfg : Config) (f : String → List α) : List α := cfg.channels.flatMap f

/-- per-channel block of the nominal rates of sample `sm` (absent sample: zeros) -/
def nomBlk (s : Spec K) (cfg : Config) (sm : String) (c : String) : List K :=
  match findSample s c sm with
  | some x => x.data
  | none => List.replicate (cfg.nbOf c) 0

/-- nominal rates of sample `sm` over the mega-channel -/
def nomTab (s : Spec K) (cfg : Config) (sm : String) : List K := blocks cfg (nomBlk s cfg sm)

/-- per-channel block of the boolean mask of modifier `(n, t)` on sample `sm` -/
def maskBlk (s : Spec K) (cfg : Config) (n : String) (t : ModType) (sm : String) (c : String) : List Bool :=
  match findSample s c sm with
  | some x => List.replicate x.data.length (findMod x n t).isSome
  | none => List.replicate (cfg.nbOf c) false

def maskTab (s : Spec K) (cfg : Config) (n : String) (t : ModType) (sm : String) : List Bool :=
  blocks cfg (maskBlk s cfg n t sm)

/-- per-channel block of the per-bin uncertainty data of a shapesys/staterror modifier (absent: zeros) -/
def uncrtBlk (s : Spec K) (cfg : Config) (n : String) (t : ModType) (sm : String) (c : String) : List K :=
  match findSample s c sm with
  | some x => (match findMod x n t with
      | some m => m.lo
      | none => List.replicate x.data.length 0)
  | none => List.replicate (cfg.nbOf c) 0

def uncrtTab (s : Spec K) (cfg : Config) (n : String) (t : ModType) (sm : String) : List K :=
  blocks cfg (uncrtBlk s cfg n t sm)

def vecAdd (xs ys : List K) : List K := List.zipWith (· + ·) xs ys

/-- select the entries of `xs` at the `true` positions of `mask` (`xs[mask]`) -/
def maskSelect {α : Type} (mask : List Bool) (xs : List α) : List α :=
  ((mask.zip xs).filter (·.1)).map (·.2)

/-- `staterror_builder.finalize` for one modifier name: `(sigmas, fixed)` or an error -/
def staterrorSigmas (P : Prim K) (s : Spec K) (cfg : Config) (n : String) :
    Except Err (List K × List Bool) :=
  let masks := cfg.samples.map fun sm => maskTab s cfg n .staterror sm
  let participating := (cfg.samples.zip masks).filter fun (_, m) => m.any id
  match participating with
  | [] => .error .pyIndexError   -- `np.sum([], axis=0)` is a scalar; `nomsall[binnr]` raises IndexError
  | (_, mask0) :: rest =>
    if rest.any (fun (_, m) => m != mask0) then .error .invalidModifier else
    let nmain := cfg.nmain
    let nomsall := participating.foldl (fun acc (sm, _) => vecAdd acc (nomTab s cfg sm)) (List.replicate nmain 0)
    let sq := cfg.samples.foldl (fun acc sm =>
        vecAdd acc (List.zipWith (fun u t => if (0 : K) < t then (u / t) * (u / t) else 0)
          (uncrtTab s cfg n .staterror sm) nomsall)) (List.replicate nmain 0)
    let relerr := sq.map P.sqrt
    let sig := maskSelect mask0 relerr
    let fixed := sig.map fun x => x == 0
    .ok ((sig.zip fixed).map (fun (x, f) => if f then 1 else x), fixed)

/-- the cells of the sorted walk that declare a modifier of type `t`, with their data -/
def declaringCells (s : Spec K) (cfg : Config) (t : ModType) : List (String × Sample K × Modifier K) :=
  cfg.channels.flatMap fun c => cfg.samples.flatMap fun sm =>
    match findSample s c sm with
    | none => []
    | some x => cfg.modifiers.filterMap fun (n, t') =>
        if t' == t then (findMod x n t').map fun m => (n, x, m) else none

/-- insert-if-absent on an association list (`dict.setdefault`) -/
def setDefault {β : Type} (d : List (String × β)) (k : String) (v : β) : List (String × β) :=
  if d.any (·.1 == k) then d else d ++ [(k, v)]

/-- `builder.required_parsets` of the builder for type `t` (ordered dict name ↦ requirement) -/
def builderReqs (P : Prim K) (s : Spec K) (cfg : Config) (t : ModType) :
    Except Err (List (String × Req K)) :=
  match t with
  | .staterror =>
      (cfg.modifiers.filter (·.2 == .staterror)).foldlM (fun acc (n, _) => do
        let (sig, fx) ← staterrorSigmas P s cfg n
        pure (setDefault acc n (reqStaterror sig fx))) []
  | t =>
      .ok <| (declaringCells s cfg t).foldl (fun acc (n, x, m) =>
        setDefault acc n (match t with
          | .histosys | .normsys => reqNormalScalar
          | .normfactor => reqNormfactor
          | .lumi => reqLumi
          | .shapefactor => reqShapefactor x.data.length
          | _ => reqShapesys P x.data m.lo)) []

/-- `_required_paramsets`: name ↦ concatenated requirement lists, in order of first appearance
while visiting the builders in `histfactory_set` order -/
def requiredParamsets (P : Prim K) (s : Spec K) (cfg : Config) :
    Except Err (List (String × List (Req K))) :=
  ModType.all.foldlM (fun acc t => do
    let rs ← builderReqs P s cfg t
    pure <| rs.foldl (fun acc (n, r) =>
      if acc.any (·.1 == n) then acc.map fun (n', l) => if n' == n then (n', l ++ [r]) else (n', l)
      else acc ++ [(n, [r])]) acc) []

/-- user override of a list-valued key -/
def overrideList {α : Type} (default : Fld (List α)) (user : Option (List α)) :
    Except Err (Option (Option (List α))) :=   -- none = key stays undefined; some none = Python None
  match user, default with
  | none, .undef => .ok none
  | none, .pyNone => .ok (some none)
  | none, .val d => .ok (some (some d))
  | some _, .undef => .error .invalidModel
  | some v, .pyNone => .ok (some (some v))
  | some v, .val d =>
      if d.length != 0 && v.length != d.length then .error .invalidModel else .ok (some (some v))

/-- `reduce_paramsets_requirements` for one name, followed by the `paramset` constructor -/
def reduceOne (name : String) (reqs : List (Req K)) (user : Option (ParCfg K)) :
    Except Err (Paramset K) :=
  match reqs with
  | [] => .error .pyKeyError
  | r :: rest =>
    if rest.any (fun r' => !(r' == r)) then .error .invalidNameReuse else do
    let u : ParCfg K := user.getD { name := name }
    let inits ← overrideList r.inits u.inits
    let bounds ← overrideList r.bounds u.bounds
    let aux ← overrideList r.auxdata u.auxdata
    let fac ← overrideList r.factors u.factors
    let sig ← overrideList r.sigmas u.sigmas
    let fixed := match u.fixed with | some b => FixedV.all b | none => r.fixed
    let truthy (o : Option (Option (List K))) : Option (List K) :=
      match o with | some (some l) => if l.isEmpty then none else some l | _ => none
    -- after the merge: every configured list has `n_parameters` entries; `None` only allowed for `sigmas`
    let bad {α : Type} (o : Option (Option (List α))) (noneOK : Bool) : Bool :=
      match o with
      | none => false                       -- key not used by this parameter set
      | some none => !noneOK                -- Python `None`
      | some (some l) => l.length != r.n
    if bad inits false || bad bounds false || bad aux false || bad fac false || bad sig true then
      throw .invalidModel
    pure { name := name, n := r.n, isScalar := r.isScalar, ptype := r.ptype,
           inits := inits.getD none, bounds := bounds.getD none, fixed := fixed,
           auxdata := aux.getD none, sigmas := truthy sig,
           factors := ((fac.getD none).getD []) }

/-- `_finalize_parameters_specs` + `_create_parameters_from_spec` (+ the "no parameters" check) -/
def createParamsets (P : Prim K) (s : Spec K) (cfg : Config) : Except Err (List (Paramset K)) := do
  let reqs ← requiredParamsets P s cfg
  -- duplicate measurement configurations for one name
  let rec dup : List String → Bool
    | [] => false
    | n :: rest => rest.contains n || dup rest
  if dup (s.parameters.map (·.name)) then throw .invalidModel
  let ps ← reqs.mapM fun (n, rs) => reduceOne n rs (s.parameters.find? (·.name == n))
  -- `auxdata += paramset.auxdata` on a constrained paramset whose auxdata is `None`
  if ps.any (fun p => p.constrained && p.auxdata.isNone) then throw .pyTypeError
  if ps.isEmpty then throw .invalidModel
  -- `npars = len(suggested_init())` concatenates `None`
  if ps.any (fun p => p.inits.isNone) then throw .pyTypeError
  pure ps

/-- `par_map[name]['slice']` in creation order: running index over `n_parameters` -/
def mkSlices (sizes : List (String × Nat)) : List (String × Nat × Nat) :=
  let rec go : List (String × Nat) → Nat → List (String × Nat × Nat)
    | [], _ => []
    | (nm, k) :: rest, start => (nm, start, start + k) :: go rest (start + k)
  go sizes 0

def parSlices (ps : List (Paramset K)) : List (String × Nat × Nat) :=
  mkSlices (ps.map fun p => (p.name, p.n))

def sliceOf (sl : List (String × Nat × Nat)) (n : String) : Nat × Nat :=
  ((sl.find? (·.1 == n)).map (·.2)).getD (0, 0)

def suggestedInit (ps : List (Paramset K)) : List K := ps.flatMap fun p => p.inits.getD []
def suggestedBounds (ps : List (Paramset K)) : List (K × K) := ps.flatMap fun p => p.bounds.getD []
def suggestedFixed (ps : List (Paramset K)) : List Bool := ps.flatMap fun p => p.fixed.expand p.n
def parNames (ps : List (Paramset K)) : List String :=
  ps.flatMap fun p => if p.isScalar then [p.name] else (List.range p.n).map fun i => s!"{p.name}[{i}]"

/-- `config.auxdata` and `config.auxdata_order` -/
def auxData (ps : List (Paramset K)) : List K :=
  (ps.filter (·.constrained)).flatMap fun p => p.auxdata.getD []
def auxOrder (ps : List (Paramset K)) : List String := (ps.filter (·.constrained)).map (·.name)

end
end Pyhf
