import PyhfModel.Basic
/-!
# Engine B — interpolation codes 0, 1, 2, 4, 4p  (`src/pyhf/interpolators/code*.py`)

For every code there are two definitions:

* `slowK`  — the scalar reference (`_slow_codeK.summand/product`), branch by `if`;
* `fastK`  — one cell of the vectorised computation: **all** branch values are computed and the
  result is selected by the same comparisons the tensor code feeds to `where`, including
  code 4's `masked_exponents` trick and the pre-multiplied coefficient vector `A_inverse · b`.

`where c a b` on tensors is modelled cell-wise by `sel c a b`.
-/
namespace Pyhf.Interp

/-- cell-wise `tensorlib.where` -/
@[inline] def sel {α : Type} (c : Bool) (a b : α) : α := if c then a else b

section
variable {K : Type} [Add K] [Sub K] [Mul K] [Div K] [Neg K] [OfNat K 0] [OfNat K 1]
  [OfScientific K] [LT K] [LE K] [DecidableLT K] [DecidableLE K]

/-! ## code 0 — piecewise linear (additive) -/

def slow0 (dn nom up a : K) : K :=
  if (0 : K) < a then (up - nom) * a else (nom - dn) * a

def fast0 (dn nom up a : K) : K :=
  sel (decide ((0 : K) < a)) (a * (up - nom)) (a * (nom - dn))

/-! ## code 1 — piecewise exponential (multiplicative) -/

def slow1 (P : Prim K) (dn nom up a : K) : K :=
  if (0 : K) < a then P.pow (up / nom) a else P.pow (dn / nom) (-a)

def fast1 (P : Prim K) (dn nom up a : K) : K :=
  P.pow (sel (decide ((0 : K) < a)) (up / nom) (dn / nom)) (sel (decide ((0 : K) < a)) a (-a))

/-! ## code 2 — quadratic interpolation, linear extrapolation (additive) -/

def c2a (dn nom up : K) : K := (0.5 : K) * (up + dn) - nom
def c2b (dn up : K) : K := (0.5 : K) * (up - dn)

def slow2 (dn nom up a : K) : K :=
  let qa := c2a dn nom up
  let qb := c2b dn up
  if (1 : K) < a then (qb + (2.0 : K) * qa) * (a - 1) + (qa + qb)
  else if (-1 : K) ≤ a then qa * a * a + qb * a
  else (qb - (2.0 : K) * qa) * (a + 1) + (qa - qb)

def fast2 (dn nom up a : K) : K :=
  let qa := c2a dn nom up
  let qb := c2b dn up
  let vGt := (a - 1) * (qb + (2.0 : K) * qa) + (qa + qb)
  let vBt := a * a * qa + a * qb
  let vLt := (a + 1) * (qb - (2.0 : K) * qa) + (qa - qb)
  sel (decide ((-1 : K) ≤ a)) (sel (decide ((1 : K) < a)) vGt vBt) vLt

/-- code 2 exactly as it stood before the repair `fix: code2 …` (kept for the witness theorems
    documenting finding F1). -/
def slow2_prefix (dn nom up a : K) : K :=
  let qa := c2a dn nom up
  let qb := c2b dn up
  if (1 : K) < a then (qb + (2.0 : K) * qa) * (a - 1)
  else if (-1 : K) ≤ a then qa * a * a + qb * a
  else (qb - (2.0 : K) * qa) * (a + 1)

def fast2_prefix (dn nom up a : K) : K :=
  let qa := c2a dn nom up
  let qb := c2b dn up
  let vGt := (a - 1) * (qb + (2.0 : K) * qa)
  let vBt := a * a * qa + a * qb
  let vLt := (a + 0) * (qb - (2.0 : K) * qa)
  sel (decide ((-1 : K) ≤ a)) (sel (decide ((1 : K) < a)) vGt vBt) vLt

/-! ## code 4p — sextic polynomial core, linear extrapolation (additive) -/

def slow4p (dn nom up a : K) : K :=
  let du := up - nom
  let dd := nom - dn
  let S := (0.5 : K) * (du + dd)
  let A := (0.0625 : K) * (du - dd)
  if (1 : K) < a then du * a
  else if a < (-1 : K) then dd * a
  else a * (S + a * A * ((15.0 : K) + a * a * ((-10.0 : K) + a * a * (3.0 : K))))

def fast4p (dn nom up a : K) : K :=
  let du := up - nom
  let dd := nom - dn
  let S := (0.5 : K) * (du + dd)
  let A := (0.0625 : K) * (du - dd)
  let asq := a * a
  let tmp1 := asq * (3.0 : K) - (10.0 : K)
  let tmp2 := asq * tmp1 + (15.0 : K)
  let tmp3 := asq * tmp2
  let deltas := tmp3 * A + a * S
  sel (decide (a < (-1 : K))) (a * dd) (sel (decide ((1 : K) < a)) (a * du) deltas)

/-! ## code 4 — sextic polynomial core, exponential extrapolation (multiplicative) -/

/-- The right-hand side `b` of the boundary-condition system, as a 6-vector. -/
structure Vec6 (K : Type) where
  x1 : K
  x2 : K
  x3 : K
  x4 : K
  x5 : K
  x6 : K

/-- integer power by repeated multiplication (`math.pow(alpha0, k)` / `tensorlib.power(alphasets, k)`
    for the literal exponents 2…6 that occur in the code) -/
def ipow (x : K) : Nat → K
  | 0 => 1
  | n + 1 => ipow x n * x

/-- `A_inverse · b` with `A_inverse` exactly as typed in `code4.py` (fast and slow share it). -/
def code4Coeffs (a0 : K) (b : Vec6 K) : Vec6 K :=
  { x1 := (15.0 : K) / ((16.0 : K) * a0) * b.x1 + (-15.0 : K) / ((16.0 : K) * a0) * b.x2
          + (-7.0 : K) / (16.0 : K) * b.x3 + (-7.0 : K) / (16.0 : K) * b.x4
          + (1.0 : K) / (16.0 : K) * a0 * b.x5 + (-1.0 : K) / (16.0 : K) * a0 * b.x6
    x2 := (3.0 : K) / ((2.0 : K) * ipow a0 2) * b.x1 + (3.0 : K) / ((2.0 : K) * ipow a0 2) * b.x2
          + (-9.0 : K) / ((16.0 : K) * a0) * b.x3 + (9.0 : K) / ((16.0 : K) * a0) * b.x4
          + (1.0 : K) / (16.0 : K) * b.x5 + (1.0 : K) / (16.0 : K) * b.x6
    x3 := (-5.0 : K) / ((8.0 : K) * ipow a0 3) * b.x1 + (5.0 : K) / ((8.0 : K) * ipow a0 3) * b.x2
          + (5.0 : K) / ((8.0 : K) * ipow a0 2) * b.x3 + (5.0 : K) / ((8.0 : K) * ipow a0 2) * b.x4
          + (-1.0 : K) / ((8.0 : K) * a0) * b.x5 + (1.0 : K) / ((8.0 : K) * a0) * b.x6
    x4 := (3.0 : K) / ((-2.0 : K) * ipow a0 4) * b.x1 + (3.0 : K) / ((-2.0 : K) * ipow a0 4) * b.x2
          + (-7.0 : K) / ((-8.0 : K) * ipow a0 3) * b.x3 + (7.0 : K) / ((-8.0 : K) * ipow a0 3) * b.x4
          + (-1.0 : K) / ((8.0 : K) * ipow a0 2) * b.x5 + (-1.0 : K) / ((8.0 : K) * ipow a0 2) * b.x6
    x5 := (3.0 : K) / ((16.0 : K) * ipow a0 5) * b.x1 + (-3.0 : K) / ((16.0 : K) * ipow a0 5) * b.x2
          + (-3.0 : K) / ((16.0 : K) * ipow a0 4) * b.x3 + (-3.0 : K) / ((16.0 : K) * ipow a0 4) * b.x4
          + (1.0 : K) / ((16.0 : K) * ipow a0 3) * b.x5 + (-1.0 : K) / ((16.0 : K) * ipow a0 3) * b.x6
    x6 := (1.0 : K) / ((2.0 : K) * ipow a0 6) * b.x1 + (1.0 : K) / ((2.0 : K) * ipow a0 6) * b.x2
          + (-5.0 : K) / ((16.0 : K) * ipow a0 5) * b.x3 + (5.0 : K) / ((16.0 : K) * ipow a0 5) * b.x4
          + (1.0 : K) / ((16.0 : K) * ipow a0 4) * b.x5 + (1.0 : K) / ((16.0 : K) * ipow a0 4) * b.x6 }

/-- the right-hand side built from the up/down ratios -/
def code4Rhs (P : Prim K) (a0 du dd : K) : Vec6 K :=
  let ua := P.pow du a0
  let da := P.pow dd a0
  { x1 := ua - 1
    x2 := da - 1
    x3 := P.log du * ua
    x4 := -(P.log dd) * da
    x5 := ipow (P.log du) 2 * ua
    x6 := ipow (P.log dd) 2 * da }

/-- `1 + Σ c_i α^i` -/
def poly6 (c : Vec6 K) (a : K) : K :=
  1 + c.x1 * ipow a 1 + c.x2 * ipow a 2 + c.x3 * ipow a 3 + c.x4 * ipow a 4
    + c.x5 * ipow a 5 + c.x6 * ipow a 6

def slow4 (P : Prim K) (a0 dn nom up a : K) : K :=
  let du := up / nom
  let dd := dn / nom
  if a0 ≤ a then P.pow du a
  else if -a0 < a then poly6 (code4Coeffs a0 (code4Rhs P a0 du dd)) a
  else P.pow dd (-a)

def fast4 (P : Prim K) (a0 dn nom up a : K) : K :=
  let du := up / nom
  let dd := dn / nom
  let expo := absK a
  let mexpo := sel (decide (a0 ≤ expo)) expo 1
  let vBt := poly6 (code4Coeffs a0 (code4Rhs P a0 du dd)) a
  let base := sel (decide (-a0 < a)) (sel (decide (a0 ≤ a)) du vBt) dd
  P.pow base mexpo

end

/-! ## interpolator instances: the cache state machine

An interpolator object caches tensors that depend on the *shape* of the last alpha-set
(`alphasets_shape`, `mask_on/off`, `bases_up/dn`, `ones`) and on the *current backend*
(every cached tensor is re-created by `_precompute` on `tensorlib_changed`).  The model keeps
the two tags the cached tensors were derived from.  `call` first performs
`_precompute_alphasets` (refresh if the shape differs) and then evaluates every cell with the
cached masks; a cached tensor of the wrong shape or backend would be observable, which the
model expresses by evaluating through `cacheOK`. -/

structure Cache where
  shape : Nat × Nat          -- (nsysts, nalphas) the masks / bases were built for
  backend : Nat              -- tag of the backend the cached tensors live on
deriving DecidableEq, Repr

inductive Op where
  | call (shape : Nat × Nat) : Op
  | backendChanged (tag : Nat) : Op
deriving Repr

/-- `_precompute_alphasets` -/
def Cache.precomputeAlphasets (c : Cache) (shape : Nat × Nat) : Cache :=
  if shape = c.shape then c else { c with shape := shape }

/-- `_precompute` as run by the `tensorlib_changed` subscription -/
def Cache.precompute (c : Cache) (tag : Nat) : Cache := { c with backend := tag }

/-- one step of an interpolator's life; `cur` is the global backend tag *after* the step -/
def Cache.step (c : Cache) : Op → Cache
  | .call shape => c.precomputeAlphasets shape
  | .backendChanged tag => c.precompute tag

/-- the initial cache: `alphasets_shape = (nsysts, 1)` on the backend current at creation -/
def Cache.init (nsysts : Nat) (tag : Nat) : Cache := { shape := (nsysts, 1), backend := tag }

end Pyhf.Interp
