/-!
# Number domain of the pyhf model

Every model definition is generic in the number type `K` and uses only core classes, so the
*same* definition runs at `Float` (driver, correspondence check), at `Rat` (exact examples)
and is reasoned about at `ℝ` (proof library).  Transcendental primitives are passed
explicitly in a `Prim K` record.
-/
namespace Pyhf

/-- External real-valued primitives used by the model (trusted per instantiation). -/
structure Prim (K : Type) where
  pow  : K → K → K
  log  : K → K
  exp  : K → K
  sqrt : K → K

def floatPrim : Prim Float :=
  { pow := Float.pow, log := Float.log, exp := Float.exp, sqrt := Float.sqrt }

section
variable {K : Type} [Neg K] [LT K] [DecidableLT K] [OfNat K 0]

/-- `abs` as the tensor libraries compute it (sign flip of negative values). -/
def absK (x : K) : K := if x < (0 : K) then -x else x

end

/-- `sum` of a list, left fold from `0` (Python's `sum`). -/
def sumK {K : Type} [Add K] [OfNat K 0] (xs : List K) : K := xs.foldl (· + ·) 0

/-- product of a list, left fold from `1`. -/
def prodK {K : Type} [Mul K] [OfNat K 1] (xs : List K) : K := xs.foldl (· * ·) 1

end Pyhf
