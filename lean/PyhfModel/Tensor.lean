import PyhfModel.Params
import PyhfModel.Interp
/-!
# Engine A, layer 3 — the tensor-level model **T**

Model construction with every check (and every *absence* of a check) on the construction path,
and evaluation the way the code does it: mega-channel tables built by concatenation over the
sorted channels, `where(mask, value, neutral)`, gather by flat parameter index, sum of deltas →
product of factors → clip → sum over samples; constraints by gather + split/stitch viewers.
(`pdf.py`, `modifiers/*_combined`, `constraints.py`, `tensor/common.py`, `parameters/paramview.py`)
-/
namespace Pyhf

structure Settings (K : Type) where
  histoCode : String := "4p"      -- "0" | "2" | "4p"
  normCode : String := "4"        -- "1" | "4"
  clipSample : Option K := none
  clipBin : Option K := none
  poi : Option String := none

structure Model (K : Type) where
  spec : Spec K
  cfg : Config
  ps : List (Paramset K)
  slices : List (String × Nat × Nat)
  npars : Nat                       -- `len(suggested_init())`
  settings : Settings K
  poiIndex : Option Nat

/-! ## `_TensorViewer` -/

/-- indices `0..n-1` sorted by key (`argsort`; keys are distinct wherever the code uses it) -/
def argsort (keys : List Nat) : List Nat :=
  (((List.range keys.length).zip keys).mergeSort (fun a b => decide (a.2 ≤ b.2))).map (·.1)

structure TV where
  parts : List (List Nat)

def TV.sorted (tv : TV) : List Nat := argsort tv.parts.flatten

/-- `stitch`: concatenate the parts' data and gather by the argsort of the concatenated indices -/
def TV.stitch {α : Type} (tv : TV) (d : α) (data : List (List α)) : List α :=
  let cat := data.flatten
  tv.sorted.map fun i => cat.getD i d

/-- `split`: gather each part's indices -/
def TV.split {α : Type} (tv : TV) (d : α) (v : List α) : List (List α) :=
  tv.parts.map fun idx => idx.map fun i => v.getD i d

/-- `_tensorviewer_from_sizes` -/
def TV.ofSizes (sizes : List Nat) : TV :=
  let rec go : List Nat → Nat → List (List Nat)
    | [], _ => []
    | k :: rest, start => ((List.range k).map (· + start)) :: go rest (start + k)
  { parts := go sizes 0 }

section
variable {K : Type} [Add K] [Sub K] [Mul K] [Div K] [Neg K] [OfNat K 0] [OfNat K 1]
  [OfScientific K] [LT K] [LE K] [DecidableLT K] [DecidableLE K] [BEq K]

/-! ## construction -/

/-- first loop of `_nominal_and_modifiers_from_spec` over the raw spec: a non-shared modifier key
(shapesys) may not recur in an earlier sample or earlier in the same sample -/
def shapesysReuse (s : Spec K) : Bool :=
  let samples := s.channels.flatMap (·.samples)
  let step (st : List String × Bool) (sm : Sample K) : List String × Bool :=
    let (seen, bad) := st
    let r := sm.mods.foldl (fun (acc : List String × Bool) m =>
      let key := m.type.str ++ "/" ++ m.name
      let clash := !m.type.isShared && (seen.contains key || acc.1.contains key)
      (acc.1 ++ [key], acc.2 || clash)) ([], false)
    (seen ++ r.1, bad || r.2)
  (samples.foldl step ([], false)).2

/-- first loop over the raw spec: a repeated channel name, a repeated sample name inside a channel, or a
`type/name` key repeated on one sample (`InvalidModel`) -/
def hasDup (xs : List String) : Bool :=
  match xs with
  | [] => false
  | x :: rest => rest.contains x || hasDup rest

def specDuplicates (s : Spec K) : Bool :=
  hasDup (s.channels.map (·.name)) ||
  s.channels.any (fun c => hasDup (c.samples.map (·.name)) ||
    c.samples.any fun sm => hasDup (sm.mods.map fun m => m.type.str ++ "/" ++ m.name))

/-- `_nominal_builder.append`: every defined sample must have the channel's bin count -/
def nominalLengthsOK (s : Spec K) (cfg : Config) : Bool :=
  cfg.channels.all fun c => cfg.samples.all fun sm =>
    match findSample s c sm with
    | some x => x.data.length == cfg.nbOf c
    | none => true

/-- size of the shapefactor parameter set named `n`: the bin count of its first declaring cell -/
def sfFirstSize (s : Spec K) (cfg : Config) (n : String) : Option Nat :=
  ((declaringCells s cfg .shapefactor).find? (·.1 == n)).map fun (_, x, _) => x.data.length

/-- the checks made when a declared modifier is appended to its builder, for one cell of the sorted walk -/
def modAppendError (s : Spec K) (cfg : Config) (x : Sample K) (n : String) (t : ModType) : Option Err :=
  match findMod x n t with
  | none => none
  | some md =>
    match t with
    | .histosys => if x.data.length != md.lo.length || x.data.length != md.hi.length then some .invalidModifier else none
    | .shapesys | .staterror => if x.data.length != md.lo.length then some .invalidModifier else none
    | .shapefactor => if sfFirstSize s cfg n != some x.data.length then some .invalidModifier else none
    | _ => none

/-- the sorted walk `for c in channels: for s in samples: nominal.append; for m in modifiers: builder.append`:
first failure, if any -/
def walkError (s : Spec K) (cfg : Config) : Option Err :=
  cfg.channels.findSome? fun c => cfg.samples.findSome? fun sm =>
    match findSample s c sm with
    | none => none
    | some x =>
      if x.data.length != cfg.nbOf c then some .invalidModel
      else cfg.modifiers.findSome? fun (n, t) => modAppendError s cfg x n t

/-- per-channel block of the lower / upper variation (histosys absolute, normsys broadcast factor) -/
def varBlk (s : Spec K) (cfg : Config) (n : String) (t : ModType) (sm : String) (hiSide : Bool) (c : String) : List K :=
  match findSample s c sm with
  | some x => (match findMod x n t with
      | some m => if t == .histosys then (if hiSide then m.hi else m.lo)
                  else List.replicate x.data.length ((if hiSide then m.hi else m.lo).headD 1)
      | none => if t == .histosys then x.data else List.replicate x.data.length 1)
  | none => List.replicate (cfg.nbOf c) (if t == .histosys then 0 else 1)

def varTab (s : Spec K) (cfg : Config) (n : String) (t : ModType) (sm : String) (hiSide : Bool) : List K :=
  blocks cfg (varBlk s cfg n t sm hiSide)

/-- `finalize` length checks: only the *concatenated* lengths are compared -/
def finalizeLengthsOK (s : Spec K) (cfg : Config) (t : ModType) : Bool :=
  (cfg.modifiers.filter (·.2 == t)).all fun (n, _) => cfg.samples.all fun sm =>
    let nom := (nomTab s cfg sm).length
    match t with
    | .histosys => nom == (varTab s cfg n t sm false).length && nom == (varTab s cfg n t sm true).length
    | .shapesys | .staterror => nom == (uncrtTab s cfg n t sm).length
    | _ => true

/-- **Not checked by the code** (only the concatenated lengths are): every histosys variation has the
bin count of its own channel.  Part of the well-formedness hypothesis of the C01 theorems. -/
def histoBlocksOK (s : Spec K) (cfg : Config) : Bool :=
  cfg.channels.all fun c => cfg.samples.all fun sm =>
    ((cfg.modifiers.filter (·.2 == ModType.histosys)).map (·.1)).all fun n => [false, true].all fun hi =>
      (varBlk s cfg n .histosys sm hi c).length == cfg.nbOf c

/-- `ParamViewer.index_selection` of a name, unbatched: the indices of its slice -/
def selection (sl : List (String × Nat × Nat)) (n : String) : List Nat :=
  let (a, b) := sliceOf sl n
  (List.range (b - a)).map (· + a)

/-- scatter consecutive `sel` entries into the `true` positions of a mask, zeros elsewhere
(`access = zeros(len); access[mask] = selection`; a one-element selection is broadcast);
`k` = number of `true` positions already consumed -/
def scatterFrom (sel : List Nat) : List Bool → Nat → List Nat
  | [], _ => []
  | true :: bs, k => (if sel.length == 1 then sel.headD 0 else sel.getD k 0) :: scatterFrom sel bs (k + 1)
  | false :: bs, k => 0 :: scatterFrom sel bs k

def scatter (mask : List Bool) (sel : List Nat) : List Nat := scatterFrom sel mask 0

/-- the sample whose mask row `_reindex_access_field` uses: the **last** sample with any `True` -/
def singularSample (s : Spec K) (cfg : Config) (n : String) (t : ModType) : Option String :=
  (cfg.samples.filter fun sm => (maskTab s cfg n t sm).any id).getLast?

def singularMask (s : Spec K) (cfg : Config) (n : String) (t : ModType) : Option (List Bool) :=
  (singularSample s cfg n t).map (maskTab s cfg n t)

/-- per-channel block of the shapefactor access field: bin `b` reads `selection[b]`, falling back to flat
index **0** when the channel has more bins than the parameter set has components -/
def shapefactorAccessBlk (cfg : Config) (sel : List Nat) (c : String) : List Nat :=
  (List.range (cfg.nbOf c)).map fun b => if b < sel.length then sel.getD b 0 else 0

/-- flat parameter index read by each mega-channel bin for a bin-wise modifier -/
def accessField (s : Spec K) (cfg : Config) (sl : List (String × Nat × Nat)) (n : String) (t : ModType) : List Nat :=
  let sel := selection sl n
  match t with
  | .shapefactor => blocks cfg (shapefactorAccessBlk cfg sel)
  | _ => scatter ((singularMask s cfg n t).getD []) sel

/-- failures of `shapesys/staterror_combined._reindex_access_field` -/
def reindexError (s : Spec K) (cfg : Config) (sl : List (String × Nat × Nat)) (t : ModType) : Option Err :=
  (cfg.modifiers.filter (·.2 == t)).findSome? fun (n, _) =>
    match singularMask s cfg n t with
    | none => some .pyIndexError
    | some m =>
      let k := (selection sl n).length
      if k != m.count true && k != 1 then some .pyValueError else none

/-- `ParamViewer(..., par_selection)` in every `*_combined.__init__`: `par_map[name]` raises `KeyError` for a
modifier that is listed in `config.modifiers` but for which no builder produced a parameter set (its only
declarations were shadowed by "last definition wins") -/
def orphanError (cfg : Config) (ps : List (Paramset K)) : Option Err :=
  if cfg.modifiers.any (fun (n, _) => !(ps.any (·.name == n))) then some .pyKeyError else none

/-- `config.set_poi` -/
def poiCheck (poi : Option String) (ps : List (Paramset K)) (sl : List (String × Nat × Nat)) : Except Err (Option Nat) :=
  match poi with
  | none => .ok none
  | some p =>
    match ps.find? (·.name == p) with
    | none => .error .invalidModel
    | some q => if q.n > 1 then .error .invalidModel else .ok (some (sliceOf sl p).1)

def buildModel (P : Prim K) (s : Spec K) (st : Settings K) : Except Err (Model K) :=
  let cfg := mkConfig s
  if specDuplicates s || shapesysReuse s then .error .invalidModel else
  match walkError s cfg with
  | some e => .error e
  | none =>
  if !finalizeLengthsOK s cfg .histosys then .error .invalidModifier else
  if !finalizeLengthsOK s cfg .shapesys then .error .invalidModifier else
  if !finalizeLengthsOK s cfg .staterror then .error .invalidModifier else
  match createParamsets P s cfg with
  | .error e => .error e
  | .ok ps =>
    match orphanError cfg ps with
    | some e => .error e
    | none =>
    match reindexError s cfg (parSlices ps) .shapesys with
    | some e => .error e
    | none =>
      match reindexError s cfg (parSlices ps) .staterror with
      | some e => .error e
      | none =>
        match poiCheck st.poi ps (parSlices ps) with
        | .error e => .error e
        | .ok poiIndex =>
          .ok { spec := s, cfg := cfg, ps := ps, slices := parSlices ps, npars := (suggestedInit ps).length,
                settings := st, poiIndex := poiIndex }

/-! ## evaluation -/

def histoInterp (code : String) (dn nom up a : K) : K :=
  if code == "0" then Interp.fast0 dn nom up a
  else if code == "2" then Interp.fast2 dn nom up a
  else Interp.fast4p dn nom up a

def normInterp (P : Prim K) (code : String) (dn nom up a : K) : K :=
  if code == "1" then Interp.fast1 P dn nom up a else Interp.fast4 P 1 dn nom up a

def whereK (mask : List Bool) (v d : List K) : List K :=
  List.zipWith (fun (m : Bool) (vd : K × K) => if m then vd.1 else vd.2) mask (v.zip d)

def vecMul (xs ys : List K) : List K := List.zipWith (· * ·) xs ys

def clipVec (lo : Option K) (xs : List K) : List K :=
  match lo with
  | none => xs
  | some c => xs.map fun x => if x < c then c else x

def modsOf (cfg : Config) (t : ModType) : List String := (cfg.modifiers.filter (·.2 == t)).map (·.1)

/-- the factor vector of one multiplicative modifier on one sample: `where(mask, value, 1)` -/
def factorVec (P : Prim K) (m : Model K) (par : Nat → K) (n : String) (t : ModType) (sm : String) : List K :=
  let s := m.spec; let cfg := m.cfg
  let mask := maskTab s cfg n t sm
  let nmain := cfg.nmain
  let ones := List.replicate nmain (1 : K)
  let value : List K :=
    match t with
    | .lumi =>
        -- `einsum('msab,x->msab', mask, lumis)`: the mask times the *sum* of all lumi parameters
        let tot := sumK ((modsOf cfg .lumi).flatMap fun n' => (selection m.slices n').map par)
        List.replicate nmain tot
    | .normfactor => List.replicate nmain (par (sliceOf m.slices n).1)
    | .normsys =>
        let a := par (sliceOf m.slices n).1
        List.zipWith (fun lo hi => normInterp P m.settings.normCode lo 1 hi a)
          (varTab s cfg n t sm false) (varTab s cfg n t sm true)
    | _ => (accessField s cfg m.slices n t).map par
  whereK mask value ones

/-- the additive shift of one histosys modifier on one sample: `where(mask, interp, 0)` -/
def deltaVec (m : Model K) (par : Nat → K) (n : String) (sm : String) : List K :=
  let s := m.spec; let cfg := m.cfg
  let a := par (sliceOf m.slices n).1
  let lo := varTab s cfg n .histosys sm false
  let hi := varTab s cfg n .histosys sm true
  let nom := nomTab s cfg sm
  let v := List.zipWith (fun (l : K) (nh : K × K) => histoInterp m.settings.histoCode l nh.1 nh.2 a) lo (nom.zip hi)
  whereK (maskTab s cfg n .histosys sm) v (List.replicate cfg.nmain 0)

/-- multiplicative modifier types in the order `_factor_mods` lists them -/
def factorTypes : List ModType := [.lumi, .normfactor, .normsys, .shapefactor, .shapesys, .staterror]

/-- expected rate vector of one sample over the mega-channel (after per-sample clipping) -/
def sampleVec (P : Prim K) (m : Model K) (par : Nat → K) (sm : String) : List K :=
  let cfg := m.cfg
  let deltas := (modsOf cfg .histosys).map fun n => deltaVec m par n sm
  let nomPlus := (deltas ++ [nomTab m.spec cfg sm]).foldl vecAdd (List.replicate cfg.nmain 0)
  let factors := factorTypes.flatMap fun t => (modsOf cfg t).map fun n => factorVec P m par n t sm
  let prod := (factors ++ [nomPlus]).foldl vecMul (List.replicate cfg.nmain 1)
  clipVec m.settings.clipSample prod

/-- `main_model.expected_data(pars, return_by_sample=True)` -/
def expectedBySample (P : Prim K) (m : Model K) (par : Nat → K) : List (List K) :=
  m.cfg.samples.map (sampleVec P m par)

/-- `expected_actualdata` -/
def expectedActual (P : Prim K) (m : Model K) (par : Nat → K) : List K :=
  clipVec m.settings.clipBin
    ((expectedBySample P m par).foldl vecAdd (List.replicate m.cfg.nmain 0))

/-- unbatched parameter access: `gather(pars, i)` -/
def parOf (θ : List K) : Nat → K := fun i => θ.getD i 0

/-- batched parameter access of row `t`: `gather(reshape(pars, -1), t·npars + i)` -/
def parOfRow (npars : Nat) (rows : List (List K)) (t : Nat) : Nat → K :=
  fun i => rows.flatten.getD (t * npars + i) 0

/-! ## constraints -/

inductive CKind | normal | poisson deriving DecidableEq, Repr

/-- one constraint term: kind, position of the auxiliary datum, mean (normal) or rate (poisson), width -/
structure CTerm (K : Type) where
  kind : CKind
  auxIdx : Nat
  loc : K
  scale : K

/-- walk `auxdata_order` with a running index into `range(len(auxdata))`
(`gaussian_/poisson_constraint_combined.__init__`) and gather the parameters of each
constrained paramset through its slice (`make_pdf`) -/
def constraintTerms (m : Model K) (par : Nat → K) : List (CTerm K) :=
  let rec go : List (Paramset K) → Nat → List (CTerm K)
    | [], _ => []
    | p :: rest, start =>
      let sel := selection m.slices p.name
      let here : List (CTerm K) :=
        match p.ptype with
        | .normal =>
          let sig := p.sigmas.getD (List.replicate p.n 1)
          (List.range p.n).map fun i =>
            { kind := .normal, auxIdx := start + i, loc := par (sel.getD i 0), scale := sig.getD i 1 }
        | .poisson =>
          (List.range p.n).map fun i =>
            { kind := .poisson, auxIdx := start + i, loc := par (sel.getD i 0) * p.factors.getD i 1, scale := 1 }
        | .unconstrained => []
      here ++ go rest (start + p.n)
  go (m.ps.filter (·.constrained)) 0

/-- `_normal_data` / `_poisson_data` index lists -/
def normalData (m : Model K) (par : Nat → K) : List Nat :=
  ((constraintTerms m par).filter (·.kind == .normal)).map (·.auxIdx)
def poissonData (m : Model K) (par : Nat → K) : List Nat :=
  ((constraintTerms m par).filter (·.kind == .poisson)).map (·.auxIdx)

/-- `constraint_model.constraints_tv` -/
def constraintsTV (m : Model K) : TV :=
  let nd := normalData m (fun _ => (0 : K))
  let pd := poissonData m (fun _ => (0 : K))
  { parts := (if nd.isEmpty then [] else [nd]) ++ (if pd.isEmpty then [] else [pd]) }

/-- `Model.expected_auxdata`: stitch of the normal means and the poisson rates -/
def expectedAux (m : Model K) (par : Nat → K) : List K :=
  let ts := constraintTerms m par
  let nm := (ts.filter (·.kind == .normal)).map (·.loc)
  let pr := (ts.filter (·.kind == .poisson)).map (·.loc)
  (constraintsTV m).stitch 0 ((if nm.isEmpty then [] else [nm]) ++ (if pr.isEmpty then [] else [pr]))

/-- The decomposition of `logpdf(pars, data)` into primitive terms, produced the way the code
does it: `fullpdf_tv.split(data)` into main/aux, main Poisson terms bin by bin, then
`constraints_tv.split(aux)` into the normal and poisson groups paired with the gathered
parameters.  Each entry is `(kind, datum, mean-or-rate, width)`. -/
def logpdfTerms (P : Prim K) (m : Model K) (par : Nat → K) (data : List K) :
    List (CKind × K × K × K) :=
  let nmain := m.cfg.nmain
  let naux := (auxData m.ps).length
  let full := TV.ofSizes ([nmain] ++ (if (constraintTerms m par).isEmpty then [] else [naux]))
  let parts := full.split 0 data
  let mainD := parts.getD 0 []
  let auxD := parts.getD 1 []
  let rates := expectedActual P m par
  let mainT := (mainD.zip rates).map fun (d, r) => (CKind.poisson, d, r, (1 : K))
  let ts := constraintTerms m par
  let nT := ts.filter (·.kind == .normal)
  let pT := ts.filter (·.kind == .poisson)
  let ctv := constraintsTV m
  let groups := ctv.split 0 auxD
  let nD := if nT.isEmpty then [] else groups.getD 0 []
  let pD := if pT.isEmpty then [] else groups.getD (if nT.isEmpty then 0 else 1) []
  mainT ++ (nD.zip nT).map (fun (d, t) => (CKind.normal, d, t.loc, t.scale))
        ++ (pD.zip pT).map (fun (d, t) => (CKind.poisson, d, t.loc, t.scale))

/-- `Model.expected_data` = stitch(main, aux) -/
def expectedData (P : Prim K) (m : Model K) (par : Nat → K) : List K :=
  expectedActual P m par ++ expectedAux m par

end
end Pyhf

namespace Pyhf
section
variable {K : Type} [Add K] [Sub K] [Mul K] [Div K] [Neg K] [OfNat K 0] [OfNat K 1]
  [OfScientific K] [LT K] [LE K] [DecidableLT K] [DecidableLE K] [BEq K]

/-- the two log-density primitives (`tensorlib.poisson_logpdf(n, lam)`, `tensorlib.normal_logpdf(x, mu, sigma)`);
their exactness is the subject of C04 -/
structure LogPrim (K : Type) where
  lpois : K → K → K
  lnorm : K → K → K → K

def termLog (L : LogPrim K) : CKind × K × K × K → K
  | (.poisson, d, rate, _) => L.lpois d rate
  | (.normal, d, mu, sigma) => L.lnorm d mu sigma

/-- `Model.logpdf(pars, data)` (unbatched: the `(1,)`-shaped result's entry) -/
def logpdfT (P : Prim K) (L : LogPrim K) (m : Model K) (par : Nat → K) (data : List K) : K :=
  sumK ((logpdfTerms P m par data).map (termLog L))

/-- `Model.mainlogpdf(maindata, pars)` -/
def mainLogpdfT (P : Prim K) (L : LogPrim K) (m : Model K) (par : Nat → K) (maindata : List K) : K :=
  sumK ((maindata.zip (expectedActual P m par)).map fun (d, r) => L.lpois d r)

/-- `Model.constraint_logpdf(auxdata, pars)` -/
def constraintLogpdfT (L : LogPrim K) (m : Model K) (par : Nat → K) (aux : List K) : K :=
  let ts := constraintTerms m par
  let nT := ts.filter (·.kind == .normal)
  let pT := ts.filter (·.kind == .poisson)
  let groups := (constraintsTV m).split 0 aux
  let nD := if nT.isEmpty then [] else groups.getD 0 []
  let pD := if pT.isEmpty then [] else groups.getD (if nT.isEmpty then 0 else 1) []
  sumK (((nD.zip nT).map fun (d, t) => L.lnorm d t.loc t.scale) ++ ((pD.zip pT).map fun (d, t) => L.lpois d t.loc))

end
end Pyhf
