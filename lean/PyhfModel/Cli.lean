/-!
# Engine G — the command-line glue (`src/pyhf/cli/*.py`, `src/pyhf/utils.py`)

Each subcommand is: parse options → one library call (`LibCall`, with exactly the arguments the options determine)
→ render the result → write it to a file or to standard output.  The model is the option-to-call mapping
(`dispatch`), the dictionary semantics of repeated options (`dictOf`), the equal-delimited option parser, the
backend aliases, the digest output format and the sink.  The library calls themselves are the subjects of C05–C09
and C16–C18 and enter as an abstract `exec`.
-/
namespace Pyhf.Cli

/-! ## small pieces -/

/-- Python `d[k] = v`: a key already present keeps its position and takes the new value -/
def dictIns {β : Type} (d : List (String × β)) (k : String) (v : β) : List (String × β) :=
  if d.any (·.1 == k) then d.map (fun e => if e.1 == k then (k, v) else e) else d ++ [(k, v)]

/-- Python `dict(pairs)` / `{k: v for …}`: the dictionary after inserting the pairs left to right -/
def dictFrom {β : Type} (ps : List (String × β)) : List (String × β) := ps.foldl (fun d e => dictIns d e.1 e.2) []

def dictGet {β : Type} (d : List (String × β)) (k : String) : Option β := (d.find? (·.1 == k)).map (·.2)

/-- `opt.split('=', 1)`: at the first `=`; no `=` is a usage error (click exit status 2) -/
def splitEq (s : String) : Option (String × String) :=
  let cs := s.toList
  if cs.contains '=' then
    some (String.ofList (cs.takeWhile (· != '=')), String.ofList ((cs.dropWhile (· != '=')).drop 1))
  else none

/-- the `set_backend` call a `--backend` value leads to (`none`: no call, the process default numpy stays) -/
def backendCall (b : String) : Option (String × Option String) :=
  if b == "pytorch" || b == "torch" then some ("pytorch", some "64b")
  else if b == "tensorflow" || b == "tf" then some ("tensorflow", some "64b")
  else if b == "jax" then some ("jax", none)
  else none

def backendChoices : List String := ["numpy", "pytorch", "tensorflow", "jax", "np", "torch", "tf"]

/-- the tensor library in effect after the option, in a fresh process -/
def backendName (b : String) : String := match backendCall b with | some (n, _) => n | none => "numpy"

/-- `pyhf digest`: one digest per distinct algorithm, in order of first mention -/
def digestAlgs (algs : List String) : List String := (dictFrom (algs.map fun a => (a, ()))).map (·.1)

def digestPlain (ds : List (String × String)) : String := "\n".intercalate (ds.map fun (a, d) => a ++ ":" ++ d)

/-- what `pyhf digest` prints in plaintext mode: `hash` is the library's digest function -/
def digestOutput (algs : List String) (hash : String → String) : String :=
  digestPlain ((digestAlgs algs).map fun a => (a, hash a))

/-- Python `d.update(e)` -/
def dictUpdate {β : Type} (d e : List (String × β)) : List (String × β) := e.foldl (fun d x => dictIns d x.1 x.2) d

/-- `pyhf patchset extract --with-metadata`: the `metadata` entry of the emitted object is the patch's own metadata
updated with the patch set's (`result['metadata'].update(patchset.metadata)`) -/
def extractMetadata {β : Type} (patchMeta setMeta : List (String × β)) : List (String × β) := dictUpdate patchMeta setMeta

/-! ## options → library call -/

structure InferOpts where
  measurement : Option String := none
  patches : List String := []
  backend : String := "numpy"
  optimizer : String := "scipy"
  optconf : List String := []          -- raw `key=value` strings, in order
deriving Repr, DecidableEq

inductive Args
  | fit (o : InferOpts) (value : Bool)
  | cls (o : InferOpts) (testPoi : String) (testStat : String) (calctype : String)
  | inspect (measurement : Option String)
  | prune (channels samples modifiers modifierTypes measurements : List String)
  | rename (channels samples modifiers measurements : List (String × String))
  | combine (join : String) (merge : Bool)
  | digest (algs : List String) (json : Bool)
  | sort
  | psExtract (name : Option String) (withMetadata : Bool)
  | psApply (name : Option String)
  | psVerify
  | psInspect
  | xml2json (trackProgress validationAsError : Bool)
  | json2xml (specroot dataroot resultprefix : String) (patches : List String)
deriving Repr, DecidableEq

/-- the library entry point and its arguments -/
inductive LibCall
  | fit (measurement : Option String) (patches : List String) (returnFittedVal : Bool)
        (backend : String) (precision : Option String) (optimizer : String) (optconf : List (String × String))
  | hypotest (measurement : Option String) (patches : List String) (testPoi testStat calctype : String)
        (backend : String) (precision : Option String) (optimizer : String) (optconf : List (String × String))
        (normsysCode histosysCode : String)
  | inspect (measurement : Option String)
  | prune (channels samples modifiers modifierTypes measurements : List String)
  | rename (channels samples modifiers measurements : List (String × String))
  | combine (join : String) (merge : Bool)
  | digest (algs : List String)
  | sort
  | psGet (name : Option String)
  | psApply (name : Option String)
  | psVerify
  | psList
  | parseXml (trackProgress validationAsError : Bool)
  | writeXml (specroot dataroot resultprefix : String) (patches : List String)
  | usageError
deriving Repr, DecidableEq

def confOf (raw : List String) : Option (List (String × String)) :=
  (raw.mapM splitEq).map dictFrom

/-- click's `Choice` checks of the inference subcommands -/
def inferOK (o : InferOpts) : Bool := backendChoices.contains o.backend && (o.optimizer == "scipy" || o.optimizer == "minuit")
def clsOK (testStat calctype : String) : Bool := (testStat == "q" || testStat == "qtilde") && (calctype == "asymptotics" || calctype == "toybased")
def joinOK (j : String) : Bool := ["none", "outer", "left outer", "right outer"].contains j

def inferCall (o : InferOpts) (k : String → Option String → String → List (String × String) → LibCall) : LibCall :=
  if inferOK o then
    match confOf o.optconf with
    | none => .usageError
    | some conf => k (backendName o.backend) ((backendCall o.backend).bind (·.2)) o.optimizer conf
  else .usageError

def dispatch : Args → LibCall
  | .fit o value => inferCall o fun b p opt conf => .fit o.measurement o.patches value b p opt conf
  | .cls o poi ts ct =>
    if clsOK ts ct then inferCall o fun b p opt conf => .hypotest o.measurement o.patches poi ts ct b p opt conf "code4" "code4p"
    else .usageError
  | .inspect m => .inspect m
  | .prune c s m t ms => .prune c s m t ms
  | .rename c s m ms => .rename (dictFrom c) (dictFrom s) (dictFrom m) (dictFrom ms)
  | .combine j mg => if joinOK j then .combine j mg else .usageError
  | .digest algs _ => .digest algs
  | .sort => .sort
  | .psExtract n _ => .psGet n
  | .psApply n => .psApply n
  | .psVerify => .psVerify
  | .psInspect => .psList
  | .xml2json tp ve => .parseXml tp ve
  | .json2xml sr dr rp ps => .writeXml sr dr rp ps

/-- top-level keys of the JSON the inference subcommands emit -/
def resultKeys : Args → List String
  | .fit _ value => if value then ["mle_parameters", "twice_nll"] else ["mle_parameters"]
  | .cls .. => ["CLs_exp", "CLs_obs"]
  | _ => []

/-! ## running a subcommand: exit status and where the text goes -/

inductive Sink | stdout | file
deriving Repr, DecidableEq

structure Outcome where
  exit : Nat
  stdout : String
  file : Option String
deriving Repr, DecidableEq

/-- the library either returns rendered text or raises; `exec` is that call -/
def run (a : Args) (sink : Sink) (exec : LibCall → Option String) : Outcome :=
  match dispatch a with
  | .usageError => { exit := 2, stdout := "", file := none }
  | c =>
    match exec c with
    | none => { exit := 1, stdout := "", file := none }
    | some text =>
      match sink with
      | .stdout => { exit := 0, stdout := text ++ "\n", file := none }
      | .file => { exit := 0, stdout := "", file := some text }

end Pyhf.Cli
