import PyhfModel.Tensor
/-!
# Engine A — the declarative model **D**

The HistFactory rate formula read off the specification: per channel, per bin, the sum over the
samples *present in that channel* of (product of the factors of the multiplicative modifiers
*declared on the sample*) × (nominal + sum of the shifts of the declared additive modifiers), every
parameter being looked up through the slice of the parameter set **named** by the modifier.
No masks, no mega-channel, no gather tables.
-/
namespace Pyhf

section
variable {K : Type} [Add K] [Sub K] [Mul K] [Div K] [Neg K] [OfNat K 0] [OfNat K 1]
  [OfScientific K] [LT K] [LE K] [DecidableLT K] [DecidableLE K] [BEq K]

def clip1 (lo : Option K) (x : K) : K :=
  match lo with
  | none => x
  | some c => if x < c then c else x

/-- channel descriptors: name and position in `config.channels` -/
abbrev Chan := String × Nat

def Model.chans (m : Model K) : List Chan := m.cfg.channels.zipIdx

/-- is modifier `(n,t)` declared on sample `sm` in channel `c`? -/
def declOn (m : Model K) (n : String) (t : ModType) (sm c : String) : Bool :=
  match findSample m.spec c sm with
  | some x => (findMod x n t).isSome
  | none => false

/-- per-channel component counts of a bin-wise constrained modifier: the bins of each channel in which
its (singular) sample declares it, in channel order -/
def compCounts (m : Model K) (n : String) (t : ModType) : List Nat :=
  let sm := (singularSample m.spec m.cfg n t).getD ""
  m.cfg.channels.map fun c => if declOn m n t sm c then m.cfg.nbOf c else 0

/-- number of parameter components consumed by the first `i` channels -/
def offAt (cnts : List Nat) (i : Nat) : Nat := (cnts.take i).foldl (· + ·) 0

/-- component `i` of the parameter set named `n` -/
def byName (m : Model K) (par : Nat → K) (n : String) (i : Nat) : K := par ((sliceOf m.slices n).1 + i)

namespace D

/-- the factor contributed by the multiplicative modifier `md` (declared on a sample) in bin `b` of channel `ch` -/
def factor (P : Prim K) (m : Model K) (par : Nat → K) (md : Modifier K) (ch : Chan) (b : Nat) : K :=
  match md.type with
  | .lumi | .normfactor => byName m par md.name 0
  | .normsys => normInterp P m.settings.normCode (md.lo.headD 1) 1 (md.hi.headD 1) (byName m par md.name 0)
  | .shapefactor => byName m par md.name b
  | .shapesys | .staterror => byName m par md.name (offAt (compCounts m md.name md.type) ch.2 + b)
  | .histosys => 1

/-- the additive shift contributed by the histosys modifier `md` on a sample with nominal `nom` in bin `b` -/
def shift (m : Model K) (par : Nat → K) (md : Modifier K) (nom : K) (b : Nat) : K :=
  histoInterp m.settings.histoCode (md.lo.getD b 0) nom (md.hi.getD b 0) (byName m par md.name 0)

/-- (Π factors) × (nominal + Σ shifts) for one sample in one bin -/
def sampleRate (P : Prim K) (m : Model K) (par : Nat → K) (x : Sample K) (ch : Chan) (b : Nat) : K :=
  let nom := x.data.getD b 0
  let shifts := (modsOf m.cfg .histosys).filterMap fun n => (findMod x n .histosys).map fun md => shift m par md nom b
  let facs := factorTypes.flatMap fun t => (modsOf m.cfg t).filterMap fun n =>
    (findMod x n t).map fun md => factor P m par md ch b
  prodK facs * (sumK shifts + nom)

/-- expected rate of bin `b` of channel `ch`: sum over the channel's samples, clipped per sample then per bin -/
def binRate (P : Prim K) (m : Model K) (par : Nat → K) (ch : Chan) (b : Nat) : K :=
  clip1 m.settings.clipBin
    (sumK (m.cfg.samples.filterMap fun sm => (findSample m.spec ch.1 sm).map fun x =>
      clip1 m.settings.clipSample (sampleRate P m par x ch b)))

/-- channels laid out in the order the configuration reports -/
def expected (P : Prim K) (m : Model K) (par : Nat → K) : List K :=
  m.chans.flatMap fun ch => (List.range (m.cfg.nbOf ch.1)).map (binRate P m par ch)

end D

/-- **Not checked by the code** for shapefactor: every bin-wise modifier has exactly one parameter
component per bin it acts on (shapefactor: the channel's bin count does not exceed the parameter size;
shapesys/staterror: the components of the declaring channels add up to the parameter size). -/
def binwiseOK (m : Model K) : Bool :=
  m.cfg.modifiers.all fun (n, t) =>
    let size := (sliceOf m.slices n).2 - (sliceOf m.slices n).1
    match t with
    | .shapefactor =>
      m.cfg.channels.all fun c => m.cfg.samples.all fun sm => !declOn m n t sm c || m.cfg.nbOf c ≤ size
    | .shapesys | .staterror => (compCounts m n t).foldl (· + ·) 0 == size
    | _ => true

/-- at most one luminosity parameter, and it is a scalar (the code multiplies by the *sum* of all
components of all lumi parameters) -/
def singleLumi (m : Model K) : Bool :=
  (modsOf m.cfg .lumi).length ≤ 1 &&
  (modsOf m.cfg .lumi).all fun n => (sliceOf m.slices n).2 - (sliceOf m.slices n).1 == 1

/-- every sample that declares a bin-wise constrained modifier in a channel is covered by the mask row the
access field is built from (implied by the shapesys-reuse check and the staterror mask assertion) -/
def singularCovers (m : Model K) : Bool :=
  m.cfg.modifiers.all fun (n, t) =>
    match t with
    | .shapesys | .staterror =>
      let sm' := (singularSample m.spec m.cfg n t).getD ""
      m.cfg.channels.all fun c => m.cfg.samples.all fun sm => !declOn m n t sm c || declOn m n t sm' c
    | _ => true

/-- every parameter set occupies a slice of its own size, and every constrained one carries auxiliary data
(and, if given, widths) of its own size — violated only by wrong-length measurement overrides of a
luminosity parameter, which construction does not check -/
def paramsetsOK (m : Model K) : Bool :=
  m.ps.all fun p =>
    ((sliceOf m.slices p.name).2 - (sliceOf m.slices p.name).1 == p.n) &&
    (!p.constrained || ((p.auxdata.getD []).length == p.n))

/-- every parameter index the model reads lies below `N` (the slices of all modifier names end at or before `N`) -/
def readsBelow (m : Model K) (N : Nat) : Bool :=
  decide (0 < N) && m.cfg.modifiers.all fun (n, _) =>
    decide ((sliceOf m.slices n).1 < N) && decide ((sliceOf m.slices n).2 ≤ N)

/-- every parameter index the constraint terms read lies below `N` (the slices of all constrained parameter sets end at or before `N`) -/
def constraintReadsBelow (m : Model K) (N : Nat) : Bool :=
  decide (0 < N) && (m.ps.filter (·.constrained)).all fun p => decide ((sliceOf m.slices p.name).2 ≤ N)

/-- per-sample clipping does not lift the zero rows of absent samples -/
def clipSampleNonPos (m : Model K) : Bool :=
  match m.settings.clipSample with
  | none => true
  | some c => !decide ((0 : K) < c)

end
end Pyhf

namespace Pyhf
section
variable {K : Type} [Add K] [Sub K] [Mul K] [Div K] [Neg K] [OfNat K 0] [OfNat K 1]
  [OfScientific K] [LT K] [LE K] [DecidableLT K] [DecidableLE K] [BEq K]

namespace D

/-- the constraint terms of one constrained parameter set whose auxiliary data start at position `start`:
one term per component `i`, pairing `aux[start + i]` with component `i` of the parameter named `p.name` -/
def paramsetTerms (m : Model K) (par : Nat → K) (aux : List K) (p : Paramset K) (start : Nat) : List (CKind × K × K × K) :=
  match p.ptype with
  | .normal =>
    (List.range p.n).map fun i =>
      (CKind.normal, aux.getD (start + i) 0, byName m par p.name i, (p.sigmas.getD (List.replicate p.n 1)).getD i 1)
  | .poisson =>
    (List.range p.n).map fun i =>
      (CKind.poisson, aux.getD (start + i) 0, byName m par p.name i * p.factors.getD i 1, (1 : K))
  | .unconstrained => []

/-- constraint terms in the order of `config.auxdata_order`, positions by running sum of the sizes -/
def constraintTemplate (m : Model K) (par : Nat → K) (aux : List K) : List (CKind × K × K × K) :=
  let rec go : List (Paramset K) → Nat → List (CKind × K × K × K)
    | [], _ => []
    | p :: rest, start => paramsetTerms m par aux p start ++ go rest (start + p.n)
  go (m.ps.filter (·.constrained)) 0

/-- **The HistFactory template**: one Poisson term per bin (observed count vs. expected rate) followed by
exactly one constraint term per constrained parameter component -/
def template (P : Prim K) (m : Model K) (par : Nat → K) (data : List K) : List (CKind × K × K × K) :=
  let main := data.take m.cfg.nmain
  let aux := data.drop m.cfg.nmain
  ((main.zip (D.expected P m par)).map fun (d, r) => (CKind.poisson, d, r, (1 : K))) ++ constraintTemplate m par aux

def logpdf (P : Prim K) (L : LogPrim K) (m : Model K) (par : Nat → K) (data : List K) : K :=
  sumK ((template P m par data).map (termLog L))

end D
end
end Pyhf

namespace Pyhf
/-- `Workspace.data(model)`: the observations of the channels in `config.channels` order, then `config.auxdata` -/
def workspaceData {K : Type} (m : Model K) (obs : List (String × List K)) (includeAux : Bool := true) : List K :=
  (m.cfg.channels.flatMap fun c => ((obs.find? (·.1 == c)).map (·.2)).getD []) ++
    (if includeAux then auxData m.ps else [])
end Pyhf
