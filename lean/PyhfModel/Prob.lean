import PyhfModel.Basic
/-!
# Engine F — probability primitives as composed in the numpy/jax backends
(`tensor/numpy_backend.py`: `poisson_logpdf`, `normal_logpdf`; the library functions `xlogy`, `gammaln` are parameters)
-/
namespace Pyhf.Prob

section
variable {K : Type} [Add K] [Sub K] [Mul K] [Div K] [Neg K] [OfNat K 0] [OfNat K 1] [OfScientific K] [BEq K]

/-- `scipy.special.xlogy(n, lam)`: `0` when `n = 0`, else `n · log lam` -/
def xlogy (P : Prim K) (n lam : K) : K := if n == 0 then 0 else n * P.log lam

/-- `xlogy(n, lam) − lam − gammaln(n + 1)` -/
def poissonLogpdf (P : Prim K) (lgamma : K → K) (n lam : K) : K := xlogy P n lam - lam - lgamma (n + 1)

/-- `−log(σ·√(2π)) − ((x − μ)/(√2·σ))²` -/
def normalLogpdf (P : Prim K) (pi : K) (x mu sigma : K) : K :=
  let root2 := P.sqrt (2.0 : K);
  let root2pi := P.sqrt ((2.0 : K) * pi);
  let q := (x - mu) / (root2 * sigma);
  Neg.neg (P.log (sigma * root2pi)) + Neg.neg (q * q)

/-- the non-log variants are the exponentials -/
def poissonPdf (P : Prim K) (lgamma : K → K) (n lam : K) : K := P.exp (poissonLogpdf P lgamma n lam)

end
end Pyhf.Prob
