/-!
# Engine F — HistFactory XML+ROOT export and import (`src/pyhf/writexml.py`, `src/pyhf/readxml.py`,
`src/pyhf/compat.py`)

The export is a pure function from a workspace to a *document*: the element tree (channels, samples, modifier
elements, measurements) and the table of histograms that goes into the ROOT file.  The import is a pure function
from a document back to a workspace.  What is outside: the XML text syntax, uproot's ROOT serialisation and
Python's `str(float)`/`float(str)` (all three are exact round trips and are exercised, not proved, by the
correspondence check).  The import model covers the element/attribute language that `writexml` emits.

Generic in the number type `K`; runs at `Float` in the driver, reasoned about over a field in the proofs.
-/
namespace Pyhf.Xml

/-! ## workspace side -/

inductive MData (K : Type)
  | none
  | normsys (lo hi : K)
  | histosys (lo hi : List K)
  | bins (d : List K)
deriving Repr, BEq, DecidableEq

structure WMod (K : Type) where
  name : String
  type : String
  data : MData K
deriving Repr, BEq, DecidableEq

structure WSample (K : Type) where
  name : String
  data : List K
  mods : List (WMod K)
deriving Repr, BEq, DecidableEq

structure WChan (K : Type) where
  name : String
  samples : List (WSample K)
deriving Repr, BEq, DecidableEq

structure WObs (K : Type) where
  name : String
  data : List K
deriving Repr, BEq, DecidableEq

/-- a parameter configuration of a measurement: every key is optional, as in the JSON -/
structure WPar (K : Type) where
  name : String
  inits : Option (List K) := none
  bounds : Option (List (K × K)) := none
  auxdata : Option (List K) := none
  sigmas : Option (List K) := none
  fixed : Option Bool := none
deriving Repr, BEq, DecidableEq

structure WMeas (K : Type) where
  name : String
  poi : String
  pars : List (WPar K)
deriving Repr, BEq, DecidableEq

structure Ws (K : Type) where
  channels : List (WChan K)
  observations : List (WObs K)
  measurements : List (WMeas K)
deriving Repr, BEq, DecidableEq

/-! ## document side -/

inductive XMod (K : Type)
  | overallSys (name : String) (high low : K)
  | normFactor (name : String) (val low high : K)
  | histoSys (name lowName highName : String)
  | statError (histoName : String)
  | shapeSys (name histoName : String)
  | shapeFactor (name : String)
deriving Repr, BEq, DecidableEq

structure XSample (K : Type) where
  name : String
  histoName : String
  normByTheory : Bool
  mods : List (XMod K)
deriving Repr, BEq, DecidableEq

structure XChan (K : Type) where
  name : String
  dataHist : Option String
  samples : List (XSample K)
deriving Repr, BEq, DecidableEq

structure XMeas (K : Type) where
  name : String
  lumi : K
  lumiRelErr : K
  poi : String
  consts : List String
deriving Repr, BEq, DecidableEq

structure Doc (K : Type) where
  hists : List (String × List K)
  channels : List (XChan K)
  measurements : List (XMeas K)
deriving Repr, BEq, DecidableEq

inductive Err | keyError | typeError | runtimeError | valueError
deriving Repr, BEq, DecidableEq

def Err.str : Err → String
  | .keyError => "KeyError" | .typeError => "TypeError" | .runtimeError => "RuntimeError" | .valueError => "ValueError"

section
variable {K : Type} [Add K] [Sub K] [Mul K] [Div K] [OfNat K 0] [OfNat K 1] [OfScientific K] [BEq K]

/-! ## export (`writexml`) -/

/-- `_make_hist_name` -/
def histName (chan sample modifier : String) (suffix : String := "") : String :=
  "hist" ++ "_".intercalate ([chan, sample, modifier].filter (· ≠ "")) ++ suffix

/-- `np.divide(a, b, out=zeros, where=b != 0)` for one bin -/
def relTo (a b : K) : K := if b != 0 then a / b else 0

/-- `Val`, `Low`, `High` of a `NormFactor` element: defaults 1, 0, 10, overridden by the configuration of that
name in the **first** measurement -/
def normFactorAttrs (meas0 : List (WPar K)) (name : String) : K × K × K :=
  meas0.foldl (fun (acc : K × K × K) p =>
    if p.name == name then
      let v := match p.inits with | some (x :: _) => x | _ => acc.1
      let lh := match p.bounds with | some (b :: _) => b | _ => (acc.2.1, acc.2.2)
      (v, lh.1, lh.2)
    else acc) (1, 0, 10.0)

/-- `build_modifier`: the element (if any) and the histograms written for it -/
def exportMod (meas0 : List (WPar K)) (chan sample : String) (nom : List K) (m : WMod K) :
    Option (XMod K) × List (String × List K) :=
  if m.name == "lumi" then (none, [])
  else match m.type, m.data with
    | "histosys", .histosys lo hi =>
      let ln := histName chan sample m.name "Low"; let hn := histName chan sample m.name "High"
      (some (.histoSys m.name ln hn), [(ln, lo), (hn, hi)])
    | "normsys", .normsys lo hi => (some (.overallSys m.name hi lo), [])
    | "normfactor", _ =>
      let a := normFactorAttrs meas0 m.name
      (some (.normFactor m.name a.1 a.2.1 a.2.2), [])
    | "staterror", .bins d =>
      let hn := histName chan sample m.name
      (some (.statError hn), [(hn, List.zipWith relTo d nom)])
    | "shapesys", .bins d =>
      let hn := histName chan sample m.name
      (some (.shapeSys m.name hn), [(hn, List.zipWith relTo d nom)])
    | "shapefactor", _ => (some (.shapeFactor m.name), [])
    | _, _ => (none, [])

/-- `build_sample`: modifier histograms are written before the sample's own -/
def exportSample (meas0 : List (WPar K)) (chan : String) (s : WSample K) : XSample K × List (String × List K) :=
  let rs := s.mods.map (exportMod meas0 chan s.name s.data)
  ({ name := s.name, histoName := histName chan s.name "", normByTheory := s.mods.any (·.type == "lumi"),
     mods := rs.filterMap (·.1) },
   rs.flatMap (·.2) ++ [(histName chan s.name "", s.data)])

/-- what the export does for one channel, in order: histogram writes and (possibly) a failure -/
inductive Ev (K : Type) | write (name : String) (data : List K) | fail (e : Err)

/-- `build_channel`; `obs = none` stands for a workspace without `observations` -/
def exportChan (meas0 : List (WPar K)) (obs : List (WObs K)) (c : WChan K) : XChan K × List (Ev K) :=
  let dn := histName c.name "data" ""
  let (dh, devs) : Option String × List (Ev K) :=
    if obs.isEmpty then (none, [])
    else match obs.find? (·.name == c.name) with
      | some o => (some dn, [Ev.write dn o.data])
      | none => (some dn, [Ev.fail .typeError])
  let rs := c.samples.map (exportSample meas0 c.name)
  ({ name := c.name, dataHist := dh, samples := rs.map (·.1) },
   devs ++ rs.flatMap (fun r => r.2.map fun (n, d) => Ev.write n d))

/-- run the writes against the (initially empty) ROOT file: first failure, or first duplicate key -/
def runEvs : List (Ev K) → List (String × List K) → Except Err (List (String × List K))
  | [], acc => .ok acc
  | .fail e :: _, _ => .error e
  | .write n d :: rest, acc => if acc.any (·.1 == n) then .error .keyError else runEvs rest (acc ++ [(n, d)])

/-- `dict(mixin.modifiers)[name]`: the modifier list is the sorted set of (name, type) pairs, so the last — the
largest — type string wins -/
def modTypeOf (chans : List (WChan K)) (name : String) : Option String :=
  let ts := chans.flatMap fun c => c.samples.flatMap fun s => (s.mods.filter (·.name == name)).map (·.type)
  ts.foldl (fun acc t => match acc with | none => some t | some a => if a < t then some t else some a) none

def rootPrefix (t : String) : String :=
  if t == "normsys" || t == "histosys" then "alpha_" else if t == "shapesys" || t == "staterror" then "gamma_" else ""

/-- the `(centre, relative uncertainty)` pair `build_measurement` writes: defaults 1 and 0, overridden by a `lumi`
configuration -/
def lumiOf (m : WMeas K) : K × K :=
  m.pars.foldl (fun acc p =>
    if p.name == "lumi" then
      match p.auxdata, p.sigmas with
      | some (a :: _), some (s :: _) => (a, s / a)
      | _, _ => acc
    else acc) (1, 0)

/-- the ROOT-style name of a parameter held constant -/
def constName (chans : List (WChan K)) (p : WPar K) : Except Err String :=
  if p.name == "lumi" then pure "Lumi"
  else match modTypeOf chans p.name with
    | some t => pure (rootPrefix t ++ p.name)
    | none => throw Err.keyError

/-- `build_measurement` -/
def exportMeas (chans : List (WChan K)) (m : WMeas K) : Except Err (XMeas K) := do
  let consts ← (m.pars.filter (·.fixed == some true)).mapM (constName chans)
  pure { name := m.name, lumi := (lumiOf m).1, lumiRelErr := (lumiOf m).2, poi := m.poi, consts := consts }

/-- `spec['measurements'][0]['config']['parameters']` -/
def firstMeasPars (w : Ws K) : List (WPar K) := match w.measurements with | m :: _ => m.pars | [] => []

/-- `writexml` -/
def exportWs (w : Ws K) : Except Err (Doc K) := do
  let rs := w.channels.map (exportChan (firstMeasPars w) w.observations)
  let hists ← runEvs (rs.flatMap (·.2)) []
  let ms ← w.measurements.mapM (exportMeas w.channels)
  pure { hists := hists, channels := rs.map (·.1), measurements := ms }

/-! ## import (`readxml.parse`) -/

def getHist (hs : List (String × List K)) (n : String) : Except Err (List K) :=
  match hs.find? (·.1 == n) with
  | some p => .ok p.2
  | none => .error .keyError

/-- one modifier element → the modifier and, for `NormFactor`, its parameter configuration -/
def importMod (hs : List (String × List K)) (chan : String) (nom : List K) : XMod K → Except Err (WMod K × Option (WPar K))
  | .overallSys n hi lo => .ok ({ name := n, type := "normsys", data := .normsys lo hi }, none)
  | .normFactor n v lo hi =>
    .ok ({ name := n, type := "normfactor", data := .none }, some { name := n, bounds := some [(lo, hi)], inits := some [v] })
  | .histoSys n ln hn => do
    let lo ← getHist hs ln
    let hi ← getHist hs hn
    pure ({ name := n, type := "histosys", data := .histosys lo hi }, none)
  | .statError hn => do
    let rel ← getHist hs hn
    if rel.isEmpty then throw .runtimeError
    pure ({ name := "staterror_" ++ chan, type := "staterror", data := .bins (List.zipWith (· * ·) rel nom) }, none)
  | .shapeSys n hn => do
    let rel ← getHist hs hn
    pure ({ name := n, type := "shapesys", data := .bins (List.zipWith (· * ·) nom rel) }, none)
  | .shapeFactor n => .ok ({ name := n, type := "shapefactor", data := .none }, none)

/-- `process_sample` -/
def importSample (hs : List (String × List K)) (chan : String) (x : XSample K) : Except Err (WSample K × List (WPar K)) := do
  let data ← getHist hs x.histoName
  let rs ← x.mods.mapM (importMod hs chan data)
  let lumi : List (WMod K) := if x.normByTheory then [{ name := "lumi", type := "lumi", data := .none }] else []
  pure ({ name := x.name, data := data, mods := lumi ++ rs.map (·.1) }, rs.filterMap (·.2))

/-- `process_channel` -/
def importChan (hs : List (String × List K)) (x : XChan K) : Except Err (WChan K × WObs K × List (WPar K)) := do
  let obs ← match x.dataHist with
    | some n => getHist hs n
    | none => throw Err.runtimeError
  let rs ← x.samples.mapM (importSample hs x.name)
  pure ({ name := x.name, samples := rs.map (·.1) }, { name := x.name, data := obs }, rs.flatMap (·.2))

/-- `dedupe_parameters`: configurations of one name must agree; one entry per name, in order of first appearance -/
def dedupe (ps : List (WPar K)) : Except Err (List (WPar K)) :=
  if ps.any fun p => ps.any fun q => p.name == q.name && p != q then .error .runtimeError
  else .ok (ps.foldl (fun acc p => if acc.any (·.name == p.name) then acc.map (fun q => if q.name == p.name then p else q) else acc ++ [p]) [])

/-- `compat.interpret_rootname`: `none` for the names pyhf refuses to hold constant (the "gammas") -/
def interpretRootname (r : String) : Option String :=
  let cs := r.toList
  if "gamma_".toList.isPrefixOf cs then none
  else if "alpha_".toList.isPrefixOf cs then (if cs.length > 6 then some (String.ofList (cs.drop 6)) else none)
  else if r == "Lumi" then some "lumi"
  else some r

/-- the `ParamSetting Const="True"` loop: flags the luminosity entry, or moves the named entry to the end with the flag -/
def applyConst (acc : WPar K × List (WPar K)) (name : String) : WPar K × List (WPar K) :=
  if name == "lumi" then ({ acc.1 with fixed := some true }, acc.2)
  else
    let cur : WPar K := match acc.2.find? (·.name == name) with | some p => p | none => { name := name }
    (acc.1, acc.2.filter (fun p => !(p.name == name)) ++ [{ cur with fixed := some true }])

/-- the luminosity configuration every imported measurement starts with -/
def lumiEntry (l rel : K) : WPar K :=
  let err := l * rel
  { name := "lumi", auxdata := some [l], bounds := some [(l - 5.0 * err, l + 5.0 * err)], inits := some [l], sigmas := some [err] }

/-- the names in `ParamSetting Const="True"`, interpreted; the "gammas" are refused -/
def constNames (x : XMeas K) : Except Err (List String) :=
  x.consts.mapM fun r => match interpretRootname r with | some n => pure n | none => throw Err.valueError

/-- `process_measurements` for one `Measurement` element -/
def importMeas (others : List (WPar K)) (x : XMeas K) : Except Err (WMeas K) := do
  let names ← constNames x
  let r := names.foldl applyConst (lumiEntry x.lumi x.lumiRelErr, others)
  pure { name := x.name, poi := x.poi, pars := r.1 :: r.2 }

/-- `readxml.parse` (the schema validation of the result is outside) -/
def importDoc (d : Doc K) : Except Err (Ws K) := do
  let rs ← d.channels.mapM (importChan d.hists)
  let cfgs ← dedupe (rs.flatMap (·.2.2))
  let ms ← d.measurements.mapM (importMeas cfgs)
  pure { channels := rs.map (·.1), observations := rs.map (·.2.1), measurements := ms }

end

/-! ## the file cache of `readxml` (`__FILECACHE__`) as a state machine

A disk maps a path to a (stamp, content) pair; the stamp (modification time, size, inode) is assumed to change
whenever the file is rewritten.  The cache remembers what it opened under a path together with the stamp. -/

structure File where
  stamp : Nat
  content : Nat
deriving Repr, DecidableEq

structure CacheState where
  disk : List (String × File)
  cache : List (String × File)
deriving Repr

inductive COp | write (path : String) (content : Nat) | read (path : String)
deriving Repr

def lookupF (l : List (String × File)) (p : String) : Option File := (l.find? (·.1 == p)).map (·.2)
def setF (l : List (String × File)) (p : String) (f : File) : List (String × File) := (p, f) :: l.filter (fun e => !(e.1 == p))

/-- one step; a write gives the file a stamp never used before (`clock`), a read goes through the cache -/
def cstep (clock : Nat) (s : CacheState) : COp → CacheState × Option Nat
  | .write p c => ({ s with disk := setF s.disk p { stamp := clock, content := c } }, none)
  | .read p =>
    match lookupF s.disk p with
    | none => (s, none)
    | some f =>
      match lookupF s.cache p with
      | some g => if g.stamp = f.stamp then (s, some g.content) else ({ s with cache := setF s.cache p f }, some f.content)
      | none => ({ s with cache := setF s.cache p f }, some f.content)

/-- the path-only cache of the unrepaired code, for contrast -/
def cstepPathOnly (clock : Nat) (s : CacheState) : COp → CacheState × Option Nat
  | .write p c => ({ s with disk := setF s.disk p { stamp := clock, content := c } }, none)
  | .read p =>
    match lookupF s.disk p with
    | none => (s, none)
    | some f =>
      match lookupF s.cache p with
      | some g => (s, some g.content)
      | none => ({ s with cache := setF s.cache p f }, some f.content)

def crun (step : Nat → CacheState → COp → CacheState × Option Nat) : Nat → CacheState → List COp → List (Option Nat)
  | _, _, [] => []
  | k, s, op :: ops => let r := step k s op; r.2 :: crun step (k + 1) r.1 ops

end Pyhf.Xml
