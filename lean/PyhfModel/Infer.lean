import PyhfModel.Tensor
/-!
# Engine C — inference logic around the external numerical routines
(`infer/test_statistics.py`, `infer/calculators.py`, `infer/__init__.py`, `infer/utils.py`,
`infer/intervals/upper_limits.py`, `infer/mle.py`, `optimize/common.py`, `optimize/mixins.py`)

Fits, the normal cdf `Φ`, `sqrt` and the root finder are parameters.
-/
namespace Pyhf.Infer

section
variable {K : Type} [Add K] [Sub K] [Mul K] [Div K] [Neg K] [OfNat K 0] [OfNat K 1]
  [OfScientific K] [LT K] [LE K] [DecidableLT K] [DecidableLE K] [BEq K]

/-! ## C06 — test statistics -/

/-- a fit result: fitted parameters and the objective value `twice_nll` at them -/
structure FitRes (K : Type) where
  pars : List K
  val : K

/-- `_tmu_like`: difference of the two fitted objective values, clipped at 0 -/
def tmuLike (fixedFit : K → FitRes K) (freeFit : FitRes K) (mu : K) : K × List K × List K :=
  let fx := fixedFit mu
  let llr := fx.val - freeFit.val
  ((if llr < 0 then 0 else llr), fx.pars, freeFit.pars)

/-- `_qmu_like`: zero when the fitted POI exceeds the tested value -/
def qmuLike (fixedFit : K → FitRes K) (freeFit : FitRes K) (poiIndex : Nat) (mu : K) : K × List K × List K :=
  let (t, a, b) := tmuLike fixedFit freeFit mu
  ((if mu < b.getD poiIndex 0 then 0 else t), a, b)

/-- `q0`: always tests `mu = 0`; zero when the fitted POI is negative -/
def q0 (fixedFit : K → FitRes K) (freeFit : FitRes K) (poiIndex : Nat) (_mu : K) : K × List K × List K :=
  let (t, a, b) := tmuLike fixedFit freeFit 0
  ((if b.getD poiIndex 0 < 0 then 0 else t), a, b)

inductive TestStat | q | qtilde | q0 | t | ttilde
deriving DecidableEq, Repr

/-- dispatch (`qmu`, `qmu_tilde`, `q0`, `tmu`, `tmu_tilde`; the tilde variants differ only in a warning) -/
def testStat (ts : TestStat) (fixedFit : K → FitRes K) (freeFit : FitRes K) (poiIndex : Nat) (mu : K) :
    K × List K × List K :=
  match ts with
  | .q | .qtilde => qmuLike fixedFit freeFit poiIndex mu
  | .q0 => q0 fixedFit freeFit poiIndex mu
  | .t | .ttilde => tmuLike fixedFit freeFit mu

/-- does the call emit the "wrong variant for this POI bound" warning? -/
def warnsAboutBound (ts : TestStat) (poiLower : K) : Bool :=
  match ts with
  | .q | .t => poiLower == 0
  | .qtilde | .ttilde => poiLower != 0
  | .q0 => false

/-! ## C07 — asymptotic calculator -/

/-- `AsymptoticTestStatDistribution`: `cutoff = none` is `-inf` -/
structure AsymDist (K : Type) where
  shift : K
  cutoff : Option K

/-- the argument handed to the normal cdf by `pvalue`; `none` = the `nan` returned below the cutoff -/
def AsymDist.pvalueArg (d : AsymDist K) (v : K) : Option K :=
  match d.cutoff with
  | none => some (-(v - d.shift))
  | some c => if c ≤ v then some (-(v - d.shift)) else none

/-- `cdf` argument -/
def AsymDist.cdfArg (d : AsymDist K) (v : K) : K := v - d.shift

def AsymDist.expectedValue (d : AsymDist K) (nsigma : K) : K :=
  match d.cutoff with
  | none => d.shift + nsigma
  | some c => if c < d.shift + nsigma then d.shift + nsigma else c

/-- `AsymptoticCalculator.teststatistic` after the two statistic evaluations: from `(q, q_A)` to the
quantity handed to the distributions (`√q − √q_A`, or the `q̃` branch) -/
def asymTeststat (sqrt : K → K) (pow2 : K → K) (ts : TestStat) (qmu qmuA : K) : K :=
  let s := sqrt qmu
  let sA := sqrt qmuA
  match ts with
  | .qtilde => if s ≤ sA then s - sA else (pow2 s - pow2 sA) / ((2.0 : K) * sA)
  | _ => s - sA

/-- `distributions`: signal+background shifted by `−√q_A`, background-only at `0` -/
def asymDistributions (sqrtqmuA : K) (clipped : Bool) : AsymDist K × AsymDist K :=
  let cutoff := if clipped then some (-sqrtqmuA) else none
  ({ shift := -sqrtqmuA, cutoff := cutoff }, { shift := 0, cutoff := cutoff })

/-- Φ-arguments of `(CLs+b, CLb)` for a test-statistic value -/
def asymPvalueArgs (sb b : AsymDist K) (t : K) : Option K × Option K := (sb.pvalueArg t, b.pvalueArg t)

/-- the five expected test-statistic values, `n_sigma` in `[2, 1, 0, −1, −2]` -/
def asymExpectedTs (b : AsymDist K) : List K :=
  [(2.0 : K), 1, 0, -1, -(2.0 : K)].map b.expectedValue

/-! ## C08 — hypotest result layout and prerequisites -/

inductive Item | main | tails | median | band | calc
deriving DecidableEq, Repr

/-- the sequence `_returns` assembled by `hypotest` -/
def hypotestLayout (tailProbs expected expectedSet calculator : Bool) : List Item :=
  [Item.main] ++ (if tailProbs then [Item.tails] else [])
    ++ (if expectedSet then (if expected then [Item.median] else []) ++ [Item.band]
        else if expected then [Item.median] else [])
    ++ (if calculator then [Item.calc] else [])

/-- a bare value (not a tuple) iff nothing extra was requested -/
def hypotestIsBare (tailProbs expected expectedSet calculator : Bool) : Bool :=
  (hypotestLayout tailProbs expected expectedSet calculator).length == 1

/-- number of tail probabilities: `[CLb]` for `q0`, `[CLs+b, CLb]` otherwise -/
def nTails (isQ0 : Bool) : Nat := if isQ0 then 1 else 2

inductive PrereqErr | unspecifiedPOI | invalidModel
deriving DecidableEq, Repr

/-- `_check_hypotest_prerequisites` -/
def checkPrerequisites (poiIndex : Option Nat) (fixed : List Bool) : Option PrereqErr :=
  match poiIndex with
  | none => some .unspecifiedPOI
  | some i => if fixed.getD i false then some .invalidModel else none

/-- the POI value at which the Asimov dataset is generated -/
def asimovMu (ts : TestStat) : K := if ts == .q0 then 1 else 0

/-! ## C09 — upper limits -/

/-- `numpy.interp(x, xp, fp)` for increasing `xp`: clamp outside, linear inside -/
def npInterp (x : K) : List K → List K → K
  | [], _ => 0
  | _, [] => 0
  | [_], f0 :: _ => f0
  | x0 :: x1 :: xs, f0 :: fs =>
    if x ≤ x0 then f0
    else if x < x1 then
      match fs with
      | f1 :: _ => f0 + (x - x0) * ((f1 - f0) / (x1 - x0))
      | [] => f0
    else npInterp x (x1 :: xs) fs

/-- one limit of `linear_grid_scan`: `_interp(level, curve[::-1], scan[::-1])` -/
def gridLimit (level : K) (scan curve : List K) : K := npInterp level curve.reverse scan.reverse

/-- which `level` reaches the scan routine (after `fix: upper_limit forwards level`) -/
def upperLimitLevel (level : K) (_scanGiven : Bool) : K := level

/-- before the repair the automatic scan always used the default 0.05 -/
def upperLimitLevel_prefix (level : K) (scanGiven : Bool) : K := if scanGiven then level else (0.05 : K)

/-- keep the better of the accumulated and the new point (`np.argmin` / `np.argmax`: first extremum wins) -/
def pickMin (acc : Option (K × K)) (p : K × K) : Option (K × K) :=
  match acc with
  | none => some p
  | some a => if p.2 < a.2 then some p else some a

def pickMax (acc : Option (K × K)) (p : K × K) : Option (K × K) :=
  match acc with
  | none => some p
  | some a => if a.2 < p.2 then some p else some a

/-- `best_bracket`: among cached points, the one with the smallest non-negative `f` and the one with the
largest negative `f` -/
def bestBracket (cache : List (K × K)) : Option (K × K) :=
  let pos := cache.filter fun p => !(decide (p.2 < 0))
  let neg := cache.filter fun p => decide (p.2 < 0)
  match pos.foldl pickMin none, neg.foldl pickMax none with
  | some lo, some hi => some (lo.1, hi.1)
  | _, _ => none

/-! ## C14 — empirical distribution -/

/-- `EmpiricalDistribution.pvalue`: (number of samples ≥ value, number of samples) -/
def empiricalCounts (samples : List K) (value : K) : Nat × Nat :=
  ((samples.filter fun s => decide (value ≤ s)).length, samples.length)

/-- the POI values of the two conditional fits of the toy calculator: (signal-like, background-like) -/
def toyFitMus (ts : TestStat) (poiTest : K) : K × K := (poiTest, if ts == .q0 then 1 else 0)

/-! ## C05 — fit plumbing -/

/-- `fixed_vals = [(i, init_i) | fixed_i]` -/
def fixedVals (init : List K) (fixed : List Bool) : List (Nat × K) :=
  ((List.range init.length).zip (init.zip fixed)).filterMap fun (i, (x, f)) => if f then some (i, x) else none

/-- `fixed_poi_fit`: POI forced to `poi_val` and flagged fixed -/
def fixedPoiInputs (init : List K) (fixed : List Bool) (poiIndex : Nat) (poiVal : K) : List K × List Bool :=
  (init.set poiIndex poiVal, fixed.set poiIndex true)

/-- `_validate_fit_inputs` -/
def validInits (init : List K) (bounds : List (K × K)) : Bool :=
  (init.zip bounds).all fun (x, (lo, hi)) => decide (lo ≤ x) && decide (x ≤ hi)

/-- `shim(..., do_stitch=True)`: indices and the stitching function -/
def variableIdx (npars : Nat) (fixedIdx : List Nat) : List Nat := (List.range npars).filter fun i => !fixedIdx.contains i

def stitchPars (fixedIdx variableIdx : List Nat) (fixedValues free : List K) : List K :=
  (TV.mk [fixedIdx, variableIdx]).stitch 0 [fixedValues, free]

/-- `_internal_postprocess`: uncertainties of fixed parameters are zero -/
def stitchUncertainties (fixedIdx variableIdx : List Nat) (freeUnc : List K) : List K :=
  (TV.mk [fixedIdx, variableIdx]).stitch 0 [List.replicate fixedIdx.length 0, freeUnc]

end
end Pyhf.Infer
