/-!
# Engine E — patch sets (`src/pyhf/patchset.py`, `utils.digest`)

`PatchSet.__init__` inserts every patch under two keys of one dictionary — its name (a string) and its value
tuple — after checking that neither key is present and that the tuple has one entry per label.
Lookup converts a list key to a tuple.  `verify` compares the digest of the workspace under every listed
algorithm; `apply` verifies, then applies the JSON patch (`jsonpatch`, external).
-/
namespace Pyhf.PatchSet

/-- a dictionary key: a patch name or a value tuple (a `str` never equals a `tuple`) -/
inductive Key (V : Type) where
  | name (s : String)
  | values (vs : List V)
deriving DecidableEq, BEq, Repr

structure Meta (V : Type) where
  name : String
  values : List V
deriving Repr

inductive Err | dupName | dupValues | labelCount | lookup | verification
deriving DecidableEq, Repr

def Err.str : Err → String
  | .dupName | .dupValues | .labelCount => "InvalidPatchSet"
  | .lookup => "InvalidPatchLookup"
  | .verification => "PatchSetVerificationError"

abbrev Dict (V : Type) := List (Key V × Nat)

section
variable {V : Type} [DecidableEq V]

def Dict.get? (d : Dict V) (k : Key V) : Option Nat := (d.find? (·.1 = k)).map (·.2)
def Dict.has (d : Dict V) (k : Key V) : Bool := (d.get? k).isSome

/-- one iteration of the constructor loop for the patch at position `i` -/
def insertPatch (nlabels : Nat) (d : Dict V) (i : Nat) (p : Meta V) : Except Err (Dict V) :=
  if d.has (.name p.name) then .error .dupName
  else if d.has (.values p.values) then .error .dupValues
  else if p.values.length ≠ nlabels then .error .labelCount
  else .ok (d ++ [(.name p.name, i), (.values p.values, i)])

def buildFrom (nlabels : Nat) : Dict V → Nat → List (Meta V) → Except Err (Dict V)
  | d, _, [] => .ok d
  | d, i, p :: ps =>
    match insertPatch nlabels d i p with
    | .error e => .error e
    | .ok d' => buildFrom nlabels d' (i + 1) ps

/-- `PatchSet.__init__` (after `fix: PatchSet accepts patches named 'name' or 'values' …`): the dictionary starts empty -/
def build (nlabels : Nat) (ps : List (Meta V)) : Except Err (Dict V) := buildFrom nlabels [] 0 ps

/-- the constructor as it stood: the dictionary was pre-seeded with the keys `'name'` and `'values'`
(position `0` stands for the `{}` stored there) -/
def build_prefix (nlabels : Nat) (ps : List (Meta V)) : Except Err (Dict V) :=
  buildFrom nlabels [(.name "name", 0), (.name "values", 0)] 0 ps

/-- `__getitem__` (a list key is converted to a tuple first, so both denote `Key.values`) -/
def lookup (d : Dict V) (k : Key V) : Except Err Nat :=
  match d.get? k with
  | some i => .ok i
  | none => .error .lookup

/-- `verify`: every recorded digest must equal the digest of the workspace under that algorithm -/
def verify {W : Type} (digest : String → W → String) (digests : List (String × String)) (w : W) : Except Err Unit :=
  if digests.all (fun (alg, dg) => digest alg w == dg) then .ok () else .error .verification

/-- `apply`: verify, look the patch up, apply it (to a copy: the JSON-patch application is a pure function) -/
def apply {W : Type} (digest : String → W → String) (digests : List (String × String)) (d : Dict V)
    (patchApply : Nat → W → W) (w : W) (k : Key V) : Except Err W :=
  match verify digest digests w with
  | .error e => .error e
  | .ok () =>
    match lookup d k with
    | .error e => .error e
    | .ok i => .ok (patchApply i w)

end

/-! ## canonical serialisation (`json.dumps(obj, sort_keys=True)`) -/

inductive J where
  | atom (s : String)                -- null / booleans / numbers / strings, already rendered
  | arr (xs : List J)
  | obj (kvs : List (String × J))
deriving Repr

/-- insertion of a key/value pair into a key-sorted list -/
def insertKV (k : String) (v : List String) : List (String × List String) → List (String × List String)
  | [] => [(k, v)]
  | (k', v') :: rest => if k ≤ k' then (k, v) :: (k', v') :: rest else (k', v') :: insertKV k v rest

def sortKVs (kvs : List (String × List String)) : List (String × List String) :=
  kvs.foldr (fun kv acc => insertKV kv.1 kv.2 acc) []

mutual
  /-- token stream of the key-sorted dump -/
  def dump : J → List String
    | .atom s => [s]
    | .arr xs => ["["] ++ dumpList xs ++ ["]"]
    | .obj kvs => ["{"] ++ (sortKVs (dumpKVs kvs)).flatMap (fun kv => [kv.1, ":"] ++ kv.2 ++ [","]) ++ ["}"]
  def dumpList : List J → List String
    | [] => []
    | x :: xs => dump x ++ [","] ++ dumpList xs
  def dumpKVs : List (String × J) → List (String × List String)
    | [] => []
    | (k, v) :: rest => (k, dump v) :: dumpKVs rest
end

end Pyhf.PatchSet
