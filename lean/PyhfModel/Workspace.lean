/-!
# Engine E — workspace algebra (`src/pyhf/workspace.py`: `_join_items` and friends, `combine`,
`_prune_and_rename`, `sorted`)

Workspaces are modelled as named-item lists: channels (body = list of samples, each a named item whose body is
opaque), observations, measurements (POI + list of named parameter configurations).  Item bodies are compared
with `==` like the Python dictionaries they stand for.
-/
namespace Pyhf.WS

structure Item (α : Type) where
  name : String
  body : α
deriving DecidableEq, Repr

inductive Join | none | outer | leftOuter | rightOuter
deriving DecidableEq, Repr

inductive Err | invalidWorkspaceOperation | valueError
deriving DecidableEq, Repr

def Err.str : Err → String
  | .invalidWorkspaceOperation => "InvalidWorkspaceOperation" | .valueError => "ValueError"

section
variable {α : Type} [DecidableEq α]

def names (xs : List (Item α)) : List String := xs.map (·.name)

/-- replace the body of the first item called `n` -/
def updateFirst (xs : List (Item α)) (n : String) (f : α → α) : List (Item α) :=
  match xs with
  | [] => []
  | x :: rest => if x.name = n then { x with body := f x.body } :: rest else x :: updateFirst rest n f

/-- `_join_items(join, left, right, deep_merge_key)`; `merge` is the deep merge of two bodies when channel merging
is requested.  `keys` is computed once from the primary items, as in the code. -/
def joinItems (join : Join) (left right : List (Item α)) (merge : Option (α → α → α)) : List (Item α) :=
  let (primary, secondary) := if join = .rightOuter then (right, left) else (left, right)
  let keys := names primary
  secondary.foldl (fun joined s =>
    if keys.contains s.name && merge.isSome then
      updateFirst joined s.name (fun b => (merge.getD (fun a _ => a)) b s.body)
    else if join = .none || (join = .outer && !(primary.contains s)) ||
        ((join = .leftOuter || join = .rightOuter) && !(keys.contains s.name)) then
      joined ++ [s]
    else joined) primary

/-- a name occurring more than once -/
def hasDupName (xs : List (Item α)) : Bool :=
  match xs with
  | [] => false
  | x :: rest => (names rest).contains x.name || hasDupName rest

def commonNames (l r : List (Item α)) : Bool := l.any fun x => (names r).contains x.name

/-- `_join_channels` / `_join_observations`: join, then the post-check of the join mode -/
def joinChecked (join : Join) (left right : List (Item α)) (merge : Option (α → α → α)) : Except Err (List (Item α)) :=
  let joined := joinItems join left right merge
  match join with
  | .none => if commonNames left right then .error .invalidWorkspaceOperation else .ok joined
  | .outer => if hasDupName joined then .error .invalidWorkspaceOperation else .ok joined
  | _ => .ok joined

end

/-- sample bodies are opaque (`data` + `modifiers`), channel body = its samples -/
abbrev Chan (σ : Type) := Item (List (Item σ))

structure Meas (π : Type) where
  poi : String
  parameters : List (Item π)
deriving DecidableEq, Repr

structure Workspace (σ ο π : Type) where
  channels : List (Chan σ)
  observations : List (Item ο)
  measurements : List (Item (Meas π))
  version : String
deriving Repr

section
variable {σ ο π : Type} [DecidableEq σ] [DecidableEq ο] [DecidableEq π]

/-- deep merge of two channels' sample lists: `_join_items('left outer', left_samples, right_samples)` -/
def mergeSamples (l r : List (Item σ)) : List (Item σ) := joinItems .leftOuter l r none

/-- `_join_measurements` -/
def joinMeasurements (join : Join) (left right : List (Item (Meas π))) : Except Err (List (Item (Meas π))) :=
  let joined := joinItems join left right none
  match join with
  | .none => if commonNames left right then .error .invalidWorkspaceOperation else .ok joined
  | .outer =>
    -- group by name in first-appearance order
    let ns := (names joined).eraseDups
    let groups := ns.map fun n => (n, joined.filter (·.name = n))
    if groups.any (fun (_, ms) => (ms.map (·.body.poi)).eraseDups.length > 1) then .error .invalidWorkspaceOperation
    else
      groups.mapM fun (n, ms) =>
        match ms with
        | [m] => .ok m
        | m :: rest =>
          -- `_join_parameter_configs(name, *parameter lists)`: only the first two lists are used by the signature
          let second := (rest.headD m).body.parameters
          let ps := joinItems .outer m.body.parameters second none
          if rest.length > 1 then .error .valueError   -- more than two lists: TypeError in Python (cannot happen for two workspaces)
          else if hasDupName ps then .error .invalidWorkspaceOperation
          else .ok { name := n, body := { poi := m.body.poi, parameters := ps } }
        | [] => .error .valueError
  | _ => .ok joined

/-- `Workspace.combine` -/
def combine (left right : Workspace σ ο π) (join : Join) (mergeChannels : Bool) : Except Err (Workspace σ ο π) :=
  if mergeChannels && (join = .none) then .error .valueError
  else if left.version ≠ right.version then .error .invalidWorkspaceOperation
  else
    match joinChecked join left.channels right.channels (if mergeChannels then some mergeSamples else none) with
    | .error e => .error e
    | .ok chans =>
      match joinChecked join left.observations right.observations none with
      | .error e => .error e
      | .ok obs =>
        match joinMeasurements join left.measurements right.measurements with
        | .error e => .error e
        | .ok meas => .ok { channels := chans, observations := obs, measurements := meas, version := left.version }

/-! ### prune / rename / sorted on the named-item skeleton -/

def pruneItems {α : Type} (xs : List (Item α)) (drop : List String) : List (Item α) := xs.filter fun x => !drop.contains x.name

def renameItems {α : Type} (xs : List (Item α)) (ren : String → String) : List (Item α) := xs.map fun x => { x with name := ren x.name }

/-- stable sort by name (`list.sort(key=name)`) -/
def sortItems {α : Type} (xs : List (Item α)) : List (Item α) := xs.mergeSort fun a b => decide (a.name ≤ b.name)

end
end Pyhf.WS
