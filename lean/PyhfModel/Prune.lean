import PyhfModel.Workspace
/-!
# Engine E (cont.) — `Workspace._prune_and_rename` on the full nested document
(`src/pyhf/workspace.py`): validation of the request against the workspace's own name tables, then one
filter-and-rename pass over channels → samples → modifiers, measurements → parameter configurations, observations.
Opaque parts of the dictionaries (sample data, modifier data, the remaining keys of a parameter configuration) are
strings carried through untouched.
-/
namespace Pyhf.WS

structure PMod where
  name : String
  type : String
  body : String
deriving DecidableEq, Repr

structure PSample where
  name : String
  data : String
  mods : List PMod
deriving DecidableEq, Repr

structure PChan where
  name : String
  samples : List PSample
deriving DecidableEq, Repr

structure PPar where
  name : String
  body : String
deriving DecidableEq, Repr

structure PMeas where
  name : String
  poi : String
  pars : List PPar
deriving DecidableEq, Repr

structure PObs where
  name : String
  body : String
deriving DecidableEq, Repr

structure PWs where
  channels : List PChan
  measurements : List PMeas
  observations : List PObs
  version : String
deriving DecidableEq, Repr

/-- the request: names to drop and `dict`s of renamings (as association lists with unique keys) -/
structure PReq where
  pruneMods : List String := []
  pruneTypes : List String := []
  pruneSamples : List String := []
  pruneChannels : List String := []
  pruneMeas : List String := []
  renMods : List (String × String) := []
  renSamples : List (String × String) := []
  renChannels : List (String × String) := []
  renMeas : List (String × String) := []
deriving Repr

/-- `d.get(k, k)` -/
def getD (d : List (String × String)) (k : String) : String :=
  match d.find? (·.1 == k) with
  | some p => p.2
  | none => k

def PWs.modNames (w : PWs) : List String := w.channels.flatMap fun c => c.samples.flatMap fun s => s.mods.map (·.name)
def PWs.modTypes (w : PWs) : List String := w.channels.flatMap fun c => c.samples.flatMap fun s => s.mods.map (·.type)
def PWs.sampleNames (w : PWs) : List String := w.channels.flatMap fun c => c.samples.map (·.name)
def PWs.channelNames (w : PWs) : List String := w.channels.map (·.name)
def PWs.measNames (w : PWs) : List String := w.measurements.map (·.name)

/-- the five membership checks, in the order of the source; every failure is `InvalidWorkspaceOperation` -/
def PReq.valid (r : PReq) (w : PWs) : Bool :=
  r.pruneTypes.all (w.modTypes.contains ·) &&
  (r.pruneMods ++ r.renMods.map (·.1)).all (w.modNames.contains ·) &&
  (r.pruneSamples ++ r.renSamples.map (·.1)).all (w.sampleNames.contains ·) &&
  (r.pruneChannels ++ r.renChannels.map (·.1)).all (w.channelNames.contains ·) &&
  (r.pruneMeas ++ r.renMeas.map (·.1)).all (w.measNames.contains ·)

def keepMod (r : PReq) (m : PMod) : Bool := !r.pruneMods.contains m.name && !r.pruneTypes.contains m.type

def applyMods (r : PReq) (ms : List PMod) : List PMod :=
  (ms.filter (keepMod r)).map fun m => { m with name := getD r.renMods m.name }

def applySamples (r : PReq) (ss : List PSample) : List PSample :=
  (ss.filter fun s => !r.pruneSamples.contains s.name).map fun s =>
    { name := getD r.renSamples s.name, data := s.data, mods := applyMods r s.mods }

def applyChannels (r : PReq) (cs : List PChan) : List PChan :=
  (cs.filter fun c => !r.pruneChannels.contains c.name).map fun c =>
    { name := getD r.renChannels c.name, samples := applySamples r c.samples }

/-- parameter configurations go only with modifiers pruned *by name* -/
def applyPars (r : PReq) (ps : List PPar) : List PPar :=
  (ps.filter fun p => !r.pruneMods.contains p.name).map fun p => { p with name := getD r.renMods p.name }

def applyMeas (r : PReq) (ms : List PMeas) : List PMeas :=
  (ms.filter fun m => !r.pruneMeas.contains m.name).map fun m =>
    { name := getD r.renMeas m.name, poi := getD r.renMods m.poi, pars := applyPars r m.pars }

def applyObs (r : PReq) (os : List PObs) : List PObs :=
  (os.filter fun o => !r.pruneChannels.contains o.name).map fun o => { o with name := getD r.renChannels o.name }

def applyReq (r : PReq) (w : PWs) : PWs :=
  { channels := applyChannels r w.channels, measurements := applyMeas r w.measurements,
    observations := applyObs r w.observations, version := w.version }

/-- `Workspace._prune_and_rename` (the schema validation of the result by the `Workspace` constructor is outside) -/
def pruneRename (r : PReq) (w : PWs) : Except Err PWs :=
  if r.valid w then .ok (applyReq r w) else .error .invalidWorkspaceOperation

end Pyhf.WS
