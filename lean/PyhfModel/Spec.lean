import PyhfModel.Basic
/-!
# Engine A, layer 1 — specifications and the channel/sample/modifier summary
(`src/pyhf/mixins.py::_ChannelSummaryMixin`, the `helper` dictionary of
`pdf.py::_nominal_and_modifiers_from_spec`)
-/
namespace Pyhf

inductive ModType
  | histosys | lumi | normfactor | normsys | shapefactor | shapesys | staterror
deriving DecidableEq, Repr, Inhabited

namespace ModType
def str : ModType → String
  | histosys => "histosys" | lumi => "lumi" | normfactor => "normfactor" | normsys => "normsys"
  | shapefactor => "shapefactor" | shapesys => "shapesys" | staterror => "staterror"

/-- builder visiting order = insertion order of `histfactory_set` -/
def all : List ModType := [histosys, lumi, normfactor, normsys, shapefactor, shapesys, staterror]

def ofStr? (s : String) : Option ModType := all.find? (·.str == s)

/-- `builder.is_shared` -/
def isShared : ModType → Bool | shapesys => false | _ => true

/-- `op_code == 'addition'` -/
def isAdditive : ModType → Bool | histosys => true | _ => false
end ModType

/-- One modifier entry of a sample.  Data layout: histosys `lo`/`hi` = `lo_data`/`hi_data`;
normsys `lo = [lo]`, `hi = [hi]`; shapesys/staterror `lo` = `data`; others empty. -/
structure Modifier (K : Type) where
  name : String
  type : ModType
  lo : List K := []
  hi : List K := []
deriving Repr

structure Sample (K : Type) where
  name : String
  data : List K
  mods : List (Modifier K)
deriving Repr

structure Channel (K : Type) where
  name : String
  samples : List (Sample K)
deriving Repr

/-- one entry of a measurement's `config.parameters` -/
structure ParCfg (K : Type) where
  name : String
  inits : Option (List K) := none
  bounds : Option (List (K × K)) := none
  fixed : Option Bool := none
  auxdata : Option (List K) := none
  sigmas : Option (List K) := none
  factors : Option (List K) := none
deriving Repr

structure Spec (K : Type) where
  channels : List (Channel K)
  parameters : List (ParCfg K) := []
deriving Repr

/-- Python-visible failure classes of model construction -/
inductive Err
  | invalidModel | invalidModifier | invalidNameReuse | invalidSpecification
  | invalidPdfParameters | invalidPdfData
  | pyAssertion | pyTypeError | pyValueError | pyRuntimeError | pyKeyError | pyIndexError
deriving DecidableEq, Repr

def Err.str : Err → String
  | .invalidModel => "InvalidModel" | .invalidModifier => "InvalidModifier"
  | .invalidNameReuse => "InvalidNameReuse" | .invalidSpecification => "InvalidSpecification"
  | .invalidPdfParameters => "InvalidPdfParameters" | .invalidPdfData => "InvalidPdfData"
  | .pyAssertion => "AssertionError" | .pyTypeError => "TypeError" | .pyValueError => "ValueError"
  | .pyRuntimeError => "RuntimeError" | .pyKeyError => "KeyError" | .pyIndexError => "IndexError"

/-- one of pyhf's own exception classes (what C20 demands for refusals) -/
def Err.isPyhf : Err → Bool
  | .invalidModel | .invalidModifier | .invalidNameReuse | .invalidSpecification
  | .invalidPdfParameters | .invalidPdfData => true
  | _ => false

/-! ## canonical orders: `sorted(list(set(xs)))` -/

def strLe (a b : String) : Bool := decide (a ≤ b)

def canon (xs : List String) : List String := (xs.eraseDups).mergeSort strLe

/-- lexicographic order on `(name, type)` pairs (Python tuple comparison) -/
def pairLe (a b : String × String) : Bool := a.1 < b.1 || (a.1 == b.1 && decide (a.2 ≤ b.2))

def canonPairs (xs : List (String × String)) : List (String × String) :=
  (xs.eraseDups).mergeSort pairLe

/-- the channel summary (`config.channels/samples/modifiers/channel_nbins`) -/
structure Config where
  channels : List String
  samples : List String
  modifiers : List (String × ModType)      -- sorted by (name, type string)
  nbins : List (String × Nat)              -- per sorted channel
deriving Repr, DecidableEq

def lastSome {α : Type} (p : α → Bool) (xs : List α) : Option α := (xs.filter p).getLast?

section
variable {K : Type}

def mkConfig (s : Spec K) : Config :=
  let chs := canon (s.channels.map (·.name))
  let smp := canon (s.channels.flatMap fun c => c.samples.map (·.name))
  let mods := canonPairs (s.channels.flatMap fun c => c.samples.flatMap fun sm =>
                sm.mods.map fun m => (m.name, m.type.str))
  let nb (c : String) : Nat :=
    match lastSome (·.name == c) s.channels with
    | some ch => (ch.samples.head?.map (·.data.length)).getD 0
    | none => 0
  { channels := chs, samples := smp,
    modifiers := mods.filterMap fun (n, t) => (ModType.ofStr? t).map fun ty => (n, ty),
    nbins := chs.map fun c => (c, nb c) }

def Config.nbOf (cfg : Config) (c : String) : Nat :=
  ((cfg.nbins.find? (·.1 == c)).map (·.2)).getD 0

def Config.nmain (cfg : Config) : Nat := (cfg.nbins.map (·.2)).foldl (· + ·) 0

/-- `config.channel_slices` as (name, start, stop) in channel order -/
def Config.channelSlices (cfg : Config) : List (String × Nat × Nat) :=
  let rec go : List (String × Nat) → Nat → List (String × Nat × Nat)
    | [], _ => []
    | (c, n) :: rest, start => (c, start, start + n) :: go rest (start + n)
  go cfg.nbins 0

/-- helper dict: last definition wins at each level (`helper[channel][sample] = (sample, moddict)`;
duplicate channel names merge their sample dictionaries) -/
def findSample (s : Spec K) (c sm : String) : Option (Sample K) :=
  lastSome (·.name == sm) ((s.channels.filter (·.name == c)).flatMap (·.samples))

/-- `moddict[type/name]`, last wins -/
def findMod (sm : Sample K) (n : String) (t : ModType) : Option (Modifier K) :=
  lastSome (fun m => m.name == n && m.type == t) sm.mods

end
end Pyhf
