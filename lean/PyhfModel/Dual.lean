import PyhfModel.Decl
/-!
# Forward-mode dual numbers

Instantiating the generic model at `Dual K` evaluates it together with its derivative along one seeded
direction — the reference gradient for C13 (and the gradient used by optimality certificates).
-/
namespace Pyhf

structure Dual (K : Type) where
  v : K
  d : K
deriving Repr

namespace Dual
variable {K : Type} [Add K] [Sub K] [Mul K] [Div K] [Neg K] [OfNat K 0] [OfNat K 1]

instance : Add (Dual K) := ⟨fun a b => ⟨a.v + b.v, a.d + b.d⟩⟩
instance : Sub (Dual K) := ⟨fun a b => ⟨a.v - b.v, a.d - b.d⟩⟩
instance : Mul (Dual K) := ⟨fun a b => ⟨a.v * b.v, a.d * b.v + a.v * b.d⟩⟩
instance : Div (Dual K) := ⟨fun a b => ⟨a.v / b.v, (a.d * b.v - a.v * b.d) / (b.v * b.v)⟩⟩
instance : Neg (Dual K) := ⟨fun a => ⟨-a.v, -a.d⟩⟩
instance : OfNat (Dual K) 0 := ⟨⟨0, 0⟩⟩
instance : OfNat (Dual K) 1 := ⟨⟨1, 0⟩⟩
instance [OfScientific K] : OfScientific (Dual K) := ⟨fun m s e => ⟨OfScientific.ofScientific m s e, 0⟩⟩
instance [LT K] : LT (Dual K) := ⟨fun a b => a.v < b.v⟩
instance [LE K] : LE (Dual K) := ⟨fun a b => a.v ≤ b.v⟩
instance [LT K] [DecidableLT K] : DecidableLT (Dual K) := fun a b => inferInstanceAs (Decidable (a.v < b.v))
instance [LE K] [DecidableLE K] : DecidableLE (Dual K) := fun a b => inferInstanceAs (Decidable (a.v ≤ b.v))
instance [BEq K] : BEq (Dual K) := ⟨fun a b => a.v == b.v⟩

/-- a constant (derivative 0) and the seeded variable (derivative 1) -/
def const (x : K) : Dual K := ⟨x, 0⟩
def var (x : K) : Dual K := ⟨x, 1⟩

/-- primitives with their derivatives: `a^b`, `log`, `exp`, `sqrt` -/
def prim [OfScientific K] (P : Prim K) : Prim (Dual K) :=
  { pow := fun a b => let p := P.pow a.v b.v; ⟨p, p * (b.d * P.log a.v + b.v * a.d / a.v)⟩
    log := fun a => ⟨P.log a.v, a.d / a.v⟩
    exp := fun a => let e := P.exp a.v; ⟨e, a.d * e⟩
    sqrt := fun a => let r := P.sqrt a.v; ⟨r, a.d / ((2.0 : K) * r)⟩ }

end Dual

section
variable {K : Type} [Add K] [Sub K] [Mul K] [Div K] [Neg K] [OfNat K 0] [OfNat K 1]
  [OfScientific K] [LT K] [LE K] [DecidableLT K] [DecidableLE K] [BEq K]

/-- lift a specification to dual numbers (data are constants) -/
def Modifier.toDual (m : Modifier K) : Modifier (Dual K) :=
  { name := m.name, type := m.type, lo := m.lo.map Dual.const, hi := m.hi.map Dual.const }
def Sample.toDual (s : Sample K) : Sample (Dual K) :=
  { name := s.name, data := s.data.map Dual.const, mods := s.mods.map Modifier.toDual }
def ParCfg.toDual (p : ParCfg K) : ParCfg (Dual K) :=
  { name := p.name, inits := p.inits.map (·.map Dual.const), bounds := p.bounds.map (·.map fun (a, b) => (Dual.const a, Dual.const b)),
    fixed := p.fixed, auxdata := p.auxdata.map (·.map Dual.const), sigmas := p.sigmas.map (·.map Dual.const),
    factors := p.factors.map (·.map Dual.const) }
def Spec.toDual (s : Spec K) : Spec (Dual K) :=
  { channels := s.channels.map fun c => { name := c.name, samples := c.samples.map Sample.toDual },
    parameters := s.parameters.map ParCfg.toDual }
def Settings.toDual (st : Settings K) : Settings (Dual K) :=
  { histoCode := st.histoCode, normCode := st.normCode, clipSample := st.clipSample.map Dual.const,
    clipBin := st.clipBin.map Dual.const, poi := st.poi }

/-- parameter accessor seeded in direction `j` -/
def parOfSeeded (θ : List K) (j : Nat) : Nat → Dual K := fun i => ⟨θ.getD i 0, if i = j then 1 else 0⟩

end
end Pyhf
