import PyhfGen.Interp
import PyhfGen.Infer
import PyhfGen.Model
