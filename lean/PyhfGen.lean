import PyhfGen.Interp
import PyhfGen.InterpMulti
import PyhfGen.Infer
import PyhfGen.Model
import PyhfGen.Prob
import PyhfGen.Ws
import PyhfGen.Config
import PyhfGen.Limits
