import PyhfGen.Interp
import PyhfGen.Infer
