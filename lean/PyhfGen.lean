import PyhfGen.Interp
