import PyhfProofs.Lemmas.RealPrim
import PyhfProofs.Lemmas.Piecewise
import PyhfProofs.Lemmas.InterpReal
