import PyhfProofs.Lemmas.RealPrim
import PyhfProofs.Lemmas.Piecewise
import PyhfProofs.Lemmas.InterpReal
import PyhfProofs.Lemmas.Lists
import PyhfProofs.Properties.C03
