import PyhfGen.Infer
import PyhfProofs.Properties.C06
/-!
# C06 (continued) — the case-definition theorems hold of what `test_statistics.py` computes *now*

`PyhfGen/Infer.lean` is regenerated on every run by symbolic execution of the five statistic functions with the two fits replaced
by uninterpreted functions of the POI bounds they are handed (`fit` with bounds `(l, h)` → `(muhatOf l h, vfreeOf l h)`;
`fixed_poi_fit μ` → objective `fixedValOf l h μ`), so the value of μ *and the bounds* the code hands to the two fits are part of the
translation: every statistic is proved to run both fits on the caller's bounds `(blo, bhi)`.  Each generated function is proved equal to the model's `testStat` for all real inputs.
-/
namespace Pyhf.Props.C06
open Pyhf Pyhf.Infer

/-- the model's two fits, from the symbolic results used by the translator -/
noncomputable def fitsOf (fixedVal : ℝ → ℝ) (fixedPars : ℝ → List ℝ) (vfree muhat : ℝ) (rest : List ℝ) :
    (ℝ → FitRes ℝ) × FitRes ℝ := (fun m => ⟨fixedPars m, fixedVal m⟩, ⟨muhat :: rest, vfree⟩)

macro "gen_ts" : tactic =>
  `(tactic| (simp only [testStat, qmuLike, Infer.q0, tmuLike, fitsOf, List.getD_cons_zero] <;> norm_num <;> split_ifs <;>
      first | rfl | (exfalso; linarith) | linarith | simp_all))

theorem gen_qmu_eq (fixedValOf : ℝ → ℝ → ℝ → ℝ) (vfreeOf muhatOf : ℝ → ℝ → ℝ) (fixedPars : ℝ → List ℝ) (blo bhi mu : ℝ) (rest : List ℝ) :
    Gen.qmu fixedValOf vfreeOf muhatOf blo bhi mu
      = (testStat .q (fitsOf (fixedValOf blo bhi) fixedPars (vfreeOf blo bhi) (muhatOf blo bhi) rest).1 (fitsOf (fixedValOf blo bhi) fixedPars (vfreeOf blo bhi) (muhatOf blo bhi) rest).2 0 mu).1 := by
  unfold Gen.qmu; gen_ts

theorem gen_qmu_tilde_eq (fixedValOf : ℝ → ℝ → ℝ → ℝ) (vfreeOf muhatOf : ℝ → ℝ → ℝ) (fixedPars : ℝ → List ℝ) (blo bhi mu : ℝ) (rest : List ℝ) :
    Gen.qmu_tilde fixedValOf vfreeOf muhatOf blo bhi mu
      = (testStat .qtilde (fitsOf (fixedValOf blo bhi) fixedPars (vfreeOf blo bhi) (muhatOf blo bhi) rest).1 (fitsOf (fixedValOf blo bhi) fixedPars (vfreeOf blo bhi) (muhatOf blo bhi) rest).2 0 mu).1 := by
  unfold Gen.qmu_tilde; gen_ts

theorem gen_tmu_eq (fixedValOf : ℝ → ℝ → ℝ → ℝ) (vfreeOf muhatOf : ℝ → ℝ → ℝ) (fixedPars : ℝ → List ℝ) (blo bhi mu : ℝ) (rest : List ℝ) :
    Gen.tmu fixedValOf vfreeOf muhatOf blo bhi mu
      = (testStat .t (fitsOf (fixedValOf blo bhi) fixedPars (vfreeOf blo bhi) (muhatOf blo bhi) rest).1 (fitsOf (fixedValOf blo bhi) fixedPars (vfreeOf blo bhi) (muhatOf blo bhi) rest).2 0 mu).1 := by
  unfold Gen.tmu; gen_ts

theorem gen_tmu_tilde_eq (fixedValOf : ℝ → ℝ → ℝ → ℝ) (vfreeOf muhatOf : ℝ → ℝ → ℝ) (fixedPars : ℝ → List ℝ) (blo bhi mu : ℝ) (rest : List ℝ) :
    Gen.tmu_tilde fixedValOf vfreeOf muhatOf blo bhi mu
      = (testStat .ttilde (fitsOf (fixedValOf blo bhi) fixedPars (vfreeOf blo bhi) (muhatOf blo bhi) rest).1 (fitsOf (fixedValOf blo bhi) fixedPars (vfreeOf blo bhi) (muhatOf blo bhi) rest).2 0 mu).1 := by
  unfold Gen.tmu_tilde; gen_ts

/-- `q0` tests μ = 0 whatever value the caller passes (the generated code evaluates `fixedVal 0`) -/
theorem gen_q0_eq (fixedValOf : ℝ → ℝ → ℝ → ℝ) (vfreeOf muhatOf : ℝ → ℝ → ℝ) (fixedPars : ℝ → List ℝ) (blo bhi mu : ℝ) (rest : List ℝ) :
    Gen.q0 fixedValOf vfreeOf muhatOf blo bhi mu
      = (testStat .q0 (fitsOf (fixedValOf blo bhi) fixedPars (vfreeOf blo bhi) (muhatOf blo bhi) rest).1 (fitsOf (fixedValOf blo bhi) fixedPars (vfreeOf blo bhi) (muhatOf blo bhi) rest).2 0 mu).1 := by
  unfold Gen.q0
  by_cases hmu : mu = 0
  · subst hmu; gen_ts
  · simp only [hmu, ne_eq, not_false_eq_true, if_true]; gen_ts

theorem zero_lit : (0.0 : ℝ) = 0 := by norm_num

/-- consequences for the current source: non-negative, and the one-sided rules -/
theorem gen_statistics_nonneg (fixedValOf : ℝ → ℝ → ℝ → ℝ) (vfreeOf muhatOf : ℝ → ℝ → ℝ) (blo bhi mu : ℝ) :
    0 ≤ Gen.qmu fixedValOf vfreeOf muhatOf blo bhi mu ∧ 0 ≤ Gen.qmu_tilde fixedValOf vfreeOf muhatOf blo bhi mu ∧ 0 ≤ Gen.tmu fixedValOf vfreeOf muhatOf blo bhi mu ∧
    0 ≤ Gen.tmu_tilde fixedValOf vfreeOf muhatOf blo bhi mu ∧ 0 ≤ Gen.q0 fixedValOf vfreeOf muhatOf blo bhi mu := by
  unfold Gen.qmu Gen.qmu_tilde Gen.tmu Gen.tmu_tilde Gen.q0
  refine ⟨?_, ?_, ?_, ?_, ?_⟩ <;> norm_num <;> split_ifs <;> first | linarith | norm_num

theorem gen_qmu_zero_above (fixedValOf : ℝ → ℝ → ℝ → ℝ) (vfreeOf muhatOf : ℝ → ℝ → ℝ) (blo bhi mu : ℝ) (h : mu < muhatOf blo bhi) : Gen.qmu fixedValOf vfreeOf muhatOf blo bhi mu = 0 := by
  unfold Gen.qmu; simp only [zero_lit]; split_ifs <;> first | rfl | (exfalso; linarith)

theorem gen_q0_zero_below (fixedValOf : ℝ → ℝ → ℝ → ℝ) (vfreeOf muhatOf : ℝ → ℝ → ℝ) (blo bhi mu : ℝ) (h : muhatOf blo bhi < 0) : Gen.q0 fixedValOf vfreeOf muhatOf blo bhi mu = 0 := by
  unfold Gen.q0; simp only [zero_lit]; split_ifs <;> first | rfl | (exfalso; linarith)

end Pyhf.Props.C06
