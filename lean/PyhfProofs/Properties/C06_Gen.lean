import PyhfGen.Infer
import PyhfProofs.Properties.C06
/-!
# C06 (continued) — the case-definition theorems hold of what `test_statistics.py` computes *now*

`PyhfGen/Infer.lean` is regenerated on every run by symbolic execution of the five statistic functions with the two fits replaced
by symbolic results (`fit` → `(muhat, vfree)`; `fixed_poi_fit μ` → objective `fixedVal μ`, so the value of μ the code hands to the
conditional fit is part of the translation).  Each generated function is proved equal to the model's `testStat` for all real inputs.
-/
namespace Pyhf.Props.C06
open Pyhf Pyhf.Infer

/-- the model's two fits, from the symbolic results used by the translator -/
noncomputable def fitsOf (fixedVal : ℝ → ℝ) (fixedPars : ℝ → List ℝ) (vfree muhat : ℝ) (rest : List ℝ) :
    (ℝ → FitRes ℝ) × FitRes ℝ := (fun m => ⟨fixedPars m, fixedVal m⟩, ⟨muhat :: rest, vfree⟩)

macro "gen_ts" : tactic =>
  `(tactic| (simp only [testStat, qmuLike, Infer.q0, tmuLike, fitsOf, List.getD_cons_zero] <;> norm_num <;> split_ifs <;>
      first | rfl | (exfalso; linarith) | linarith | simp_all))

theorem gen_qmu_eq (fixedVal : ℝ → ℝ) (fixedPars : ℝ → List ℝ) (vfree muhat mu : ℝ) (rest : List ℝ) :
    Gen.qmu fixedVal vfree muhat mu
      = (testStat .q (fitsOf fixedVal fixedPars vfree muhat rest).1 (fitsOf fixedVal fixedPars vfree muhat rest).2 0 mu).1 := by
  unfold Gen.qmu; gen_ts

theorem gen_qmu_tilde_eq (fixedVal : ℝ → ℝ) (fixedPars : ℝ → List ℝ) (vfree muhat mu : ℝ) (rest : List ℝ) :
    Gen.qmu_tilde fixedVal vfree muhat mu
      = (testStat .qtilde (fitsOf fixedVal fixedPars vfree muhat rest).1 (fitsOf fixedVal fixedPars vfree muhat rest).2 0 mu).1 := by
  unfold Gen.qmu_tilde; gen_ts

theorem gen_tmu_eq (fixedVal : ℝ → ℝ) (fixedPars : ℝ → List ℝ) (vfree muhat mu : ℝ) (rest : List ℝ) :
    Gen.tmu fixedVal vfree muhat mu
      = (testStat .t (fitsOf fixedVal fixedPars vfree muhat rest).1 (fitsOf fixedVal fixedPars vfree muhat rest).2 0 mu).1 := by
  unfold Gen.tmu; gen_ts

theorem gen_tmu_tilde_eq (fixedVal : ℝ → ℝ) (fixedPars : ℝ → List ℝ) (vfree muhat mu : ℝ) (rest : List ℝ) :
    Gen.tmu_tilde fixedVal vfree muhat mu
      = (testStat .ttilde (fitsOf fixedVal fixedPars vfree muhat rest).1 (fitsOf fixedVal fixedPars vfree muhat rest).2 0 mu).1 := by
  unfold Gen.tmu_tilde; gen_ts

/-- `q0` tests μ = 0 whatever value the caller passes (the generated code evaluates `fixedVal 0`) -/
theorem gen_q0_eq (fixedVal : ℝ → ℝ) (fixedPars : ℝ → List ℝ) (vfree muhat mu : ℝ) (rest : List ℝ) :
    Gen.q0 fixedVal vfree muhat mu
      = (testStat .q0 (fitsOf fixedVal fixedPars vfree muhat rest).1 (fitsOf fixedVal fixedPars vfree muhat rest).2 0 mu).1 := by
  unfold Gen.q0
  by_cases hmu : mu = 0
  · subst hmu; gen_ts
  · simp only [hmu, ne_eq, not_false_eq_true, if_true]; gen_ts

theorem zero_lit : (0.0 : ℝ) = 0 := by norm_num

/-- consequences for the current source: non-negative, and the one-sided rules -/
theorem gen_statistics_nonneg (fixedVal : ℝ → ℝ) (vfree muhat mu : ℝ) :
    0 ≤ Gen.qmu fixedVal vfree muhat mu ∧ 0 ≤ Gen.qmu_tilde fixedVal vfree muhat mu ∧ 0 ≤ Gen.tmu fixedVal vfree muhat mu ∧
    0 ≤ Gen.tmu_tilde fixedVal vfree muhat mu ∧ 0 ≤ Gen.q0 fixedVal vfree muhat mu := by
  unfold Gen.qmu Gen.qmu_tilde Gen.tmu Gen.tmu_tilde Gen.q0
  refine ⟨?_, ?_, ?_, ?_, ?_⟩ <;> norm_num <;> split_ifs <;> first | linarith | norm_num

theorem gen_qmu_zero_above (fixedVal : ℝ → ℝ) (vfree muhat mu : ℝ) (h : mu < muhat) : Gen.qmu fixedVal vfree muhat mu = 0 := by
  unfold Gen.qmu; simp only [zero_lit]; split_ifs <;> first | rfl | (exfalso; linarith)

theorem gen_q0_zero_below (fixedVal : ℝ → ℝ) (vfree muhat mu : ℝ) (h : muhat < 0) : Gen.q0 fixedVal vfree muhat mu = 0 := by
  unfold Gen.q0; simp only [zero_lit]; split_ifs <;> first | rfl | (exfalso; linarith)

end Pyhf.Props.C06
