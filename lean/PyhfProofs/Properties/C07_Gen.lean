import PyhfGen.Infer
import PyhfProofs.Properties.C07
/-!
# C07 (continued) — the formula theorems hold of what `calculators.py` computes *now*

`PyhfGen/Infer.lean` (regenerated on every run by symbolic execution): `AsymptoticCalculator.teststatistic` for q, q̃, q0 with the
two statistic evaluations symbolic, the shifts chosen by `distributions`, `AsymptoticTestStatDistribution.pvalue/expected_value`
(normal base distribution) and the three components of `pvalues`, with Φ uninterpreted.  Each is proved equal to the model function
the C07 theorems are about, so `clsb_q`, `clb_q`, `clsb_qtilde_hi`, … and `band_monotone` speak about the current source.
-/
namespace Pyhf.Props.C07
open Pyhf Pyhf.Infer

theorem gen_teststat_q_eq (q qA : ℝ) : Gen.asym_teststat_q realPrim q qA = asymTeststat Real.sqrt sq .q q qA := by
  unfold Gen.asym_teststat_q asymTeststat; simp [realPrim_sqrt]

theorem gen_teststat_q0_eq (q qA : ℝ) : Gen.asym_teststat_q0 realPrim q qA = asymTeststat Real.sqrt sq .q0 q qA := by
  unfold Gen.asym_teststat_q0 asymTeststat; simp [realPrim_sqrt]

theorem gen_teststat_qtilde_eq (q qA : ℝ) : Gen.asym_teststat_qtilde realPrim q qA = asymTeststat Real.sqrt sq .qtilde q qA := by
  unfold Gen.asym_teststat_qtilde asymTeststat sq
  have e2 : ∀ x : ℝ, x ^ (2:ℝ) = x ^ 2 := fun x => by exact_mod_cast Real.rpow_natCast x 2
  simp only [realPrim_sqrt, realPrim_pow]
  norm_num [e2]

theorem gen_shifts_eq (sA : ℝ) :
    Gen.asym_shift_sb sA = (asymDistributions sA false).1.shift ∧ Gen.asym_shift_b sA = (asymDistributions sA false).2.shift := by
  unfold Gen.asym_shift_sb Gen.asym_shift_b asymDistributions; norm_num

/-- the p-value is Φ of the model's argument -/
theorem gen_pvalue_eq (Φ : ℝ → ℝ) (sA t : ℝ) :
    some (Gen.asym_pvalue Φ (asymDistributions sA false).1.shift t) = ((asymDistributions sA false).1.pvalueArg t).map Φ ∧
    some (Gen.asym_pvalue Φ (asymDistributions sA false).2.shift t) = ((asymDistributions sA false).2.pvalueArg t).map Φ := by
  unfold Gen.asym_pvalue asymDistributions AsymDist.pvalueArg; norm_num

theorem gen_expected_value_eq (sA n : ℝ) :
    Gen.asym_expected_value (asymDistributions sA false).2.shift n = (asymDistributions sA false).2.expectedValue n := by
  unfold Gen.asym_expected_value asymDistributions AsymDist.expectedValue; norm_num

/-- `CL_{s+b}`, `CL_b` as the current code computes them are Φ of the model's arguments, and `CL_s` is their ratio -/
theorem gen_pvalues_eq (Φ : ℝ → ℝ) (sA t : ℝ) :
    Gen.asym_clsb Φ t (Gen.asym_shift_sb sA) (Gen.asym_shift_b sA) = Φ (-(t - (-sA))) ∧
    Gen.asym_clb Φ t (Gen.asym_shift_sb sA) (Gen.asym_shift_b sA) = Φ (-(t - 0)) ∧
    Gen.asym_cls Φ t (Gen.asym_shift_sb sA) (Gen.asym_shift_b sA)
      = Gen.asym_clsb Φ t (Gen.asym_shift_sb sA) (Gen.asym_shift_b sA) / Gen.asym_clb Φ t (Gen.asym_shift_sb sA) (Gen.asym_shift_b sA) := by
  unfold Gen.asym_clsb Gen.asym_clb Gen.asym_cls Gen.asym_shift_sb Gen.asym_shift_b; norm_num

/-- hence, with the actual normal cdf, the current code's values satisfy `0 ≤ CL_{s+b} ≤ CL_b ≤ 1` and `0 ≤ CL_s ≤ 1` -/
theorem gen_ordering_normal (t qA : ℝ) :
    0 ≤ Gen.asym_clsb Mills.Phi t (Gen.asym_shift_sb (Real.sqrt qA)) (Gen.asym_shift_b (Real.sqrt qA)) ∧
    Gen.asym_clsb Mills.Phi t (Gen.asym_shift_sb (Real.sqrt qA)) (Gen.asym_shift_b (Real.sqrt qA))
      ≤ Gen.asym_clb Mills.Phi t (Gen.asym_shift_sb (Real.sqrt qA)) (Gen.asym_shift_b (Real.sqrt qA)) ∧
    Gen.asym_clb Mills.Phi t (Gen.asym_shift_sb (Real.sqrt qA)) (Gen.asym_shift_b (Real.sqrt qA)) ≤ 1 ∧
    0 ≤ Gen.asym_cls Mills.Phi t (Gen.asym_shift_sb (Real.sqrt qA)) (Gen.asym_shift_b (Real.sqrt qA)) ∧
    Gen.asym_cls Mills.Phi t (Gen.asym_shift_sb (Real.sqrt qA)) (Gen.asym_shift_b (Real.sqrt qA)) ≤ 1 := by
  obtain ⟨h1, h2, h3⟩ := gen_pvalues_eq Mills.Phi (Real.sqrt qA) t
  have := ordering_normal t qA
  simp only [] at this
  rw [h3, h1, h2]
  exact this

/-! ### the expected band (`expected_pvalues` through the real `distributions`), n_sigma = 2, 1, 0, −1, −2 in that order -/

/-- **normal base distribution**: `CL_{s+b}` = Φ(−N − √q_A), `CL_b` = Φ(−N), `CL_s` their ratio — at every band point, whatever `nan` is -/
theorem gen_band_normal (Φ : ℝ → ℝ) (nanK sA : ℝ) :
    Gen.asym_band_normal_clsb0 Φ nanK sA = Φ (-(2 : ℝ) - sA) ∧ Gen.asym_band_normal_clb0 Φ nanK sA = Φ (-(2 : ℝ)) ∧
    Gen.asym_band_normal_cls0 Φ nanK sA = Φ (-(2 : ℝ) - sA) / Φ (-(2 : ℝ)) ∧
    Gen.asym_band_normal_clsb1 Φ nanK sA = Φ (-(1 : ℝ) - sA) ∧ Gen.asym_band_normal_clb1 Φ nanK sA = Φ (-(1 : ℝ)) ∧
    Gen.asym_band_normal_cls1 Φ nanK sA = Φ (-(1 : ℝ) - sA) / Φ (-(1 : ℝ)) ∧
    Gen.asym_band_normal_clsb2 Φ nanK sA = Φ (-(0 : ℝ) - sA) ∧ Gen.asym_band_normal_clb2 Φ nanK sA = Φ (-(0 : ℝ)) ∧
    Gen.asym_band_normal_cls2 Φ nanK sA = Φ (-(0 : ℝ) - sA) / Φ (-(0 : ℝ)) ∧
    Gen.asym_band_normal_clsb3 Φ nanK sA = Φ (-(-1 : ℝ) - sA) ∧ Gen.asym_band_normal_clb3 Φ nanK sA = Φ (-(-1 : ℝ)) ∧
    Gen.asym_band_normal_cls3 Φ nanK sA = Φ (-(-1 : ℝ) - sA) / Φ (-(-1 : ℝ)) ∧
    Gen.asym_band_normal_clsb4 Φ nanK sA = Φ (-(-2 : ℝ) - sA) ∧ Gen.asym_band_normal_clb4 Φ nanK sA = Φ (-(-2 : ℝ)) ∧
    Gen.asym_band_normal_cls4 Φ nanK sA = Φ (-(-2 : ℝ) - sA) / Φ (-(-2 : ℝ)) := by
  refine ⟨?_, ?_, ?_, ?_, ?_, ?_, ?_, ?_, ?_, ?_, ?_, ?_, ?_, ?_, ?_⟩ <;>
    simp only [Gen.asym_band_normal_clsb0, Gen.asym_band_normal_clsb1, Gen.asym_band_normal_clsb2, Gen.asym_band_normal_clsb3, Gen.asym_band_normal_clsb4, Gen.asym_band_normal_clb0, Gen.asym_band_normal_clb1, Gen.asym_band_normal_clb2, Gen.asym_band_normal_clb3, Gen.asym_band_normal_clb4, Gen.asym_band_normal_cls0, Gen.asym_band_normal_cls1, Gen.asym_band_normal_cls2, Gen.asym_band_normal_cls3, Gen.asym_band_normal_cls4] <;> norm_num <;> ring_nf

/-- **clipped-normal base distribution**: the expected test-statistic value at N sigma is `max N (−√q_A)`, no band entry is `nan`, and
`CL_b` = Φ(−max N (−√q_A)), `CL_{s+b}` = Φ(−max N (−√q_A) − √q_A) -/
theorem gen_band_clipped (Φ : ℝ → ℝ) (nanK sA : ℝ) :
    Gen.asym_band_clipped_clsb0 Φ nanK sA = Φ (-(max (2 : ℝ) (-sA)) - sA) ∧ Gen.asym_band_clipped_clb0 Φ nanK sA = Φ (-(max (2 : ℝ) (-sA))) ∧
    Gen.asym_band_clipped_cls0 Φ nanK sA = Φ (-(max (2 : ℝ) (-sA)) - sA) / Φ (-(max (2 : ℝ) (-sA))) ∧
    Gen.asym_band_clipped_clsb1 Φ nanK sA = Φ (-(max (1 : ℝ) (-sA)) - sA) ∧ Gen.asym_band_clipped_clb1 Φ nanK sA = Φ (-(max (1 : ℝ) (-sA))) ∧
    Gen.asym_band_clipped_cls1 Φ nanK sA = Φ (-(max (1 : ℝ) (-sA)) - sA) / Φ (-(max (1 : ℝ) (-sA))) ∧
    Gen.asym_band_clipped_clsb2 Φ nanK sA = Φ (-(max (0 : ℝ) (-sA)) - sA) ∧ Gen.asym_band_clipped_clb2 Φ nanK sA = Φ (-(max (0 : ℝ) (-sA))) ∧
    Gen.asym_band_clipped_cls2 Φ nanK sA = Φ (-(max (0 : ℝ) (-sA)) - sA) / Φ (-(max (0 : ℝ) (-sA))) ∧
    Gen.asym_band_clipped_clsb3 Φ nanK sA = Φ (-(max (-1 : ℝ) (-sA)) - sA) ∧ Gen.asym_band_clipped_clb3 Φ nanK sA = Φ (-(max (-1 : ℝ) (-sA))) ∧
    Gen.asym_band_clipped_cls3 Φ nanK sA = Φ (-(max (-1 : ℝ) (-sA)) - sA) / Φ (-(max (-1 : ℝ) (-sA))) ∧
    Gen.asym_band_clipped_clsb4 Φ nanK sA = Φ (-(max (-2 : ℝ) (-sA)) - sA) ∧ Gen.asym_band_clipped_clb4 Φ nanK sA = Φ (-(max (-2 : ℝ) (-sA))) ∧
    Gen.asym_band_clipped_cls4 Φ nanK sA = Φ (-(max (-2 : ℝ) (-sA)) - sA) / Φ (-(max (-2 : ℝ) (-sA))) := by
  refine ⟨?_, ?_, ?_, ?_, ?_, ?_, ?_, ?_, ?_, ?_, ?_, ?_, ?_, ?_, ?_⟩ <;>
    simp only [Gen.asym_band_clipped_clsb0, Gen.asym_band_clipped_clsb1, Gen.asym_band_clipped_clsb2, Gen.asym_band_clipped_clsb3, Gen.asym_band_clipped_clsb4, Gen.asym_band_clipped_clb0, Gen.asym_band_clipped_clb1, Gen.asym_band_clipped_clb2, Gen.asym_band_clipped_clb3, Gen.asym_band_clipped_clb4, Gen.asym_band_clipped_cls0, Gen.asym_band_clipped_cls1, Gen.asym_band_clipped_cls2, Gen.asym_band_clipped_cls3, Gen.asym_band_clipped_cls4] <;>
    norm_num <;> simp only [max_def] <;> split_ifs <;> first
      | (exfalso; linarith)
      | rfl
      | (norm_num <;> ring_nf)
      | (congr 1 <;> ring)

/-- with the actual normal cdf the clipped band is ordered: `CL_b` never increases along the band order N = 2, 1, 0, −1, −2 reversed, i.e.
it is non-decreasing from the +2σ entry to the −2σ entry -/
theorem gen_band_clipped_clb_monotone (nanK sA : ℝ) :
    Gen.asym_band_clipped_clb0 Mills.Phi nanK sA ≤ Gen.asym_band_clipped_clb1 Mills.Phi nanK sA ∧
    Gen.asym_band_clipped_clb1 Mills.Phi nanK sA ≤ Gen.asym_band_clipped_clb2 Mills.Phi nanK sA ∧
    Gen.asym_band_clipped_clb2 Mills.Phi nanK sA ≤ Gen.asym_band_clipped_clb3 Mills.Phi nanK sA ∧
    Gen.asym_band_clipped_clb3 Mills.Phi nanK sA ≤ Gen.asym_band_clipped_clb4 Mills.Phi nanK sA := by
  obtain ⟨-, h0, -, -, h1, -, -, h2, -, -, h3, -, -, h4, -⟩ := gen_band_clipped Mills.Phi nanK sA
  rw [h0, h1, h2, h3, h4]
  refine ⟨?_, ?_, ?_, ?_⟩ <;> (apply Mills.Phi_mono; apply neg_le_neg; apply max_le_max_right; norm_num)

end Pyhf.Props.C07
