import PyhfGen.Infer
import PyhfProofs.Properties.C07
/-!
# C07 (continued) — the formula theorems hold of what `calculators.py` computes *now*

`PyhfGen/Infer.lean` (regenerated on every run by symbolic execution): `AsymptoticCalculator.teststatistic` for q, q̃, q0 with the
two statistic evaluations symbolic, the shifts chosen by `distributions`, `AsymptoticTestStatDistribution.pvalue/expected_value`
(normal base distribution) and the three components of `pvalues`, with Φ uninterpreted.  Each is proved equal to the model function
the C07 theorems are about, so `clsb_q`, `clb_q`, `clsb_qtilde_hi`, … and `band_monotone` speak about the current source.
-/
namespace Pyhf.Props.C07
open Pyhf Pyhf.Infer

theorem gen_teststat_q_eq (q qA : ℝ) : Gen.asym_teststat_q realPrim q qA = asymTeststat Real.sqrt sq .q q qA := by
  unfold Gen.asym_teststat_q asymTeststat; simp [realPrim_sqrt]

theorem gen_teststat_q0_eq (q qA : ℝ) : Gen.asym_teststat_q0 realPrim q qA = asymTeststat Real.sqrt sq .q0 q qA := by
  unfold Gen.asym_teststat_q0 asymTeststat; simp [realPrim_sqrt]

theorem gen_teststat_qtilde_eq (q qA : ℝ) : Gen.asym_teststat_qtilde realPrim q qA = asymTeststat Real.sqrt sq .qtilde q qA := by
  unfold Gen.asym_teststat_qtilde asymTeststat sq
  have e2 : ∀ x : ℝ, x ^ (2:ℝ) = x ^ 2 := fun x => by exact_mod_cast Real.rpow_natCast x 2
  simp only [realPrim_sqrt, realPrim_pow]
  norm_num [e2]

theorem gen_shifts_eq (sA : ℝ) :
    Gen.asym_shift_sb sA = (asymDistributions sA false).1.shift ∧ Gen.asym_shift_b sA = (asymDistributions sA false).2.shift := by
  unfold Gen.asym_shift_sb Gen.asym_shift_b asymDistributions; norm_num

/-- the p-value is Φ of the model's argument -/
theorem gen_pvalue_eq (Φ : ℝ → ℝ) (sA t : ℝ) :
    some (Gen.asym_pvalue Φ (asymDistributions sA false).1.shift t) = ((asymDistributions sA false).1.pvalueArg t).map Φ ∧
    some (Gen.asym_pvalue Φ (asymDistributions sA false).2.shift t) = ((asymDistributions sA false).2.pvalueArg t).map Φ := by
  unfold Gen.asym_pvalue asymDistributions AsymDist.pvalueArg; norm_num

theorem gen_expected_value_eq (sA n : ℝ) :
    Gen.asym_expected_value (asymDistributions sA false).2.shift n = (asymDistributions sA false).2.expectedValue n := by
  unfold Gen.asym_expected_value asymDistributions AsymDist.expectedValue; norm_num

/-- `CL_{s+b}`, `CL_b` as the current code computes them are Φ of the model's arguments, and `CL_s` is their ratio -/
theorem gen_pvalues_eq (Φ : ℝ → ℝ) (sA t : ℝ) :
    Gen.asym_clsb Φ t (Gen.asym_shift_sb sA) (Gen.asym_shift_b sA) = Φ (-(t - (-sA))) ∧
    Gen.asym_clb Φ t (Gen.asym_shift_sb sA) (Gen.asym_shift_b sA) = Φ (-(t - 0)) ∧
    Gen.asym_cls Φ t (Gen.asym_shift_sb sA) (Gen.asym_shift_b sA)
      = Gen.asym_clsb Φ t (Gen.asym_shift_sb sA) (Gen.asym_shift_b sA) / Gen.asym_clb Φ t (Gen.asym_shift_sb sA) (Gen.asym_shift_b sA) := by
  unfold Gen.asym_clsb Gen.asym_clb Gen.asym_cls Gen.asym_shift_sb Gen.asym_shift_b; norm_num

/-- hence, with the actual normal cdf, the current code's values satisfy `0 ≤ CL_{s+b} ≤ CL_b ≤ 1` and `0 ≤ CL_s ≤ 1` -/
theorem gen_ordering_normal (t qA : ℝ) :
    0 ≤ Gen.asym_clsb Mills.Phi t (Gen.asym_shift_sb (Real.sqrt qA)) (Gen.asym_shift_b (Real.sqrt qA)) ∧
    Gen.asym_clsb Mills.Phi t (Gen.asym_shift_sb (Real.sqrt qA)) (Gen.asym_shift_b (Real.sqrt qA))
      ≤ Gen.asym_clb Mills.Phi t (Gen.asym_shift_sb (Real.sqrt qA)) (Gen.asym_shift_b (Real.sqrt qA)) ∧
    Gen.asym_clb Mills.Phi t (Gen.asym_shift_sb (Real.sqrt qA)) (Gen.asym_shift_b (Real.sqrt qA)) ≤ 1 ∧
    0 ≤ Gen.asym_cls Mills.Phi t (Gen.asym_shift_sb (Real.sqrt qA)) (Gen.asym_shift_b (Real.sqrt qA)) ∧
    Gen.asym_cls Mills.Phi t (Gen.asym_shift_sb (Real.sqrt qA)) (Gen.asym_shift_b (Real.sqrt qA)) ≤ 1 := by
  obtain ⟨h1, h2, h3⟩ := gen_pvalues_eq Mills.Phi (Real.sqrt qA) t
  have := ordering_normal t qA
  simp only [] at this
  rw [h3, h1, h2]
  exact this

end Pyhf.Props.C07
