import PyhfGen.Config
import PyhfProofs.Lemmas.RealPrim
/-!
# C12 (continued) — what the configuration reports *now*, with every measurement override a symbol

`PyhfGen/Config.lean` is regenerated on every C12 run (`harness/gen_config.py`): `pyhf.Model` is run on a specification with all seven
modifier types in which every yield, variation and uncertainty **and every measurement override** (initial values, bounds, auxiliary
data, widths, factors) is a symbol; `fixed` flags are literals.  The lists below are what `_ModelConfig` then reports.  The theorems
state the by-name layout for **all** values of the symbols: an override appears verbatim at the positions of the parameter set it
names, a quantity without override takes the default of the set's modifier type, the slices tile `range npars`, the auxiliary data
has one entry per constrained component in `auxdata_order`, and the constraint terms use the configured widths / factors.
(Statements about one specification with symbolic numbers — the statement for every specification is in `C12.lean` /
`C12_Overrides.lean` about the hand-written model.)
-/
namespace Pyhf.Props.C12
open Pyhf

/-- the double nearest to 1e-10 (lower bound of the bin-wise constrained parameters), exactly -/
noncomputable def tiny : ℝ := 0.00000000010000000000000000364321973154977415791655470655996396089904010295867919921875

variable (s0 s1 slo shi b0 b1 u0 u1 eb0 eb1 hl0 hl1 hh0 hh1 : ℝ)
variable (i_mu lo_mu hi_mu x_lumi sg_lumi i_lumi lo_lumi hi_lumi i_sysA x_sysA i_st0 i_st1 sg_st0 sg_st1 lo_sf0 hi_sf0 lo_sf1 hi_sf1 x_u0 x_u1 f_u0 f_u1 : ℝ)

/-- **slices**: consecutive, in creation order, tiling `range npars`; one name and one fixed flag per component; the POI index lies in
the slice of the parameter named as POI -/
theorem gen_slices_tile :
    (Gen.cfg_par_slices.map fun x => List.range' x.2.1 (x.2.2 - x.2.1)).flatten = List.range Gen.cfg_npars ∧
    Gen.cfg_par_slices.map (·.1) = Gen.cfg_par_order ∧
    Gen.cfg_par_names.length = Gen.cfg_npars ∧ Gen.cfg_suggested_fixed.length = Gen.cfg_npars ∧
    Gen.cfg_par_slices.lookup "mu" = some (Gen.cfg_poi_index, Gen.cfg_poi_index + 1) := by
  decide

/-- **creation order**: by modifier type (histosys, lumi, normfactor, normsys, shapefactor, shapesys, staterror); the constrained sets
keep that order in `auxdata_order` -/
theorem gen_par_order :
    Gen.cfg_par_order = ["sysH", "lumi", "mu", "sysA", "sf", "uncorr", "stat_SR"] ∧
    Gen.cfg_auxdata_order = ["sysH", "lumi", "sysA", "uncorr", "stat_SR"] ∧
    Gen.cfg_auxdata_order = Gen.cfg_par_order.filter (fun n => n != "mu" && n != "sf") := by
  decide

/-- **fixed flags**: `fixed: true` on lumi marks exactly its component, `fixed: false` (stat_SR) and no entry leave the others free -/
theorem gen_fixed_flags :
    Gen.cfg_suggested_fixed = [false, true, false, false, false, false, false, false, false, false] := by decide

/-- **initial values**: overrides verbatim at the named set's positions (lumi, mu, sysA, stat_SR), type defaults elsewhere (0 for the
interpolated systematic without entry, 1 for shape factor and uncorrelated shape) -/
theorem gen_suggested_init :
    Gen.cfg_suggested_init realPrim s0 s1 slo shi b0 b1 u0 u1 eb0 eb1 hl0 hl1 hh0 hh1 i_mu lo_mu hi_mu x_lumi sg_lumi i_lumi lo_lumi hi_lumi i_sysA x_sysA i_st0 i_st1 sg_st0 sg_st1 lo_sf0 hi_sf0 lo_sf1 hi_sf1 x_u0 x_u1 f_u0 f_u1
      = [0, i_lumi, i_mu, i_sysA, 1, 1, 1, 1, i_st0, i_st1] := by
  simp only [Gen.cfg_suggested_init]; norm_num

/-- **bounds**: overrides verbatim (lumi, mu, both components of the shape factor), defaults (−5, 5) for interpolated systematics and
(1e-10, 10) for the bin-wise constrained sets -/
theorem gen_suggested_bounds :
    Gen.cfg_suggested_bounds_lo realPrim s0 s1 slo shi b0 b1 u0 u1 eb0 eb1 hl0 hl1 hh0 hh1 i_mu lo_mu hi_mu x_lumi sg_lumi i_lumi lo_lumi hi_lumi i_sysA x_sysA i_st0 i_st1 sg_st0 sg_st1 lo_sf0 hi_sf0 lo_sf1 hi_sf1 x_u0 x_u1 f_u0 f_u1
      = [-5, lo_lumi, lo_mu, -5, lo_sf0, lo_sf1, tiny, tiny, tiny, tiny] ∧
    Gen.cfg_suggested_bounds_hi realPrim s0 s1 slo shi b0 b1 u0 u1 eb0 eb1 hl0 hl1 hh0 hh1 i_mu lo_mu hi_mu x_lumi sg_lumi i_lumi lo_lumi hi_lumi i_sysA x_sysA i_st0 i_st1 sg_st0 sg_st1 lo_sf0 hi_sf0 lo_sf1 hi_sf1 x_u0 x_u1 f_u0 f_u1
      = [5, hi_lumi, hi_mu, 5, hi_sf0, hi_sf1, 10, 10, 10, 10] := by
  simp only [Gen.cfg_suggested_bounds_lo, Gen.cfg_suggested_bounds_hi, tiny]; norm_num

/-- **auxiliary data**: one entry per constrained component in `auxdata_order`; overrides verbatim (lumi, sysA, both bins of the
uncorrelated shape), defaults 0 (interpolated systematic) and 1 (MC-statistical) elsewhere -/
theorem gen_auxdata :
    Gen.cfg_auxdata realPrim s0 s1 slo shi b0 b1 u0 u1 eb0 eb1 hl0 hl1 hh0 hh1 i_mu lo_mu hi_mu x_lumi sg_lumi i_lumi lo_lumi hi_lumi i_sysA x_sysA i_st0 i_st1 sg_st0 sg_st1 lo_sf0 hi_sf0 lo_sf1 hi_sf1 x_u0 x_u1 f_u0 f_u1
      = [0, x_lumi, x_sysA, x_u0, x_u1, 1, 1] := by
  simp only [Gen.cfg_auxdata]; norm_num

/-- **constraint widths and factors**: the configured luminosity width, the configured MC-statistical widths (an override replaces the
computed ones) and unit widths for the interpolated systematics; the configured Poisson factors of the uncorrelated shape -/
theorem gen_constraint_settings :
    Gen.cfg_normal_widths realPrim s0 s1 slo shi b0 b1 u0 u1 eb0 eb1 hl0 hl1 hh0 hh1 i_mu lo_mu hi_mu x_lumi sg_lumi i_lumi lo_lumi hi_lumi i_sysA x_sysA i_st0 i_st1 sg_st0 sg_st1 lo_sf0 hi_sf0 lo_sf1 hi_sf1 x_u0 x_u1 f_u0 f_u1
      = [1, sg_lumi, 1, sg_st0, sg_st1] ∧
    Gen.cfg_poisson_factors realPrim s0 s1 slo shi b0 b1 u0 u1 eb0 eb1 hl0 hl1 hh0 hh1 i_mu lo_mu hi_mu x_lumi sg_lumi i_lumi lo_lumi hi_lumi i_sysA x_sysA i_st0 i_st1 sg_st0 sg_st1 lo_sf0 hi_sf0 lo_sf1 hi_sf1 x_u0 x_u1 f_u0 f_u1
      = [f_u0, f_u1] := by
  simp only [Gen.cfg_normal_widths, Gen.cfg_poisson_factors]; norm_num

/-- **channel layout** (three channels listed as ZR, AR, MR with 3, 1, 2 bins): the reported channels are the declared ones in sorted
order; every channel's reported bin count and the width of its slice are the bin count *declared under that name*; the slices tile
`[0, nmaindata)` in the reported channel order; the samples are the sorted union; the parameter slices tile `[0, npars)` -/
theorem gen_channel_layout :
    Gen.lay_channels = ["AR", "MR", "ZR"] ∧ Gen.lay_samples = ["qcd", "ttbar", "wjets"] ∧
    Gen.lay_channel_nbins.map (·.1) = Gen.lay_channels ∧ Gen.lay_channel_slices.map (·.1) = Gen.lay_channels ∧
    (∀ e ∈ Gen.lay_channel_nbins, Gen.lay_declared.lookup e.1 = some e.2) ∧
    (∀ e ∈ Gen.lay_channel_slices, Gen.lay_declared.lookup e.1 = some (e.2.2 - e.2.1)) ∧
    (Gen.lay_channel_slices.map fun x => List.range' x.2.1 (x.2.2 - x.2.1)).flatten = List.range Gen.lay_nmaindata ∧
    (Gen.lay_par_slices.map fun x => List.range' x.2.1 (x.2.2 - x.2.1)).flatten = List.range Gen.lay_npars := by
  decide

end Pyhf.Props.C12
