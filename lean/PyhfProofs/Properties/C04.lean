import PyhfModel.Prob
import PyhfProofs.Lemmas.RealPrim
import PyhfProofs.Lemmas.FwdErr
import Mathlib.Probability.Distributions.Poisson.Basic
import Mathlib.Probability.Distributions.Gaussian.Real
import Mathlib.Analysis.SpecialFunctions.Gamma.Basic
/-!
# C04 — probability primitives equal the exact Poisson/Normal functions  (formula identities)

The claim "within a few units of rounding on four third-party libraries" is a floating-point statement about library
internals; no Lean model can exhibit their rounding.  What is proved: *which real function each composed formula
denotes*.  The numeric accuracy is examined by the harness against 50-digit references (differential testing).
-/
namespace Pyhf.Props.C04
open Pyhf Pyhf.Prob Real

/-- `gammaln` over the reals -/
noncomputable def lgammaR (x : ℝ) : ℝ := Real.log (Real.Gamma x)

/-- **Poisson log-mass at integer counts**: the composed formula exponentiates to `e^{−λ} λⁿ / n!` (the value of Mathlib's
`ProbabilityTheory.poissonMeasure λ` on `{n}`) -/
theorem poisson_logpmf_nat (n : ℕ) (lam : NNReal) (hl : 0 < lam) :
    Real.exp (poissonLogpdf realPrim lgammaR (n : ℝ) lam) = Real.exp (-(lam : ℝ)) * (lam : ℝ) ^ n / (n.factorial : ℝ) := by
  unfold poissonLogpdf xlogy lgammaR
  have hlam : (0 : ℝ) < lam := hl
  have hfac : (0 : ℝ) < (n.factorial : ℝ) := by exact_mod_cast Nat.factorial_pos n
  rw [Real.Gamma_nat_eq_factorial]
  by_cases hn : n = 0
  · subst hn
    simp [Real.exp_neg]
  · have hn' : ((n : ℝ) == 0) = false := by simpa using hn
    simp only [hn', Bool.false_eq_true, if_false, realPrim_log]
    rw [Real.exp_sub, Real.exp_sub, Real.exp_log hfac, Real.exp_nat_mul, Real.exp_log hlam, Real.exp_neg]
    field_simp

/-- **continuation to real counts through the Gamma function**: for `n > 0` the formula is `n log λ − λ − log Γ(n+1)` -/
theorem poisson_gamma_continuation (n lam : ℝ) (hn : n ≠ 0) :
    poissonLogpdf realPrim lgammaR n lam = n * Real.log lam - lam - Real.log (Real.Gamma (n + 1)) := by
  unfold poissonLogpdf xlogy lgammaR
  have : (n == 0) = false := by simpa using hn
  simp [this]

/-- **rate → 0 limit at n = 0**: mass exactly 1 (log-mass 0) at every rate `λ = 0`, by the `xlogy(0, ·) = 0` convention -/
theorem poisson_rate_zero_n_zero : poissonLogpdf realPrim lgammaR 0 0 = 0 := by
  unfold poissonLogpdf xlogy lgammaR
  simp

/-- at `n = 0` the log-mass is `−λ` for every rate -/
theorem poisson_n_zero (lam : ℝ) : poissonLogpdf realPrim lgammaR 0 lam = -lam := by
  unfold poissonLogpdf xlogy lgammaR
  simp

/-- **Normal log-density**: the composed formula exponentiates to Mathlib's Gaussian density with mean `μ` and
variance `σ²` -/
theorem normal_logpdf_exact (x mu : ℝ) (sigma : NNReal) (hs : 0 < sigma) :
    Real.exp (normalLogpdf realPrim Real.pi x mu sigma) = ProbabilityTheory.gaussianPDFReal mu (sigma ^ 2) x := by
  unfold normalLogpdf ProbabilityTheory.gaussianPDFReal
  have hsig : (0 : ℝ) < sigma := hs
  simp only [realPrim_sqrt, realPrim_log, sci_2]
  have h2pi : (0 : ℝ) < 2 * Real.pi := by positivity
  have hroot : 0 < Real.sqrt (2 * Real.pi) := Real.sqrt_pos.mpr h2pi
  rw [Real.exp_add, Real.exp_neg, Real.exp_log (by positivity)]
  have e1 : Real.sqrt (2 * Real.pi * ((sigma ^ 2 : NNReal) : ℝ)) = (sigma : ℝ) * Real.sqrt (2 * Real.pi) := by
    rw [NNReal.coe_pow, mul_comm (2 * Real.pi), Real.sqrt_mul (by positivity), Real.sqrt_sq hsig.le]
  rw [e1]
  congr 1
  congr 1
  have hsq : Real.sqrt 2 * Real.sqrt 2 = 2 := Real.mul_self_sqrt (by norm_num)
  rw [NNReal.coe_pow]
  field_simp
  nlinarith [hsq]

/-- the non-log Poisson variant is the exponential of the log variant -/
theorem nonlog_eq_exp_log (n lam : ℝ) :
    poissonPdf realPrim lgammaR n lam = Real.exp (poissonLogpdf realPrim lgammaR n lam) := rfl

/-! ### propagation of rounding through the composed formulae (standard model of floating-point arithmetic)

Every operation and library primitive returns its exact result times `1 + δ`, `|δ| ≤ u`.  The theorems bound the error of the
*composition* by a few units of rounding **of the terms involved** — which is also why cancellation between the terms (`λ ≈ n`) is
not an error of the formula.  The accuracy `u` of each external primitive (log, lgamma, sqrt) is examined by the harness. -/

/-- **Poisson log-mass**: with `δ₁` the rounding of `log`, `δ₂` of the product (`xlogy`), `δ₄` of `gammaln`, `δ₃`, `δ₅` of the two
subtractions, the computed value is within `((1+u)⁴ − 1)·(|n log λ| + |λ| + |log Γ(n+1)|)` of the exact log-mass -/
theorem poisson_logpdf_forward_error (u : ℝ) (hu : 0 ≤ u) (n lam : ℝ) (hn : n ≠ 0) (δ₁ δ₂ δ₃ δ₄ δ₅ : ℝ)
    (h₁ : |δ₁| ≤ u) (h₂ : |δ₂| ≤ u) (h₃ : |δ₃| ≤ u) (h₄ : |δ₄| ≤ u) (h₅ : |δ₅| ≤ u) :
    |(((n * Real.log lam * (1 + δ₁) * (1 + δ₂) - lam) * (1 + δ₃) - lgammaR (n + 1) * (1 + δ₄)) * (1 + δ₅))
        - poissonLogpdf realPrim lgammaR n lam|
      ≤ ((1 + u) ^ 4 - 1) * (|n * Real.log lam| + |lam| + |lgammaR (n + 1)|) := by
  rw [poisson_gamma_continuation n lam hn]
  exact FwdErr.poisson_logpdf_forward_error u hu _ _ _ δ₁ δ₂ δ₃ δ₄ δ₅ h₁ h₂ h₃ h₄ h₅

/-- … i.e. at most `8u` times the sum of the magnitudes of the three terms, for `u ≤ 1/100` -/
theorem poisson_logpdf_few_units (u : ℝ) (hu : 0 ≤ u) (hu' : u ≤ 1 / 100) (n lam : ℝ) (hn : n ≠ 0) (δ₁ δ₂ δ₃ δ₄ δ₅ : ℝ)
    (h₁ : |δ₁| ≤ u) (h₂ : |δ₂| ≤ u) (h₃ : |δ₃| ≤ u) (h₄ : |δ₄| ≤ u) (h₅ : |δ₅| ≤ u) :
    |(((n * Real.log lam * (1 + δ₁) * (1 + δ₂) - lam) * (1 + δ₃) - lgammaR (n + 1) * (1 + δ₄)) * (1 + δ₅))
        - poissonLogpdf realPrim lgammaR n lam|
      ≤ 8 * u * (|n * Real.log lam| + |lam| + |lgammaR (n + 1)|) := by
  rw [poisson_gamma_continuation n lam hn]
  exact FwdErr.poisson_logpdf_forward_error_units u hu hu' _ _ _ δ₁ δ₂ δ₃ δ₄ δ₅ h₁ h₂ h₃ h₄ h₅

/-- the exact Normal log-density is `−T₁ − T₂` with `T₁ = log(σ√(2π))`, `T₂ = ((x−μ)/(√2 σ))²` -/
theorem normal_logpdf_terms (x mu sigma : ℝ) :
    normalLogpdf realPrim Real.pi x mu sigma
      = -Real.log (sigma * Real.sqrt (2 * Real.pi)) - ((x - mu) / (Real.sqrt 2 * sigma)) ^ 2 := by
  unfold normalLogpdf
  simp only [realPrim_sqrt, realPrim_log, sci_2]
  ring

/-- **Normal log-density**: with `η` the absolute perturbation of the logarithm caused by the rounding of its argument (`|η| ≤ η₀`),
`δ₁` the rounding of `log`, five roundings on the path of the quadratic term and `δ₂` of the final addition, the computed value is
within `((1+u)⁶ − 1)·(|T₁| + |T₂|) + (1+u)²·η₀` of the exact log-density -/
theorem normal_logpdf_forward_error (u : ℝ) (hu : 0 ≤ u) (x mu sigma η η₀ : ℝ) (δ₁ δ₂ ε₁ ε₂ ε₃ ε₄ ε₅ : ℝ) (hη : |η| ≤ η₀)
    (h₁ : |δ₁| ≤ u) (h₂ : |δ₂| ≤ u) (e₁ : |ε₁| ≤ u) (e₂ : |ε₂| ≤ u) (e₃ : |ε₃| ≤ u) (e₄ : |ε₄| ≤ u) (e₅ : |ε₅| ≤ u) :
    |((-((Real.log (sigma * Real.sqrt (2 * Real.pi)) + η) * (1 + δ₁)))
        + (-(((x - mu) / (Real.sqrt 2 * sigma)) ^ 2 * (1 + ε₁) * (1 + ε₂) * (1 + ε₃) * (1 + ε₄) * (1 + ε₅)))) * (1 + δ₂)
        - normalLogpdf realPrim Real.pi x mu sigma|
      ≤ ((1 + u) ^ 6 - 1) * (|Real.log (sigma * Real.sqrt (2 * Real.pi))| + |((x - mu) / (Real.sqrt 2 * sigma)) ^ 2|)
        + (1 + u) ^ 2 * η₀ := by
  rw [normal_logpdf_terms]
  exact FwdErr.normal_logpdf_forward_error u hu _ _ η η₀ δ₁ δ₂ ε₁ ε₂ ε₃ ε₄ ε₅ hη h₁ h₂ e₁ e₂ e₃ e₄ e₅

end Pyhf.Props.C04
