import PyhfProofs.Lemmas.PermInv3
import PyhfProofs.Lemmas.PermInvExample
/-!
# C15 (continued) — reordering channels, samples, modifiers and parameter configurations changes nothing

`SpecPerm s s'`: `s'` lists the channels of `s` in another order, each channel's samples in another order, each sample's
modifiers in another order and the measurement's parameter configurations in another order (elements otherwise identical).
For an accepted specification every place where the construction path reads a raw list order (`mkConfig`'s bin count from the
first listed sample, the "last definition wins" lookups, the running `seen` list of the shapesys-reuse check, the first
declaring cell of a shape factor, `parameters.find?`) is shown to be order-independent once the duplicate checks have passed
(`Lemmas/PermInv*.lean`).  With `profile_ratio_invariant` (C15.lean) this gives invariance of every test statistic in exact arithmetic.
-/
namespace Pyhf.Props.C15
open Pyhf

section
variable {K : Type} [Add K] [Sub K] [Mul K] [Div K] [Neg K] [OfNat K 0] [OfNat K 1]
  [OfScientific K] [LT K] [LE K] [DecidableLT K] [DecidableLE K] [BEq K]

/-- **the model, its expected rates and its log-likelihood (term by term) are invariant under reordering** -/
theorem loglik_perm_invariant (P : Prim K) (st : Settings K) {s s' : Spec K} {m : Model K} (h : SpecPerm s s')
    (hs : buildModel P s st = .ok m) :
    ∃ m', buildModel P s' st = .ok m' ∧ m'.cfg = m.cfg ∧ m'.ps = m.ps ∧ m'.slices = m.slices ∧ m'.npars = m.npars ∧
      (∀ par, expectedActual P m' par = expectedActual P m par) ∧
      (∀ par, expectedBySample P m' par = expectedBySample P m par) ∧
      (∀ par data, logpdfTerms P m' par data = logpdfTerms P m par data) :=
  buildModel_perm_invariant P st h hs

/-- … and so are the POI index, the constraint terms, the expected auxiliary data and the three log-densities -/
theorem loglik_perm_invariant_more (P : Prim K) (st : Settings K) {s s' : Spec K} {m : Model K} (h : SpecPerm s s')
    (hs : buildModel P s st = .ok m) :
    ∃ m', buildModel P s' st = .ok m' ∧ m'.spec = s' ∧ m'.poiIndex = m.poiIndex ∧ m'.settings = m.settings ∧
      (∀ par, constraintTerms m' par = constraintTerms m par) ∧
      (∀ par, expectedAux m' par = expectedAux m par) ∧
      (∀ par, expectedData P m' par = expectedData P m par) ∧
      (∀ L par data, logpdfT P L m' par data = logpdfT P L m par data) ∧
      (∀ L par d, mainLogpdfT P L m' par d = mainLogpdfT P L m par d) ∧
      (∀ L par aux, constraintLogpdfT L m' par aux = constraintLogpdfT L m par aux) :=
  buildModel_perm_invariant_more P st h hs

/-- acceptance itself does not depend on the listing order -/
theorem accept_perm_invariant (P : Prim K) (st : Settings K) {s s' : Spec K} (h : SpecPerm s s') :
    (∃ m, buildModel P s st = .ok m) ↔ (∃ m', buildModel P s' st = .ok m') :=
  buildModel_perm_accept_iff P st h

/-- the relation is symmetric (so "original" and "rewritten" can be exchanged) -/
theorem specPerm_symm {s s' : Spec K} (h : SpecPerm s s') : SpecPerm s' s := h.symm

end
end Pyhf.Props.C15
