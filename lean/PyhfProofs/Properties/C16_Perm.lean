import PyhfProofs.Lemmas.PermInv3
/-!
# C16 (continued) — sorting is likelihood-preserving and canonical under permutation of the input lists

`Workspace.sorted` reorders channels, samples, modifiers (and the measurement lists); the model built from a reordered
specification is the same model (`buildModel_perm_invariant`: same channel summary, parameter sets and slices, same expected
rates and the same log-likelihood term by term) — for *every* reordering, in particular the one `sorted` performs, and for two
workspaces that differ only by a permutation of their lists.
-/
namespace Pyhf.Props.C16
open Pyhf

section
variable {K : Type} [Add K] [Sub K] [Mul K] [Div K] [Neg K] [OfNat K 0] [OfNat K 1]
  [OfScientific K] [LT K] [LE K] [DecidableLT K] [DecidableLE K] [BEq K]

/-- the likelihood of a reordered (e.g. sorted) workspace specification equals the original's, for all parameters and data -/
theorem sorted_loglik (P : Prim K) (L : LogPrim K) (st : Settings K) {s s' : Spec K} {m : Model K} (h : SpecPerm s s')
    (hs : buildModel P s st = .ok m) :
    ∃ m', buildModel P s' st = .ok m' ∧ m'.cfg = m.cfg ∧ m'.ps = m.ps ∧
      ∀ par data, logpdfT P L m' par data = logpdfT P L m par data := by
  obtain ⟨m', h1, hc, hp, _, _, _, _, ht⟩ := buildModel_perm_invariant P st h hs
  exact ⟨m', h1, hc, hp, fun par data => by unfold logpdfT; rw [ht par data]⟩

/-- two specifications that are permutations of one another are accepted together -/
theorem sorted_accept_iff (P : Prim K) (st : Settings K) {s s' : Spec K} (h : SpecPerm s s') :
    (∃ m, buildModel P s st = .ok m) ↔ (∃ m', buildModel P s' st = .ok m') :=
  buildModel_perm_accept_iff P st h

end
end Pyhf.Props.C16
