import PyhfGen.Model
import PyhfProofs.Properties.C01_Gen2
import PyhfProofs.Properties.C02_Gen
/-!
# C02 (continued) — `Model.logpdf` = template on the shapes with non-default interpolation codes (D, E of `PyhfGen/Model.lean`)
-/
namespace Pyhf.Props.C02
open Pyhf Pyhf.Interp Pyhf.Props.C01

set_option maxHeartbeats 3200000 in
/-- shapeD: `Model.logpdf` as computed = the template, for all parameters, all data and all positive yields / uncertainties -/
theorem shapeD_logpdf_eq (lpois : ℝ → ℝ → ℝ) (lnorm : ℝ → ℝ → ℝ → ℝ) (s0 s1 slo shi b0 b1 blo bhi hl0 hl1 hh0 hh1 p_sysH p_mu p_sysN d0 d1 a0 a1 : ℝ) (_hs0 : 0 < s0) (_hs1 : 0 < s1) (_hslo : 0 < slo) (_hshi : 0 < shi) (_hb0 : 0 < b0) (_hb1 : 0 < b1) (_hblo : 0 < blo) (_hbhi : 0 < bhi) (_hhl0 : 0 < hl0) (_hhl1 : 0 < hl1) (_hhh0 : 0 < hh0) (_hhh1 : 0 < hh1) :
    Gen.shapeD_logpdf realPrim lpois lnorm s0 s1 slo shi b0 b1 blo bhi hl0 hl1 hh0 hh1 p_sysH p_mu p_sysN d0 d1 a0 a1 = Gen.shapeD_logpdf_ref realPrim lpois lnorm s0 s1 slo shi b0 b1 blo bhi hl0 hl1 hh0 hh1 p_sysH p_mu p_sysN d0 d1 a0 a1 := by
  unfold Gen.shapeD_logpdf Gen.shapeD_logpdf_ref
  simp only [C01.lit0, C01.lit1]
  first
    | (split_ifs <;> first
        | (simp (config := { maxSteps := 2000000 }) only [Gen.shapeD_bin0, Gen.shapeD_bin1, C01.lit0, C01.lit1, if_true, if_false, *] <;> first | rfl | (norm_num <;> first | rfl | ring1))
        | (exfalso; linarith))
    | (simp only [Gen.shapeD_bin0, Gen.shapeD_bin1, C01.lit0, C01.lit1] <;> first | rfl | (norm_num <;> first | rfl | ring1 | ring_nf))

set_option maxHeartbeats 3200000 in
/-- shapeE: `Model.logpdf` as computed = the template, for all parameters, all data and all positive yields / uncertainties -/
theorem shapeE_logpdf_eq (lpois : ℝ → ℝ → ℝ) (lnorm : ℝ → ℝ → ℝ → ℝ) (s0 b0 hl0 hh0 blo bhi p_sysH p_mu p_sysN d0 a0 a1 : ℝ) (_hs0 : 0 < s0) (_hb0 : 0 < b0) (_hhl0 : 0 < hl0) (_hhh0 : 0 < hh0) (_hblo : 0 < blo) (_hbhi : 0 < bhi) :
    Gen.shapeE_logpdf realPrim lpois lnorm s0 b0 hl0 hh0 blo bhi p_sysH p_mu p_sysN d0 a0 a1 = Gen.shapeE_logpdf_ref realPrim lpois lnorm s0 b0 hl0 hh0 blo bhi p_sysH p_mu p_sysN d0 a0 a1 := by
  unfold Gen.shapeE_logpdf Gen.shapeE_logpdf_ref
  simp only [C01.lit0, C01.lit1]
  first
    | (split_ifs <;> first
        | (simp (config := { maxSteps := 2000000 }) only [Gen.shapeE_bin0, C01.lit0, C01.lit1, if_true, if_false, *] <;> first | rfl | (norm_num <;> first | rfl | ring1))
        | (exfalso; linarith))
    | (simp only [Gen.shapeE_bin0, C01.lit0, C01.lit1] <;> first | rfl | (norm_num <;> first | rfl | ring1 | ring_nf))

set_option maxHeartbeats 3200000 in
/-- shapeF: `Model.logpdf` as computed = the template, for all parameters, all data and all positive yields / uncertainties -/
theorem shapeF_logpdf_eq (lpois : ℝ → ℝ → ℝ) (lnorm : ℝ → ℝ → ℝ → ℝ) (s0 s1 es0 es1 b0 b1 u0 u1 eb0 eb1 p_mu p_uncorr_0 p_uncorr_1 p_stat_SR_0 p_stat_SR_1 d0 d1 a0 a1 a2 a3 : ℝ) (_hs0 : 0 < s0) (_hs1 : 0 < s1) (_hes0 : 0 < es0) (_hes1 : 0 < es1) (_hb0 : 0 < b0) (_hb1 : 0 < b1) (_hu0 : 0 < u0) (_hu1 : 0 < u1) (_heb0 : 0 < eb0) (_heb1 : 0 < eb1) :
    Gen.shapeF_logpdf realPrim lpois lnorm s0 s1 es0 es1 b0 b1 u0 u1 eb0 eb1 p_mu p_uncorr_0 p_uncorr_1 p_stat_SR_0 p_stat_SR_1 d0 d1 a0 a1 a2 a3 = Gen.shapeF_logpdf_ref realPrim lpois lnorm s0 s1 es0 es1 b0 b1 u0 u1 eb0 eb1 p_mu p_uncorr_0 p_uncorr_1 p_stat_SR_0 p_stat_SR_1 d0 d1 a0 a1 a2 a3 := by
  unfold Gen.shapeF_logpdf Gen.shapeF_logpdf_ref
  simp only [C01.lit0, C01.lit1]
  first
    | (split_ifs <;> first
        | (simp (config := { maxSteps := 2000000 }) only [Gen.shapeF_bin0, Gen.shapeF_bin1, C01.lit0, C01.lit1, if_true, if_false, *] <;> first | rfl | (norm_num <;> first | rfl | ring1))
        | (exfalso; linarith))
    | (simp only [Gen.shapeF_bin0, Gen.shapeF_bin1, C01.lit0, C01.lit1] <;> first | rfl | (norm_num <;> first | rfl | ring1 | ring_nf))

set_option maxHeartbeats 3200000 in
/-- shapeH: `Model.logpdf` as computed = the template, for all parameters, all data and all positive yields / uncertainties -/
theorem shapeH_logpdf_eq (lpois : ℝ → ℝ → ℝ) (lnorm : ℝ → ℝ → ℝ → ℝ) (s0 s1 b0 b1 e0 p_lumi p_mu p_stat_SR_0 p_stat_SR_1 d0 d1 a0 a1 a2 : ℝ) (_hs0 : 0 < s0) (_hs1 : 0 < s1) (_hb0 : 0 < b0) (_hb1 : 0 < b1) (_he0 : 0 < e0) :
    Gen.shapeH_logpdf realPrim lpois lnorm s0 s1 b0 b1 e0 p_lumi p_mu p_stat_SR_0 p_stat_SR_1 d0 d1 a0 a1 a2 = Gen.shapeH_logpdf_ref realPrim lpois lnorm s0 s1 b0 b1 e0 p_lumi p_mu p_stat_SR_0 p_stat_SR_1 d0 d1 a0 a1 a2 := by
  unfold Gen.shapeH_logpdf Gen.shapeH_logpdf_ref
  simp only [C01.lit0, C01.lit1]
  first
    | (split_ifs <;> first
        | (simp (config := { maxSteps := 2000000 }) only [Gen.shapeH_bin0, Gen.shapeH_bin1, C01.lit0, C01.lit1, if_true, if_false, *] <;> first | rfl | (norm_num <;> first | rfl | ring1))
        | (exfalso; linarith))
    | (simp only [Gen.shapeH_bin0, Gen.shapeH_bin1, C01.lit0, C01.lit1] <;> first | rfl | (norm_num <;> first | rfl | ring1 | ring_nf))

end Pyhf.Props.C02
