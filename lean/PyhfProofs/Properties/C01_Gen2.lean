import PyhfGen.Model
import PyhfProofs.Properties.C01_Gen
/-!
# C01 (continued) — whole-shape tie with the non-default interpolation codes

Shapes D and E of `PyhfGen/Model.lean` are built with `modifier_settings`: (D) piecewise-exponential normalisation (code 1) shared by two
samples and piecewise-linear shape (code 0); (E) quadratic-interpolation / linear-extrapolation shape (code 2) next to the default
normalisation code 4.  As in `C01_Gen`, `<shape>_bin<b>` is what `pyhf.Model(spec, modifier_settings=…).expected_actualdata` computes
(executed symbolically, everything symbolic) and `<shape>_ref<b>` the declared formula with the interpolation functions of C03
(`slow0`, `slow1`, `slow2`, `slow4`) — equal for all real parameters and all positive data.  With A–C every interpolation code the
schema admits (`histosys`: 0, 2, 4p; `normsys`: 1, 4) is covered on the production code.
-/
namespace Pyhf.Props.C01
open Pyhf Pyhf.Interp

theorem lit05 : (0.5 : ℝ) = 1 / 2 := by norm_num
theorem lit2 : (2.0 : ℝ) = 2 := by norm_num

/-- `shape_eq` with the functions of codes 0, 1, 2 unfolded as well -/
macro "shape_eq2" : tactic =>
  `(tactic| (
    have e2 : ∀ x : ℝ, x ^ (2:ℝ) = x ^ 2 := fun x => by exact_mod_cast Real.rpow_natCast x 2
    have e3 : ∀ x : ℝ, x ^ (3:ℝ) = x ^ 3 := fun x => by exact_mod_cast Real.rpow_natCast x 3
    have e4 : ∀ x : ℝ, x ^ (4:ℝ) = x ^ 4 := fun x => by exact_mod_cast Real.rpow_natCast x 4
    have e5 : ∀ x : ℝ, x ^ (5:ℝ) = x ^ 5 := fun x => by exact_mod_cast Real.rpow_natCast x 5
    have e6 : ∀ x : ℝ, x ^ (6:ℝ) = x ^ 6 := fun x => by exact_mod_cast Real.rpow_natCast x 6
    simp only [slow0, slow1, slow2, c2a, c2b, slow4, slow4p, poly6, code4Coeffs, code4Rhs, ipow, absK, lit0, lit1, lit05, lit2]
    first
      | (split_ifs <;> first
          | (exfalso; linarith)
          | (norm_num [realPrim_pow, realPrim_log, e2, e3, e4, e5, e6] <;>
              first | ring1 | (exact Or.inl trivial) | (congr 1; ring1) | (congr 1 <;> ring1) | (left; ring1) | simp))
      | (norm_num [realPrim_pow, realPrim_log] <;> ring1)))

set_option maxRecDepth 8192 in
set_option maxHeartbeats 1600000 in
/-- shapeD, bin 0: tensor code = declared formula, for all parameters and all positive data -/
theorem shapeD_bin0_eq (s0 s1 slo shi b0 b1 blo bhi hl0 hl1 hh0 hh1 p_sysH p_mu p_sysN : ℝ) (_hs0 : 0 < s0) (_hs1 : 0 < s1) (_hslo : 0 < slo) (_hshi : 0 < shi) (_hb0 : 0 < b0) (_hb1 : 0 < b1) (_hblo : 0 < blo) (_hbhi : 0 < bhi) (_hhl0 : 0 < hl0) (_hhl1 : 0 < hl1) (_hhh0 : 0 < hh0) (_hhh1 : 0 < hh1) :
    Gen.shapeD_bin0 realPrim s0 s1 slo shi b0 b1 blo bhi hl0 hl1 hh0 hh1 p_sysH p_mu p_sysN = Gen.shapeD_ref0 realPrim s0 s1 slo shi b0 b1 blo bhi hl0 hl1 hh0 hh1 p_sysH p_mu p_sysN := by
  unfold Gen.shapeD_bin0 Gen.shapeD_ref0; shape_eq2

set_option maxRecDepth 8192 in
set_option maxHeartbeats 1600000 in
/-- shapeD, bin 1: tensor code = declared formula, for all parameters and all positive data -/
theorem shapeD_bin1_eq (s0 s1 slo shi b0 b1 blo bhi hl0 hl1 hh0 hh1 p_sysH p_mu p_sysN : ℝ) (_hs0 : 0 < s0) (_hs1 : 0 < s1) (_hslo : 0 < slo) (_hshi : 0 < shi) (_hb0 : 0 < b0) (_hb1 : 0 < b1) (_hblo : 0 < blo) (_hbhi : 0 < bhi) (_hhl0 : 0 < hl0) (_hhl1 : 0 < hl1) (_hhh0 : 0 < hh0) (_hhh1 : 0 < hh1) :
    Gen.shapeD_bin1 realPrim s0 s1 slo shi b0 b1 blo bhi hl0 hl1 hh0 hh1 p_sysH p_mu p_sysN = Gen.shapeD_ref1 realPrim s0 s1 slo shi b0 b1 blo bhi hl0 hl1 hh0 hh1 p_sysH p_mu p_sysN := by
  unfold Gen.shapeD_bin1 Gen.shapeD_ref1; shape_eq2

set_option maxRecDepth 8192 in
set_option maxHeartbeats 1600000 in
/-- shapeE, bin 0: tensor code = declared formula, for all parameters and all positive data -/
theorem shapeE_bin0_eq (s0 b0 hl0 hh0 blo bhi p_sysH p_mu p_sysN : ℝ) (_hs0 : 0 < s0) (_hb0 : 0 < b0) (_hhl0 : 0 < hl0) (_hhh0 : 0 < hh0) (_hblo : 0 < blo) (_hbhi : 0 < bhi) :
    Gen.shapeE_bin0 realPrim s0 b0 hl0 hh0 blo bhi p_sysH p_mu p_sysN = Gen.shapeE_ref0 realPrim s0 b0 hl0 hh0 blo bhi p_sysH p_mu p_sysN := by
  unfold Gen.shapeE_bin0 Gen.shapeE_ref0; shape_eq2

set_option maxRecDepth 8192 in
set_option maxHeartbeats 1600000 in
/-- shapeF, bin 0: tensor code = declared formula, for all parameters and all positive data -/
theorem shapeF_bin0_eq (s0 s1 es0 es1 b0 b1 u0 u1 eb0 eb1 p_mu p_uncorr_0 p_uncorr_1 p_stat_SR_0 p_stat_SR_1 : ℝ) (_hs0 : 0 < s0) (_hs1 : 0 < s1) (_hes0 : 0 < es0) (_hes1 : 0 < es1) (_hb0 : 0 < b0) (_hb1 : 0 < b1) (_hu0 : 0 < u0) (_hu1 : 0 < u1) (_heb0 : 0 < eb0) (_heb1 : 0 < eb1) :
    Gen.shapeF_bin0 realPrim s0 s1 es0 es1 b0 b1 u0 u1 eb0 eb1 p_mu p_uncorr_0 p_uncorr_1 p_stat_SR_0 p_stat_SR_1 = Gen.shapeF_ref0 realPrim s0 s1 es0 es1 b0 b1 u0 u1 eb0 eb1 p_mu p_uncorr_0 p_uncorr_1 p_stat_SR_0 p_stat_SR_1 := by
  unfold Gen.shapeF_bin0 Gen.shapeF_ref0; shape_eq2

set_option maxRecDepth 8192 in
set_option maxHeartbeats 1600000 in
/-- shapeF, bin 1: tensor code = declared formula, for all parameters and all positive data -/
theorem shapeF_bin1_eq (s0 s1 es0 es1 b0 b1 u0 u1 eb0 eb1 p_mu p_uncorr_0 p_uncorr_1 p_stat_SR_0 p_stat_SR_1 : ℝ) (_hs0 : 0 < s0) (_hs1 : 0 < s1) (_hes0 : 0 < es0) (_hes1 : 0 < es1) (_hb0 : 0 < b0) (_hb1 : 0 < b1) (_hu0 : 0 < u0) (_hu1 : 0 < u1) (_heb0 : 0 < eb0) (_heb1 : 0 < eb1) :
    Gen.shapeF_bin1 realPrim s0 s1 es0 es1 b0 b1 u0 u1 eb0 eb1 p_mu p_uncorr_0 p_uncorr_1 p_stat_SR_0 p_stat_SR_1 = Gen.shapeF_ref1 realPrim s0 s1 es0 es1 b0 b1 u0 u1 eb0 eb1 p_mu p_uncorr_0 p_uncorr_1 p_stat_SR_0 p_stat_SR_1 := by
  unfold Gen.shapeF_bin1 Gen.shapeF_ref1; shape_eq2

set_option maxRecDepth 8192 in
set_option maxHeartbeats 1600000 in
/-- shapeH, bin 0: tensor code = declared formula, for all parameters and all positive data -/
theorem shapeH_bin0_eq (s0 s1 b0 b1 e0 p_lumi p_mu p_stat_SR_0 p_stat_SR_1 : ℝ) (_hs0 : 0 < s0) (_hs1 : 0 < s1) (_hb0 : 0 < b0) (_hb1 : 0 < b1) (_he0 : 0 < e0) :
    Gen.shapeH_bin0 realPrim s0 s1 b0 b1 e0 p_lumi p_mu p_stat_SR_0 p_stat_SR_1 = Gen.shapeH_ref0 realPrim s0 s1 b0 b1 e0 p_lumi p_mu p_stat_SR_0 p_stat_SR_1 := by
  unfold Gen.shapeH_bin0 Gen.shapeH_ref0; shape_eq2

set_option maxRecDepth 8192 in
set_option maxHeartbeats 1600000 in
/-- shapeH, bin 1: tensor code = declared formula, for all parameters and all positive data -/
theorem shapeH_bin1_eq (s0 s1 b0 b1 e0 p_lumi p_mu p_stat_SR_0 p_stat_SR_1 : ℝ) (_hs0 : 0 < s0) (_hs1 : 0 < s1) (_hb0 : 0 < b0) (_hb1 : 0 < b1) (_he0 : 0 < e0) :
    Gen.shapeH_bin1 realPrim s0 s1 b0 b1 e0 p_lumi p_mu p_stat_SR_0 p_stat_SR_1 = Gen.shapeH_ref1 realPrim s0 s1 b0 b1 e0 p_lumi p_mu p_stat_SR_0 p_stat_SR_1 := by
  unfold Gen.shapeH_bin1 Gen.shapeH_ref1; shape_eq2

end Pyhf.Props.C01
