import PyhfModel.Interp
import PyhfProofs.Lemmas.RealPrim
import PyhfProofs.Lemmas.Piecewise
import PyhfProofs.Lemmas.InterpReal
import Mathlib.Analysis.SpecialFunctions.Pow.Deriv
import Mathlib.Analysis.SpecialFunctions.Pow.Continuity
import Mathlib.Analysis.Calculus.Deriv.Pow
import Mathlib.Tactic.Ring
import Mathlib.Tactic.FieldSimp
import Mathlib.Tactic.Linarith
/-!
# C03 — interpolation codes realise their defining piecewise functions for all alpha

All statements are about the model functions of `PyhfModel/Interp.lean` instantiated at `ℝ`
(`realPrim`: `Real.rpow`, `Real.log`).  `slowK` is the scalar reference, `fastK` one cell of the
vectorised computation.
-/
namespace Pyhf.Props.C03
open Pyhf Pyhf.Interp

/-! ## code 0 -/

theorem code0_neutral (dn nom up : ℝ) : slow0 dn nom up 0 = 0 := by simp [slow0]
theorem code0_at_plus_one (dn nom up : ℝ) : slow0 dn nom up 1 = up - nom := by simp [slow0]
theorem code0_at_minus_one (dn nom up : ℝ) : slow0 dn nom up (-1) = dn - nom := by simp [slow0]

/-- slope `up − nom` on the whole positive side, `nom − dn` on the whole negative side -/
theorem code0_extrapolation (dn nom up a : ℝ) :
    (0 < a → slow0 dn nom up a = (up - nom) * a) ∧ (a ≤ 0 → slow0 dn nom up a = (nom - dn) * a) := by
  constructor
  · intro h; simp [slow0, h]
  · intro h; simp [slow0, not_lt.mpr h]

theorem code0_continuous (dn nom up : ℝ) : Continuous fun a => slow0 dn nom up a := by
  refine continuous_glue (f := fun a => (up - nom) * a) (g := fun a => (nom - dn) * a) 0 ?_ ?_
    (by fun_prop) (by fun_prop) (by simp)
  · intro a h; simp [slow0, not_lt.mpr h]
  · intro a h; simp [slow0, h]

theorem code0_fast_eq_slow (dn nom up a : ℝ) : fast0 dn nom up a = slow0 dn nom up a := by
  unfold fast0 slow0 sel
  by_cases h : (0 : ℝ) < a <;> simp [h] <;> ring

/-! ## code 1 -/

theorem code1_neutral (dn nom up : ℝ) : slow1 realPrim dn nom up 0 = 1 := by simp [slow1]
theorem code1_at_plus_one (dn nom up : ℝ) : slow1 realPrim dn nom up 1 = up / nom := by simp [slow1]
theorem code1_at_minus_one (dn nom up : ℝ) : slow1 realPrim dn nom up (-1) = dn / nom := by
  simp [slow1]

/-- exponent of the matching side, everywhere -/
theorem code1_extrapolation (dn nom up a : ℝ) :
    (0 < a → slow1 realPrim dn nom up a = (up / nom) ^ a) ∧
    (a ≤ 0 → slow1 realPrim dn nom up a = (dn / nom) ^ (-a)) := by
  constructor
  · intro h; simp [slow1, h]
  · intro h; simp [slow1, not_lt.mpr h]

theorem code1_continuous (dn nom up : ℝ) (hd : 0 < dn) (hn : 0 < nom) (hu : 0 < up) :
    Continuous fun a => slow1 realPrim dn nom up a := by
  have hu' : up / nom ≠ 0 := (div_pos hu hn).ne'
  have hd' : dn / nom ≠ 0 := (div_pos hd hn).ne'
  refine continuous_glue (f := fun a => (up / nom) ^ a) (g := fun a => (dn / nom) ^ (-a)) 0 ?_ ?_
    (Real.continuous_const_rpow hu') ((Real.continuous_const_rpow hd').comp continuous_neg) (by simp)
  · intro a h; simp [slow1, not_lt.mpr h]
  · intro a h; simp [slow1, h]

theorem code1_fast_eq_slow (dn nom up a : ℝ) :
    fast1 realPrim dn nom up a = slow1 realPrim dn nom up a := by
  unfold fast1 slow1 sel
  by_cases h : (0 : ℝ) < a <;> simp [h]

/-! ## code 2 (after `fix: code2 …`) -/

theorem code2_neutral (dn nom up : ℝ) : slow2 dn nom up 0 = 0 := by
  rw [slow2_real]; norm_num
theorem code2_at_plus_one (dn nom up : ℝ) : slow2 dn nom up 1 = up - nom := by
  rw [slow2_real, c2a_real, c2b_real]; norm_num; ring
theorem code2_at_minus_one (dn nom up : ℝ) : slow2 dn nom up (-1) = dn - nom := by
  rw [slow2_real, c2a_real, c2b_real]; norm_num; ring

/-- beyond the core the value is the boundary value plus the boundary slope `b ± 2a` of the
quadratic times the distance -/
theorem code2_extrapolation (dn nom up a : ℝ) :
    (1 < a → slow2 dn nom up a = (up - nom) + (c2b dn up + 2 * c2a dn nom up) * (a - 1)) ∧
    (a < -1 → slow2 dn nom up a = (dn - nom) + (c2b dn up - 2 * c2a dn nom up) * (a + 1)) := by
  constructor
  · intro h
    rw [slow2_real]; simp only [h, if_true]; rw [c2a_real, c2b_real]; ring
  · intro h
    have h1 : ¬ (1 : ℝ) < a := by linarith
    have h2 : ¬ (-1 : ℝ) ≤ a := by linarith
    rw [slow2_real]; simp only [h1, h2, if_false]; rw [c2a_real, c2b_real]; ring

/-- derivative of code 2 (piecewise) -/
noncomputable def d2 (dn nom up a : ℝ) : ℝ :=
  if 1 < a then c2b dn up + 2 * c2a dn nom up
  else if -1 < a then 2 * c2a dn nom up * a + c2b dn up
  else c2b dn up - 2 * c2a dn nom up

/-- code 2 is differentiable on the whole line, in particular at `±1` (value and slope match) -/
theorem code2_hasDerivAt (dn nom up a : ℝ) : HasDerivAt (slow2 dn nom up) (d2 dn nom up a) a := by
  generalize hqa : c2a dn nom up = qa
  generalize hqb : c2b dn up = qb
  let G : ℝ → ℝ := fun a => if (-1 : ℝ) ≤ a then qa * a * a + qb * a else (qb - 2 * qa) * a + ((qb - 2 * qa) + (qa - qb))
  have hG : ∀ x, HasDerivAt G (if (-1:ℝ) < x then 2 * qa * x + qb else qb - 2 * qa) x := by
    intro x
    refine hasDerivAt_glue (f := fun a => qa * a * a + qb * a) (g := fun a => (qb - 2 * qa) * a + ((qb - 2 * qa) + (qa - qb)))
      (f' := fun x => 2 * qa * x + qb) (g' := fun _ => qb - 2 * qa) (-1) ?_ ?_ ?_ ?_
      (quad_hasDerivAt qa qb) (lin_hasDerivAt _ _) ?_ x
    · intro a h; simp only [G, not_le.mpr h, if_false]
    · intro a h; simp only [G, h.le, if_true]
    · simp only [G, le_refl, if_true]
    · simp only [G, le_refl, if_true]; ring
    · ring
  have key := hasDerivAt_glue (F := slow2 dn nom up) (f := fun a => (qb + 2 * qa) * a + (-(qb + 2 * qa) + (qa + qb))) (g := G)
      (f' := fun _ => qb + 2 * qa) (g' := fun x => if (-1:ℝ) < x then 2 * qa * x + qb else qb - 2 * qa) 1
      ?_ ?_ ?_ ?_ (lin_hasDerivAt _ _) hG ?_ a
  · simp only [d2, hqa, hqb]; exact key
  · intro a h
    have h1 : ¬ (1:ℝ) < a := not_lt.mpr h.le
    rw [slow2_real, hqa, hqb]; simp only [h1, if_false, G]
    by_cases h2 : (-1:ℝ) ≤ a <;> simp only [h2, if_true, if_false] ; ring
  · intro a h; rw [slow2_real, hqa, hqb]; simp only [h, if_true]; ring
  · rw [slow2_real, hqa, hqb]; norm_num; ring
  · rw [slow2_real, hqa, hqb]; norm_num [G]
  · norm_num; ring

theorem code2_continuous (dn nom up : ℝ) : Continuous fun a => slow2 dn nom up a :=
  continuous_iff_continuousAt.mpr fun a => (code2_hasDerivAt dn nom up a).continuousAt

theorem code2_fast_eq_slow (dn nom up a : ℝ) : fast2 dn nom up a = slow2 dn nom up a := by
  rw [fast2_real, slow2_real]
  by_cases h : (1 : ℝ) < a
  · have : (-1 : ℝ) ≤ a := by linarith
    simp only [h, this, if_true]; ring
  · by_cases h2 : (-1 : ℝ) ≤ a <;> simp only [h, h2, if_true, if_false] <;> ring

/-- **Finding F1 (repaired by `fix: code2 …`)** — code 2 as it stood: the value at `α = 1` is
`up − nom = 3`, but just above it is `3.5·(α − 1) ≈ 0`: a jump. -/
theorem code2_prefix_discontinuous_at_one :
    slow2_prefix (8 : ℝ) 10 13 1 = 3 ∧ ∀ a : ℝ, 1 < a → slow2_prefix (8 : ℝ) 10 13 a = 7 / 2 * (a - 1) := by
  constructor
  · rw [slow2_prefix_real, c2a_real, c2b_real]; norm_num
  · intro a h; rw [slow2_prefix_real, c2a_real, c2b_real]; simp only [h, if_true]; norm_num

/-- **Finding F1** — before the repair the vectorised and scalar versions disagreed below `−1`. -/
theorem code2_prefix_fast_ne_slow :
    fast2_prefix (8 : ℝ) 10 13 (-2) ≠ slow2_prefix (8 : ℝ) 10 13 (-2) := by
  rw [fast2_prefix_real, slow2_prefix_real, c2a_real, c2b_real]; norm_num

/-! ## code 4p -/

theorem code4p_neutral (dn nom up : ℝ) : slow4p dn nom up 0 = 0 := by
  rw [slow4p_real]; norm_num [core4p]
theorem code4p_at_plus_one (dn nom up : ℝ) : slow4p dn nom up 1 = up - nom := by
  rw [slow4p_real]; norm_num [core4p, s4p, a4p]; ring
theorem code4p_at_minus_one (dn nom up : ℝ) : slow4p dn nom up (-1) = dn - nom := by
  rw [slow4p_real]; norm_num [core4p, s4p, a4p]; ring

theorem code4p_extrapolation (dn nom up a : ℝ) :
    (1 < a → slow4p dn nom up a = (up - nom) * a) ∧ (a < -1 → slow4p dn nom up a = (nom - dn) * a) := by
  constructor
  · intro h; rw [slow4p_real]; simp only [h, if_true]
  · intro h
    have h1 : ¬ (1 : ℝ) < a := by linarith
    rw [slow4p_real]; simp only [h, h1, if_true, if_false]

theorem code4p_fast_eq_slow (dn nom up a : ℝ) : fast4p dn nom up a = slow4p dn nom up a := by
  rw [fast4p_real, slow4p_real]
  by_cases h : (1 : ℝ) < a
  · have : ¬ a < (-1 : ℝ) := by linarith
    simp only [h, this, if_true, if_false]; ring
  · by_cases h2 : a < (-1 : ℝ) <;> simp only [h, h2, if_true, if_false, core4p] <;> ring

/-- first derivative of code 4p -/
noncomputable def d4p (dn nom up a : ℝ) : ℝ :=
  if 1 < a then up - nom
  else if -1 < a then core4p' (s4p dn nom up) (a4p dn nom up) a
  else nom - dn

/-- second derivative of code 4p -/
noncomputable def dd4p (dn nom up a : ℝ) : ℝ :=
  if 1 < a then 0
  else if -1 < a then core4p'' (a4p dn nom up) a
  else 0

/-- code 4p is differentiable everywhere (C¹ seam at `±1`) -/
theorem code4p_c1 (dn nom up a : ℝ) : HasDerivAt (slow4p dn nom up) (d4p dn nom up a) a := by
  let S := s4p dn nom up
  let A := a4p dn nom up
  let G : ℝ → ℝ := fun a => if a < (-1 : ℝ) then (nom - dn) * a + 0 else core4p S A a
  have hG : ∀ x, HasDerivAt G (if (-1:ℝ) < x then core4p' S A x else nom - dn) x := by
    intro x
    refine hasDerivAt_glue (f := core4p S A) (g := fun a => (nom - dn) * a + 0)
      (f' := core4p' S A) (g' := fun _ => nom - dn) (-1) ?_ ?_ ?_ ?_ (core4p_hasDerivAt S A)
      (lin_hasDerivAt _ _) ?_ x
    · intro a h; simp only [G, h, if_true]
    · intro a h; simp only [G, not_lt.mpr h.le, if_false]
    · simp only [G, lt_irrefl, if_false]
    · simp only [G, lt_irrefl, if_false, core4p, S, A, s4p, a4p]; ring
    · simp only [core4p', S, A, s4p, a4p]; ring
  have key := hasDerivAt_glue (F := slow4p dn nom up) (f := fun a => (up - nom) * a + 0) (g := G)
      (f' := fun _ => up - nom) (g' := fun x => if (-1:ℝ) < x then core4p' S A x else nom - dn) 1
      ?_ ?_ ?_ ?_ (lin_hasDerivAt _ _) hG ?_ a
  · exact key
  · intro a h
    have h1 : ¬ (1:ℝ) < a := not_lt.mpr h.le
    rw [slow4p_real]; simp only [h1, if_false, G, S, A, add_zero]
  · intro a h; rw [slow4p_real]; simp only [h, if_true, add_zero]
  · rw [slow4p_real]; norm_num [core4p, s4p, a4p]; ring
  · rw [slow4p_real]; norm_num [G, S, A]
  · simp only [core4p', S, A, s4p, a4p]; norm_num; ring

/-- the derivative of code 4p is itself differentiable everywhere (C² seam at `±1`) -/
theorem code4p_c2 (dn nom up a : ℝ) : HasDerivAt (d4p dn nom up) (dd4p dn nom up a) a := by
  let S := s4p dn nom up
  let A := a4p dn nom up
  let G : ℝ → ℝ := fun a => if (-1 : ℝ) < a then core4p' S A a else nom - dn
  have hG : ∀ x, HasDerivAt G (if (-1:ℝ) < x then core4p'' A x else 0) x := by
    intro x
    refine hasDerivAt_glue (f := core4p' S A) (g := fun _ => nom - dn)
      (f' := core4p'' A) (g' := fun _ => 0) (-1) ?_ ?_ ?_ ?_ (core4p'_hasDerivAt S A)
      (fun x => hasDerivAt_const x _) ?_ x
    · intro a h; simp only [G, not_lt.mpr h.le, if_false]
    · intro a h; simp only [G, h, if_true]
    · simp only [G, lt_irrefl, if_false, core4p', S, A, s4p, a4p]; ring
    · simp only [G, lt_irrefl, if_false]
    · simp only [core4p'']; ring
  have key := hasDerivAt_glue (F := d4p dn nom up) (f := fun _ => up - nom) (g := G)
      (f' := fun _ => 0) (g' := fun x => if (-1:ℝ) < x then core4p'' A x else 0) 1
      ?_ ?_ ?_ ?_ (fun x => hasDerivAt_const x _) hG ?_ a
  · exact key
  · intro a h
    have h1 : ¬ (1:ℝ) < a := not_lt.mpr h.le
    simp only [d4p, h1, if_false, G, S, A]
  · intro a h; simp only [d4p, h, if_true]
  · simp only [d4p, lt_irrefl, if_false, core4p', s4p, a4p]; norm_num; ring
  · simp only [d4p, lt_irrefl, if_false, G, S, A]
  · simp only [core4p'']; norm_num

theorem code4p_continuous (dn nom up : ℝ) : Continuous fun a => slow4p dn nom up a :=
  continuous_iff_continuousAt.mpr fun a => (code4p_c1 dn nom up a).continuousAt

/-! ## code 4 -/

/-- **The typed inverse matrix is correct.** For every `α0 ≠ 0` and every right-hand side `b`,
the sextic `1 + Σ cᵢ αⁱ` with `c = A_inverse · b` (`A_inverse` exactly as typed in `code4.py`,
shared by the vectorised and scalar implementations, so the test-suite compares it with itself)
satisfies all six boundary conditions. -/
theorem code4_coefficients_solve_bc (a0 : ℝ) (h0 : a0 ≠ 0) (b : Vec6 ℝ) :
    poly6 (code4Coeffs a0 b) a0 = 1 + b.x1 ∧ poly6 (code4Coeffs a0 b) (-a0) = 1 + b.x2 ∧
    dpoly6 (code4Coeffs a0 b) a0 = b.x3 ∧ dpoly6 (code4Coeffs a0 b) (-a0) = b.x4 ∧
    ddpoly6 (code4Coeffs a0 b) a0 = b.x5 ∧ ddpoly6 (code4Coeffs a0 b) (-a0) = b.x6 := by
  simp only [poly6_real, dpoly6, ddpoly6, code4Coeffs, ipow_eq]
  scinorm
  refine ⟨?_, ?_, ?_, ?_, ?_, ?_⟩ <;> (field_simp; ring)

theorem code4_neutral (a0 dn nom up : ℝ) (h0 : 0 < a0) : slow4 realPrim a0 dn nom up 0 = 1 := by
  have h1 : ¬ a0 ≤ 0 := not_le.mpr h0
  have h2 : -a0 < 0 := by linarith
  simp only [slow4, h1, h2, if_true, if_false, poly6_real]; norm_num

theorem code4_at_plus_one (a0 dn nom up : ℝ) (h1 : a0 ≤ 1) :
    slow4 realPrim a0 dn nom up 1 = up / nom := by
  simp [slow4, h1]

theorem code4_at_minus_one (a0 dn nom up : ℝ) (h0 : 0 < a0) (h1 : a0 ≤ 1) :
    slow4 realPrim a0 dn nom up (-1) = dn / nom := by
  have h2 : ¬ a0 ≤ -1 := by linarith
  have h3 : ¬ -a0 < -1 := by linarith
  simp [slow4, h2, h3]

/-- exponent of the matching side beyond `±α0` -/
theorem code4_extrapolation (a0 dn nom up a : ℝ) (h0 : 0 < a0) :
    (a0 ≤ a → slow4 realPrim a0 dn nom up a = (up / nom) ^ a) ∧
    (a ≤ -a0 → slow4 realPrim a0 dn nom up a = (dn / nom) ^ (-a)) := by
  constructor
  · intro h; simp [slow4, h]
  · intro h
    have h2 : ¬ a0 ≤ a := by linarith
    have h3 : ¬ -a0 < a := by linarith
    simp [slow4, h2, h3]

theorem code4_fast_eq_slow (a0 dn nom up a : ℝ) (h0 : 0 < a0) :
    fast4 realPrim a0 dn nom up a = slow4 realPrim a0 dn nom up a := by
  unfold fast4 slow4 sel
  rw [absK_real]
  by_cases h : a0 ≤ a
  · have ha : 0 ≤ a := by linarith
    have h2 : -a0 < a := by linarith
    simp [h, h2, abs_of_nonneg ha]
  · by_cases h2 : -a0 < a
    · have h3 : ¬ a0 ≤ |a| := by
        rw [not_le, abs_lt]; exact ⟨h2, not_le.mp h⟩
      simp [h, h2, h3]
    · have ha : a ≤ 0 := by linarith
      have h3 : a0 ≤ -a := by linarith
      simp [h, h2, h3, abs_of_nonpos ha]

/-- the three pieces of code 4 and their derivatives -/
noncomputable def up4 (du a : ℝ) : ℝ := du ^ a
noncomputable def dn4 (dd a : ℝ) : ℝ := dd ^ (-a)

theorem up4_hasDerivAt (du : ℝ) (h : 0 < du) (a : ℝ) :
    HasDerivAt (up4 du) (Real.log du * du ^ a) a := by
  have := (hasDerivAt_id' a).const_rpow h
  refine this.congr_deriv ?_; ring

theorem up4'_hasDerivAt (du : ℝ) (h : 0 < du) (a : ℝ) :
    HasDerivAt (fun a => Real.log du * du ^ a) (Real.log du ^ 2 * du ^ a) a := by
  have := ((hasDerivAt_id' a).const_rpow h).const_mul (Real.log du)
  refine this.congr_deriv ?_; ring

theorem dn4_hasDerivAt (dd : ℝ) (h : 0 < dd) (a : ℝ) :
    HasDerivAt (dn4 dd) (-Real.log dd * dd ^ (-a)) a := by
  have := (hasDerivAt_neg' a).const_rpow h
  refine this.congr_deriv ?_; ring

theorem dn4'_hasDerivAt (dd : ℝ) (h : 0 < dd) (a : ℝ) :
    HasDerivAt (fun a => -Real.log dd * dd ^ (-a)) (Real.log dd ^ 2 * dd ^ (-a)) a := by
  have := ((hasDerivAt_neg' a).const_rpow h).const_mul (-Real.log dd)
  refine this.congr_deriv ?_; ring

/-- first derivative of code 4 -/
noncomputable def d4 (a0 dn nom up a : ℝ) : ℝ :=
  if a0 < a then Real.log (up / nom) * (up / nom) ^ a
  else if -a0 < a then dpoly6 (code4Coeffs a0 (code4Rhs realPrim a0 (up / nom) (dn / nom))) a
  else -Real.log (dn / nom) * (dn / nom) ^ (-a)

/-- second derivative of code 4 -/
noncomputable def dd4 (a0 dn nom up a : ℝ) : ℝ :=
  if a0 < a then Real.log (up / nom) ^ 2 * (up / nom) ^ a
  else if -a0 < a then ddpoly6 (code4Coeffs a0 (code4Rhs realPrim a0 (up / nom) (dn / nom))) a
  else Real.log (dn / nom) ^ 2 * (dn / nom) ^ (-a)

/-- code 4 is differentiable on the whole line: value and slope of the sextic match the
exponential pieces at `±α0` -/
theorem code4_c1 (a0 dn nom up a : ℝ) (h0 : 0 < a0) (hd : 0 < dn) (hn : 0 < nom) (hu : 0 < up) :
    HasDerivAt (slow4 realPrim a0 dn nom up) (d4 a0 dn nom up a) a := by
  have hdu : 0 < up / nom := div_pos hu hn
  have hdd : 0 < dn / nom := div_pos hd hn
  generalize hc : code4Coeffs a0 (code4Rhs realPrim a0 (up / nom) (dn / nom)) = c
  obtain ⟨b1, b2, b3, b4, _, _⟩ := code4_coefficients_solve_bc a0 h0.ne'
    (code4Rhs realPrim a0 (up / nom) (dn / nom))
  rw [hc] at b1 b2 b3 b4
  simp only [code4Rhs, realPrim_pow, realPrim_log] at b1 b2 b3 b4
  let G : ℝ → ℝ := fun a => if -a0 < a then poly6 c a else dn4 (dn / nom) a
  have hG : ∀ x, HasDerivAt G (if -a0 < x then dpoly6 c x else -Real.log (dn / nom) * (dn / nom) ^ (-x)) x := by
    intro x
    refine hasDerivAt_glue (f := poly6 c) (g := dn4 (dn / nom)) (f' := dpoly6 c)
      (g' := fun x => -Real.log (dn / nom) * (dn / nom) ^ (-x)) (-a0) ?_ ?_ ?_ ?_
      (poly6_hasDerivAt c) (dn4_hasDerivAt _ hdd) ?_ x
    · intro a h; simp only [G, not_lt.mpr h.le, if_false]
    · intro a h; simp only [G, h, if_true]
    · simp only [G, lt_irrefl, if_false, dn4, neg_neg]; rw [b2]; ring
    · simp only [G, lt_irrefl, if_false]
    · rw [b4]; simp
  have key := hasDerivAt_glue (F := slow4 realPrim a0 dn nom up) (f := up4 (up / nom)) (g := G)
      (f' := fun x => Real.log (up / nom) * (up / nom) ^ x)
      (g' := fun x => if -a0 < x then dpoly6 c x else -Real.log (dn / nom) * (dn / nom) ^ (-x)) a0
      ?_ ?_ ?_ ?_ (up4_hasDerivAt _ hdu) hG ?_ a
  · simp only [d4, hc]; exact key
  · intro a h
    have h1 : ¬ a0 ≤ a := not_le.mpr h
    simp only [slow4, h1, if_false, G, hc, realPrim_pow, dn4]
  · intro a h; simp only [slow4, h.le, if_true, realPrim_pow, up4]
  · simp only [slow4, le_refl, if_true, realPrim_pow, up4]
  · have h2 : -a0 < a0 := by linarith
    simp only [slow4, le_refl, if_true, realPrim_pow, G, h2]; rw [b1]; ring
  · have h2 : -a0 < a0 := by linarith
    simp only [h2, if_true]; rw [b3]

/-- the derivative of code 4 is itself differentiable: curvature matches at `±α0` (C²) -/
theorem code4_c2 (a0 dn nom up a : ℝ) (h0 : 0 < a0) (hd : 0 < dn) (hn : 0 < nom) (hu : 0 < up) :
    HasDerivAt (d4 a0 dn nom up) (dd4 a0 dn nom up a) a := by
  have hdu : 0 < up / nom := div_pos hu hn
  have hdd : 0 < dn / nom := div_pos hd hn
  generalize hc : code4Coeffs a0 (code4Rhs realPrim a0 (up / nom) (dn / nom)) = c
  obtain ⟨_, _, b3, b4, b5, b6⟩ := code4_coefficients_solve_bc a0 h0.ne'
    (code4Rhs realPrim a0 (up / nom) (dn / nom))
  rw [hc] at b3 b4 b5 b6
  simp only [code4Rhs, realPrim_pow, realPrim_log, ipow_eq] at b3 b4 b5 b6
  let G : ℝ → ℝ := fun a => if -a0 < a then dpoly6 c a else -Real.log (dn / nom) * (dn / nom) ^ (-a)
  have hG : ∀ x, HasDerivAt G (if -a0 < x then ddpoly6 c x else Real.log (dn / nom) ^ 2 * (dn / nom) ^ (-x)) x := by
    intro x
    refine hasDerivAt_glue (f := dpoly6 c) (g := fun a => -Real.log (dn / nom) * (dn / nom) ^ (-a))
      (f' := ddpoly6 c) (g' := fun x => Real.log (dn / nom) ^ 2 * (dn / nom) ^ (-x)) (-a0) ?_ ?_ ?_ ?_
      (dpoly6_hasDerivAt c) (dn4'_hasDerivAt _ hdd) ?_ x
    · intro a h; simp only [G, not_lt.mpr h.le, if_false]
    · intro a h; simp only [G, h, if_true]
    · simp only [G, lt_irrefl, if_false, neg_neg]; rw [b4]
    · simp only [G, lt_irrefl, if_false]
    · rw [b6]; simp
  have key := hasDerivAt_glue (F := d4 a0 dn nom up) (f := fun x => Real.log (up / nom) * (up / nom) ^ x) (g := G)
      (f' := fun x => Real.log (up / nom) ^ 2 * (up / nom) ^ x)
      (g' := fun x => if -a0 < x then ddpoly6 c x else Real.log (dn / nom) ^ 2 * (dn / nom) ^ (-x)) a0
      ?_ ?_ ?_ ?_ (up4'_hasDerivAt _ hdu) hG ?_ a
  · simp only [dd4, hc]; exact key
  · intro a h
    have h1 : ¬ a0 < a := not_lt.mpr h.le
    simp only [d4, h1, if_false, G, hc]
  · intro a h; simp only [d4, h, if_true]
  · have h2 : -a0 < a0 := by linarith
    simp only [d4, lt_irrefl, if_false, h2, if_true, hc]; rw [b3]
  · simp only [d4, lt_irrefl, if_false, G, hc]
  · have h2 : -a0 < a0 := by linarith
    simp only [h2, if_true]; rw [b5]

theorem code4_continuous (a0 dn nom up : ℝ) (h0 : 0 < a0) (hd : 0 < dn) (hn : 0 < nom) (hu : 0 < up) :
    Continuous fun a => slow4 realPrim a0 dn nom up a :=
  continuous_iff_continuousAt.mpr fun a => (code4_c1 a0 dn nom up a h0 hd hn hu).continuousAt

/-! ## call history (cache state machine) -/

/-- run a history of calls and backend switches; the second component is the backend tag that
is current after the history (a `backendChanged t` step is the subscription callback fired by
the switch to `t`) -/
def runHistory (c : Cache) (cur : Nat) : List Op → Cache × Nat
  | [] => (c, cur)
  | .call s :: ops => runHistory (c.step (.call s)) cur ops
  | .backendChanged t :: ops => runHistory (c.step (.backendChanged t)) t ops

/-- Invariant: the cached tensors live on the current backend. -/
theorem cache_backend_inv (c : Cache) (cur : Nat) (ops : List Op) (h : c.backend = cur) :
    (runHistory c cur ops).1.backend = (runHistory c cur ops).2 := by
  induction ops generalizing c cur with
  | nil => simpa [runHistory]
  | cons op ops ih =>
    cases op with
    | call s =>
      simp only [runHistory]
      apply ih
      simp only [Cache.step, Cache.precomputeAlphasets]
      split <;> simpa
    | backendChanged t =>
      simp only [runHistory]
      apply ih
      simp [Cache.step, Cache.precompute]

/-- **Call-history independence.** After *any* history of calls with arbitrary alpha-set shapes
and backend switches, the cache used to evaluate a call with shape `s` is exactly the cache a
fresh interpolator created on the current backend uses for that call: masks/bases of shape `s`
on the current backend. -/
theorem call_history_independent (nsysts tag : Nat) (ops : List Op) (s : Nat × Nat) :
    let r := runHistory (Cache.init nsysts tag) tag ops
    r.1.step (.call s) = (Cache.init nsysts r.2).step (.call s) := by
  intro r
  have hb : r.1.backend = r.2 := cache_backend_inv _ _ ops rfl
  simp only [Cache.step, Cache.precomputeAlphasets, Cache.init]
  by_cases h1 : s = r.1.shape <;> by_cases h2 : s = (nsysts, 1) <;>
    simp [h1, h2, ← hb] <;> (cases hr : r.1; simp_all)

end Pyhf.Props.C03
