import PyhfGen.Exceptions
import PyhfModel.Spec
/-!
# C20 (continued) — "a pyhf exception" refers to classes that exist *now*

`PyhfGen/Exceptions.lean` is regenerated on every C20 run from the running `pyhf.exceptions` module.  The construction-path model
(`PyhfModel/Spec.lean`, `Err`) names the failure classes of `pyhf.Model(...)`; the theorems of `C20.lean` / `C20_Reject.lean` speak of
refusals "with a pyhf exception" through `Err.isPyhf`.  Here: the classes the model marks as pyhf's own are exactly those of its
classes that `pyhf.exceptions` defines under these names, none of the Python builtins it distinguishes is shadowed by a pyhf class, and
pyhf's classes derive from `Exception` only.
-/
namespace Pyhf.Props.C20
open Pyhf Pyhf.Gen

def allErrs : List Err :=
  [.invalidModel, .invalidModifier, .invalidNameReuse, .invalidSpecification, .invalidPdfParameters, .invalidPdfData,
   .pyAssertion, .pyTypeError, .pyValueError, .pyRuntimeError, .pyKeyError, .pyIndexError]

/-- the list is exhaustive -/
theorem allErrs_complete (e : Err) : e ∈ allErrs := by cases e <;> decide

/-- **`isPyhf` ⇔ defined in `pyhf.exceptions`**, for every failure class of the model -/
theorem gen_isPyhf_iff_defined (e : Err) : e.isPyhf = pyhfExceptionClasses.contains e.str := by cases e <;> decide

/-- pyhf's exception classes derive from `Exception` / `BaseException` only -/
theorem gen_pyhf_exceptions_plain : pyhfExceptionBases = ["BaseException", "Exception"] := by decide

end Pyhf.Props.C20
