import PyhfProofs.Lemmas.Overrides
import PyhfProofs.Lemmas.PermInv3
/-!
# C12 (continued) — overrides verbatim, defaults otherwise; order independence of every reported quantity

`reduceOne` models `reduce_paramsets_requirements` for one parameter name: the (agreeing) requirements of the modifiers that
use the name, merged with the measurement's configuration entry.  `Lemmas/Overrides.lean` characterises acceptance completely
(`reduceOne_ok_iff`); the theorems below are read off from it.  Quirks of the code that make the "obvious" statement false are
part of the statements (a supplied `sigmas` on a zero-size parameter set is dropped; a measurement-level `fixed` replaces the whole
per-component tuple, so `fixed: false` un-fixes the zero-width bins the builder had fixed).
-/
namespace Pyhf.Props.C12
open Pyhf Pyhf.Overrides

section
variable {K : Type} [Add K] [Sub K] [Mul K] [Div K] [Neg K] [OfNat K 0] [OfNat K 1] [OfScientific K] [LT K] [DecidableLT K] [BEq K]

/-- a supplied list of initial values is taken verbatim (and has one entry per component) -/
theorem overrides_verbatim_inits (name : String) (rs : List (Req K)) (c : ParCfg K) (p : Paramset K) (v : List K)
    (h : reduceOne name rs (some c) = .ok p) (hv : c.inits = some v) : p.inits = some v ∧ v.length = p.n :=
  override_inits_verbatim h hv

theorem overrides_verbatim_bounds (name : String) (rs : List (Req K)) (c : ParCfg K) (p : Paramset K) (v : List (K × K))
    (h : reduceOne name rs (some c) = .ok p) (hv : c.bounds = some v) : p.bounds = some v ∧ v.length = p.n :=
  override_bounds_verbatim h hv

theorem overrides_verbatim_auxdata (name : String) (rs : List (Req K)) (c : ParCfg K) (p : Paramset K) (v : List K)
    (h : reduceOne name rs (some c) = .ok p) (hv : c.auxdata = some v) : p.auxdata = some v ∧ v.length = p.n :=
  override_auxdata_verbatim h hv

theorem overrides_verbatim_factors (name : String) (rs : List (Req K)) (c : ParCfg K) (p : Paramset K) (v : List K)
    (h : reduceOne name rs (some c) = .ok p) (hv : c.factors = some v) : p.factors = v ∧ v.length = p.n :=
  override_factors_verbatim h hv

/-- supplied constraint widths are taken verbatim — except on a parameter set without components, where the code drops them -/
theorem overrides_verbatim_sigmas (name : String) (rs : List (Req K)) (c : ParCfg K) (p : Paramset K) (v : List K)
    (h : reduceOne name rs (some c) = .ok p) (hv : c.sigmas = some v) :
    p.sigmas = (if p.n = 0 then none else some v) ∧ v.length = p.n :=
  override_sigmas_verbatim h hv

/-- a supplied `fixed` flag applies to every component -/
theorem overrides_verbatim_fixed (name : String) (rs : List (Req K)) (c : ParCfg K) (p : Paramset K) (b : Bool)
    (h : reduceOne name rs (some c) = .ok p) (hv : c.fixed = some b) :
    p.fixed = FixedV.all b ∧ p.fixed.expand p.n = List.replicate p.n b :=
  override_fixed_verbatim h hv

/-- without a configuration entry every attribute is the modifier type's default -/
theorem defaults_otherwise (name : String) (r : Req K) (rest : List (Req K)) (p : Paramset K)
    (h : reduceOne name (r :: rest) none = .ok p) :
    p.inits = Fld.toOption r.inits ∧ p.bounds = Fld.toOption r.bounds ∧ p.auxdata = Fld.toOption r.auxdata ∧
    p.sigmas = (Fld.toOption r.sigmas).filter (fun l => !l.isEmpty) ∧ p.factors = (Fld.toOption r.factors).getD [] ∧ p.fixed = r.fixed :=
  defaults_without_config h

/-- an override of the wrong length is refused with a pyhf exception -/
theorem override_wrong_length_refused (name : String) (r : Req K) (rest : List (Req K)) (c : ParCfg K)
    (hbad : (∃ v, c.inits = some v ∧ v.length ≠ r.n) ∨ (∃ v, c.bounds = some v ∧ v.length ≠ r.n) ∨
      (∃ v, c.auxdata = some v ∧ v.length ≠ r.n) ∨ (∃ v, c.factors = some v ∧ v.length ≠ r.n) ∨ (∃ v, c.sigmas = some v ∧ v.length ≠ r.n)) :
    reduceOne name (r :: rest) (some c) = .error (if rest.any (fun r' => !(r' == r)) then .invalidNameReuse else .invalidModel) :=
  override_wrong_length_rejected name r rest c hbad

/-- every parameter set of a created model is the result of `reduceOne` on its own name (so the theorems above apply to it) -/
theorem created_paramsets_are_reduced (P : Prim K) [LE K] [DecidableLE K] (s : Spec K) (cfg : Config) (ps : List (Paramset K))
    (h : createParamsets P s cfg = .ok ps) :
    ∀ p ∈ ps, ∃ rs, reduceOne p.name rs (s.parameters.find? (·.name == p.name)) = .ok p :=
  createParamsets_mem P s cfg ps h

end
end Pyhf.Props.C12
