import PyhfModel.Events
import Mathlib.Data.List.Basic
import Mathlib.Data.List.GetD
import Mathlib.Tactic.Linarith
/-!
# C11 — results are independent of the history of backend switches
Invariant over all operation histories of the subscription state machine.
-/
namespace Pyhf.Props.C11
open Pyhf.Events

/-! ### `_precompute` touches one object only -/

theorem obj_set_ne (objs : List Obj) (i j : Nat) (o : Obj) (h : j ≠ i) : (objs.set i o).getD j dead = objs.getD j dead := by
  simp [List.getD_eq_getElem?_getD, List.getElem?_set_ne (Ne.symm h)]

theorem obj_set_eq (objs : List Obj) (i : Nat) (o : Obj) (h : i < objs.length) : (objs.set i o).getD i dead = o := by
  simp [List.getD_eq_getElem?_getD, List.getElem?_set_self h]

theorem obj_alive_lt (s : St) (i : Nat) (h : (s.obj i).alive = true) : i < s.objs.length := by
  by_contra hc
  unfold St.obj at h
  rw [List.getD_eq_default _ _ (by omega)] at h
  cases h

theorem precompute_cur (s : St) (i : Nat) : (precompute s i).cur = s.cur := by unfold precompute; dsimp only; split <;> rfl
theorem precompute_reg (s : St) (i : Nat) : (precompute s i).reg = s.reg := by unfold precompute; dsimp only; split <;> rfl
theorem precompute_len (s : St) (i : Nat) : (precompute s i).objs.length = s.objs.length := by
  unfold precompute; dsimp only; split <;> simp

theorem precompute_obj_ne (s : St) (i j : Nat) (h : j ≠ i) : (precompute s i).obj j = s.obj j := by
  unfold precompute; dsimp only; split
  · exact obj_set_ne _ _ _ _ h
  · rfl

theorem precompute_alive (s : St) (i j : Nat) : ((precompute s i).obj j).alive = (s.obj j).alive := by
  by_cases h : j = i
  · subst h
    unfold precompute
    by_cases ha : (s.obj j).alive = true
    · simp only [ha, if_true]
      show ((s.objs.set j _).getD j dead).alive = _
      rw [obj_set_eq _ _ _ (obj_alive_lt s j ha)]
    · simp [ha]
  · rw [precompute_obj_ne s i j h]

theorem precompute_deps (s : St) (i j : Nat) : ((precompute s i).obj j).deps = (s.obj j).deps := by
  by_cases h : j = i
  · subst h
    unfold precompute
    by_cases ha : (s.obj j).alive = true
    · simp only [ha, if_true]
      show ((s.objs.set j _).getD j dead).deps = _
      rw [obj_set_eq _ _ _ (obj_alive_lt s j ha)]
    · simp [ha]
  · rw [precompute_obj_ne s i j h]

theorem precompute_self (s : St) (i : Nat) (ha : (s.obj i).alive = true) :
    ((precompute s i).obj i).tag = s.cur ∧ ((precompute s i).obj i).depTags = (s.obj i).deps.map (fun d => (s.obj d).tag) := by
  unfold precompute
  simp only [ha, if_true]
  show ((s.objs.set i _).getD i dead).tag = _ ∧ ((s.objs.set i _).getD i dead).depTags = _
  rw [obj_set_eq _ _ _ (obj_alive_lt s i ha)]
  exact ⟨rfl, rfl⟩

/-! ### the invariant -/

structure Inv (s : St) : Prop where
  reg_lt : ∀ i ∈ s.reg, i < s.objs.length
  reg_sorted : s.reg.Pairwise (· < ·)
  alive_reg : ∀ i, (s.obj i).alive = true → i ∈ s.reg
  deps_ok : ∀ i, (s.obj i).alive = true → ∀ d ∈ (s.obj i).deps, d < i ∧ (s.obj d).alive = true
  fresh : ∀ i, (s.obj i).alive = true → (s.obj i).tag = s.cur ∧ (s.obj i).depTags = (s.obj i).deps.map (fun _ => s.cur)

/-- everything but freshness (what survives storing a new current backend) -/
structure Shape (s : St) : Prop where
  reg_lt : ∀ i ∈ s.reg, i < s.objs.length
  reg_sorted : s.reg.Pairwise (· < ·)
  alive_reg : ∀ i, (s.obj i).alive = true → i ∈ s.reg
  deps_ok : ∀ i, (s.obj i).alive = true → ∀ d ∈ (s.obj i).deps, d < i ∧ (s.obj d).alive = true

/-- running the callbacks of `rest` after those of `done` (registry = `done ++ rest`) refreshes every live object -/
theorem fold_refresh (reg : List Nat) (hs : reg.Pairwise (· < ·)) :
    ∀ (rest done : List Nat) (s : St), done ++ rest = reg → s.reg = reg → Shape s →
      (∀ i ∈ done, (s.obj i).alive = true → (s.obj i).tag = s.cur ∧ (s.obj i).depTags = (s.obj i).deps.map (fun _ => s.cur)) →
      let s' := rest.foldl precompute s
      s'.cur = s.cur ∧ s'.reg = reg ∧ Shape s' ∧ (∀ j, (s'.obj j).alive = (s.obj j).alive) ∧
      (∀ i ∈ reg, (s'.obj i).alive = true → (s'.obj i).tag = s'.cur ∧ (s'.obj i).depTags = (s'.obj i).deps.map (fun _ => s'.cur)) := by
  intro rest
  induction rest with
  | nil =>
    intro done s hd hr hsh hdone
    simp only [List.append_nil] at hd
    subst hd
    exact ⟨rfl, hr, hsh, fun _ => rfl, hdone⟩
  | cons r rest ih =>
    intro done s hd hr hsh hdone
    simp only [List.foldl_cons]
    -- state after the callback of `r`
    have hsh' : Shape (precompute s r) := by
      refine ⟨?_, ?_, ?_, ?_⟩
      · intro i hi; rw [precompute_reg] at hi; rw [precompute_len]; exact hsh.reg_lt i hi
      · rw [precompute_reg]; exact hsh.reg_sorted
      · intro i hi; rw [precompute_alive] at hi; rw [precompute_reg]; exact hsh.alive_reg i hi
      · intro i hi d hdm
        rw [precompute_alive] at hi; rw [precompute_deps] at hdm
        obtain ⟨h1, h2⟩ := hsh.deps_ok i hi d hdm
        exact ⟨h1, by rw [precompute_alive]; exact h2⟩
    have hdone' : ∀ i ∈ done ++ [r], ((precompute s r).obj i).alive = true →
        ((precompute s r).obj i).tag = (precompute s r).cur ∧
        ((precompute s r).obj i).depTags = ((precompute s r).obj i).deps.map (fun _ => (precompute s r).cur) := by
      intro i hi hal
      rw [precompute_alive] at hal
      rw [precompute_cur, precompute_deps]
      rcases List.mem_append.mp hi with hid | hid
      · -- an earlier object: untouched unless it is `r` itself (impossible: the registry is strictly increasing)
        have hne : i ≠ r := by
          intro h
          rw [← hd] at hs
          have := (List.pairwise_append.mp hs).2.2 i hid r (by simp)
          omega
        rw [precompute_obj_ne s r i hne]
        exact hdone i hid hal
      · have : i = r := by simpa using hid
        subst this
        obtain ⟨h1, h2⟩ := precompute_self s i hal
        refine ⟨h1, ?_⟩
        rw [h2]
        apply List.map_congr_left
        intro d hdm
        obtain ⟨hlt, hda⟩ := hsh.deps_ok i hal d hdm
        have hdreg : d ∈ reg := hr ▸ hsh.alive_reg d hda
        rw [← hd] at hdreg hs
        have hddone : d ∈ done := by
          rcases List.mem_append.mp hdreg with h | h
          · exact h
          · exfalso
            rcases List.mem_cons.mp h with h | h
            · omega
            · have := (List.pairwise_cons.mp (List.pairwise_append.mp hs).2.1).1 d h
              omega
        exact (hdone d hddone hda).1
    have := ih (done ++ [r]) (precompute s r) (by simp [hd]) (by rw [precompute_reg]; exact hr) hsh' hdone'
    obtain ⟨c1, c2, c3, c4, c5⟩ := this
    refine ⟨by rw [c1, precompute_cur], c2, c3, ?_, c5⟩
    intro j; rw [c4, precompute_alive]

/-- **after a backend switch every live object is fresh** -/
theorem fire_inv (s : St) (hsh : Shape s) : Inv (fire s) := by
  have h := fold_refresh s.reg hsh.reg_sorted s.reg [] s (by simp) rfl hsh (by simp)
  obtain ⟨c1, c2, c3, c4, c5⟩ := h
  unfold fire
  set s' := s.reg.foldl precompute s with hs'
  refine ⟨?_, ?_, ?_, ?_, ?_⟩
  · intro i hi; exact c3.reg_lt i (List.mem_of_mem_filter hi)
  · exact c3.reg_sorted.sublist List.filter_sublist
  · intro i hi
    show i ∈ s'.reg.filter _
    exact List.mem_filter.mpr ⟨c3.alive_reg i hi, hi⟩
  · exact c3.deps_ok
  · intro i hi
    exact c5 i (c2 ▸ c3.alive_reg i hi) hi

/-! ### every operation preserves the invariant -/

/-- admissible operations: parts of a new object exist and are alive; only objects nobody alive owns are deleted -/
def OpOK (s : St) : Op → Prop
  | .setBackend _ => True
  | .create deps => ∀ d ∈ deps, (s.obj d).alive = true
  | .delete id => ∀ j, (s.obj j).alive = true → id ∉ (s.obj j).deps

theorem inv_shape (s : St) (h : Inv s) : Shape s := ⟨h.reg_lt, h.reg_sorted, h.alive_reg, h.deps_ok⟩

theorem inv_init : Inv init := by
  refine ⟨by simp [init], by simp [init], ?_, ?_, ?_⟩ <;> intro i hi <;> simp [init, St.obj, dead] at hi

theorem inv_step (s : St) (op : Op) (h : Inv s) (hok : OpOK s op) : Inv (step s op) := by
  cases op with
  | setBackend t =>
    simp only [step]
    split
    · exact h
    · exact fire_inv _ ⟨h.reg_lt, h.reg_sorted, h.alive_reg, h.deps_ok⟩
  | create deps =>
    simp only [step]
    have hobj_old : ∀ j, j < s.objs.length → St.obj { s with objs := s.objs ++ [⟨true, deps, s.cur, deps.map fun d => (s.obj d).tag⟩], reg := s.reg ++ [s.objs.length] } j = s.obj j := by
      intro j hj; show (s.objs ++ [_]).getD j dead = s.objs.getD j dead; exact List.getD_append _ _ _ _ hj
    have hobj_new : St.obj { s with objs := s.objs ++ [⟨true, deps, s.cur, deps.map fun d => (s.obj d).tag⟩], reg := s.reg ++ [s.objs.length] } s.objs.length
        = ⟨true, deps, s.cur, deps.map fun d => (s.obj d).tag⟩ := by
      show (s.objs ++ [_]).getD s.objs.length dead = _
      rw [List.getD_append_right _ _ _ _ (le_refl _)]; simp
    have hobj_out : ∀ j, s.objs.length < j → St.obj { s with objs := s.objs ++ [⟨true, deps, s.cur, deps.map fun d => (s.obj d).tag⟩], reg := s.reg ++ [s.objs.length] } j = dead := by
      intro j hj; show (s.objs ++ [_]).getD j dead = dead
      exact List.getD_eq_default _ _ (by simp; omega)
    have cases3 : ∀ j, j < s.objs.length ∨ j = s.objs.length ∨ s.objs.length < j := fun j => by omega
    refine ⟨?_, ?_, ?_, ?_, ?_⟩
    · intro i hi
      simp only [List.mem_append, List.mem_singleton, List.length_append, List.length_singleton] at hi ⊢
      rcases hi with hi | hi
      · have := h.reg_lt i hi; omega
      · omega
    · simp only [List.pairwise_append, List.pairwise_singleton, List.mem_singleton, true_and]
      exact ⟨h.reg_sorted, fun a ha b hb => hb ▸ h.reg_lt a ha⟩
    · intro i hi
      rcases cases3 i with hlt | heq | hgt
      · rw [hobj_old i hlt] at hi; exact List.mem_append_left _ (h.alive_reg i hi)
      · subst heq; simp
      · rw [hobj_out i hgt] at hi; cases hi
    · intro i hi d hdm
      rcases cases3 i with hlt | heq | hgt
      · rw [hobj_old i hlt] at hi hdm
        obtain ⟨h1, h2⟩ := h.deps_ok i hi d hdm
        exact ⟨h1, by rw [hobj_old d (by omega)]; exact h2⟩
      · subst heq
        rw [hobj_new] at hdm
        have hda := hok d hdm
        have hdl := obj_alive_lt s d hda
        exact ⟨hdl, by rw [hobj_old d hdl]; exact hda⟩
      · rw [hobj_out i hgt] at hi; cases hi
    · intro i hi
      rcases cases3 i with hlt | heq | hgt
      · rw [hobj_old i hlt] at hi ⊢; exact h.fresh i hi
      · subst heq
        rw [hobj_new]
        refine ⟨rfl, ?_⟩
        apply List.map_congr_left
        intro d hdm
        exact (h.fresh d (hok d hdm)).1
      · rw [hobj_out i hgt] at hi; cases hi
  | delete id =>
    simp only [step]
    have hobj_ne : ∀ j, j ≠ id → St.obj { s with objs := s.objs.set id { s.obj id with alive := false } } j = s.obj j := by
      intro j hj; exact obj_set_ne _ _ _ _ hj
    have hobj_id : (St.obj { s with objs := s.objs.set id { s.obj id with alive := false } } id).alive = false := by
      by_cases hl : id < s.objs.length
      · show ((s.objs.set id _).getD id dead).alive = false
        rw [obj_set_eq _ _ _ hl]
      · show ((s.objs.set id _).getD id dead).alive = false
        rw [List.getD_eq_default _ _ (by simp; omega)]; rfl
    refine ⟨?_, h.reg_sorted, ?_, ?_, ?_⟩
    · intro i hi; simp only [List.length_set]; exact h.reg_lt i hi
    · intro i hi
      by_cases hid : i = id
      · subst hid; rw [hobj_id] at hi; cases hi
      · rw [hobj_ne i hid] at hi; exact h.alive_reg i hi
    · intro i hi d hdm
      by_cases hid : i = id
      · subst hid; rw [hobj_id] at hi; cases hi
      · rw [hobj_ne i hid] at hi hdm
        obtain ⟨h1, h2⟩ := h.deps_ok i hi d hdm
        have hdne : d ≠ id := fun hd => hok i hi (hd ▸ hdm)
        exact ⟨h1, by rw [hobj_ne d hdne]; exact h2⟩
    · intro i hi
      by_cases hid : i = id
      · subst hid; rw [hobj_id] at hi; cases hi
      · rw [hobj_ne i hid] at hi ⊢; exact h.fresh i hi

/-- admissible histories -/
def HistOK : St → List Op → Prop
  | _, [] => True
  | s, op :: ops => OpOK s op ∧ HistOK (step s op) ops

/-- **the invariant holds in every reachable state** (induction over the operation list) -/
theorem inv_reachable (ops : List Op) (s : St) (h : Inv s) (hok : HistOK s ops) : Inv (run s ops) := by
  induction ops generalizing s with
  | nil => exact h
  | cons op ops ih =>
    simp only [run, List.foldl_cons]
    exact ih (step s op) (inv_step s op h hok.1) hok.2

/-- **history independence**: after any history of switches, creations and deletions, evaluating any live object
observes exactly what a freshly created object with the same parts observes under the now-current backend -/
theorem eval_eq_fresh (ops : List Op) (hok : HistOK init ops) (i : Nat) (hal : ((run init ops).obj i).alive = true) :
    eval (run init ops) i = fresh (run init ops) i := by
  have h := inv_reachable ops init inv_init hok
  obtain ⟨h1, h2⟩ := h.fresh i hal
  simp [eval, fresh, h1, h2]

/-- switching to the backend that is already current fires no event and changes nothing -/
theorem no_event_without_change (s : St) : step s (.setBackend s.cur) = s := by simp [step]

/-- dead objects are never called: a callback on a dead object leaves the state untouched -/
theorem dead_never_called (s : St) (i : Nat) (h : (s.obj i).alive = false) : precompute s i = s := by
  unfold precompute; simp [h]

/-- after a switch no dead reference is left in the registry -/
theorem flush_after_switch (s : St) (t : Nat) (ht : t ≠ s.cur) :
    ∀ i ∈ (step s (.setBackend t)).reg, ((step s (.setBackend t)).obj i).alive = true := by
  intro i hi
  simp only [step, ht, if_false, fire] at hi ⊢
  exact (List.mem_filter.mp hi).2

end Pyhf.Props.C11
