import PyhfModel.PatchSet
import PyhfProofs.Lemmas.Dump
import Mathlib.Data.List.Nodup
import Mathlib.Data.List.Basic
/-!
# C17 — patch sets look up, verify and apply patches exactly
-/
set_option linter.unusedSectionVars false
namespace Pyhf.Props.C17
open Pyhf.PatchSet

variable {V : Type} [DecidableEq V]

def keys (d : Dict V) : List (Key V) := d.map (·.1)

theorem has_iff (d : Dict V) (k : Key V) : d.has k = true ↔ k ∈ keys d := by
  unfold Dict.has Dict.get? keys
  rw [Option.isSome_map, List.find?_isSome]
  constructor
  · rintro ⟨x, hx, hk⟩; exact List.mem_map.mpr ⟨x, hx, by simpa using hk⟩
  · intro h
    obtain ⟨x, hx, hk⟩ := List.mem_map.mp h
    exact ⟨x, hx, by simpa using hk⟩

/-- the keys held by the dictionary after a successful construction: for the patch at position `j`, its name and
its value tuple, both mapped to `j` -/
def entries (i : Nat) (ps : List (Meta V)) : Dict V :=
  (ps.zipIdx i).flatMap fun pj => [(Key.name pj.1.name, pj.2), (Key.values pj.1.values, pj.2)]

theorem entries_cons (i : Nat) (p : Meta V) (ps : List (Meta V)) :
    entries i (p :: ps) = [(Key.name p.name, i), (Key.values p.values, i)] ++ entries (i + 1) ps := by
  simp [entries, List.zipIdx_cons]

theorem keys_app (d : Dict V) (a : String) (b : List V) (i : Nat) (k : Key V) :
    k ∈ keys (d ++ [(Key.name a, i), (Key.values b, i)]) ↔ k ∈ keys d ∨ k = Key.name a ∨ k = Key.values b := by
  simp [keys]

/-- **the constructor succeeds exactly when its checks pass, and then holds exactly the expected entries** -/
theorem buildFrom_ok_iff (nlabels : Nat) (d : Dict V) (i : Nat) (ps : List (Meta V)) (d' : Dict V) :
    buildFrom nlabels d i ps = .ok d' ↔ (d' = d ++ entries i ps ∧
      (∀ p ∈ ps, Key.name p.name ∉ keys d ∧ Key.values p.values ∉ keys d ∧ p.values.length = nlabels) ∧
      (ps.map (·.name)).Nodup ∧ (ps.map (·.values)).Nodup) := by
  induction ps generalizing d i with
  | nil => simp [buildFrom, entries, eq_comm]
  | cons p ps ih =>
    simp only [buildFrom, insertPatch]
    by_cases h1 : d.has (.name p.name) = true
    · simp only [h1, if_true]
      constructor
      · intro h; cases h
      · rintro ⟨_, h, _, _⟩
        exact absurd ((has_iff d _).mp h1) (h p (by simp)).1
    · by_cases h2 : d.has (.values p.values) = true
      · simp only [h1, h2, if_true, if_false]
        constructor
        · intro h; cases h
        · rintro ⟨_, h, _, _⟩
          exact absurd ((has_iff d _).mp h2) (h p (by simp)).2.1
      · by_cases h3 : p.values.length = nlabels
        · have hn1 : Key.name p.name ∉ keys d := fun h => h1 ((has_iff d _).mpr h)
          have hn2 : Key.values p.values ∉ keys d := fun h => h2 ((has_iff d _).mpr h)
          simp only [h1, h2, h3, if_false, ne_eq, not_true_eq_false, Bool.false_eq_true]
          rw [ih, entries_cons, List.append_assoc]
          constructor
          · rintro ⟨hd, hall, hnn, hnv⟩
            refine ⟨hd, ?_, ?_, ?_⟩
            · intro q hq
              rcases List.mem_cons.mp hq with rfl | hq
              · exact ⟨hn1, hn2, h3⟩
              · obtain ⟨ha, hb, hc⟩ := hall q hq
                rw [keys_app] at ha hb
                exact ⟨fun h => ha (Or.inl h), fun h => hb (Or.inl h), hc⟩
            · rw [List.map_cons, List.nodup_cons]
              refine ⟨?_, hnn⟩
              intro hm
              obtain ⟨q, hq, hqe⟩ := List.mem_map.mp hm
              have := (hall q hq).1
              rw [keys_app] at this
              exact this (Or.inr (Or.inl (by rw [hqe])))
            · rw [List.map_cons, List.nodup_cons]
              refine ⟨?_, hnv⟩
              intro hm
              obtain ⟨q, hq, hqe⟩ := List.mem_map.mp hm
              have := (hall q hq).2.1
              rw [keys_app] at this
              exact this (Or.inr (Or.inr (by rw [hqe])))
          · rintro ⟨hd, hall, hnn, hnv⟩
            rw [List.map_cons, List.nodup_cons] at hnn hnv
            refine ⟨hd, ?_, hnn.2, hnv.2⟩
            intro q hq
            obtain ⟨ha, hb, hc⟩ := hall q (List.mem_cons_of_mem _ hq)
            rw [keys_app, keys_app]
            refine ⟨?_, ?_, hc⟩
            · rintro (h | h | h)
              · exact ha h
              · exact hnn.1 (List.mem_map.mpr ⟨q, hq, by injection h⟩)
              · cases h
            · rintro (h | h | h)
              · exact hb h
              · cases h
              · exact hnv.1 (List.mem_map.mpr ⟨q, hq, by injection h⟩)
        · simp only [h1, h2, if_false, ne_eq, h3, not_false_eq_true, if_true, Bool.false_eq_true]
          constructor
          · intro h; cases h
          · rintro ⟨_, h, _, _⟩
            exact absurd (h p (by simp)).2.2 h3

/-- **a patch set is accepted iff names are pairwise distinct, value tuples are pairwise distinct and every tuple has
one entry per label — whatever the names are** -/
theorem ctor_accepts_iff (nlabels : Nat) (ps : List (Meta V)) :
    (∃ d, build nlabels ps = .ok d) ↔
      ((ps.map (·.name)).Nodup ∧ (ps.map (·.values)).Nodup ∧ ∀ p ∈ ps, p.values.length = nlabels) := by
  unfold build
  constructor
  · rintro ⟨d, h⟩
    obtain ⟨_, hall, hn, hv⟩ := (buildFrom_ok_iff nlabels [] 0 ps d).mp h
    exact ⟨hn, hv, fun p hp => (hall p hp).2.2⟩
  · rintro ⟨hn, hv, hl⟩
    exact ⟨_, (buildFrom_ok_iff nlabels [] 0 ps _).mpr ⟨rfl, fun p hp => ⟨by simp [keys], by simp [keys], hl p hp⟩, hn, hv⟩⟩

theorem ctor_rejects_duplicate_name (nlabels : Nat) (ps : List (Meta V)) (h : ¬ (ps.map (·.name)).Nodup) :
    ∃ e, build nlabels ps = .error e := by
  cases hb : build nlabels ps with
  | error e => exact ⟨e, rfl⟩
  | ok d => exact absurd ((ctor_accepts_iff nlabels ps).mp ⟨d, hb⟩).1 h

theorem ctor_rejects_duplicate_values (nlabels : Nat) (ps : List (Meta V)) (h : ¬ (ps.map (·.values)).Nodup) :
    ∃ e, build nlabels ps = .error e := by
  cases hb : build nlabels ps with
  | error e => exact ⟨e, rfl⟩
  | ok d => exact absurd ((ctor_accepts_iff nlabels ps).mp ⟨d, hb⟩).2.1 h

/-- the accepted dictionary is exactly `entries` -/
theorem build_ok_entries (nlabels : Nat) (ps : List (Meta V)) (d : Dict V) (h : build nlabels ps = .ok d) :
    d = entries 0 ps := by
  have := ((buildFrom_ok_iff nlabels [] 0 ps d).mp h).1
  simpa using this

theorem mem_entries (i : Nat) (ps : List (Meta V)) (k : Key V) (j : Nat) :
    (k, j) ∈ entries i ps ↔ ∃ p, (p, j) ∈ ps.zipIdx i ∧ (k = .name p.name ∨ k = .values p.values) := by
  unfold entries
  simp only [List.mem_flatMap, List.mem_cons, Prod.mk.injEq, List.mem_nil_iff, or_false, Prod.exists]
  constructor
  · rintro ⟨p, j', hm, (⟨rfl, rfl⟩ | ⟨rfl, rfl⟩)⟩
    · exact ⟨p, hm, Or.inl rfl⟩
    · exact ⟨p, hm, Or.inr rfl⟩
  · rintro ⟨p, hm, (rfl | rfl)⟩
    · exact ⟨p, j, hm, Or.inl ⟨rfl, rfl⟩⟩
    · exact ⟨p, j, hm, Or.inr ⟨rfl, rfl⟩⟩

/-- **any other key raises the lookup error** -/
theorem lookup_other_raises (nlabels : Nat) (ps : List (Meta V)) (d : Dict V) (h : build nlabels ps = .ok d)
    (k : Key V) (hk : ∀ p ∈ ps, k ≠ .name p.name ∧ k ≠ .values p.values) : lookup d k = .error .lookup := by
  rw [build_ok_entries nlabels ps d h]
  unfold lookup Dict.get?
  have : (entries 0 ps).find? (·.1 = k) = none := by
    rw [List.find?_eq_none]
    intro x hx
    obtain ⟨k', j⟩ := x
    obtain ⟨p, hp, hor⟩ := (mem_entries 0 ps k' j).mp hx
    have hpm : p ∈ ps := by
      have := List.mem_zipIdx hp  -- index facts
      exact (List.mem_iff_getElem.mpr ⟨j - 0, by omega, by simpa using this.2.2.symm⟩)
    simp only [decide_eq_true_eq]
    rcases hor with rfl | rfl
    · exact fun e => (hk p hpm).1 e.symm
    · exact fun e => (hk p hpm).2 e.symm
  simp [this]

/-- **each patch is retrievable by exactly its name and by exactly its value tuple** -/
theorem lookup_by_name_or_values (nlabels : Nat) (ps : List (Meta V)) (d : Dict V) (h : build nlabels ps = .ok d)
    (k : Key V) (j : Nat) (hl : lookup d k = .ok j) :
    ∃ p, ps[j]? = some p ∧ (k = .name p.name ∨ k = .values p.values) := by
  rw [build_ok_entries nlabels ps d h] at hl
  unfold lookup Dict.get? at hl
  cases hf : (entries 0 ps).find? (·.1 = k) with
  | none => simp [hf] at hl
  | some x =>
    simp only [hf, Option.map_some] at hl
    have hj : x.2 = j := by injection hl
    have hmem := List.mem_of_find?_eq_some hf
    have hkey : x.1 = k := by simpa using List.find?_some hf
    obtain ⟨k', j'⟩ := x
    simp only at hj hkey
    subst hj hkey
    obtain ⟨p, hp, hor⟩ := (mem_entries 0 ps k' j').mp hmem
    have := List.mem_zipIdx hp
    exact ⟨p, by simpa using (List.getElem?_eq_some_iff.mpr ⟨by omega, by simpa using this.2.2.symm⟩), hor⟩

/-- conversely the name and the value tuple of every patch are found -/
theorem lookup_finds (nlabels : Nat) (ps : List (Meta V)) (d : Dict V) (h : build nlabels ps = .ok d)
    (p : Meta V) (hp : p ∈ ps) : (∃ j, lookup d (.name p.name) = .ok j) ∧ (∃ j, lookup d (.values p.values) = .ok j) := by
  rw [build_ok_entries nlabels ps d h]
  obtain ⟨j, hj, hpj⟩ := List.mem_iff_getElem.mp hp
  have hz : (p, j) ∈ ps.zipIdx 0 := by
    rw [List.mem_zipIdx_iff_getElem?]; simp [hpj, hj]
  constructor
  · have hm : (Key.name p.name, j) ∈ entries 0 ps := (mem_entries 0 ps _ j).mpr ⟨p, hz, Or.inl rfl⟩
    unfold lookup Dict.get?
    cases hf : (entries 0 ps).find? (·.1 = Key.name p.name) with
    | none => rw [List.find?_eq_none] at hf; exact absurd (by simp) (hf _ hm)
    | some x => exact ⟨x.2, by simp⟩
  · have hm : (Key.values p.values, j) ∈ entries 0 ps := (mem_entries 0 ps _ j).mpr ⟨p, hz, Or.inr rfl⟩
    unfold lookup Dict.get?
    cases hf : (entries 0 ps).find? (·.1 = Key.values p.values) with
    | none => rw [List.find?_eq_none] at hf; exact absurd (by simp) (hf _ hm)
    | some x => exact ⟨x.2, by simp⟩

/-- **verification succeeds iff the digest under every listed algorithm equals the recorded one** -/
theorem verify_iff_all_digests_equal {W : Type} (digest : String → W → String) (digests : List (String × String)) (w : W) :
    verify digest digests w = .ok () ↔ ∀ ad ∈ digests, digest ad.1 w = ad.2 := by
  unfold verify
  by_cases h : digests.all (fun (x : String × String) => digest x.1 w == x.2) = true
  · simp only [h, if_true, true_iff]
    intro ad had
    have := (List.all_eq_true.mp h) ad had
    simpa using this
  · simp only [h, if_false, Bool.false_eq_true]
    constructor
    · intro h'; cases h'
    · intro hall
      exact absurd (List.all_eq_true.mpr (fun ad had => by simpa using hall ad had)) h

/-- **applying a patch = verifying, then applying that JSON patch to the given workspace** (a pure function of it) -/
theorem apply_is_verify_then_patch {W : Type} (digest : String → W → String) (digests : List (String × String))
    (d : Dict V) (patchApply : Nat → W → W) (w : W) (k : Key V) (j : Nat)
    (hv : verify digest digests w = .ok ()) (hl : lookup d k = .ok j) :
    apply digest digests d patchApply w k = .ok (patchApply j w) := by
  unfold apply; simp [hv, hl]

theorem apply_refuses_unverified {W : Type} (digest : String → W → String) (digests : List (String × String))
    (d : Dict V) (patchApply : Nat → W → W) (w : W) (k : Key V)
    (hv : verify digest digests w = .error .verification) :
    apply digest digests d patchApply w k = .error .verification := by
  unfold apply; simp [hv]

/-- **Finding F3 (repaired by `fix: PatchSet accepts patches named 'name' …`)**: with the pre-seeded dictionary a
single, perfectly valid patch called `name` was refused, and the key `'values'` was found by lookup -/
theorem prefix_rejects_patch_named_name :
    build_prefix (V := Nat) 1 [{ name := "name", values := [1] }] = .error .dupName := by decide

theorem prefix_lookup_values_succeeds :
    (build_prefix (V := Nat) 1 [{ name := "p", values := [1] }]).toOption.map (fun d => lookup d (.name "values"))
      = some (.ok 0) := by decide

/-! ### the digest's input: the key-sorted dump

`digest(obj) = hash(json.dumps(obj, sort_keys=True))`; `dump` models the serialisation as a token stream.  `J.WF`: atoms and keys
are not structural tokens (they are quoted in the real text) and the keys of every object are pairwise distinct (a Python dict).
`J.Equiv`: equal up to reordering the entries of objects at every level. -/

/-- **insensitive to key order**: documents that differ only in the order of object entries have the same dump -/
theorem canonical_dump_key_order_insensitive (x y : J) (hx : x.WF) (h : J.Equiv x y) : dump x = dump y :=
  dump_key_order_insensitive x y hx h

/-- **sensitive to every value**: two well-formed documents with the same dump are equal up to key order — changing any leaf,
key, array length or nesting changes the dump (unique parsing of the token stream) -/
theorem canonical_dump_sensitive (x y : J) (hx : x.WF) (hy : y.WF) (h : dump x = dump y) : J.Equiv x y :=
  dump_sensitive x y hx hy h

/-- hence, for a collision-free hash, the digest identifies the document up to key order -/
theorem digest_eq_iff_equiv {H : Type} (hash : List String → H) (hinj : Function.Injective hash) (x y : J) (hx : x.WF) (hy : y.WF) :
    hash (dump x) = hash (dump y) ↔ J.Equiv x y :=
  ⟨fun h => dump_sensitive x y hx hy (hinj h), fun h => congrArg hash (dump_key_order_insensitive x y hx h)⟩

end Pyhf.Props.C17
