import PyhfGen.Model
import PyhfProofs.Properties.C10_Gen
/-!
# C10 (continued) — batched `logpdf` and `expected_data` equal row-by-row evaluation, for what the code computes *now*

Shape F of `PyhfGen/Model.lean` has bin-wise constraints only, so the Poisson-constrained block precedes the Gaussian-constrained one in
the auxiliary data and the `[normal, poisson]` constraint viewer has to reorder.  `pyhf.Model(spec, batch_size=2)` is constructed and
`logpdf(rows, data)` — two symbolic parameter rows, **two symbolic data rows** — and `expected_data(rows)` are executed symbolically.
Each row of either result is proved equal to the unbatched generated function of that row's own parameters and data, for all reals:
the batched split of the data by the `[main, aux]` and `[normal, poisson]` viewers, the batched gather of the constrained parameters
and the stitch of the expected auxiliary data address the right row and the right position.
-/
namespace Pyhf.Props.C10
open Pyhf

/-- shapeF: row 0 of the batched `logpdf` = the unbatched `logpdf` of row 0's parameters on row 0's data -/
theorem shapeF_batch_row0_logpdf_eq (lpois : ℝ → ℝ → ℝ) (lnorm : ℝ → ℝ → ℝ → ℝ) (s0 s1 es0 es1 b0 b1 u0 u1 eb0 eb1 r0_p_mu r0_p_uncorr_0 r0_p_uncorr_1 r0_p_stat_SR_0 r0_p_stat_SR_1 r1_p_mu r1_p_uncorr_0 r1_p_uncorr_1 r1_p_stat_SR_0 r1_p_stat_SR_1 r0_d0 r0_d1 r0_a0 r0_a1 r0_a2 r0_a3 r1_d0 r1_d1 r1_a0 r1_a1 r1_a2 r1_a3 : ℝ) :
    Gen.shapeF_batch_row0_logpdf realPrim lpois lnorm s0 s1 es0 es1 b0 b1 u0 u1 eb0 eb1 r0_p_mu r0_p_uncorr_0 r0_p_uncorr_1 r0_p_stat_SR_0 r0_p_stat_SR_1 r1_p_mu r1_p_uncorr_0 r1_p_uncorr_1 r1_p_stat_SR_0 r1_p_stat_SR_1 r0_d0 r0_d1 r0_a0 r0_a1 r0_a2 r0_a3 r1_d0 r1_d1 r1_a0 r1_a1 r1_a2 r1_a3 = Gen.shapeF_logpdf realPrim lpois lnorm s0 s1 es0 es1 b0 b1 u0 u1 eb0 eb1 r0_p_mu r0_p_uncorr_0 r0_p_uncorr_1 r0_p_stat_SR_0 r0_p_stat_SR_1 r0_d0 r0_d1 r0_a0 r0_a1 r0_a2 r0_a3 := by
  first | rfl | (unfold Gen.shapeF_batch_row0_logpdf Gen.shapeF_logpdf; norm_num <;> ring_nf)

/-- shapeF: row 0, entry 0 of the batched `expected_data` = entry 0 of the unbatched one at row 0's parameters -/
theorem shapeF_batch_row0_expdata0_eq (lpois : ℝ → ℝ → ℝ) (lnorm : ℝ → ℝ → ℝ → ℝ) (s0 s1 es0 es1 b0 b1 u0 u1 eb0 eb1 r0_p_mu r0_p_uncorr_0 r0_p_uncorr_1 r0_p_stat_SR_0 r0_p_stat_SR_1 r1_p_mu r1_p_uncorr_0 r1_p_uncorr_1 r1_p_stat_SR_0 r1_p_stat_SR_1 r0_d0 r0_d1 r0_a0 r0_a1 r0_a2 r0_a3 r1_d0 r1_d1 r1_a0 r1_a1 r1_a2 r1_a3 : ℝ) :
    Gen.shapeF_batch_row0_expdata0 realPrim lpois lnorm s0 s1 es0 es1 b0 b1 u0 u1 eb0 eb1 r0_p_mu r0_p_uncorr_0 r0_p_uncorr_1 r0_p_stat_SR_0 r0_p_stat_SR_1 r1_p_mu r1_p_uncorr_0 r1_p_uncorr_1 r1_p_stat_SR_0 r1_p_stat_SR_1 r0_d0 r0_d1 r0_a0 r0_a1 r0_a2 r0_a3 r1_d0 r1_d1 r1_a0 r1_a1 r1_a2 r1_a3 = Gen.shapeF_expdata0 realPrim s0 s1 es0 es1 b0 b1 u0 u1 eb0 eb1 r0_p_mu r0_p_uncorr_0 r0_p_uncorr_1 r0_p_stat_SR_0 r0_p_stat_SR_1 := by
  first | rfl | (unfold Gen.shapeF_batch_row0_expdata0 Gen.shapeF_expdata0; norm_num <;> ring_nf)

/-- shapeF: row 0, entry 1 of the batched `expected_data` = entry 1 of the unbatched one at row 0's parameters -/
theorem shapeF_batch_row0_expdata1_eq (lpois : ℝ → ℝ → ℝ) (lnorm : ℝ → ℝ → ℝ → ℝ) (s0 s1 es0 es1 b0 b1 u0 u1 eb0 eb1 r0_p_mu r0_p_uncorr_0 r0_p_uncorr_1 r0_p_stat_SR_0 r0_p_stat_SR_1 r1_p_mu r1_p_uncorr_0 r1_p_uncorr_1 r1_p_stat_SR_0 r1_p_stat_SR_1 r0_d0 r0_d1 r0_a0 r0_a1 r0_a2 r0_a3 r1_d0 r1_d1 r1_a0 r1_a1 r1_a2 r1_a3 : ℝ) :
    Gen.shapeF_batch_row0_expdata1 realPrim lpois lnorm s0 s1 es0 es1 b0 b1 u0 u1 eb0 eb1 r0_p_mu r0_p_uncorr_0 r0_p_uncorr_1 r0_p_stat_SR_0 r0_p_stat_SR_1 r1_p_mu r1_p_uncorr_0 r1_p_uncorr_1 r1_p_stat_SR_0 r1_p_stat_SR_1 r0_d0 r0_d1 r0_a0 r0_a1 r0_a2 r0_a3 r1_d0 r1_d1 r1_a0 r1_a1 r1_a2 r1_a3 = Gen.shapeF_expdata1 realPrim s0 s1 es0 es1 b0 b1 u0 u1 eb0 eb1 r0_p_mu r0_p_uncorr_0 r0_p_uncorr_1 r0_p_stat_SR_0 r0_p_stat_SR_1 := by
  first | rfl | (unfold Gen.shapeF_batch_row0_expdata1 Gen.shapeF_expdata1; norm_num <;> ring_nf)

/-- shapeF: row 0, entry 2 of the batched `expected_data` = entry 2 of the unbatched one at row 0's parameters -/
theorem shapeF_batch_row0_expdata2_eq (lpois : ℝ → ℝ → ℝ) (lnorm : ℝ → ℝ → ℝ → ℝ) (s0 s1 es0 es1 b0 b1 u0 u1 eb0 eb1 r0_p_mu r0_p_uncorr_0 r0_p_uncorr_1 r0_p_stat_SR_0 r0_p_stat_SR_1 r1_p_mu r1_p_uncorr_0 r1_p_uncorr_1 r1_p_stat_SR_0 r1_p_stat_SR_1 r0_d0 r0_d1 r0_a0 r0_a1 r0_a2 r0_a3 r1_d0 r1_d1 r1_a0 r1_a1 r1_a2 r1_a3 : ℝ) :
    Gen.shapeF_batch_row0_expdata2 realPrim lpois lnorm s0 s1 es0 es1 b0 b1 u0 u1 eb0 eb1 r0_p_mu r0_p_uncorr_0 r0_p_uncorr_1 r0_p_stat_SR_0 r0_p_stat_SR_1 r1_p_mu r1_p_uncorr_0 r1_p_uncorr_1 r1_p_stat_SR_0 r1_p_stat_SR_1 r0_d0 r0_d1 r0_a0 r0_a1 r0_a2 r0_a3 r1_d0 r1_d1 r1_a0 r1_a1 r1_a2 r1_a3 = Gen.shapeF_expdata2 realPrim s0 s1 es0 es1 b0 b1 u0 u1 eb0 eb1 r0_p_mu r0_p_uncorr_0 r0_p_uncorr_1 r0_p_stat_SR_0 r0_p_stat_SR_1 := by
  first | rfl | (unfold Gen.shapeF_batch_row0_expdata2 Gen.shapeF_expdata2; norm_num <;> ring_nf)

/-- shapeF: row 0, entry 3 of the batched `expected_data` = entry 3 of the unbatched one at row 0's parameters -/
theorem shapeF_batch_row0_expdata3_eq (lpois : ℝ → ℝ → ℝ) (lnorm : ℝ → ℝ → ℝ → ℝ) (s0 s1 es0 es1 b0 b1 u0 u1 eb0 eb1 r0_p_mu r0_p_uncorr_0 r0_p_uncorr_1 r0_p_stat_SR_0 r0_p_stat_SR_1 r1_p_mu r1_p_uncorr_0 r1_p_uncorr_1 r1_p_stat_SR_0 r1_p_stat_SR_1 r0_d0 r0_d1 r0_a0 r0_a1 r0_a2 r0_a3 r1_d0 r1_d1 r1_a0 r1_a1 r1_a2 r1_a3 : ℝ) :
    Gen.shapeF_batch_row0_expdata3 realPrim lpois lnorm s0 s1 es0 es1 b0 b1 u0 u1 eb0 eb1 r0_p_mu r0_p_uncorr_0 r0_p_uncorr_1 r0_p_stat_SR_0 r0_p_stat_SR_1 r1_p_mu r1_p_uncorr_0 r1_p_uncorr_1 r1_p_stat_SR_0 r1_p_stat_SR_1 r0_d0 r0_d1 r0_a0 r0_a1 r0_a2 r0_a3 r1_d0 r1_d1 r1_a0 r1_a1 r1_a2 r1_a3 = Gen.shapeF_expdata3 realPrim s0 s1 es0 es1 b0 b1 u0 u1 eb0 eb1 r0_p_mu r0_p_uncorr_0 r0_p_uncorr_1 r0_p_stat_SR_0 r0_p_stat_SR_1 := by
  first | rfl | (unfold Gen.shapeF_batch_row0_expdata3 Gen.shapeF_expdata3; norm_num <;> ring_nf)

/-- shapeF: row 0, entry 4 of the batched `expected_data` = entry 4 of the unbatched one at row 0's parameters -/
theorem shapeF_batch_row0_expdata4_eq (lpois : ℝ → ℝ → ℝ) (lnorm : ℝ → ℝ → ℝ → ℝ) (s0 s1 es0 es1 b0 b1 u0 u1 eb0 eb1 r0_p_mu r0_p_uncorr_0 r0_p_uncorr_1 r0_p_stat_SR_0 r0_p_stat_SR_1 r1_p_mu r1_p_uncorr_0 r1_p_uncorr_1 r1_p_stat_SR_0 r1_p_stat_SR_1 r0_d0 r0_d1 r0_a0 r0_a1 r0_a2 r0_a3 r1_d0 r1_d1 r1_a0 r1_a1 r1_a2 r1_a3 : ℝ) :
    Gen.shapeF_batch_row0_expdata4 realPrim lpois lnorm s0 s1 es0 es1 b0 b1 u0 u1 eb0 eb1 r0_p_mu r0_p_uncorr_0 r0_p_uncorr_1 r0_p_stat_SR_0 r0_p_stat_SR_1 r1_p_mu r1_p_uncorr_0 r1_p_uncorr_1 r1_p_stat_SR_0 r1_p_stat_SR_1 r0_d0 r0_d1 r0_a0 r0_a1 r0_a2 r0_a3 r1_d0 r1_d1 r1_a0 r1_a1 r1_a2 r1_a3 = Gen.shapeF_expdata4 realPrim s0 s1 es0 es1 b0 b1 u0 u1 eb0 eb1 r0_p_mu r0_p_uncorr_0 r0_p_uncorr_1 r0_p_stat_SR_0 r0_p_stat_SR_1 := by
  first | rfl | (unfold Gen.shapeF_batch_row0_expdata4 Gen.shapeF_expdata4; norm_num <;> ring_nf)

/-- shapeF: row 0, entry 5 of the batched `expected_data` = entry 5 of the unbatched one at row 0's parameters -/
theorem shapeF_batch_row0_expdata5_eq (lpois : ℝ → ℝ → ℝ) (lnorm : ℝ → ℝ → ℝ → ℝ) (s0 s1 es0 es1 b0 b1 u0 u1 eb0 eb1 r0_p_mu r0_p_uncorr_0 r0_p_uncorr_1 r0_p_stat_SR_0 r0_p_stat_SR_1 r1_p_mu r1_p_uncorr_0 r1_p_uncorr_1 r1_p_stat_SR_0 r1_p_stat_SR_1 r0_d0 r0_d1 r0_a0 r0_a1 r0_a2 r0_a3 r1_d0 r1_d1 r1_a0 r1_a1 r1_a2 r1_a3 : ℝ) :
    Gen.shapeF_batch_row0_expdata5 realPrim lpois lnorm s0 s1 es0 es1 b0 b1 u0 u1 eb0 eb1 r0_p_mu r0_p_uncorr_0 r0_p_uncorr_1 r0_p_stat_SR_0 r0_p_stat_SR_1 r1_p_mu r1_p_uncorr_0 r1_p_uncorr_1 r1_p_stat_SR_0 r1_p_stat_SR_1 r0_d0 r0_d1 r0_a0 r0_a1 r0_a2 r0_a3 r1_d0 r1_d1 r1_a0 r1_a1 r1_a2 r1_a3 = Gen.shapeF_expdata5 realPrim s0 s1 es0 es1 b0 b1 u0 u1 eb0 eb1 r0_p_mu r0_p_uncorr_0 r0_p_uncorr_1 r0_p_stat_SR_0 r0_p_stat_SR_1 := by
  first | rfl | (unfold Gen.shapeF_batch_row0_expdata5 Gen.shapeF_expdata5; norm_num <;> ring_nf)

/-- shapeF: row 1 of the batched `logpdf` = the unbatched `logpdf` of row 1's parameters on row 1's data -/
theorem shapeF_batch_row1_logpdf_eq (lpois : ℝ → ℝ → ℝ) (lnorm : ℝ → ℝ → ℝ → ℝ) (s0 s1 es0 es1 b0 b1 u0 u1 eb0 eb1 r0_p_mu r0_p_uncorr_0 r0_p_uncorr_1 r0_p_stat_SR_0 r0_p_stat_SR_1 r1_p_mu r1_p_uncorr_0 r1_p_uncorr_1 r1_p_stat_SR_0 r1_p_stat_SR_1 r0_d0 r0_d1 r0_a0 r0_a1 r0_a2 r0_a3 r1_d0 r1_d1 r1_a0 r1_a1 r1_a2 r1_a3 : ℝ) :
    Gen.shapeF_batch_row1_logpdf realPrim lpois lnorm s0 s1 es0 es1 b0 b1 u0 u1 eb0 eb1 r0_p_mu r0_p_uncorr_0 r0_p_uncorr_1 r0_p_stat_SR_0 r0_p_stat_SR_1 r1_p_mu r1_p_uncorr_0 r1_p_uncorr_1 r1_p_stat_SR_0 r1_p_stat_SR_1 r0_d0 r0_d1 r0_a0 r0_a1 r0_a2 r0_a3 r1_d0 r1_d1 r1_a0 r1_a1 r1_a2 r1_a3 = Gen.shapeF_logpdf realPrim lpois lnorm s0 s1 es0 es1 b0 b1 u0 u1 eb0 eb1 r1_p_mu r1_p_uncorr_0 r1_p_uncorr_1 r1_p_stat_SR_0 r1_p_stat_SR_1 r1_d0 r1_d1 r1_a0 r1_a1 r1_a2 r1_a3 := by
  first | rfl | (unfold Gen.shapeF_batch_row1_logpdf Gen.shapeF_logpdf; norm_num <;> ring_nf)

/-- shapeF: row 1, entry 0 of the batched `expected_data` = entry 0 of the unbatched one at row 1's parameters -/
theorem shapeF_batch_row1_expdata0_eq (lpois : ℝ → ℝ → ℝ) (lnorm : ℝ → ℝ → ℝ → ℝ) (s0 s1 es0 es1 b0 b1 u0 u1 eb0 eb1 r0_p_mu r0_p_uncorr_0 r0_p_uncorr_1 r0_p_stat_SR_0 r0_p_stat_SR_1 r1_p_mu r1_p_uncorr_0 r1_p_uncorr_1 r1_p_stat_SR_0 r1_p_stat_SR_1 r0_d0 r0_d1 r0_a0 r0_a1 r0_a2 r0_a3 r1_d0 r1_d1 r1_a0 r1_a1 r1_a2 r1_a3 : ℝ) :
    Gen.shapeF_batch_row1_expdata0 realPrim lpois lnorm s0 s1 es0 es1 b0 b1 u0 u1 eb0 eb1 r0_p_mu r0_p_uncorr_0 r0_p_uncorr_1 r0_p_stat_SR_0 r0_p_stat_SR_1 r1_p_mu r1_p_uncorr_0 r1_p_uncorr_1 r1_p_stat_SR_0 r1_p_stat_SR_1 r0_d0 r0_d1 r0_a0 r0_a1 r0_a2 r0_a3 r1_d0 r1_d1 r1_a0 r1_a1 r1_a2 r1_a3 = Gen.shapeF_expdata0 realPrim s0 s1 es0 es1 b0 b1 u0 u1 eb0 eb1 r1_p_mu r1_p_uncorr_0 r1_p_uncorr_1 r1_p_stat_SR_0 r1_p_stat_SR_1 := by
  first | rfl | (unfold Gen.shapeF_batch_row1_expdata0 Gen.shapeF_expdata0; norm_num <;> ring_nf)

/-- shapeF: row 1, entry 1 of the batched `expected_data` = entry 1 of the unbatched one at row 1's parameters -/
theorem shapeF_batch_row1_expdata1_eq (lpois : ℝ → ℝ → ℝ) (lnorm : ℝ → ℝ → ℝ → ℝ) (s0 s1 es0 es1 b0 b1 u0 u1 eb0 eb1 r0_p_mu r0_p_uncorr_0 r0_p_uncorr_1 r0_p_stat_SR_0 r0_p_stat_SR_1 r1_p_mu r1_p_uncorr_0 r1_p_uncorr_1 r1_p_stat_SR_0 r1_p_stat_SR_1 r0_d0 r0_d1 r0_a0 r0_a1 r0_a2 r0_a3 r1_d0 r1_d1 r1_a0 r1_a1 r1_a2 r1_a3 : ℝ) :
    Gen.shapeF_batch_row1_expdata1 realPrim lpois lnorm s0 s1 es0 es1 b0 b1 u0 u1 eb0 eb1 r0_p_mu r0_p_uncorr_0 r0_p_uncorr_1 r0_p_stat_SR_0 r0_p_stat_SR_1 r1_p_mu r1_p_uncorr_0 r1_p_uncorr_1 r1_p_stat_SR_0 r1_p_stat_SR_1 r0_d0 r0_d1 r0_a0 r0_a1 r0_a2 r0_a3 r1_d0 r1_d1 r1_a0 r1_a1 r1_a2 r1_a3 = Gen.shapeF_expdata1 realPrim s0 s1 es0 es1 b0 b1 u0 u1 eb0 eb1 r1_p_mu r1_p_uncorr_0 r1_p_uncorr_1 r1_p_stat_SR_0 r1_p_stat_SR_1 := by
  first | rfl | (unfold Gen.shapeF_batch_row1_expdata1 Gen.shapeF_expdata1; norm_num <;> ring_nf)

/-- shapeF: row 1, entry 2 of the batched `expected_data` = entry 2 of the unbatched one at row 1's parameters -/
theorem shapeF_batch_row1_expdata2_eq (lpois : ℝ → ℝ → ℝ) (lnorm : ℝ → ℝ → ℝ → ℝ) (s0 s1 es0 es1 b0 b1 u0 u1 eb0 eb1 r0_p_mu r0_p_uncorr_0 r0_p_uncorr_1 r0_p_stat_SR_0 r0_p_stat_SR_1 r1_p_mu r1_p_uncorr_0 r1_p_uncorr_1 r1_p_stat_SR_0 r1_p_stat_SR_1 r0_d0 r0_d1 r0_a0 r0_a1 r0_a2 r0_a3 r1_d0 r1_d1 r1_a0 r1_a1 r1_a2 r1_a3 : ℝ) :
    Gen.shapeF_batch_row1_expdata2 realPrim lpois lnorm s0 s1 es0 es1 b0 b1 u0 u1 eb0 eb1 r0_p_mu r0_p_uncorr_0 r0_p_uncorr_1 r0_p_stat_SR_0 r0_p_stat_SR_1 r1_p_mu r1_p_uncorr_0 r1_p_uncorr_1 r1_p_stat_SR_0 r1_p_stat_SR_1 r0_d0 r0_d1 r0_a0 r0_a1 r0_a2 r0_a3 r1_d0 r1_d1 r1_a0 r1_a1 r1_a2 r1_a3 = Gen.shapeF_expdata2 realPrim s0 s1 es0 es1 b0 b1 u0 u1 eb0 eb1 r1_p_mu r1_p_uncorr_0 r1_p_uncorr_1 r1_p_stat_SR_0 r1_p_stat_SR_1 := by
  first | rfl | (unfold Gen.shapeF_batch_row1_expdata2 Gen.shapeF_expdata2; norm_num <;> ring_nf)

/-- shapeF: row 1, entry 3 of the batched `expected_data` = entry 3 of the unbatched one at row 1's parameters -/
theorem shapeF_batch_row1_expdata3_eq (lpois : ℝ → ℝ → ℝ) (lnorm : ℝ → ℝ → ℝ → ℝ) (s0 s1 es0 es1 b0 b1 u0 u1 eb0 eb1 r0_p_mu r0_p_uncorr_0 r0_p_uncorr_1 r0_p_stat_SR_0 r0_p_stat_SR_1 r1_p_mu r1_p_uncorr_0 r1_p_uncorr_1 r1_p_stat_SR_0 r1_p_stat_SR_1 r0_d0 r0_d1 r0_a0 r0_a1 r0_a2 r0_a3 r1_d0 r1_d1 r1_a0 r1_a1 r1_a2 r1_a3 : ℝ) :
    Gen.shapeF_batch_row1_expdata3 realPrim lpois lnorm s0 s1 es0 es1 b0 b1 u0 u1 eb0 eb1 r0_p_mu r0_p_uncorr_0 r0_p_uncorr_1 r0_p_stat_SR_0 r0_p_stat_SR_1 r1_p_mu r1_p_uncorr_0 r1_p_uncorr_1 r1_p_stat_SR_0 r1_p_stat_SR_1 r0_d0 r0_d1 r0_a0 r0_a1 r0_a2 r0_a3 r1_d0 r1_d1 r1_a0 r1_a1 r1_a2 r1_a3 = Gen.shapeF_expdata3 realPrim s0 s1 es0 es1 b0 b1 u0 u1 eb0 eb1 r1_p_mu r1_p_uncorr_0 r1_p_uncorr_1 r1_p_stat_SR_0 r1_p_stat_SR_1 := by
  first | rfl | (unfold Gen.shapeF_batch_row1_expdata3 Gen.shapeF_expdata3; norm_num <;> ring_nf)

/-- shapeF: row 1, entry 4 of the batched `expected_data` = entry 4 of the unbatched one at row 1's parameters -/
theorem shapeF_batch_row1_expdata4_eq (lpois : ℝ → ℝ → ℝ) (lnorm : ℝ → ℝ → ℝ → ℝ) (s0 s1 es0 es1 b0 b1 u0 u1 eb0 eb1 r0_p_mu r0_p_uncorr_0 r0_p_uncorr_1 r0_p_stat_SR_0 r0_p_stat_SR_1 r1_p_mu r1_p_uncorr_0 r1_p_uncorr_1 r1_p_stat_SR_0 r1_p_stat_SR_1 r0_d0 r0_d1 r0_a0 r0_a1 r0_a2 r0_a3 r1_d0 r1_d1 r1_a0 r1_a1 r1_a2 r1_a3 : ℝ) :
    Gen.shapeF_batch_row1_expdata4 realPrim lpois lnorm s0 s1 es0 es1 b0 b1 u0 u1 eb0 eb1 r0_p_mu r0_p_uncorr_0 r0_p_uncorr_1 r0_p_stat_SR_0 r0_p_stat_SR_1 r1_p_mu r1_p_uncorr_0 r1_p_uncorr_1 r1_p_stat_SR_0 r1_p_stat_SR_1 r0_d0 r0_d1 r0_a0 r0_a1 r0_a2 r0_a3 r1_d0 r1_d1 r1_a0 r1_a1 r1_a2 r1_a3 = Gen.shapeF_expdata4 realPrim s0 s1 es0 es1 b0 b1 u0 u1 eb0 eb1 r1_p_mu r1_p_uncorr_0 r1_p_uncorr_1 r1_p_stat_SR_0 r1_p_stat_SR_1 := by
  first | rfl | (unfold Gen.shapeF_batch_row1_expdata4 Gen.shapeF_expdata4; norm_num <;> ring_nf)

/-- shapeF: row 1, entry 5 of the batched `expected_data` = entry 5 of the unbatched one at row 1's parameters -/
theorem shapeF_batch_row1_expdata5_eq (lpois : ℝ → ℝ → ℝ) (lnorm : ℝ → ℝ → ℝ → ℝ) (s0 s1 es0 es1 b0 b1 u0 u1 eb0 eb1 r0_p_mu r0_p_uncorr_0 r0_p_uncorr_1 r0_p_stat_SR_0 r0_p_stat_SR_1 r1_p_mu r1_p_uncorr_0 r1_p_uncorr_1 r1_p_stat_SR_0 r1_p_stat_SR_1 r0_d0 r0_d1 r0_a0 r0_a1 r0_a2 r0_a3 r1_d0 r1_d1 r1_a0 r1_a1 r1_a2 r1_a3 : ℝ) :
    Gen.shapeF_batch_row1_expdata5 realPrim lpois lnorm s0 s1 es0 es1 b0 b1 u0 u1 eb0 eb1 r0_p_mu r0_p_uncorr_0 r0_p_uncorr_1 r0_p_stat_SR_0 r0_p_stat_SR_1 r1_p_mu r1_p_uncorr_0 r1_p_uncorr_1 r1_p_stat_SR_0 r1_p_stat_SR_1 r0_d0 r0_d1 r0_a0 r0_a1 r0_a2 r0_a3 r1_d0 r1_d1 r1_a0 r1_a1 r1_a2 r1_a3 = Gen.shapeF_expdata5 realPrim s0 s1 es0 es1 b0 b1 u0 u1 eb0 eb1 r1_p_mu r1_p_uncorr_0 r1_p_uncorr_1 r1_p_stat_SR_0 r1_p_stat_SR_1 := by
  first | rfl | (unfold Gen.shapeF_batch_row1_expdata5 Gen.shapeF_expdata5; norm_num <;> ring_nf)

/-- shapeH: row 0 of the batched `logpdf` = the unbatched `logpdf` of row 0's parameters on row 0's data -/
theorem shapeH_batch_row0_logpdf_eq (lpois : ℝ → ℝ → ℝ) (lnorm : ℝ → ℝ → ℝ → ℝ) (s0 s1 b0 b1 e0 r0_p_lumi r0_p_mu r0_p_stat_SR_0 r0_p_stat_SR_1 r1_p_lumi r1_p_mu r1_p_stat_SR_0 r1_p_stat_SR_1 r0_d0 r0_d1 r0_a0 r0_a1 r0_a2 r1_d0 r1_d1 r1_a0 r1_a1 r1_a2 : ℝ) :
    Gen.shapeH_batch_row0_logpdf realPrim lpois lnorm s0 s1 b0 b1 e0 r0_p_lumi r0_p_mu r0_p_stat_SR_0 r0_p_stat_SR_1 r1_p_lumi r1_p_mu r1_p_stat_SR_0 r1_p_stat_SR_1 r0_d0 r0_d1 r0_a0 r0_a1 r0_a2 r1_d0 r1_d1 r1_a0 r1_a1 r1_a2 = Gen.shapeH_logpdf realPrim lpois lnorm s0 s1 b0 b1 e0 r0_p_lumi r0_p_mu r0_p_stat_SR_0 r0_p_stat_SR_1 r0_d0 r0_d1 r0_a0 r0_a1 r0_a2 := by
  first | rfl | (unfold Gen.shapeH_batch_row0_logpdf Gen.shapeH_logpdf; norm_num <;> ring_nf)

/-- shapeH: row 0, entry 0 of the batched `expected_data` = entry 0 of the unbatched one at row 0's parameters -/
theorem shapeH_batch_row0_expdata0_eq (lpois : ℝ → ℝ → ℝ) (lnorm : ℝ → ℝ → ℝ → ℝ) (s0 s1 b0 b1 e0 r0_p_lumi r0_p_mu r0_p_stat_SR_0 r0_p_stat_SR_1 r1_p_lumi r1_p_mu r1_p_stat_SR_0 r1_p_stat_SR_1 r0_d0 r0_d1 r0_a0 r0_a1 r0_a2 r1_d0 r1_d1 r1_a0 r1_a1 r1_a2 : ℝ) :
    Gen.shapeH_batch_row0_expdata0 realPrim lpois lnorm s0 s1 b0 b1 e0 r0_p_lumi r0_p_mu r0_p_stat_SR_0 r0_p_stat_SR_1 r1_p_lumi r1_p_mu r1_p_stat_SR_0 r1_p_stat_SR_1 r0_d0 r0_d1 r0_a0 r0_a1 r0_a2 r1_d0 r1_d1 r1_a0 r1_a1 r1_a2 = Gen.shapeH_expdata0 realPrim s0 s1 b0 b1 e0 r0_p_lumi r0_p_mu r0_p_stat_SR_0 r0_p_stat_SR_1 := by
  first | rfl | (unfold Gen.shapeH_batch_row0_expdata0 Gen.shapeH_expdata0; norm_num <;> ring_nf)

/-- shapeH: row 0, entry 1 of the batched `expected_data` = entry 1 of the unbatched one at row 0's parameters -/
theorem shapeH_batch_row0_expdata1_eq (lpois : ℝ → ℝ → ℝ) (lnorm : ℝ → ℝ → ℝ → ℝ) (s0 s1 b0 b1 e0 r0_p_lumi r0_p_mu r0_p_stat_SR_0 r0_p_stat_SR_1 r1_p_lumi r1_p_mu r1_p_stat_SR_0 r1_p_stat_SR_1 r0_d0 r0_d1 r0_a0 r0_a1 r0_a2 r1_d0 r1_d1 r1_a0 r1_a1 r1_a2 : ℝ) :
    Gen.shapeH_batch_row0_expdata1 realPrim lpois lnorm s0 s1 b0 b1 e0 r0_p_lumi r0_p_mu r0_p_stat_SR_0 r0_p_stat_SR_1 r1_p_lumi r1_p_mu r1_p_stat_SR_0 r1_p_stat_SR_1 r0_d0 r0_d1 r0_a0 r0_a1 r0_a2 r1_d0 r1_d1 r1_a0 r1_a1 r1_a2 = Gen.shapeH_expdata1 realPrim s0 s1 b0 b1 e0 r0_p_lumi r0_p_mu r0_p_stat_SR_0 r0_p_stat_SR_1 := by
  first | rfl | (unfold Gen.shapeH_batch_row0_expdata1 Gen.shapeH_expdata1; norm_num <;> ring_nf)

/-- shapeH: row 0, entry 2 of the batched `expected_data` = entry 2 of the unbatched one at row 0's parameters -/
theorem shapeH_batch_row0_expdata2_eq (lpois : ℝ → ℝ → ℝ) (lnorm : ℝ → ℝ → ℝ → ℝ) (s0 s1 b0 b1 e0 r0_p_lumi r0_p_mu r0_p_stat_SR_0 r0_p_stat_SR_1 r1_p_lumi r1_p_mu r1_p_stat_SR_0 r1_p_stat_SR_1 r0_d0 r0_d1 r0_a0 r0_a1 r0_a2 r1_d0 r1_d1 r1_a0 r1_a1 r1_a2 : ℝ) :
    Gen.shapeH_batch_row0_expdata2 realPrim lpois lnorm s0 s1 b0 b1 e0 r0_p_lumi r0_p_mu r0_p_stat_SR_0 r0_p_stat_SR_1 r1_p_lumi r1_p_mu r1_p_stat_SR_0 r1_p_stat_SR_1 r0_d0 r0_d1 r0_a0 r0_a1 r0_a2 r1_d0 r1_d1 r1_a0 r1_a1 r1_a2 = Gen.shapeH_expdata2 realPrim s0 s1 b0 b1 e0 r0_p_lumi r0_p_mu r0_p_stat_SR_0 r0_p_stat_SR_1 := by
  first | rfl | (unfold Gen.shapeH_batch_row0_expdata2 Gen.shapeH_expdata2; norm_num <;> ring_nf)

/-- shapeH: row 0, entry 3 of the batched `expected_data` = entry 3 of the unbatched one at row 0's parameters -/
theorem shapeH_batch_row0_expdata3_eq (lpois : ℝ → ℝ → ℝ) (lnorm : ℝ → ℝ → ℝ → ℝ) (s0 s1 b0 b1 e0 r0_p_lumi r0_p_mu r0_p_stat_SR_0 r0_p_stat_SR_1 r1_p_lumi r1_p_mu r1_p_stat_SR_0 r1_p_stat_SR_1 r0_d0 r0_d1 r0_a0 r0_a1 r0_a2 r1_d0 r1_d1 r1_a0 r1_a1 r1_a2 : ℝ) :
    Gen.shapeH_batch_row0_expdata3 realPrim lpois lnorm s0 s1 b0 b1 e0 r0_p_lumi r0_p_mu r0_p_stat_SR_0 r0_p_stat_SR_1 r1_p_lumi r1_p_mu r1_p_stat_SR_0 r1_p_stat_SR_1 r0_d0 r0_d1 r0_a0 r0_a1 r0_a2 r1_d0 r1_d1 r1_a0 r1_a1 r1_a2 = Gen.shapeH_expdata3 realPrim s0 s1 b0 b1 e0 r0_p_lumi r0_p_mu r0_p_stat_SR_0 r0_p_stat_SR_1 := by
  first | rfl | (unfold Gen.shapeH_batch_row0_expdata3 Gen.shapeH_expdata3; norm_num <;> ring_nf)

/-- shapeH: row 0, entry 4 of the batched `expected_data` = entry 4 of the unbatched one at row 0's parameters -/
theorem shapeH_batch_row0_expdata4_eq (lpois : ℝ → ℝ → ℝ) (lnorm : ℝ → ℝ → ℝ → ℝ) (s0 s1 b0 b1 e0 r0_p_lumi r0_p_mu r0_p_stat_SR_0 r0_p_stat_SR_1 r1_p_lumi r1_p_mu r1_p_stat_SR_0 r1_p_stat_SR_1 r0_d0 r0_d1 r0_a0 r0_a1 r0_a2 r1_d0 r1_d1 r1_a0 r1_a1 r1_a2 : ℝ) :
    Gen.shapeH_batch_row0_expdata4 realPrim lpois lnorm s0 s1 b0 b1 e0 r0_p_lumi r0_p_mu r0_p_stat_SR_0 r0_p_stat_SR_1 r1_p_lumi r1_p_mu r1_p_stat_SR_0 r1_p_stat_SR_1 r0_d0 r0_d1 r0_a0 r0_a1 r0_a2 r1_d0 r1_d1 r1_a0 r1_a1 r1_a2 = Gen.shapeH_expdata4 realPrim s0 s1 b0 b1 e0 r0_p_lumi r0_p_mu r0_p_stat_SR_0 r0_p_stat_SR_1 := by
  first | rfl | (unfold Gen.shapeH_batch_row0_expdata4 Gen.shapeH_expdata4; norm_num <;> ring_nf)

/-- shapeH: row 1 of the batched `logpdf` = the unbatched `logpdf` of row 1's parameters on row 1's data -/
theorem shapeH_batch_row1_logpdf_eq (lpois : ℝ → ℝ → ℝ) (lnorm : ℝ → ℝ → ℝ → ℝ) (s0 s1 b0 b1 e0 r0_p_lumi r0_p_mu r0_p_stat_SR_0 r0_p_stat_SR_1 r1_p_lumi r1_p_mu r1_p_stat_SR_0 r1_p_stat_SR_1 r0_d0 r0_d1 r0_a0 r0_a1 r0_a2 r1_d0 r1_d1 r1_a0 r1_a1 r1_a2 : ℝ) :
    Gen.shapeH_batch_row1_logpdf realPrim lpois lnorm s0 s1 b0 b1 e0 r0_p_lumi r0_p_mu r0_p_stat_SR_0 r0_p_stat_SR_1 r1_p_lumi r1_p_mu r1_p_stat_SR_0 r1_p_stat_SR_1 r0_d0 r0_d1 r0_a0 r0_a1 r0_a2 r1_d0 r1_d1 r1_a0 r1_a1 r1_a2 = Gen.shapeH_logpdf realPrim lpois lnorm s0 s1 b0 b1 e0 r1_p_lumi r1_p_mu r1_p_stat_SR_0 r1_p_stat_SR_1 r1_d0 r1_d1 r1_a0 r1_a1 r1_a2 := by
  first | rfl | (unfold Gen.shapeH_batch_row1_logpdf Gen.shapeH_logpdf; norm_num <;> ring_nf)

/-- shapeH: row 1, entry 0 of the batched `expected_data` = entry 0 of the unbatched one at row 1's parameters -/
theorem shapeH_batch_row1_expdata0_eq (lpois : ℝ → ℝ → ℝ) (lnorm : ℝ → ℝ → ℝ → ℝ) (s0 s1 b0 b1 e0 r0_p_lumi r0_p_mu r0_p_stat_SR_0 r0_p_stat_SR_1 r1_p_lumi r1_p_mu r1_p_stat_SR_0 r1_p_stat_SR_1 r0_d0 r0_d1 r0_a0 r0_a1 r0_a2 r1_d0 r1_d1 r1_a0 r1_a1 r1_a2 : ℝ) :
    Gen.shapeH_batch_row1_expdata0 realPrim lpois lnorm s0 s1 b0 b1 e0 r0_p_lumi r0_p_mu r0_p_stat_SR_0 r0_p_stat_SR_1 r1_p_lumi r1_p_mu r1_p_stat_SR_0 r1_p_stat_SR_1 r0_d0 r0_d1 r0_a0 r0_a1 r0_a2 r1_d0 r1_d1 r1_a0 r1_a1 r1_a2 = Gen.shapeH_expdata0 realPrim s0 s1 b0 b1 e0 r1_p_lumi r1_p_mu r1_p_stat_SR_0 r1_p_stat_SR_1 := by
  first | rfl | (unfold Gen.shapeH_batch_row1_expdata0 Gen.shapeH_expdata0; norm_num <;> ring_nf)

/-- shapeH: row 1, entry 1 of the batched `expected_data` = entry 1 of the unbatched one at row 1's parameters -/
theorem shapeH_batch_row1_expdata1_eq (lpois : ℝ → ℝ → ℝ) (lnorm : ℝ → ℝ → ℝ → ℝ) (s0 s1 b0 b1 e0 r0_p_lumi r0_p_mu r0_p_stat_SR_0 r0_p_stat_SR_1 r1_p_lumi r1_p_mu r1_p_stat_SR_0 r1_p_stat_SR_1 r0_d0 r0_d1 r0_a0 r0_a1 r0_a2 r1_d0 r1_d1 r1_a0 r1_a1 r1_a2 : ℝ) :
    Gen.shapeH_batch_row1_expdata1 realPrim lpois lnorm s0 s1 b0 b1 e0 r0_p_lumi r0_p_mu r0_p_stat_SR_0 r0_p_stat_SR_1 r1_p_lumi r1_p_mu r1_p_stat_SR_0 r1_p_stat_SR_1 r0_d0 r0_d1 r0_a0 r0_a1 r0_a2 r1_d0 r1_d1 r1_a0 r1_a1 r1_a2 = Gen.shapeH_expdata1 realPrim s0 s1 b0 b1 e0 r1_p_lumi r1_p_mu r1_p_stat_SR_0 r1_p_stat_SR_1 := by
  first | rfl | (unfold Gen.shapeH_batch_row1_expdata1 Gen.shapeH_expdata1; norm_num <;> ring_nf)

/-- shapeH: row 1, entry 2 of the batched `expected_data` = entry 2 of the unbatched one at row 1's parameters -/
theorem shapeH_batch_row1_expdata2_eq (lpois : ℝ → ℝ → ℝ) (lnorm : ℝ → ℝ → ℝ → ℝ) (s0 s1 b0 b1 e0 r0_p_lumi r0_p_mu r0_p_stat_SR_0 r0_p_stat_SR_1 r1_p_lumi r1_p_mu r1_p_stat_SR_0 r1_p_stat_SR_1 r0_d0 r0_d1 r0_a0 r0_a1 r0_a2 r1_d0 r1_d1 r1_a0 r1_a1 r1_a2 : ℝ) :
    Gen.shapeH_batch_row1_expdata2 realPrim lpois lnorm s0 s1 b0 b1 e0 r0_p_lumi r0_p_mu r0_p_stat_SR_0 r0_p_stat_SR_1 r1_p_lumi r1_p_mu r1_p_stat_SR_0 r1_p_stat_SR_1 r0_d0 r0_d1 r0_a0 r0_a1 r0_a2 r1_d0 r1_d1 r1_a0 r1_a1 r1_a2 = Gen.shapeH_expdata2 realPrim s0 s1 b0 b1 e0 r1_p_lumi r1_p_mu r1_p_stat_SR_0 r1_p_stat_SR_1 := by
  first | rfl | (unfold Gen.shapeH_batch_row1_expdata2 Gen.shapeH_expdata2; norm_num <;> ring_nf)

/-- shapeH: row 1, entry 3 of the batched `expected_data` = entry 3 of the unbatched one at row 1's parameters -/
theorem shapeH_batch_row1_expdata3_eq (lpois : ℝ → ℝ → ℝ) (lnorm : ℝ → ℝ → ℝ → ℝ) (s0 s1 b0 b1 e0 r0_p_lumi r0_p_mu r0_p_stat_SR_0 r0_p_stat_SR_1 r1_p_lumi r1_p_mu r1_p_stat_SR_0 r1_p_stat_SR_1 r0_d0 r0_d1 r0_a0 r0_a1 r0_a2 r1_d0 r1_d1 r1_a0 r1_a1 r1_a2 : ℝ) :
    Gen.shapeH_batch_row1_expdata3 realPrim lpois lnorm s0 s1 b0 b1 e0 r0_p_lumi r0_p_mu r0_p_stat_SR_0 r0_p_stat_SR_1 r1_p_lumi r1_p_mu r1_p_stat_SR_0 r1_p_stat_SR_1 r0_d0 r0_d1 r0_a0 r0_a1 r0_a2 r1_d0 r1_d1 r1_a0 r1_a1 r1_a2 = Gen.shapeH_expdata3 realPrim s0 s1 b0 b1 e0 r1_p_lumi r1_p_mu r1_p_stat_SR_0 r1_p_stat_SR_1 := by
  first | rfl | (unfold Gen.shapeH_batch_row1_expdata3 Gen.shapeH_expdata3; norm_num <;> ring_nf)

/-- shapeH: row 1, entry 4 of the batched `expected_data` = entry 4 of the unbatched one at row 1's parameters -/
theorem shapeH_batch_row1_expdata4_eq (lpois : ℝ → ℝ → ℝ) (lnorm : ℝ → ℝ → ℝ → ℝ) (s0 s1 b0 b1 e0 r0_p_lumi r0_p_mu r0_p_stat_SR_0 r0_p_stat_SR_1 r1_p_lumi r1_p_mu r1_p_stat_SR_0 r1_p_stat_SR_1 r0_d0 r0_d1 r0_a0 r0_a1 r0_a2 r1_d0 r1_d1 r1_a0 r1_a1 r1_a2 : ℝ) :
    Gen.shapeH_batch_row1_expdata4 realPrim lpois lnorm s0 s1 b0 b1 e0 r0_p_lumi r0_p_mu r0_p_stat_SR_0 r0_p_stat_SR_1 r1_p_lumi r1_p_mu r1_p_stat_SR_0 r1_p_stat_SR_1 r0_d0 r0_d1 r0_a0 r0_a1 r0_a2 r1_d0 r1_d1 r1_a0 r1_a1 r1_a2 = Gen.shapeH_expdata4 realPrim s0 s1 b0 b1 e0 r1_p_lumi r1_p_mu r1_p_stat_SR_0 r1_p_stat_SR_1 := by
  first | rfl | (unfold Gen.shapeH_batch_row1_expdata4 Gen.shapeH_expdata4; norm_num <;> ring_nf)

/-- the unbatched expected data of shapeF: the two rates, then — in auxiliary-data order — the Poisson rates `γ·τ` of the uncorrelated-shape
bins and the means `γ` of the MC-statistical bins -/
theorem shapeF_expected_data_layout (s0 s1 es0 es1 b0 b1 u0 u1 eb0 eb1 p_mu p_uncorr_0 p_uncorr_1 p_stat_SR_0 p_stat_SR_1 : ℝ) :
    Gen.shapeF_expdata0 realPrim s0 s1 es0 es1 b0 b1 u0 u1 eb0 eb1 p_mu p_uncorr_0 p_uncorr_1 p_stat_SR_0 p_stat_SR_1 = Gen.shapeF_bin0 realPrim s0 s1 es0 es1 b0 b1 u0 u1 eb0 eb1 p_mu p_uncorr_0 p_uncorr_1 p_stat_SR_0 p_stat_SR_1 ∧
    Gen.shapeF_expdata1 realPrim s0 s1 es0 es1 b0 b1 u0 u1 eb0 eb1 p_mu p_uncorr_0 p_uncorr_1 p_stat_SR_0 p_stat_SR_1 = Gen.shapeF_bin1 realPrim s0 s1 es0 es1 b0 b1 u0 u1 eb0 eb1 p_mu p_uncorr_0 p_uncorr_1 p_stat_SR_0 p_stat_SR_1 ∧
    Gen.shapeF_expdata2 realPrim s0 s1 es0 es1 b0 b1 u0 u1 eb0 eb1 p_mu p_uncorr_0 p_uncorr_1 p_stat_SR_0 p_stat_SR_1 = p_uncorr_0 * (b0 ^ (2:ℝ) / u0 ^ (2:ℝ)) ∧
    Gen.shapeF_expdata3 realPrim s0 s1 es0 es1 b0 b1 u0 u1 eb0 eb1 p_mu p_uncorr_0 p_uncorr_1 p_stat_SR_0 p_stat_SR_1 = p_uncorr_1 * (b1 ^ (2:ℝ) / u1 ^ (2:ℝ)) ∧
    Gen.shapeF_expdata4 realPrim s0 s1 es0 es1 b0 b1 u0 u1 eb0 eb1 p_mu p_uncorr_0 p_uncorr_1 p_stat_SR_0 p_stat_SR_1 = p_stat_SR_0 ∧ Gen.shapeF_expdata5 realPrim s0 s1 es0 es1 b0 b1 u0 u1 eb0 eb1 p_mu p_uncorr_0 p_uncorr_1 p_stat_SR_0 p_stat_SR_1 = p_stat_SR_1 := by
  refine ⟨?_, ?_, ?_, ?_, ?_, ?_⟩ <;> first | rfl | (simp only [Gen.shapeF_expdata2, Gen.shapeF_expdata3, realPrim_pow]; norm_num)

end Pyhf.Props.C10
