import PyhfProofs.Lemmas.Build
/-!
# C20 — structurally inconsistent specifications are refused, never partly evaluated

`buildModel` reproduces every check on pyhf's construction path, in order, with Python's failure modes as
error values (`Err.isPyhf` ⇔ one of pyhf's own exception classes).
-/
set_option linter.unusedSectionVars false
namespace Pyhf.Props.C20
open Pyhf

variable {K : Type} [Add K] [Sub K] [Mul K] [Div K] [Neg K] [OfNat K 0] [OfNat K 1]
  [OfScientific K] [LT K] [LE K] [DecidableLT K] [DecidableLE K] [BEq K]

/-- **accept ⇒ well-formed**: an accepted specification has no repeated channel, sample or modifier entry, no
re-used uncorrelated-shape modifier, every sample and every bin-wise modifier datum of its channel's bin count,
shape factors shared only between equal bin counts, every listed modifier backed by a parameter set, and
bin-wise constrained modifiers with exactly one parameter component per bin they act on. -/
theorem accept_implies_WF (P : Prim K) (s : Spec K) (st : Settings K) (m : Model K)
    (h : buildModel P s st = .ok m) :
    specDuplicates s = false ∧ shapesysReuse s = false ∧ walkError s (mkConfig s) = none ∧
    nominalLengthsOK s (mkConfig s) = true ∧ histoBlocksOK s (mkConfig s) = true ∧
    orphanError (mkConfig s) m.ps = none ∧
    reindexError s (mkConfig s) (parSlices m.ps) .shapesys = none ∧
    reindexError s (mkConfig s) (parSlices m.ps) .staterror = none := by
  have hb := buildModel_built P s st m h
  exact ⟨hb.no_duplicates, hb.no_shapesys_reuse, hb.walk_ok, walk_nominal s _ hb.walk_ok, walk_histo s _ hb.walk_ok,
    hb.no_orphans, hb.reindex_shapesys, hb.reindex_staterror⟩

/-- nothing of the accepted content is dropped: the model evaluates exactly the specification it was given -/
theorem accepted_model_keeps_spec (P : Prim K) (s : Spec K) (st : Settings K) (m : Model K)
    (h : buildModel P s st = .ok m) : m.spec = s ∧ m.cfg = mkConfig s ∧ m.slices = parSlices m.ps := by
  have hb := buildModel_built P s st m h
  exact ⟨hb.spec_eq, hb.cfg_eq, hb.slices_eq⟩

/-- two channels with one name, two samples with one name in a channel, or one `(type, name)` modifier listed
twice on a sample: refused with `InvalidModel` -/
theorem rejects_duplicates (P : Prim K) (s : Spec K) (st : Settings K) (h : specDuplicates s = true) :
    buildModel P s st = .error .invalidModel := by
  unfold buildModel; simp [h]

/-- an uncorrelated-shape modifier used on a second sample: refused with `InvalidModel` -/
theorem rejects_shapesys_reuse (P : Prim K) (s : Spec K) (st : Settings K) (h : shapesysReuse s = true) :
    buildModel P s st = .error .invalidModel := by
  unfold buildModel; simp [h]

theorem modAppendError_isPyhf (s : Spec K) (cfg : Config) (x : Sample K) (n : String) (t : ModType) (e : Err)
    (h : modAppendError s cfg x n t = some e) : e.isPyhf = true := by
  unfold modAppendError at h
  cases hf : findMod x n t with
  | none => rw [hf] at h; cases h
  | some md =>
    rw [hf] at h
    cases t <;> simp only [] at h <;> (try cases h) <;> (split at h <;> first | cases h; rfl | cases h)

/-- every failure of the sorted walk (sample length, modifier data length, shape-factor bin counts) is one of
pyhf's exception classes -/
theorem walkError_isPyhf (s : Spec K) (cfg : Config) (e : Err) (h : walkError s cfg = some e) : e.isPyhf = true := by
  unfold walkError at h
  obtain ⟨c, _, h1⟩ := List.exists_of_findSome?_eq_some h
  obtain ⟨sm, _, h2⟩ := List.exists_of_findSome?_eq_some h1
  cases hf : findSample s c sm with
  | none => rw [hf] at h2; cases h2
  | some x =>
    rw [hf] at h2
    simp only [] at h2
    split at h2
    · cases h2; rfl
    · obtain ⟨nt, _, h3⟩ := List.exists_of_findSome?_eq_some h2
      exact modAppendError_isPyhf s cfg x nt.1 nt.2 e h3

/-- wrong sample length / wrong modifier data length / a shape factor shared between different bin counts:
the construction fails, with a pyhf exception -/
theorem rejects_walk_faults (P : Prim K) (s : Spec K) (st : Settings K) (e : Err)
    (hd : specDuplicates s = false) (hr : shapesysReuse s = false) (h : walkError s (mkConfig s) = some e) :
    buildModel P s st = .error e ∧ e.isPyhf = true := by
  refine ⟨?_, walkError_isPyhf s _ e h⟩
  unfold buildModel; simp [hd, hr, h]

/-- sample data whose length differs from the channel's bin count are caught by the walk -/
theorem wrong_sample_length_detected (s : Spec K) (c sm : String) (x : Sample K)
    (hc : c ∈ (mkConfig s).channels) (hsm : sm ∈ (mkConfig s).samples)
    (hf : findSample s c sm = some x) (hlen : x.data.length ≠ (mkConfig s).nbOf c) :
    walkError s (mkConfig s) ≠ none := by
  intro h
  have := walk_nominal s _ h
  unfold nominalLengthsOK at this
  rw [List.all_eq_true] at this
  have h1 := this c hc
  rw [List.all_eq_true] at h1
  have h2 := h1 sm hsm
  rw [hf] at h2
  exact hlen (by simpa using h2)

/-- an undefined or multi-component POI is refused with `InvalidModel` -/
theorem poiCheck_error_isPyhf (poi : Option String) (ps : List (Paramset K)) (sl : List (String × Nat × Nat)) (e : Err)
    (h : poiCheck poi ps sl = .error e) : e = .invalidModel := by
  unfold poiCheck at h
  cases poi with
  | none => cases h
  | some p =>
    simp only [] at h
    cases hfd : ps.find? (·.name == p) with
    | none => rw [hfd] at h; cases h; rfl
    | some q => rw [hfd] at h; simp only [] at h; split at h <;> cases h; rfl

theorem rejects_undefined_poi (ps : List (Paramset K)) (sl : List (String × Nat × Nat)) (p : String)
    (h : ps.find? (·.name == p) = none) : poiCheck (some p) ps sl = .error .invalidModel := by
  unfold poiCheck; simp [h]

/-- conflicting requirements for one parameter name (different constraint type, size, defaults):
`InvalidNameReuse` -/
theorem rejects_conflicting_paramset (name : String) (r r' : Req K) (rest : List (Req K)) (user : Option (ParCfg K))
    (hne : (r' == r) = false) (hmem : r' ∈ rest) :
    reduceOne name (r :: rest) user = .error .invalidNameReuse := by
  unfold reduceOne
  have : rest.any (fun q => !(q == r)) = true := by
    rw [List.any_eq_true]; exact ⟨r', hmem, by simp [hne]⟩
  simp [this]

/-- an override list whose length differs from the default's: `InvalidModel` -/
theorem rejects_wrong_override_length {α : Type} (d v : List α) (hd : d.length ≠ 0) (hl : v.length ≠ d.length) :
    overrideList (Fld.val d) (some v) = .error .invalidModel := by
  unfold overrideList
  simp [hd, hl]

/-- an override for an attribute the parameter set does not use: `InvalidModel` -/
theorem rejects_unused_override {α : Type} (v : List α) :
    overrideList (Fld.undef : Fld (List α)) (some v) = .error .invalidModel := rfl

end Pyhf.Props.C20
