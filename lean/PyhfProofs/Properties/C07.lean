import PyhfModel.Infer
import PyhfProofs.Lemmas.Mills
import PyhfProofs.Lemmas.RealPrim
import Mathlib.Analysis.SpecialFunctions.Sqrt
import Mathlib.Analysis.SpecialFunctions.Pow.Real
import Mathlib.Tactic.Linarith
import Mathlib.Tactic.Ring
import Mathlib.Tactic.FieldSimp
/-!
# C07 — asymptotic p-values follow the formulae of arXiv:1007.1727

`Φ` (standard normal cdf) is an arbitrary function; hypotheses on it are stated where used.
`asymTeststat`, `asymDistributions`, `AsymDist.pvalueArg/expectedValue` model
`AsymptoticCalculator.teststatistic/distributions/pvalues/expected_pvalues`; a p-value is `Φ` of the
returned argument.
-/
namespace Pyhf.Props.C07
open Pyhf Pyhf.Infer

/-- the model's squaring (`tensorlib.power(x, 2)`) over ℝ -/
noncomputable def sq (x : ℝ) : ℝ := x ^ 2

/-- CL_{s+b} and CL_b as functions of `(q, q_A)` -/
noncomputable def clsbArg (ts : TestStat) (q qA : ℝ) (clipped : Bool) : Option ℝ :=
  (asymDistributions (Real.sqrt qA) clipped).1.pvalueArg (asymTeststat Real.sqrt sq ts q qA)
noncomputable def clbArg (ts : TestStat) (q qA : ℝ) (clipped : Bool) : Option ℝ :=
  (asymDistributions (Real.sqrt qA) clipped).2.pvalueArg (asymTeststat Real.sqrt sq ts q qA)

/-- `CL_{s+b} = Φ(−√q) = 1 − Φ(√q)` for `q_μ`, `q_0`, and `q̃_μ` with `√q ≤ √q_A` -/
theorem clsb_q (ts : TestStat) (q qA : ℝ) (h : ts ≠ .qtilde ∨ Real.sqrt q ≤ Real.sqrt qA) :
    clsbArg ts q qA false = some (-Real.sqrt q) := by
  unfold clsbArg asymDistributions asymTeststat AsymDist.pvalueArg
  rcases h with h | h
  · cases ts <;> first | exact absurd rfl h | (simp only [Bool.false_eq_true, if_false]; congr 1; ring)
  · cases ts <;> simp only [Bool.false_eq_true, if_false, h, if_true] <;> (congr 1; ring)

/-- `CL_b = Φ(−(√q − √q_A)) = 1 − Φ(√q − √q_A)` in the same cases -/
theorem clb_q (ts : TestStat) (q qA : ℝ) (h : ts ≠ .qtilde ∨ Real.sqrt q ≤ Real.sqrt qA) :
    clbArg ts q qA false = some (-(Real.sqrt q - Real.sqrt qA)) := by
  unfold clbArg asymDistributions asymTeststat AsymDist.pvalueArg
  rcases h with h | h
  · cases ts <;> first | exact absurd rfl h | (simp only [Bool.false_eq_true, if_false]; congr 1; ring)
  · cases ts <;> simp only [Bool.false_eq_true, if_false, h, if_true] <;> (congr 1; ring)

/-- `q̃_μ` with `q > q_A`: `CL_{s+b} = Φ(−(q + q_A)/(2√q_A))` -/
theorem clsb_qtilde_hi (q qA : ℝ) (hq : 0 ≤ q) (hA : 0 < qA) (h : Real.sqrt qA < Real.sqrt q) :
    clsbArg .qtilde q qA false = some (-((q + qA) / (2 * Real.sqrt qA))) := by
  unfold clsbArg asymDistributions asymTeststat AsymDist.pvalueArg
  have hs : 0 < Real.sqrt qA := Real.sqrt_pos.mpr hA
  simp only [Bool.false_eq_true, if_false, not_le.mpr h, sq, Real.sq_sqrt hq, Real.sq_sqrt hA.le, sci_2]
  congr 1
  have : qA = Real.sqrt qA * Real.sqrt qA := (Real.mul_self_sqrt hA.le).symm
  field_simp
  nlinarith [Real.mul_self_sqrt hA.le]

/-- … and `CL_b = Φ(−(q − q_A)/(2√q_A))` -/
theorem clb_qtilde_hi (q qA : ℝ) (hq : 0 ≤ q) (hA : 0 < qA) (h : Real.sqrt qA < Real.sqrt q) :
    clbArg .qtilde q qA false = some (-((q - qA) / (2 * Real.sqrt qA))) := by
  unfold clbArg asymDistributions asymTeststat AsymDist.pvalueArg
  simp only [Bool.false_eq_true, if_false, not_le.mpr h, sq, Real.sq_sqrt hq, Real.sq_sqrt hA.le, sci_2]
  congr 1; ring

/-- the two `q̃` branches agree at `q = q_A` -/
theorem branches_agree_at_seam (qA : ℝ) (hA : 0 < qA) :
    (qA + qA) / (2 * Real.sqrt qA) = Real.sqrt qA ∧ (qA - qA) / (2 * Real.sqrt qA) = Real.sqrt qA - Real.sqrt qA := by
  have hs : 0 < Real.sqrt qA := Real.sqrt_pos.mpr hA
  constructor
  · field_simp; nlinarith [Real.mul_self_sqrt hA.le]
  · simp

/-- expected values: the background-only distribution's `N`-sigma test-statistic value is `N` … -/
theorem expected_teststat (sA n : ℝ) : (asymDistributions sA false).2.expectedValue n = n := by
  simp [asymDistributions, AsymDist.expectedValue]

/-- … so the expected `CL_s` at `n` sigma is `Φ(−n − √q_A)/Φ(−n)` -/
theorem expected_formula (sA n : ℝ) :
    asymPvalueArgs (asymDistributions sA false).1 (asymDistributions sA false).2
      ((asymDistributions sA false).2.expectedValue n) = (some (-n - sA), some (-n)) := by
  rw [expected_teststat]
  simp only [asymPvalueArgs, asymDistributions, AsymDist.pvalueArg, Bool.false_eq_true, if_false]
  have e1 : -(n - -sA) = -n - sA := by ring
  have e2 : -(n - 0) = -n := by ring
  rw [e1, e2]

/-- the five expected points are evaluated at `n = 2, 1, 0, −1, −2`, in that order -/
theorem expected_order (sA : ℝ) : asymExpectedTs (asymDistributions sA false).2 = [2, 1, 0, -1, -2] := by
  simp only [asymExpectedTs, List.map_cons, List.map_nil, expected_teststat, sci_2]

/-! ### ordering -/

/-- `0 ≤ CL_{s+b} ≤ CL_b ≤ 1` and `0 ≤ CL_s ≤ 1` for any monotone `Φ` with values in `(0, 1]` -/
theorem ordering (Φ : ℝ → ℝ) (hmono : Monotone Φ) (hpos : ∀ x, 0 < Φ x) (hle : ∀ x, Φ x ≤ 1) (t sA : ℝ) (hsA : 0 ≤ sA) :
    let clsb := Φ (-(t - (-sA)))
    let clb := Φ (-(t - 0))
    0 ≤ clsb ∧ clsb ≤ clb ∧ clb ≤ 1 ∧ 0 ≤ clsb / clb ∧ clsb / clb ≤ 1 := by
  intro clsb clb
  have h1 : clsb ≤ clb := hmono (by linarith)
  refine ⟨(hpos _).le, h1, hle _, div_nonneg (hpos _).le (hpos _).le, ?_⟩
  rw [div_le_one (hpos _)]; exact h1

/-- the five-point band is non-decreasing from the −2σ to the +2σ entry, for any `Φ` such that `x ↦ Φ(x − a)/Φ(x)` is
monotone (discharged for the normal cdf in `band_monotone` below) -/
theorem band_monotone_of_ratio_monotone (Φ : ℝ → ℝ) (sA : ℝ)
    (hlc : Monotone fun x => Φ (x - sA) / Φ x) :
    List.Pairwise (· ≤ ·) ([2, 1, 0, -1, -2].map fun n : ℝ => Φ (-n - sA) / Φ (-n)) := by
  have key : ∀ a b : ℝ, b ≤ a → Φ (-a - sA) / Φ (-a) ≤ Φ (-b - sA) / Φ (-b) := by
    intro a b hab
    have := hlc (show -a ≤ -b by linarith)
    simpa using this
  simp only [List.map_cons, List.map_nil, List.pairwise_cons, List.mem_cons, List.mem_nil_iff, or_false,
    forall_eq_or_imp, forall_eq, List.Pairwise.nil, and_true, List.not_mem_nil, false_implies, implies_true]
  refine ⟨⟨key _ _ (by norm_num), key _ _ (by norm_num), key _ _ (by norm_num), key _ _ (by norm_num)⟩,
    ⟨key _ _ (by norm_num), key _ _ (by norm_num), key _ _ (by norm_num)⟩,
    ⟨key _ _ (by norm_num), key _ _ (by norm_num)⟩, key _ _ (by norm_num)⟩

/-! ### the statements above for the actual standard normal cdf

`Mills.Phi = cdf (gaussianReal 0 1)` (Mathlib).  `Lemmas/Mills.lean` proves `Φ' = φ`, the Mills-ratio bound
`x·Φ(x) + φ(x) ≥ 0`, hence `φ/Φ` antitone and `x ↦ Φ(x − a)/Φ(x)` monotone for `a ≥ 0` (log-concavity of `Φ`). -/

/-- **the five-point expected band is non-decreasing from −2σ to +2σ**, for every Asimov value `q_A` -/
theorem band_monotone (qA : ℝ) :
    List.Pairwise (· ≤ ·) ([2, 1, 0, -1, -2].map fun n : ℝ => Mills.Phi (-n - Real.sqrt qA) / Mills.Phi (-n)) :=
  band_monotone_of_ratio_monotone Mills.Phi (Real.sqrt qA) (Mills.Phi_ratio_monotone _ (Real.sqrt_nonneg qA))

/-- `0 ≤ CL_{s+b} ≤ CL_b ≤ 1` and `0 ≤ CL_s ≤ 1` with the normal cdf -/
theorem ordering_normal (t qA : ℝ) :
    let clsb := Mills.Phi (-(t - (-Real.sqrt qA)))
    let clb := Mills.Phi (-(t - 0))
    0 ≤ clsb ∧ clsb ≤ clb ∧ clb ≤ 1 ∧ 0 ≤ clsb / clb ∧ clsb / clb ≤ 1 :=
  ordering Mills.Phi Mills.Phi_mono Mills.Phi_pos Mills.Phi_le_one t (Real.sqrt qA) (Real.sqrt_nonneg qA)

/-- the "1 − Φ" forms of the statement: `Φ(−x) = 1 − Φ(x)` -/
theorem one_minus_form (x : ℝ) : Mills.Phi (-x) = 1 - Mills.Phi x := Mills.Phi_neg x

/-! ### clipped base distribution -/

/-- no expected value lies below the cutoff `−√q_A` (i.e. corresponds to a negative test statistic) -/
theorem clipped_expected_ge_cutoff (sA n : ℝ) : -sA ≤ (asymDistributions sA true).2.expectedValue n := by
  simp only [asymDistributions, AsymDist.expectedValue, if_true]
  split_ifs with h
  · exact h.le
  · exact le_refl _

/-- above the cutoff the clipped distribution gives the same expected value as the normal one -/
theorem clipped_equals_normal_above_cutoff (sA n : ℝ) (h : -sA < 0 + n) :
    (asymDistributions sA true).2.expectedValue n = (asymDistributions sA false).2.expectedValue n := by
  simp only [asymDistributions, AsymDist.expectedValue, if_true, Bool.false_eq_true, if_false, h]

/-- p-values at or above the cutoff are those of the normal base distribution; below it none is reported -/
theorem clipped_pvalue (sA t : ℝ) :
    (asymDistributions sA true).1.pvalueArg t =
      if -sA ≤ t then (asymDistributions sA false).1.pvalueArg t else none := by
  simp [asymDistributions, AsymDist.pvalueArg]

end Pyhf.Props.C07
