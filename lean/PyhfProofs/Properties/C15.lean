import PyhfModel.Decl
import PyhfProofs.Lemmas.InterpReal
import PyhfProofs.Lemmas.EngineAD
import PyhfProofs.Properties.C03
import Mathlib.Order.ConditionallyCompleteLattice.Basic
import Mathlib.Algebra.Order.Group.OrderIso
/-!
# C15 — inference is invariant under likelihood-preserving rewrites

Two layers.  (1) The building blocks of the declarative rate formula **D** (tied to the code by C01) are neutral under the
listed rewrites: a zero-yield sample contributes nothing, a systematic whose variations equal the nominal shifts nothing /
multiplies by one for every parameter value and every interpolation code, and rescaling a signal by `k` is compensated by
`μ ↦ μ/k`.  (2) Whenever two likelihood functions are related by a bijection of the parameter boxes that preserves the
POI coordinate, up to an additive constant, every profile-likelihood quantity (conditional and unconditional minima,
hence `t_μ`, `q_μ`, `q̃_μ`, `q_0`, and through C07 every CLs and limit) coincides in exact arithmetic.
-/
namespace Pyhf.Props.C15
open Pyhf Pyhf.Interp

/-! ### (1) neutral elements of the rate formula -/

/-- a sample with zero yield and no additive modifier contributes rate 0, whatever its factors -/
theorem zero_yield_sample_rate (facs shifts : List ℝ) (hs : shifts = []) : prodK facs * (sumK shifts + 0) = 0 := by
  subst hs; simp [sumK]

/-- histosys with `lo = hi = nominal`: the shift is `0` for every `α` and every interpolation code -/
theorem null_histosys_shift_zero (code : String) (nom a : ℝ) : histoInterp code nom nom nom a = 0 := by
  unfold histoInterp
  split_ifs
  · rw [C03.code0_fast_eq_slow]; unfold slow0; split_ifs <;> ring
  · rw [C03.code2_fast_eq_slow, slow2_real, c2a_real, c2b_real]; split_ifs <;> ring
  · rw [C03.code4p_fast_eq_slow, slow4p_real]; unfold core4p s4p a4p; split_ifs <;> ring

/-- normsys with `lo = hi = 1` under code 1: the factor is `1` for every `α` -/
theorem null_normsys_factor_one_code1 (a : ℝ) : normInterp realPrim "1" 1 1 1 a = 1 := by
  unfold normInterp
  simp only [if_true, beq_self_eq_true]
  rw [C03.code1_fast_eq_slow]
  unfold slow1
  split_ifs <;> simp

/-- … and under code 4 (the right-hand side of the boundary system vanishes, so the sextic is the constant 1) -/
theorem null_normsys_factor_one_code4 (a : ℝ) : normInterp realPrim "4" 1 1 1 a = 1 := by
  unfold normInterp
  have hne : (("4" : String) == "1") = false := by decide
  simp only [hne, Bool.false_eq_true, if_false]
  rw [C03.code4_fast_eq_slow _ _ _ _ _ one_pos]
  unfold slow4
  simp only [div_one, realPrim_pow, Real.one_rpow]
  split_ifs
  · rfl
  · simp [poly6_real, code4Coeffs, code4Rhs, ipow_eq]
  · rfl

/-- rescaling the signal yields by `k` is compensated by `μ ↦ μ / k` -/
theorem signal_rescale_covariant (mu k s : ℝ) (hk : k ≠ 0) : (mu / k) * (k * s) = mu * s := by
  field_simp

/-! ### (2) profile likelihood under a reparametrisation -/

/-- if `L' ∘ e = L + c` on a set `S` then the minima over `S` and over its image differ by `c` -/
theorem inf_reparam {P P' : Type} (L : P → ℝ) (L' : P' → ℝ) (e : P → P') (c : ℝ) (S : Set P)
    (h : ∀ p ∈ S, L' (e p) = L p + c) (hne : S.Nonempty) (hb : BddBelow (L '' S)) :
    sInf (L' '' (e '' S)) = sInf (L '' S) + c := by
  have himg : L' '' (e '' S) = (fun y => y + c) '' (L '' S) := by
    ext y
    simp only [Set.mem_image, exists_exists_and_eq_and]
    constructor
    · rintro ⟨p, hp, rfl⟩; exact ⟨p, hp, (h p hp).symm⟩
    · rintro ⟨p, hp, rfl⟩; exact ⟨p, hp, h p hp⟩
  rw [himg]
  exact ((OrderIso.addRight c).map_csInf' (hne.image L) hb).symm

/-- **profile-ratio invariance**: the conditional-minus-unconditional objective difference (the quantity every
profile-likelihood test statistic is a function of, together with the fitted POI) is the same for two likelihoods
related by a reparametrisation `e` with `L' ∘ e = L + c`, mapping the full box `S` onto `e '' S` and the slice
`{POI = μ}` `Sμ` onto `e '' Sμ` -/
theorem profile_ratio_invariant {P P' : Type} (L : P → ℝ) (L' : P' → ℝ) (e : P → P') (c : ℝ) (S Sμ : Set P)
    (hsub : Sμ ⊆ S) (h : ∀ p ∈ S, L' (e p) = L p + c) (hneμ : Sμ.Nonempty) (hb : BddBelow (L '' S)) :
    sInf (L' '' (e '' Sμ)) - sInf (L' '' (e '' S)) = sInf (L '' Sμ) - sInf (L '' S) := by
  have hne : S.Nonempty := hneμ.mono hsub
  have hbμ : BddBelow (L '' Sμ) := hb.mono (Set.image_mono hsub)
  rw [inf_reparam L L' e c S h hne hb, inf_reparam L L' e c Sμ (fun p hp => h p (hsub hp)) hneμ hbμ]
  ring

/-- permuting, renaming or relabelling parameters is such a reparametrisation with `c = 0`; adding a null systematic
adds its own constraint term, a function of the new parameter only — on the slice where the new parameter sits at its
constraint centre it adds a constant -/
theorem added_constant_cancels (a b c : ℝ) : (a + c) - (b + c) = a - b := by ring

end Pyhf.Props.C15
