import PyhfModel.Workspace
import PyhfModel.Prune
import PyhfProofs.Lemmas.Canon
import Mathlib.Data.List.Basic
/-!
# C16 — workspace combine, prune, rename and sort act as advertised (list/dictionary algebra)
-/
set_option linter.unusedSectionVars false
namespace Pyhf.Props.C16
open Pyhf.WS

variable {α : Type} [DecidableEq α]

theorem foldl_append_all (l : List (Item α)) (r : List (Item α)) (p : Item α → Bool) :
    r.foldl (fun joined s => if p s then joined ++ [s] else joined) l = l ++ r.filter p := by
  induction r generalizing l with
  | nil => simp
  | cons s r ih =>
    simp only [List.foldl_cons, List.filter_cons]
    by_cases h : p s = true
    · simp [h, ih]
    · simp [h, ih]

/-- join `none` without deep merge appends every item of the right workspace -/
theorem joinItems_none (l r : List (Item α)) : joinItems .none l r none = l ++ r := by
  unfold joinItems
  simp only [show (Join.none = Join.rightOuter) = False by simp, if_false, Option.isSome_none, Bool.and_false,
    Bool.false_eq_true, decide_true, Bool.true_or, if_true]
  have := foldl_append_all l r (fun _ => true)
  simpa using this

/-- **disjoint inputs: the combination contains every item of both, unchanged, left ones first** -/
theorem join_none_disjoint_is_append (l r : List (Item α)) (h : commonNames l r = false) :
    joinChecked .none l r none = .ok (l ++ r) := by
  unfold joinChecked; simp [h, joinItems_none]

/-- **join `none` refuses any common name** -/
theorem join_none_refuses_common (l r : List (Item α)) (m : Option (α → α → α)) (h : commonNames l r = true) :
    joinChecked .none l r m = .error .invalidWorkspaceOperation := by
  unfold joinChecked; simp [h]

/-- join `outer` keeps the left items and appends the right items that are not *identical* to a left item -/
theorem joinItems_outer (l r : List (Item α)) : joinItems .outer l r none = l ++ r.filter (fun s => !l.contains s) := by
  unfold joinItems
  simp only [show (Join.outer = Join.rightOuter) = False by simp, if_false, Option.isSome_none, Bool.and_false,
    Bool.false_eq_true, show (Join.outer = Join.none) = False by simp, decide_false, Bool.false_or, decide_true, Bool.true_and,
    show (Join.outer = Join.leftOuter) = False by simp, Bool.or_self, Bool.false_and, Bool.or_false]
  exact foldl_append_all l r _

/-- **overlapping-identical inputs: an item present identically on both sides appears once** -/
theorem join_outer_identical_once (l r : List (Item α)) (h : ∀ s ∈ r, s ∈ l) : joinItems .outer l r none = l := by
  rw [joinItems_outer]
  have : r.filter (fun s => !l.contains s) = [] := by
    rw [List.filter_eq_nil_iff]; intro s hs; simp [h s hs]
  rw [this, List.append_nil]

theorem hasDupName_of (xs : List (Item α)) (a b : Item α) (pre mid post : List (Item α))
    (h : xs = pre ++ a :: mid ++ b :: post) (hn : a.name = b.name) : hasDupName xs = true := by
  subst h
  induction pre with
  | nil => simp [hasDupName, names, hn]
  | cons p pre ih =>
    have ih' : hasDupName (pre ++ a :: (mid ++ b :: post)) = true := by simpa using ih
    simp [hasDupName, ih']

/-- **overlapping-conflicting inputs are refused**: a right item with the name of a left item but a different body -/
theorem join_outer_refuses_conflict (l r : List (Item α)) (a b : Item α) (ha : a ∈ l) (hb : b ∈ r)
    (hname : a.name = b.name) (hnl : b ∉ l) : joinChecked .outer l r none = .error .invalidWorkspaceOperation := by
  unfold joinChecked
  rw [joinItems_outer]
  obtain ⟨l1, l2, rfl⟩ := List.append_of_mem ha
  have hbf : b ∈ r.filter (fun s => !(l1 ++ a :: l2).contains s) := by
    rw [List.mem_filter]; exact ⟨hb, by simpa using hnl⟩
  obtain ⟨r1, r2, hr⟩ := List.append_of_mem hbf
  rw [hr]
  have := hasDupName_of (l1 ++ a :: l2 ++ (r1 ++ b :: r2)) a b l1 (l2 ++ r1) r2 (by simp) hname
  simp only [this, if_true]

/-- left-outer join: left items win, right items are added only under new names (right-outer symmetric) -/
theorem left_outer_prefers_left (l r : List (Item α)) :
    joinItems .leftOuter l r none = l ++ r.filter (fun s => !(names l).contains s.name) := by
  unfold joinItems
  simp only [show (Join.leftOuter = Join.rightOuter) = False by simp, if_false, Option.isSome_none, Bool.and_false,
    Bool.false_eq_true, show (Join.leftOuter = Join.none) = False by simp, decide_false, Bool.false_or,
    show (Join.leftOuter = Join.outer) = False by simp, Bool.false_and, decide_true, Bool.true_or, Bool.true_and]
  exact foldl_append_all l r _

theorem right_outer_prefers_right (l r : List (Item α)) :
    joinItems .rightOuter l r none = r ++ l.filter (fun s => !(names r).contains s.name) := by
  unfold joinItems
  simp only [if_true, Option.isSome_none, Bool.and_false, Bool.false_eq_true, if_false,
    show (Join.rightOuter = Join.none) = False by simp, decide_false, Bool.false_or,
    show (Join.rightOuter = Join.outer) = False by simp, Bool.false_and, decide_true, Bool.or_true, Bool.true_and]
  exact foldl_append_all r l _

variable {σ ο π : Type} [DecidableEq σ] [DecidableEq ο] [DecidableEq π]

/-- different versions are refused, whatever the join mode -/
theorem combine_refuses_version_mismatch (L R : Workspace σ ο π) (j : Join) (h : L.version ≠ R.version) :
    combine L R j false = .error .invalidWorkspaceOperation := by
  unfold combine; simp [h]

/-- channel merging with the join mode that forbids overlap is refused -/
theorem combine_refuses_merge_with_none (L R : Workspace σ ο π) : combine L R .none true = .error .valueError := by
  unfold combine; simp

/-- **combining two workspaces with disjoint channels, observations and measurements yields every channel,
observation and measurement of both, unchanged** -/
theorem combine_disjoint (L R : Workspace σ ο π) (hv : L.version = R.version)
    (hc : commonNames L.channels R.channels = false) (ho : commonNames L.observations R.observations = false)
    (hm : commonNames L.measurements R.measurements = false) :
    combine L R .none false = .ok { channels := L.channels ++ R.channels, observations := L.observations ++ R.observations,
                                     measurements := L.measurements ++ R.measurements, version := L.version } := by
  unfold combine
  simp only [Bool.false_and, Bool.false_eq_true, if_false, hv, ne_eq, not_true_eq_false]
  rw [join_none_disjoint_is_append _ _ hc, join_none_disjoint_is_append _ _ ho]
  simp only [joinMeasurements, hm, Bool.false_eq_true, if_false, joinItems_none]

/-! ### prune / rename / sort -/

/-- pruning removes exactly the named items and keeps the others unchanged, in order -/
theorem prune_removes_exactly (xs : List (Item α)) (drop : List String) (x : Item α) :
    x ∈ pruneItems xs drop ↔ x ∈ xs ∧ x.name ∉ drop := by
  simp [pruneItems]

theorem prune_sublist (xs : List (Item α)) (drop : List String) : (pruneItems xs drop).Sublist xs :=
  List.filter_sublist

/-- renaming is a pure relabelling: bodies and order are untouched … -/
theorem rename_bodies (xs : List (Item α)) (f : String → String) : (renameItems xs f).map (·.body) = xs.map (·.body) := by
  simp [renameItems, List.map_map, Function.comp_def]

/-- … and the inverse renaming undoes it -/
theorem rename_inverse (xs : List (Item α)) (f g : String → String) (h : ∀ x ∈ xs, g (f x.name) = x.name) :
    renameItems (renameItems xs f) g = xs := by
  unfold renameItems
  rw [List.map_map]
  conv_rhs => rw [← List.map_id xs]
  apply List.map_congr_left
  intro x hx
  cases x with
  | mk n b => simpa using h ⟨n, b⟩ hx

theorem sort_perm (xs : List (Item α)) : (sortItems xs).Perm xs := List.mergeSort_perm _ _

theorem sort_sorted (xs : List (Item α)) : (sortItems xs).Pairwise (fun a b => a.name ≤ b.name) := by
  have := List.pairwise_mergeSort (le := fun (a b : Item α) => decide (a.name ≤ b.name))
    (fun a b c hab hbc => by simp at *; exact le_trans hab hbc) (fun a b => by simp; exact le_total _ _) xs
  exact this.imp (fun h => by simpa using h)

/-- **sorting is canonical**: two listings of the same items (names unique) sort to the same list -/
theorem sorted_perm_canonical (xs ys : List (Item α)) (h : xs.Perm ys) (hnd : (names xs).Nodup) :
    sortItems xs = sortItems ys := by
  apply List.Perm.eq_of_pairwise (le := fun (a b : Item α) => a.name ≤ b.name)
  · intro a b ha hb hab hba
    have hn : a.name = b.name := le_antisymm hab hba
    have ha' : a ∈ xs := (sort_perm xs).mem_iff.mp ha
    have hb' : b ∈ xs := h.symm.mem_iff.mp ((sort_perm ys).mem_iff.mp hb)
    exact List.inj_on_of_nodup_map hnd ha' hb' hn
  · exact sort_sorted xs
  · exact sort_sorted ys
  · exact (sort_perm xs).trans (h.trans (sort_perm ys).symm)

/-- **sorting is idempotent** -/
theorem sorted_idempotent (xs : List (Item α)) (hnd : (names xs).Nodup) : sortItems (sortItems xs) = sortItems xs :=
  (sorted_perm_canonical xs (sortItems xs) (sort_perm xs).symm hnd).symm

/-! ### `_prune_and_rename` on the full nested document -/

theorem getD_nil (k : String) : getD [] k = k := rfl

/-- an empty request changes nothing -/
theorem prune_nothing_is_identity (w : PWs) : applyReq {} w = w := by
  have hm : ∀ ms : List PMod, applyMods {} ms = ms := by
    intro ms; simp [applyMods, keepMod, getD_nil]
  have hs : ∀ ss : List PSample, applySamples {} ss = ss := by
    intro ss; simp [applySamples, hm, getD_nil]
  have hp : ∀ ps : List PPar, applyPars {} ps = ps := by
    intro ps; simp [applyPars, getD_nil]
  cases w
  simp [applyReq, applyChannels, applyMeas, applyObs, hs, hp, getD_nil]

/-- pruned channels: exactly the named channels go, the survivors keep their order -/
theorem prune_channels_exact (r : PReq) (cs : List PChan) (c' : PChan) :
    c' ∈ applyChannels r cs ↔
      ∃ c ∈ cs, c.name ∉ r.pruneChannels ∧ c' = { name := getD r.renChannels c.name, samples := applySamples r c.samples } := by
  simp only [applyChannels, List.mem_map, List.mem_filter, Bool.not_eq_true', List.contains_eq_mem, decide_eq_false_iff_not]
  constructor
  · rintro ⟨c, ⟨hc, hn⟩, rfl⟩; exact ⟨c, hc, hn, rfl⟩
  · rintro ⟨c, hc, hn, rfl⟩; exact ⟨c, ⟨hc, hn⟩, rfl⟩

/-- observations follow the channels -/
theorem prune_observations_exact (r : PReq) (os : List PObs) (o' : PObs) :
    o' ∈ applyObs r os ↔ ∃ o ∈ os, o.name ∉ r.pruneChannels ∧ o' = { o with name := getD r.renChannels o.name } := by
  simp only [applyObs, List.mem_map, List.mem_filter, Bool.not_eq_true', List.contains_eq_mem, decide_eq_false_iff_not]
  constructor
  · rintro ⟨c, ⟨hc, hn⟩, rfl⟩; exact ⟨c, hc, hn, rfl⟩
  · rintro ⟨c, hc, hn, rfl⟩; exact ⟨c, ⟨hc, hn⟩, rfl⟩

/-- pruned modifiers: exactly those named or of a named type go -/
theorem prune_modifiers_exact (r : PReq) (ms : List PMod) (m' : PMod) :
    m' ∈ applyMods r ms ↔
      ∃ m ∈ ms, m.name ∉ r.pruneMods ∧ m.type ∉ r.pruneTypes ∧ m' = { m with name := getD r.renMods m.name } := by
  simp only [applyMods, keepMod, List.mem_map, List.mem_filter, Bool.and_eq_true, Bool.not_eq_true', List.contains_eq_mem,
    decide_eq_false_iff_not]
  constructor
  · rintro ⟨m, ⟨hm, h1, h2⟩, rfl⟩; exact ⟨m, hm, h1, h2, rfl⟩
  · rintro ⟨m, hm, h1, h2, rfl⟩; exact ⟨m, ⟨hm, h1, h2⟩, rfl⟩

/-- parameter configurations leave only with modifiers pruned **by name**: pruning by type (or anything else)
keeps every configuration — a name can be shared with a modifier of a surviving type -/
theorem prune_parameter_configs_exact (r : PReq) (ps : List PPar) (p' : PPar) :
    p' ∈ applyPars r ps ↔ ∃ p ∈ ps, p.name ∉ r.pruneMods ∧ p' = { p with name := getD r.renMods p.name } := by
  simp only [applyPars, List.mem_map, List.mem_filter, Bool.not_eq_true', List.contains_eq_mem, decide_eq_false_iff_not]
  constructor
  · rintro ⟨c, ⟨hc, hn⟩, rfl⟩; exact ⟨c, hc, hn, rfl⟩
  · rintro ⟨c, hc, hn, rfl⟩; exact ⟨c, ⟨hc, hn⟩, rfl⟩

theorem prune_by_type_keeps_parameter_configs (r : PReq) (h1 : r.pruneMods = []) (h2 : r.renMods = []) (ps : List PPar) :
    applyPars r ps = ps := by
  simp [applyPars, h1, h2, getD_nil]

/-- a request that only removes channels leaves every surviving channel literally unchanged (hence, by C01, its
rates and its share of the likelihood) -/
theorem prune_channels_only_remainder_unchanged (drop : List String) (w : PWs) :
    (applyReq { pruneChannels := drop } w).channels = w.channels.filter (fun c => !drop.contains c.name) ∧
    (applyReq { pruneChannels := drop } w).measurements = w.measurements ∧
    (applyReq { pruneChannels := drop } w).observations = w.observations.filter (fun o => !drop.contains o.name) := by
  have hm : ∀ ms : List PMod, applyMods { pruneChannels := drop } ms = ms := by
    intro ms; simp [applyMods, keepMod, getD_nil]
  have hs : ∀ ss : List PSample, applySamples { pruneChannels := drop } ss = ss := by
    intro ss; simp [applySamples, hm, getD_nil]
  have hp : ∀ ps : List PPar, applyPars { pruneChannels := drop } ps = ps := by
    intro ps; simp [applyPars, getD_nil]
  refine ⟨?_, ?_, ?_⟩
  · simp [applyReq, applyChannels, hs, getD_nil]
  · simp [applyReq, applyMeas, hp, getD_nil]
  · simp [applyReq, applyObs, getD_nil]

/-- unknown names are refused, whatever else the request contains -/
theorem prune_unknown_channel_refused (r : PReq) (w : PWs) (n : String) (hn : n ∈ r.pruneChannels ∨ n ∈ r.renChannels.map (·.1))
    (hw : n ∉ w.channelNames) : pruneRename r w = .error .invalidWorkspaceOperation := by
  have : r.valid w = false := by
    unfold PReq.valid
    have : (r.pruneChannels ++ r.renChannels.map (·.1)).all (w.channelNames.contains ·) = false := by
      rw [List.all_eq_false]
      exact ⟨n, by simpa using hn, by simpa using hw⟩
    rw [this]; simp
  simp [pruneRename, this]

theorem prune_unknown_type_refused (r : PReq) (w : PWs) (t : String) (ht : t ∈ r.pruneTypes) (hw : t ∉ w.modTypes) :
    pruneRename r w = .error .invalidWorkspaceOperation := by
  have : r.valid w = false := by
    unfold PReq.valid
    have : r.pruneTypes.all (w.modTypes.contains ·) = false := by
      rw [List.all_eq_false]
      exact ⟨t, ht, by simpa using hw⟩
    rw [this]; simp
  simp [pruneRename, this]

/-- renaming channels, then renaming back, restores the channel list -/
theorem rename_channels_roundtrip (f g : List (String × String)) (cs : List PChan)
    (h : ∀ c ∈ cs, getD g (getD f c.name) = c.name) :
    applyChannels { renChannels := g } (applyChannels { renChannels := f } cs) = cs := by
  have hm : ∀ (q : List (String × String)) (ms : List PMod), applyMods { renChannels := q } ms = ms := by
    intro q ms; simp [applyMods, keepMod, getD_nil]
  have hs : ∀ (q : List (String × String)) (ss : List PSample), applySamples { renChannels := q } ss = ss := by
    intro q ss; simp [applySamples, hm, getD_nil]
  simp only [applyChannels, List.contains_nil, Bool.not_false, List.filter_true, List.map_map, hs]
  conv_rhs => rw [← List.map_id cs]
  apply List.map_congr_left
  intro c hc
  cases c with
  | mk n ss => simpa using h ⟨n, ss⟩ hc

end Pyhf.Props.C16
