import PyhfModel.Infer
import Mathlib.Data.Real.Basic
import Mathlib.Tactic.Linarith
/-!
# C14 — toy p-values are exact tail fractions
`empiricalCounts samples v = (#{s | v ≤ s}, #samples)`; the reported p-value is their quotient.
-/
namespace Pyhf.Props.C14
open Pyhf Pyhf.Infer

/-- the numerator counts exactly the samples greater than or equal to the observed value (ties included) -/
theorem pvalue_is_fraction (samples : List ℝ) (v : ℝ) :
    empiricalCounts samples v = (samples.countP (fun s => decide (v ≤ s)), samples.length) := by
  simp [empiricalCounts, List.countP_eq_length_filter]

/-- hence the p-value lies in `[0, 1]` -/
theorem pvalue_in_unit_interval (samples : List ℝ) (v : ℝ) :
    (empiricalCounts samples v).1 ≤ (empiricalCounts samples v).2 := by
  simp only [empiricalCounts]; exact List.length_filter_le _ _

/-- … and never increases with the observed value -/
theorem pvalue_antitone (samples : List ℝ) (v w : ℝ) (h : v ≤ w) :
    (empiricalCounts samples w).1 ≤ (empiricalCounts samples v).1 := by
  simp only [empiricalCounts, ← List.countP_eq_length_filter]
  apply List.countP_mono_left
  intro s _ hs
  simp only [decide_eq_true_eq] at hs ⊢
  linarith

/-- ties are counted: a sample equal to the observed value is in the tail -/
theorem pvalue_ties_inclusive (samples : List ℝ) (v : ℝ) (h : v ∈ samples) : 0 < (empiricalCounts samples v).1 := by
  simp only [empiricalCounts]
  exact List.length_pos_of_mem (List.mem_filter.mpr ⟨h, by simp⟩)

/-- a value above every sample has p-value 0, a value at or below every sample has p-value 1 -/
theorem pvalue_extremes (samples : List ℝ) (v : ℝ) :
    ((∀ s ∈ samples, s < v) → (empiricalCounts samples v).1 = 0) ∧
    ((∀ s ∈ samples, v ≤ s) → (empiricalCounts samples v).1 = samples.length) := by
  constructor
  · intro h
    simp only [empiricalCounts, List.length_eq_zero_iff, List.filter_eq_nil_iff, decide_eq_true_eq, not_le]
    exact h
  · intro h
    simp only [empiricalCounts]
    rw [List.filter_eq_self.mpr (fun s hs => by simpa using h s hs)]

/-- the tail fraction does not depend on the order in which the toys were generated -/
theorem pvalue_perm_invariant (samples samples' : List ℝ) (v : ℝ) (h : samples.Perm samples') :
    empiricalCounts samples v = empiricalCounts samples' v := by
  simp only [empiricalCounts, ← List.countP_eq_length_filter]
  rw [h.countP_eq, h.length_eq]

/-- toys generated in batches: numerators and denominators add -/
theorem pvalue_batches (a b : List ℝ) (v : ℝ) :
    empiricalCounts (a ++ b) v =
      ((empiricalCounts a v).1 + (empiricalCounts b v).1, (empiricalCounts a v).2 + (empiricalCounts b v).2) := by
  simp [empiricalCounts]

/-- strictness: raising the observed value past a sample strictly lowers the numerator (`≥`, not `>`, on the lower side) -/
theorem pvalue_strict_drop (samples : List ℝ) (v w s : ℝ) (hs : s ∈ samples) (h1 : v ≤ s) (h2 : s < w) :
    (empiricalCounts samples w).1 < (empiricalCounts samples v).1 := by
  simp only [empiricalCounts, ← List.countP_eq_length_filter]
  induction samples with
  | nil => cases hs
  | cons x xs ih =>
    have mono : List.countP (fun s => decide (w ≤ s)) xs ≤ List.countP (fun s => decide (v ≤ s)) xs := by
      apply List.countP_mono_left
      intro t _ ht
      simp only [decide_eq_true_eq] at ht ⊢
      linarith
    rcases List.mem_cons.mp hs with rfl | hs'
    · have hw : ¬ (w ≤ s) := not_le.mpr h2
      simp only [List.countP_cons, h1, hw, decide_true, decide_false, if_true]
      simp
      omega
    · have := ih hs'
      simp only [List.countP_cons]
      by_cases hx : w ≤ x
      · have hv : v ≤ x := by linarith
        simp [hx, hv]; omega
      · by_cases hv : v ≤ x <;> simp [hx, hv] <;> omega

example : (empiricalCounts [1, 2, 2, 3] (2.5 : ℝ)).1 < (empiricalCounts [1, 2, 2, 3] (2 : ℝ)).1 :=
  pvalue_strict_drop _ _ _ 2 (by simp) (le_refl _) (by norm_num)

/-- **toy wiring**: signal-like pseudo-data are generated at the conditional fit of the tested `μ`,
background-like ones at the conditional fit of `μ = 0` (`μ = 1` for the discovery statistic) -/
theorem toy_wiring (ts : TestStat) (poiTest : ℝ) :
    toyFitMus ts poiTest = (poiTest, if ts = .q0 then 1 else 0) := by
  cases ts <;> simp [toyFitMus]

end Pyhf.Props.C14
