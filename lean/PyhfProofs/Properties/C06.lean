import PyhfModel.Infer
import PyhfProofs.Lemmas.RealPrim
import Mathlib.Analysis.SpecialFunctions.Log.Basic
import Mathlib.Tactic.Linarith
import Mathlib.Tactic.Ring
/-!
# C06 — profile-likelihood test statistics obey their case definitions
The two fits are parameters returning `(parameters, objective value)`; `poiIndex` is the POI position.
-/
namespace Pyhf.Props.C06
open Pyhf Pyhf.Infer

variable (fixedFit : ℝ → FitRes ℝ) (freeFit : FitRes ℝ) (poi : Nat) (mu : ℝ)

/-- `t = max(0, objective(conditional fit) − objective(unconditional fit))` -/
theorem tmu_eq_max : (tmuLike fixedFit freeFit mu).1 = max 0 ((fixedFit mu).val - freeFit.val) := by
  unfold tmuLike
  simp only []
  split_ifs with h
  · exact (max_eq_left h.le).symm
  · exact (max_eq_right (not_lt.mp h)).symm

theorem tmu_nonneg : 0 ≤ (tmuLike fixedFit freeFit mu).1 := by
  rw [tmu_eq_max]; exact le_max_left _ _

/-- every statistic is non-negative -/
theorem teststat_nonneg (ts : TestStat) : 0 ≤ (testStat ts fixedFit freeFit poi mu).1 := by
  cases ts <;> simp only [testStat, qmuLike, q0] <;> (try split_ifs) <;>
    first | exact le_refl _ | exact tmu_nonneg _ _ _

/-- upper-limit statistics are zero whenever the fitted POI exceeds the tested value … -/
theorem qmu_zero_of_muhat_gt (h : mu < freeFit.pars.getD poi 0) : (qmuLike fixedFit freeFit poi mu).1 = 0 := by
  unfold qmuLike tmuLike; simp only []; rw [if_pos h]

/-- … and equal the two-sided statistic otherwise -/
theorem qmu_eq_tmu_of_muhat_le (h : freeFit.pars.getD poi 0 ≤ mu) :
    (qmuLike fixedFit freeFit poi mu).1 = (tmuLike fixedFit freeFit mu).1 := by
  unfold qmuLike tmuLike; simp only []; rw [if_neg (not_lt.mpr h)]

/-- the discovery statistic always tests `μ = 0`, whatever value is supplied -/
theorem q0_forces_mu_zero (mu' : ℝ) : q0 fixedFit freeFit poi mu = q0 fixedFit freeFit poi mu' := rfl

theorem q0_uses_fixed_fit_at_zero : (q0 fixedFit freeFit poi mu).2.1 = (fixedFit 0).pars := rfl

theorem q0_zero_of_muhat_neg (h : freeFit.pars.getD poi 0 < 0) : (q0 fixedFit freeFit poi mu).1 = 0 := by
  unfold q0 tmuLike; simp only []; rw [if_pos h]

theorem q0_eq_t0_otherwise (h : 0 ≤ freeFit.pars.getD poi 0) :
    (q0 fixedFit freeFit poi mu).1 = (tmuLike fixedFit freeFit 0).1 := by
  unfold q0 tmuLike; simp only []; rw [if_neg (not_lt.mpr h)]

/-- the two-sided statistics apply no zeroing -/
theorem two_sided_no_zeroing : testStat .t fixedFit freeFit poi mu = tmuLike fixedFit freeFit mu ∧
    testStat .ttilde fixedFit freeFit poi mu = tmuLike fixedFit freeFit mu := ⟨rfl, rfl⟩

/-- `q` and `q̃` are the same function of the fits (they differ only in a warning) -/
theorem q_eq_qtilde : testStat .q fixedFit freeFit poi mu = testStat .qtilde fixedFit freeFit poi mu := rfl

/-- the returned parameters are exactly the two fits' outputs (conditional first) -/
theorem returned_pars_are_fit_outputs (ts : TestStat) (hts : ts ≠ .q0) :
    (testStat ts fixedFit freeFit poi mu).2 = ((fixedFit mu).pars, freeFit.pars) := by
  cases ts <;> first | exact absurd rfl hts | rfl

/-- with exact minimisers the clip is never active: the conditional minimum is not below the unconditional one -/
theorem tmu_no_clip_needed (h : freeFit.val ≤ (fixedFit mu).val) :
    (tmuLike fixedFit freeFit mu).1 = (fixedFit mu).val - freeFit.val := by
  rw [tmu_eq_max]; exact max_eq_right (by linarith)

/-- zero when the tested value is the best-fit value -/
theorem tmu_zero_at_bestfit (h : (fixedFit mu).val = freeFit.val) : (tmuLike fixedFit freeFit mu).1 = 0 := by
  rw [tmu_eq_max, h]; simp

/-! ### closed form: one bin, signal strength only -/

/-- twice the negative log-likelihood of a single Poisson bin, up to the data-only constant `2 log n!` -/
noncomputable def twoNll (n lam : ℝ) : ℝ := 2 * (lam - n * Real.log lam)

/-- the Poisson likelihood is maximised at `λ = n` -/
theorem poisson_nll_min (n lam : ℝ) (hn : 0 < n) (hl : 0 < lam) : twoNll n n ≤ twoNll n lam := by
  unfold twoNll
  have h := Real.log_le_sub_one_of_pos (div_pos hl hn)
  rw [Real.log_div hl.ne' hn.ne'] at h
  have h2 : n * (Real.log lam - Real.log n) ≤ n * (lam / n - 1) := mul_le_mul_of_nonneg_left h hn.le
  have h3 : n * (lam / n - 1) = lam - n := by field_simp
  nlinarith

/-- **closed form of `q_μ` for a counting experiment** `n ~ Poisson(μ s + b)`: when the fits return the exact
minimisers (`μ̂ = (n − b)/s`, unconditional objective `twoNll n n`; conditional objective `twoNll n (μ s + b)`),
`q_μ = 2[(μ s + b) − n + n log(n / (μ s + b))]` if `μ̂ ≤ μ`, and `0` otherwise. -/
theorem qmu_single_bin_closed_form (n s b mu : ℝ) (hn : 0 < n) (hs : 0 < s) (hb : 0 < mu * s + b)
    (fixedFit : ℝ → FitRes ℝ) (freeFit : FitRes ℝ)
    (hfix : (fixedFit mu).val = twoNll n (mu * s + b)) (hfree : freeFit.val = twoNll n n)
    (hmuhat : freeFit.pars.getD 0 0 = (n - b) / s) :
    (qmuLike fixedFit freeFit 0 mu).1 =
      if (n - b) / s ≤ mu then 2 * ((mu * s + b) - n + n * Real.log (n / (mu * s + b))) else 0 := by
  by_cases h : (n - b) / s ≤ mu
  · rw [qmu_eq_tmu_of_muhat_le _ _ _ _ (by rw [hmuhat]; exact h), if_pos h,
      tmu_no_clip_needed _ _ _ (by rw [hfix, hfree]; exact poisson_nll_min n _ hn hb), hfix, hfree]
    unfold twoNll
    rw [Real.log_div hn.ne' hb.ne']; ring
  · rw [if_neg h, qmu_zero_of_muhat_gt _ _ _ _ (by rw [hmuhat]; exact not_le.mp h)]

end Pyhf.Props.C06
