import PyhfGen.Ws
import PyhfProofs.Properties.C16_Gen
/-!
# C15 (continued) — likelihood-preserving rewrites, on the production code

Same generated file as `C16_Gen` (`PyhfGen/Ws.lean`, regenerated on every C15 / C16 run by symbolic execution of `pyhf.Workspace`,
`Workspace.model`, `Workspace.data` and `Model.logpdf` on a workspace whose yields, variations, uncertainties and observations are all
symbolic).  For all real parameter values, all positive yields and arbitrary observed counts:
reordering every list, renaming channels / samples / modifiers, splitting a sample into two with identical modifiers, splitting a channel's bins into one-bin channels, adding a
zero-yield sample, adding a shape systematic whose variations equal the nominal (up to its own constraint term), and scaling the
signal templates by `k` while reading the signal strength as `μ/k` all leave the log-likelihood unchanged.
-/
namespace Pyhf.Props.C15
open Pyhf Pyhf.Props.C16

variable (lpois : ℝ → ℝ → ℝ) (lnorm : ℝ → ℝ → ℝ → ℝ)
variable (c0 clo chi s0 s1 slo shi b0 b1 e0 e1 oc0 os0 os1 sa0 sa1 sb0 sb1 k_bkg mu sysA stat0 stat1 nullsys : ℝ)

/-- reordering channels, samples, modifiers and observations -/
theorem gen_reorder_invariant :
    Gen.ws_shuf_logpdf realPrim lpois lnorm c0 clo chi s0 s1 slo shi b0 b1 e0 e1 oc0 os0 os1 sa0 sa1 sb0 sb1 k_bkg mu sysA stat0 stat1 nullsys
      = Gen.ws_base_logpdf realPrim lpois lnorm c0 clo chi s0 s1 slo shi b0 b1 e0 e1 oc0 os0 os1 sa0 sa1 sb0 sb1 k_bkg mu sysA stat0 stat1 nullsys :=
  ws_shuffled_eq lpois lnorm c0 clo chi s0 s1 slo shi b0 b1 e0 e1 oc0 os0 os1 sa0 sa1 sb0 sb1 k_bkg mu sysA stat0 stat1 nullsys

/-- renaming channels, samples and modifiers (parameters identified through the renaming) -/
theorem gen_rename_invariant :
    Gen.ws_ren_logpdf realPrim lpois lnorm c0 clo chi s0 s1 slo shi b0 b1 e0 e1 oc0 os0 os1 sa0 sa1 sb0 sb1 k_bkg mu sysA stat0 stat1 nullsys
      = Gen.ws_base_logpdf realPrim lpois lnorm c0 clo chi s0 s1 slo shi b0 b1 e0 e1 oc0 os0 os1 sa0 sa1 sb0 sb1 k_bkg mu sysA stat0 stat1 nullsys :=
  ws_rename_eq lpois lnorm c0 clo chi s0 s1 slo shi b0 b1 e0 e1 oc0 os0 os1 sa0 sa1 sb0 sb1 k_bkg mu sysA stat0 stat1 nullsys

/-- **splitting a sample**: two signal samples with yields `sa`, `sb` and identical modifiers = one sample with yields `sa + sb` -/
theorem gen_split_sample_invariant :
    Gen.ws_split_logpdf realPrim lpois lnorm c0 clo chi s0 s1 slo shi b0 b1 e0 e1 oc0 os0 os1 sa0 sa1 sb0 sb1 k_bkg mu sysA stat0 stat1 nullsys
      = Gen.ws_base_logpdf realPrim lpois lnorm c0 clo chi (sa0 + sb0) (sa1 + sb1) slo shi b0 b1 e0 e1 oc0 os0 os1 sa0 sa1 sb0 sb1 k_bkg mu sysA stat0 stat1 nullsys := by
  unfold Gen.ws_split_logpdf Gen.ws_base_logpdf; ws_eq

/-- **zero-yield sample**: an additional sample with zero yields (carrying a shared systematic and a shared normalisation) changes nothing -/
theorem gen_zero_sample_invariant :
    Gen.ws_ghost_logpdf realPrim lpois lnorm c0 clo chi s0 s1 slo shi b0 b1 e0 e1 oc0 os0 os1 sa0 sa1 sb0 sb1 k_bkg mu sysA stat0 stat1 nullsys
      = Gen.ws_base_logpdf realPrim lpois lnorm c0 clo chi s0 s1 slo shi b0 b1 e0 e1 oc0 os0 os1 sa0 sa1 sb0 sb1 k_bkg mu sysA stat0 stat1 nullsys := by
  unfold Gen.ws_ghost_logpdf Gen.ws_base_logpdf; ws_eq

set_option maxHeartbeats 3200000 in
/-- **splitting a channel**: the two bins of SR as two one-bin channels (each with its own MC-statistical modifier for its bin) -/
theorem gen_channel_split_invariant :
    Gen.ws_chsplit_logpdf realPrim lpois lnorm c0 clo chi s0 s1 slo shi b0 b1 e0 e1 oc0 os0 os1 sa0 sa1 sb0 sb1 k_bkg mu sysA stat0 stat1 nullsys
      = Gen.ws_base_logpdf realPrim lpois lnorm c0 clo chi s0 s1 slo shi b0 b1 e0 e1 oc0 os0 os1 sa0 sa1 sb0 sb1 k_bkg mu sysA stat0 stat1 nullsys := by
  unfold Gen.ws_chsplit_logpdf Gen.ws_base_logpdf; ws_eq

set_option maxHeartbeats 3200000 in
/-- **null systematic**: a correlated-shape systematic whose variations equal the nominal only adds its own constraint term,
for every value of its parameter -/
theorem gen_null_modifier_invariant :
    Gen.ws_null_logpdf realPrim lpois lnorm c0 clo chi s0 s1 slo shi b0 b1 e0 e1 oc0 os0 os1 sa0 sa1 sb0 sb1 k_bkg mu sysA stat0 stat1 nullsys
      = Gen.ws_base_logpdf realPrim lpois lnorm c0 clo chi s0 s1 slo shi b0 b1 e0 e1 oc0 os0 os1 sa0 sa1 sb0 sb1 k_bkg mu sysA stat0 stat1 nullsys + lnorm 0 nullsys 1 := by
  unfold Gen.ws_null_logpdf Gen.ws_base_logpdf; ws_eq

set_option maxHeartbeats 3200000 in
/-- **signal scale**: templates × k with the signal strength read as μ / k -/
theorem gen_signal_scale_invariant (k : ℝ) (hk : k ≠ 0) :
    Gen.ws_base_logpdf realPrim lpois lnorm c0 clo chi (s0 * k) (s1 * k) slo shi b0 b1 e0 e1 oc0 os0 os1 sa0 sa1 sb0 sb1 k_bkg (mu / k) sysA stat0 stat1 nullsys
      = Gen.ws_base_logpdf realPrim lpois lnorm c0 clo chi s0 s1 slo shi b0 b1 e0 e1 oc0 os0 os1 sa0 sa1 sb0 sb1 k_bkg mu sysA stat0 stat1 nullsys := by
  unfold Gen.ws_base_logpdf
  simp only [glit0, glit1, absK]
  split_ifs <;> (norm_num [realPrim_pow, realPrim_log, realPrim_sqrt]; congr 3 <;> (field_simp))

end Pyhf.Props.C15
