import PyhfGen.Ws
import PyhfProofs.Lemmas.RealPrim
import Mathlib.Tactic.Linarith
import Mathlib.Tactic.Ring
/-!
# C16 (continued) — likelihood relations of `Workspace.rename / prune / combine / sorted`, on the production code

`PyhfGen/Ws.lean` is regenerated on every C16 run (`harness/gen_ws.py`): one base workspace — two channels with different sample
sets, a normalisation systematic and a free normalisation shared across channels and samples, an MC-statistical uncertainty, the
signal strength as POI, one measurement — with **all yields, variations, uncertainties and observations symbolic** is pushed through
the real `pyhf.Workspace` methods; for every resulting workspace `Workspace.model()` and `Model.logpdf(pars, Workspace.data(model))`
are executed with symbolic parameters (the two log-density primitives uninterpreted).  Parameters are identified **by name**: each
generated function takes the parameters under the name they have in the base workspace.

The theorems hold for all real parameter values, all positive yields and arbitrary observations:
reordering, sorting and renaming change nothing; the two halves obtained by pruning a channel each, joined again, give the base
likelihood; pruning a channel removes exactly that channel's Poisson factor; pruning a systematic = fixing its parameter at the
nominal value (up to its constant constraint term); pruning the signal sample = signal strength 0.
-/
namespace Pyhf.Props.C16
open Pyhf

theorem glit0 : (0.0 : ℝ) = 0 := by norm_num
theorem glit1 : (1.0 : ℝ) = 1 := by norm_num

/-- both sides are decision trees over the same comparisons: split, discard contradictory branches, then compare the arguments of the
uninterpreted log-densities by ring normalisation -/
macro "ws_eq" : tactic =>
  `(tactic| (simp only [glit0, glit1, absK]
             split_ifs <;> first
               | (exfalso; linarith)
               | rfl
               | (norm_num [realPrim_pow, realPrim_log, realPrim_sqrt] <;> first | rfl | ring_nf | (congr 2 <;> ring))))

variable (lpois : ℝ → ℝ → ℝ) (lnorm : ℝ → ℝ → ℝ → ℝ)
variable (c0 clo chi s0 s1 slo shi b0 b1 e0 e1 oc0 os0 os1 sa0 sa1 sb0 sb1 k_bkg mu sysA stat0 stat1 nullsys : ℝ)

/-- **listing order**: the workspace listed in reverse order everywhere has the same likelihood -/
theorem ws_shuffled_eq :
    Gen.ws_shuf_logpdf realPrim lpois lnorm c0 clo chi s0 s1 slo shi b0 b1 e0 e1 oc0 os0 os1 sa0 sa1 sb0 sb1 k_bkg mu sysA stat0 stat1 nullsys
      = Gen.ws_base_logpdf realPrim lpois lnorm c0 clo chi s0 s1 slo shi b0 b1 e0 e1 oc0 os0 os1 sa0 sa1 sb0 sb1 k_bkg mu sysA stat0 stat1 nullsys := by
  first | rfl | (unfold Gen.ws_shuf_logpdf Gen.ws_base_logpdf; ws_eq)

/-- **`Workspace.sorted`** of the reversed workspace has the same likelihood -/
theorem ws_sorted_eq :
    Gen.ws_sorted_logpdf realPrim lpois lnorm c0 clo chi s0 s1 slo shi b0 b1 e0 e1 oc0 os0 os1 sa0 sa1 sb0 sb1 k_bkg mu sysA stat0 stat1 nullsys
      = Gen.ws_base_logpdf realPrim lpois lnorm c0 clo chi s0 s1 slo shi b0 b1 e0 e1 oc0 os0 os1 sa0 sa1 sb0 sb1 k_bkg mu sysA stat0 stat1 nullsys := by
  first | rfl | (unfold Gen.ws_sorted_logpdf Gen.ws_base_logpdf; ws_eq)

/-- **`Workspace.rename`** of channels, samples and modifiers (new names chosen so that the channel order, the sample order and the
parameter order all change): the same likelihood, parameters identified through the renaming -/
theorem ws_rename_eq :
    Gen.ws_ren_logpdf realPrim lpois lnorm c0 clo chi s0 s1 slo shi b0 b1 e0 e1 oc0 os0 os1 sa0 sa1 sb0 sb1 k_bkg mu sysA stat0 stat1 nullsys
      = Gen.ws_base_logpdf realPrim lpois lnorm c0 clo chi s0 s1 slo shi b0 b1 e0 e1 oc0 os0 os1 sa0 sa1 sb0 sb1 k_bkg mu sysA stat0 stat1 nullsys := by
  unfold Gen.ws_ren_logpdf Gen.ws_base_logpdf; ws_eq

/-- **`Workspace.combine`** of the two single-channel halves (outer join; the shared measurement is identical) gives the base likelihood -/
theorem ws_combine_halves_eq :
    Gen.ws_comb_logpdf realPrim lpois lnorm c0 clo chi s0 s1 slo shi b0 b1 e0 e1 oc0 os0 os1 sa0 sa1 sb0 sb1 k_bkg mu sysA stat0 stat1 nullsys
      = Gen.ws_base_logpdf realPrim lpois lnorm c0 clo chi s0 s1 slo shi b0 b1 e0 e1 oc0 os0 os1 sa0 sa1 sb0 sb1 k_bkg mu sysA stat0 stat1 nullsys := by
  first | rfl | (unfold Gen.ws_comb_logpdf Gen.ws_base_logpdf; ws_eq)

/-- **pruning a channel** removes exactly that channel's Poisson factor: base = (workspace without CR) + main likelihood of CR alone,
parameters shared by name -/
theorem ws_prune_channel :
    Gen.ws_base_logpdf realPrim lpois lnorm c0 clo chi s0 s1 slo shi b0 b1 e0 e1 oc0 os0 os1 sa0 sa1 sb0 sb1 k_bkg mu sysA stat0 stat1 nullsys
      = Gen.ws_prCR_logpdf realPrim lpois lnorm c0 clo chi s0 s1 slo shi b0 b1 e0 e1 oc0 os0 os1 sa0 sa1 sb0 sb1 k_bkg mu sysA stat0 stat1 nullsys
        + Gen.ws_prSR_main realPrim lpois lnorm c0 clo chi s0 s1 slo shi b0 b1 e0 e1 oc0 os0 os1 sa0 sa1 sb0 sb1 k_bkg mu sysA stat0 stat1 nullsys := by
  unfold Gen.ws_base_logpdf Gen.ws_prCR_logpdf Gen.ws_prSR_main; ws_eq

/-- **main likelihood additive over the combined halves**, constraint terms counted once -/
theorem ws_combine_main_additive :
    Gen.ws_comb_logpdf realPrim lpois lnorm c0 clo chi s0 s1 slo shi b0 b1 e0 e1 oc0 os0 os1 sa0 sa1 sb0 sb1 k_bkg mu sysA stat0 stat1 nullsys
      = Gen.ws_prSR_main realPrim lpois lnorm c0 clo chi s0 s1 slo shi b0 b1 e0 e1 oc0 os0 os1 sa0 sa1 sb0 sb1 k_bkg mu sysA stat0 stat1 nullsys
        + Gen.ws_prCR_main realPrim lpois lnorm c0 clo chi s0 s1 slo shi b0 b1 e0 e1 oc0 os0 os1 sa0 sa1 sb0 sb1 k_bkg mu sysA stat0 stat1 nullsys
        + (Gen.ws_prCR_logpdf realPrim lpois lnorm c0 clo chi s0 s1 slo shi b0 b1 e0 e1 oc0 os0 os1 sa0 sa1 sb0 sb1 k_bkg mu sysA stat0 stat1 nullsys
            - Gen.ws_prCR_main realPrim lpois lnorm c0 clo chi s0 s1 slo shi b0 b1 e0 e1 oc0 os0 os1 sa0 sa1 sb0 sb1 k_bkg mu sysA stat0 stat1 nullsys) := by
  rw [ws_combine_halves_eq, ws_prune_channel]; ring

/-- the single-channel half keeps the constraint of the systematic it still uses -/
theorem ws_pruned_half_constraint :
    Gen.ws_prSR_logpdf realPrim lpois lnorm c0 clo chi s0 s1 slo shi b0 b1 e0 e1 oc0 os0 os1 sa0 sa1 sb0 sb1 k_bkg mu sysA stat0 stat1 nullsys
      = Gen.ws_prSR_main realPrim lpois lnorm c0 clo chi s0 s1 slo shi b0 b1 e0 e1 oc0 os0 os1 sa0 sa1 sb0 sb1 k_bkg mu sysA stat0 stat1 nullsys
        + lnorm 0 sysA 1 := by
  unfold Gen.ws_prSR_logpdf Gen.ws_prSR_main; ws_eq

/-- **pruning a systematic** = fixing its parameter at the nominal value 0, up to its (constant) constraint term -/
theorem ws_prune_modifier :
    Gen.ws_base_logpdf realPrim lpois lnorm c0 clo chi s0 s1 slo shi b0 b1 e0 e1 oc0 os0 os1 sa0 sa1 sb0 sb1 k_bkg mu 0 stat0 stat1 nullsys
      = Gen.ws_prSys_logpdf realPrim lpois lnorm c0 clo chi s0 s1 slo shi b0 b1 e0 e1 oc0 os0 os1 sa0 sa1 sb0 sb1 k_bkg mu sysA stat0 stat1 nullsys
        + lnorm 0 0 1 := by
  unfold Gen.ws_base_logpdf Gen.ws_prSys_logpdf; ws_eq

/-- **pruning the signal sample** = signal strength 0 -/
theorem ws_prune_sample :
    Gen.ws_base_logpdf realPrim lpois lnorm c0 clo chi s0 s1 slo shi b0 b1 e0 e1 oc0 os0 os1 sa0 sa1 sb0 sb1 k_bkg 0 sysA stat0 stat1 nullsys
      = Gen.ws_prSig_logpdf realPrim lpois lnorm c0 clo chi s0 s1 slo shi b0 b1 e0 e1 oc0 os0 os1 sa0 sa1 sb0 sb1 k_bkg mu sysA stat0 stat1 nullsys := by
  unfold Gen.ws_base_logpdf Gen.ws_prSig_logpdf; ws_eq

end Pyhf.Props.C16
