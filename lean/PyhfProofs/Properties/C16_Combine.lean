import PyhfProofs.Lemmas.Combine2
import PyhfProofs.Lemmas.CombineExample
/-!
# C16 (continued) — the main likelihood of a combination with disjoint channels is the product of the two main likelihoods

`Comb s s₁ s₂`: the channels of `s` are those of `s₁` followed by those of `s₂`, no channel name on both sides (nothing is assumed about
the measurement parameter lists).  `pullPar m mᵢ par`: the operand's parameter assignment induced from the combined one **by name**
(slices are consecutive intervals, `parAgree_pullPar`).  `NoSharedStaterror`: no MC-statistical name spans both operands — necessary
(a shared staterror is one parameter set over both operands, read at a running offset in the merged channel order:
`Lemmas/CombineExample.lean` shows by-name identification giving other rates); a shared shapesys name is proved impossible in an
accepted combination.  The constraint part is deliberately not additive (each shared constrained parameter is constrained once).
Proofs: `Lemmas/Combine.lean` (per-channel locality of the declarative model), `Lemmas/Combine2.lean`.
-/
namespace Pyhf.Props.C16
open Pyhf Pyhf.Combine

/-- **expected rates**: every channel of the combination has the rates it has in the workspace it came from, parameters identified
by name; as a multiset the combined rates are the two operands' rates -/
theorem combine_expected_rates {K : Type} [Add K] [Sub K] [Mul K] [Div K] [Neg K] [OfNat K 0] [OfNat K 1]
    [OfScientific K] [LT K] [LE K] [DecidableLT K] [DecidableLE K] [BEq K]
    (P : Prim K) (s s₁ s₂ : Spec K) (st : Settings K) (m m₁ m₂ : Model K)
    (hb : buildModel P s st = .ok m) (hb₁ : buildModel P s₁ st = .ok m₁) (hb₂ : buildModel P s₂ st = .ok m₂)
    (hc : Comb s s₁ s₂) (hbin₁ : binwiseOK m₁ = true) (hcov₁ : singularCovers m₁ = true)
    (hbin₂ : binwiseOK m₂ = true) (hcov₂ : singularCovers m₂ = true)
    (hst : NoSharedStaterror m₁ m₂) (par : Nat → K) :
    (D.expected P m par).Perm (D.expected P m₁ (pullPar m m₁ par) ++ D.expected P m₂ (pullPar m m₂ par)) :=
  (combine_expected P s s₁ s₂ st m m₁ m₂ hb hb₁ hb₂ hc hbin₁ hcov₁ hbin₂ hcov₂ hst par).2

/-- **main log-likelihood additive** on the code path (`Model.mainlogpdf`), under the hypotheses of theorem R for the three models -/
theorem combine_main_loglik_additive (L : LogPrim ℝ) (s s₁ s₂ : Spec ℝ) (st : Settings ℝ) (m m₁ m₂ : Model ℝ)
    (hb : buildModel realPrim s st = .ok m) (hb₁ : buildModel realPrim s₁ st = .ok m₁)
    (hb₂ : buildModel realPrim s₂ st = .ok m₂) (hc : Comb s s₁ s₂)
    (he : Extra m) (he₁ : Extra m₁) (he₂ : Extra m₂)
    (hst : NoSharedStaterror m₁ m₂) (par : Nat → ℝ)
    (obs : String → List ℝ) (hobs : ∀ c ∈ m.cfg.channels, (obs c).length = m.cfg.nbOf c) :
    mainLogpdfT realPrim L m par (mainData m obs) =
      mainLogpdfT realPrim L m₁ (pullPar m m₁ par) (mainData m₁ obs) +
      mainLogpdfT realPrim L m₂ (pullPar m m₂ par) (mainData m₂ obs) :=
  combine_mainLogpdfT L s s₁ s₂ st m m₁ m₂ hb hb₁ hb₂ hc he he₁ he₂ hst par obs hobs

end Pyhf.Props.C16
